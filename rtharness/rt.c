// Line-protocol driver over the real text runtime (libddpruntime.a of the working tree,
// ASan/UBSan build).  One request per line: a query over a text expression.
//   T := L<hex> | C(T,T) | P<cp>(T) | A<cp>(T) | R<idx>,<cp>(T) | S<i1>,<i2>(T) | X<cp> | D(T)
//   Q := len T | idx <i> T | eq T T | show T
// Answers: "ok ..." | "err" (Laufzeitfehler) | "overread" (sanitizer report) | "hang"
#define _GNU_SOURCE
#include "DDP/ddptypes.h"
#include "DDP/ddpmemory.h"
#include <setjmp.h>
#include <signal.h>
#include <stdarg.h>
#include <stdio.h>
#include <stdlib.h>
#include <string.h>
#include <unistd.h>
#include <locale.h>

ddpint ddp_string_length(ddpstring *str);
ddpchar ddp_string_index(ddpstring *str, ddpint index);
void ddp_replace_char_in_string(ddpstring *str, ddpchar ch, ddpint index);
void ddp_string_slice(ddpstring *ret, ddpstring *str, ddpint index1, ddpint index2);
void ddp_string_string_verkettet(ddpstring *ret, ddpstring *str1, ddpstring *str2);
void ddp_char_string_verkettet(ddpstring *ret, ddpchar c, ddpstring *str);
void ddp_string_char_verkettet(ddpstring *ret, ddpstring *str, ddpchar c);
void ddp_char_to_string(ddpstring *ret, ddpchar c);
ddpbool ddp_string_equal(ddpstring *str1, ddpstring *str2);

static sigjmp_buf env;
static volatile int asan_hit = 0;

void __wrap_ddp_runtime_error(int code, const char *fmt, ...) {
	(void)code; (void)fmt;
	siglongjmp(env, 1);
}

// called by ASan (halt_on_error=0) whenever it reports
void __asan_on_error(void) { asan_hit = 1; }

static void on_alarm(int sig) { (void)sig; siglongjmp(env, 2); }
static void on_segv(int sig) { (void)sig; siglongjmp(env, 4); }

static const char *p; // parse cursor

static long long num(void) {
	char *end;
	long long v = strtoll(p, &end, 10);
	p = end;
	return v;
}

static int hexv(char c) { return c <= '9' ? c - '0' : (c | 32) - 'a' + 10; }

static void text(ddpstring *out) {
	char c = *p++;
	switch (c) {
	case 'L': {
		char buf[256];
		int n = 0;
		while ((*p >= '0' && *p <= '9') || (*p >= 'a' && *p <= 'f')) {
			buf[n++] = (char)(hexv(p[0]) * 16 + hexv(p[1]));
			p += 2;
		}
		buf[n] = 0;
		ddp_string_from_constant(out, buf);
		return;
	}
	case 'C': {
		ddpstring a, b;
		p++; text(&a); p++; text(&b); p++;
		ddp_string_string_verkettet(out, &a, &b);
		ddp_free_string(&b);
		return;
	}
	case 'P': {
		long long cp = num();
		ddpstring a;
		p++; text(&a); p++;
		ddp_char_string_verkettet(out, (ddpchar)cp, &a);
		return;
	}
	case 'A': {
		long long cp = num();
		ddpstring a;
		p++; text(&a); p++;
		ddp_string_char_verkettet(out, &a, (ddpchar)cp);
		return;
	}
	case 'R': {
		long long idx = num(); p++;
		long long cp = num();
		p++; text(out); p++;
		ddp_replace_char_in_string(out, (ddpchar)cp, idx);
		return;
	}
	case 'S': {
		long long i1 = num(); p++;
		long long i2 = num();
		ddpstring a;
		p++; text(&a); p++;
		ddp_string_slice(out, &a, i1, i2);
		ddp_free_string(&a);
		return;
	}
	case 'X': {
		long long cp = num();
		ddp_char_to_string(out, (ddpchar)cp);
		return;
	}
	case 'D': {
		ddpstring a;
		p++; text(&a); p++;
		ddp_deep_copy_string(out, &a);
		ddp_free_string(&a);
		return;
	}
	}
	siglongjmp(env, 3);
}

static void show(ddpstring *s) {
	printf("ok ");
	for (ddpint i = 0; i < s->cap; i++) printf("%02x", (unsigned char)s->str[i]);
	printf(" cap=%lld\n", (long long)s->cap);
}

int main(void) {
	static char line[1 << 16];
	setlocale(LC_ALL, "de_DE.UTF-8");
	signal(SIGALRM, on_alarm);
	signal(SIGSEGV, on_segv);
	signal(SIGBUS, on_segv);
	while (fgets(line, sizeof line, stdin)) {
		size_t n = strlen(line);
		while (n && (line[n - 1] == '\n' || line[n - 1] == '\r')) line[--n] = 0;
		asan_hit = 0;
		int j = sigsetjmp(env, 1);
		if (j != 0) {
			alarm(0);
			puts(j == 1 ? "err" : j == 2 ? "hang" : j == 4 ? "overread" : "bad-request");
			fflush(stdout);
			continue;
		}
		alarm(5);
		char out[1 << 12];
		out[0] = 0;
		if (!strncmp(line, "len ", 4)) {
			ddpstring t; p = line + 4; text(&t);
			snprintf(out, sizeof out, "ok %lld", (long long)ddp_string_length(&t));
		} else if (!strncmp(line, "idx ", 4)) {
			p = line + 4; long long i = num(); p++;
			ddpstring t; text(&t);
			snprintf(out, sizeof out, "ok %d", (int)ddp_string_index(&t, i));
		} else if (!strncmp(line, "eq ", 3)) {
			ddpstring a, b; p = line + 3; text(&a); p++; text(&b);
			snprintf(out, sizeof out, "ok %d", (int)ddp_string_equal(&a, &b));
		} else if (!strncmp(line, "show ", 5)) {
			ddpstring t; p = line + 5; text(&t);
			alarm(0);
			if (asan_hit) puts("overread"); else show(&t);
			fflush(stdout);
			continue;
		} else {
			strcpy(out, "bad-request");
		}
		alarm(0);
		puts(asan_hit ? "overread" : out);
		fflush(stdout);
	}
	return 0;
}

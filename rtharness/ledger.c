/* Heap ledger: wraps ddp_reallocate (link with -Wl,--wrap=ddp_reallocate) and
 * (1) writes every call as a trace line  "<ptr> <old> <new> <result>"  to $DDP_LEDGER,
 * (2) checks the contract online: a block is resized/released only while live and with its
 *     true size; the allocator's answers are fresh; and reports what is live at exit.
 * The verdict is the last line of the file:  "V ok <live>"  or  "V error <step> <kind>". */
#include <stdint.h>
#include <stdio.h>
#include <stdlib.h>
#include <string.h>

void *__real_ddp_reallocate(void *pointer, size_t oldSize, size_t newSize);

#define CAP (1u << 20)
static uintptr_t keys[CAP];
static size_t vals[CAP];
static unsigned char used[CAP]; /* 0 empty, 1 live, 2 tombstone */
static size_t live = 0, step = 0;
static FILE *out = NULL;
static int failed = 0;

static size_t slot(uintptr_t p, int insert) {
	size_t h = (size_t)((p >> 4) * 0x9E3779B97F4A7C15ull) & (CAP - 1), first_tomb = CAP;
	for (size_t i = 0; i < CAP; i++, h = (h + 1) & (CAP - 1)) {
		if (used[h] == 0) {
			return insert ? (first_tomb != CAP ? first_tomb : h) : CAP;
		}
		if (used[h] == 2) {
			if (first_tomb == CAP) first_tomb = h;
			continue;
		}
		if (keys[h] == p) return h;
	}
	return insert ? first_tomb : CAP;
}

static void fail(const char *kind) {
	if (!failed && out) {
		fprintf(out, "V error %zu %s\n", step, kind);
		fflush(out);
	}
	failed = 1;
}

static void at_exit(void) {
	if (out && !failed) {
		fprintf(out, "V ok %zu\n", live);
	}
	if (out) fclose(out);
}

static void init(void) {
	static int done = 0;
	if (done) return;
	done = 1;
	const char *path = getenv("DDP_LEDGER");
	if (path) out = fopen(path, "w");
	atexit(at_exit);
}

void *__wrap_ddp_reallocate(void *pointer, size_t oldSize, size_t newSize) {
	init();
	uintptr_t p = (uintptr_t)pointer;
	if (!failed) {
		if (p == 0) {
			if (oldSize != 0) fail("size-for-null");
		} else {
			size_t s = slot(p, 0);
			if (s == CAP) fail("not-live");
			else if (vals[s] != oldSize) fail("wrong-size");
		}
	}
	void *result = __real_ddp_reallocate(pointer, oldSize, newSize);
	uintptr_t r = (uintptr_t)result;
	if (out) fprintf(out, "%lu %zu %zu %lu\n", (unsigned long)p, oldSize, newSize, (unsigned long)r);
	if (!failed) {
		if (p != 0 && !(newSize != 0 && oldSize == newSize)) { /* the old block is gone */
			size_t s = slot(p, 0);
			used[s] = 2;
			live--;
		}
		if (newSize != 0 && !(p != 0 && oldSize == newSize)) { /* a (new) block is live */
			if (slot(r, 0) != CAP) fail("not-fresh");
			else {
				size_t s = slot(r, 1);
				keys[s] = r;
				vals[s] = newSize;
				used[s] = 1;
				live++;
			}
		}
		if (p != 0 && newSize != 0 && oldSize == newSize && r != p) fail("moved-without-resize");
	}
	step++;
	return result;
}

/* replays a trace ("<ptr> <old> <new> <result>" per line on stdin) through the C ledger with a
 * scripted allocator, so that the C ledger and its Lean model can be compared on arbitrary
 * (also contract-breaking) traces.  Build: gcc ledger.c ledger_replay.c ; the verdict goes to $DDP_LEDGER. */
#include <stdint.h>
#include <stdio.h>
#include <stdlib.h>

void *__wrap_ddp_reallocate(void *pointer, size_t oldSize, size_t newSize);

static uintptr_t next_result;

void *__real_ddp_reallocate(void *pointer, size_t oldSize, size_t newSize) {
	(void)pointer;
	(void)oldSize;
	(void)newSize;
	return (void *)next_result;
}

int main(void) {
	unsigned long p, r;
	size_t o, n;
	while (scanf("%lu %zu %zu %lu", &p, &o, &n, &r) == 4) {
		next_result = (uintptr_t)r;
		__wrap_ddp_reallocate((void *)(uintptr_t)p, o, n);
	}
	return 0;
}

package main

import (
	"fmt"
	"strconv"
	"strings"

	"github.com/DDP-Projekt/Kompilierer/src/ast"
	"github.com/DDP-Projekt/Kompilierer/src/ddptypes"
	"github.com/DDP-Projekt/Kompilierer/src/parser"
	"github.com/DDP-Projekt/Kompilierer/src/token"
)

func init() { handlers["sortaliases"] = cmdSortAliases }

// sortaliases <len>.<gen>.<refs>;...  -> the keys in the order sortAliases leaves them
func cmdSortAliases(args []string) string {
	var aliases []ast.Alias
	for _, c := range strings.Split(args[0], ";") {
		f := strings.Split(c, ".")
		n, _ := strconv.Atoi(f[0])
		g, _ := strconv.Atoi(f[1])
		r, _ := strconv.Atoi(f[2])
		a := &ast.FuncAlias{Tokens: make([]token.Token, n), Args: map[string]ddptypes.ParameterType{}}
		k := 0
		for i := 0; i < g; i++ {
			a.Args["g"+strconv.Itoa(k)] = ddptypes.ParameterType{Type: ddptypes.GenericType{Name: "T"}, IsReference: i < r}
			k++
		}
		for i := g; i < r; i++ { // the remaining Referenz parameters are not generic
			a.Args["r"+strconv.Itoa(k)] = ddptypes.ParameterType{Type: ddptypes.ZAHL, IsReference: true}
			k++
		}
		a.Args["v"] = ddptypes.ParameterType{Type: ddptypes.TEXT}
		aliases = append(aliases, a)
	}
	parser.VerifSortAliases(aliases)
	out := []string{}
	for _, a := range aliases {
		refs, gen := 0, 0
		for _, p := range a.GetArgs() {
			if p.IsReference {
				refs++
			}
			if ddptypes.IsGeneric(p.Type) {
				gen++
			}
		}
		out = append(out, fmt.Sprintf("%d.%d.%d", len(a.GetTokens()), gen, refs))
	}
	return strings.Join(out, ";")
}

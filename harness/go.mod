module verifharness

go 1.24.0

require github.com/DDP-Projekt/Kompilierer v0.0.0

replace github.com/DDP-Projekt/Kompilierer => /repo

module verifharness

go 1.24.0

require github.com/DDP-Projekt/Kompilierer v0.0.0

require (
	github.com/llir/irutil v0.0.0-20230226050352-c20f75c375f9 // indirect
	github.com/llir/llvm v0.3.6 // indirect
	github.com/mewmew/float v0.0.0-20211212214546-4fe539893335 // indirect
	github.com/pkg/errors v0.9.1 // indirect
	golang.org/x/exp v0.0.0-20240613232115-7f521ea00fb8 // indirect
)

replace github.com/DDP-Projekt/Kompilierer => /repo

package main

import (
	"fmt"
	"strconv"
	"strings"

	"github.com/DDP-Projekt/Kompilierer/src/ddptypes"
	"github.com/DDP-Projekt/Kompilierer/src/parser"
	at "github.com/DDP-Projekt/Kompilierer/src/parser/alias_trie"
	"github.com/DDP-Projekt/Kompilierer/src/token"
)

func init() {
	handlers["trie"] = cmdTrie
	handlers["tokcmp"] = cmdTokcmp
}

// type table: id:isList:name,...   (distinct ids are distinct type identities; equal
// names print alike)
func parseTypes(spec string) map[int]ddptypes.Type {
	res := map[int]ddptypes.Type{}
	if spec == "" || spec == "-" {
		return res
	}
	for _, e := range strings.Split(spec, ",") {
		f := strings.Split(e, ":")
		id, _ := strconv.Atoi(f[0])
		name := fmt.Sprintf("N%03s", f[2])
		switch f[1] {
		case "0":
			res[id] = &ddptypes.StructType{Name: name, GramGender: ddptypes.MASKULIN}
		case "1":
			res[id] = ddptypes.ListType{ElementType: &ddptypes.StructType{Name: name, GramGender: ddptypes.MASKULIN}}
		case "2": // type alias of an earlier entry
			target, _ := strconv.Atoi(f[3])
			res[id] = &ddptypes.TypeAlias{Name: name, Underlying: res[target], GramGender: ddptypes.MASKULIN}
		case "3": // list over an earlier entry
			target, _ := strconv.Atoi(f[3])
			res[id] = ddptypes.ListType{ElementType: res[target]}
		}
	}
	return res
}

var litClassTypes = map[string]token.TokenType{
	"id": token.IDENTIFIER, "sym": token.SYMBOL, "int": token.INT, "float": token.FLOAT, "str": token.STRING, "chr": token.CHAR,
}

// key syntax: L<class>.<rank> | O<ordinal> | P<0/1>.<typeid>
func parseKey(s string, types map[int]ddptypes.Type) *token.Token {
	switch s[0] {
	case 'L':
		f := strings.SplitN(s[1:], ".", 2)
		r, _ := strconv.Atoi(f[1])
		return &token.Token{Type: litClassTypes[f[0]], Literal: fmt.Sprintf("w%06d", r)}
	case 'O':
		n, _ := strconv.Atoi(s[1:])
		return &token.Token{Type: token.TokenType(n), Literal: "k"}
	case 'P':
		f := strings.SplitN(s[1:], ".", 2)
		id, _ := strconv.Atoi(f[1])
		return &token.Token{Type: token.ALIAS_PARAMETER, Literal: "<p>", AliasInfo: &ddptypes.ParameterType{Type: types[id], IsReference: f[0] == "1"}}
	}
	panic("bad key " + s)
}

func parseKeys(s string, types map[int]ddptypes.Type) []*token.Token {
	if s == "" {
		return nil
	}
	var out []*token.Token
	for _, k := range strings.Split(s, ",") {
		out = append(out, parseKey(k, types))
	}
	return out
}

// tokcmp <types> <key> <key>  ->  eq=<0/1> less=<0/1>
func cmdTokcmp(args []string) string {
	types := parseTypes(args[0])
	a, b := parseKey(args[1], types), parseKey(args[2], types)
	b2i := func(b bool) int {
		if b {
			return 1
		}
		return 0
	}
	return fmt.Sprintf("eq=%d less=%d", b2i(parser.VerifTokenEqual(a, b)), b2i(parser.VerifTokenLess(a, b)))
}

// trie <types> <op>;<op>;...   ops: I<keys>=<val> | C<keys> | S<keys>
// answers joined by ';' : I -> ok ; C -> some <v> / novalue / none ; S -> v1,v2,.. / nilderef
func cmdTrie(args []string) string {
	types := parseTypes(args[0])
	tr := at.New[*token.Token, *int](parser.VerifTokenEqual, parser.VerifTokenLess)
	var out []string
	ops := ""
	if len(args) > 1 {
		ops = args[1]
	}
	for _, op := range strings.Split(ops, ";") {
		if op == "" {
			continue
		}
		switch op[0] {
		case 'Y': // go on with a copy of the trie (alias_trie.Copy, used for the context of generic functions)
			tr = at.Copy(tr)
			out = append(out, "ok")
		case 'I':
			f := strings.SplitN(op[1:], "=", 2)
			v, _ := strconv.Atoi(f[1])
			tr.Insert(parseKeys(f[0], types), &v)
			out = append(out, "ok")
		case 'C':
			ok, v := tr.Contains(parseKeys(op[1:], types))
			if !ok {
				out = append(out, "none")
			} else if v == nil {
				out = append(out, "novalue")
			} else {
				out = append(out, fmt.Sprintf("some %d", *v))
			}
		case 'S':
			pat := parseKeys(op[1:], types)
			out = append(out, func() (res string) {
				defer func() {
					if r := recover(); r != nil {
						res = "nilderef"
					}
				}()
				cur := 0
				seen := map[int]int{}
				vals := tr.Search(func(idx int, child *token.Token) (*token.Token, bool) {
					if c, ok := seen[idx]; ok {
						cur = c
					} else {
						seen[idx] = cur
					}
					if cur >= len(pat) {
						return nil, false
					}
					k := pat[cur]
					cur++
					return k, true
				})
				var ss []string
				for _, v := range vals {
					ss = append(ss, strconv.Itoa(*v))
				}
				return "vals " + strings.Join(ss, ",")
			}())
		}
	}
	return strings.Join(out, ";")
}

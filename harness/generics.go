package main

import (
	"sort"
	"strconv"
	"strings"

	"github.com/DDP-Projekt/Kompilierer/src/ddptypes"
)

func init() { handlers["unify"] = cmdUnify }

// type terms: Z K B W C T V, P<n> plain Kombination, G<n> type parameter, L(<t>), I<s>(<t>,...)
// instantiation of the generic Kombination number s (which has s+1 type parameters)
type genEnv struct {
	plain   map[int]*ddptypes.StructType
	generic map[int]*ddptypes.GenericStructType
}

func (e *genEnv) genericStruct(s int) *ddptypes.GenericStructType {
	if g, ok := e.generic[s]; ok {
		return g
	}
	g := &ddptypes.GenericStructType{StructType: ddptypes.StructType{Name: "Gen" + strconv.Itoa(s), GramGender: ddptypes.MASKULIN}}
	for i := 0; i <= s; i++ {
		gt := ddptypes.GenericType{Name: "F" + strconv.Itoa(i)}
		g.GenericTypes = append(g.GenericTypes, gt)
		g.StructType.Fields = append(g.StructType.Fields, ddptypes.StructField{Name: "f" + strconv.Itoa(i), Type: gt})
	}
	e.generic[s] = g
	return g
}

func (e *genEnv) parse(s string, pos *int) ddptypes.Type {
	c := s[*pos]
	*pos++
	num := func() int {
		st := *pos
		for *pos < len(s) && s[*pos] >= '0' && s[*pos] <= '9' {
			*pos++
		}
		n, _ := strconv.Atoi(s[st:*pos])
		return n
	}
	switch c {
	case 'Z':
		return ddptypes.ZAHL
	case 'K':
		return ddptypes.KOMMAZAHL
	case 'B':
		return ddptypes.BYTE
	case 'W':
		return ddptypes.WAHRHEITSWERT
	case 'C':
		return ddptypes.BUCHSTABE
	case 'T':
		return ddptypes.TEXT
	case 'V':
		return ddptypes.VARIABLE
	case 'P':
		n := num()
		if t, ok := e.plain[n]; ok {
			return t
		}
		t := &ddptypes.StructType{Name: "Plain" + strconv.Itoa(n), GramGender: ddptypes.MASKULIN}
		e.plain[n] = t
		return t
	case 'G':
		return ddptypes.GenericType{Name: "G" + strconv.Itoa(num())}
	case 'L':
		*pos++
		t := e.parse(s, pos)
		*pos++
		return ddptypes.ListType{ElementType: t}
	case 'I':
		n := num()
		*pos++ // (
		var args []ddptypes.Type
		for s[*pos] != ')' {
			if s[*pos] == ',' {
				*pos++
			}
			args = append(args, e.parse(s, pos))
		}
		*pos++
		inst := ddptypes.GetInstantiatedStructType(e.genericStruct(n), args)
		if inst == nil {
			return ddptypes.VoidType{}
		}
		return inst
	}
	return ddptypes.VoidType{}
}

func (e *genEnv) show(t ddptypes.Type) string {
	switch t {
	case ddptypes.ZAHL:
		return "Z"
	case ddptypes.KOMMAZAHL:
		return "K"
	case ddptypes.BYTE:
		return "B"
	case ddptypes.WAHRHEITSWERT:
		return "W"
	case ddptypes.BUCHSTABE:
		return "C"
	case ddptypes.TEXT:
		return "T"
	case ddptypes.VARIABLE:
		return "V"
	}
	switch tt := t.(type) {
	case ddptypes.GenericType:
		return tt.Name
	case ddptypes.ListType:
		return "L(" + e.show(tt.ElementType) + ")"
	case *ddptypes.StructType:
		for n, p := range e.plain {
			if p == tt {
				return "P" + strconv.Itoa(n)
			}
		}
		for n, g := range e.generic {
			for _, inst := range g.Instantiations {
				if inst == tt {
					parts := []string{}
					for _, f := range inst.Fields {
						parts = append(parts, e.show(f.Type))
					}
					return "I" + strconv.Itoa(n) + "(" + strings.Join(parts, ",") + ")"
				}
			}
		}
	}
	return "?"
}

// unify <arg>|<param>;<arg>|<param>;...   -> per pair "<fits 0/1>:<result or nil>", then the bindings
func cmdUnify(args []string) string {
	env := &genEnv{map[int]*ddptypes.StructType{}, map[int]*ddptypes.GenericStructType{}}
	bindings := map[string]ddptypes.Type{}
	out := []string{}
	for _, pair := range strings.Split(args[0], ";") {
		ap := strings.Split(pair, "|")
		p0, p1 := 0, 0
		arg := env.parse(ap[0], &p0)
		param := env.parse(ap[1], &p1)
		r := ddptypes.UnifyGenericType(arg, ddptypes.ParameterType{Type: param}, bindings)
		if r == nil {
			out = append(out, "0:nil")
			break // the call site gives up at the first argument that does not fit
		}
		fits := ddptypes.Equal(arg, r)
		out = append(out, b01(fits)+":"+env.show(r))
		if !fits {
			break
		}
	}
	keys := make([]string, 0, len(bindings))
	for k := range bindings {
		keys = append(keys, k)
	}
	sort.Strings(keys)
	bs := []string{}
	for _, k := range keys {
		bs = append(bs, k+"="+env.show(bindings[k]))
	}
	return strings.Join(out, " ") + " | " + strings.Join(bs, ";")
}

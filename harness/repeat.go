package main

import (
	"encoding/hex"
	"encoding/json"
	"fmt"
	"sort"
	"strconv"
)

func init() { handlers["repeat"] = cmdRepeat }

// repeat <n> <hex of JSON parse request>: parses the same sources n times in this process
// and reports the distinct outcomes (verdict + diagnostic sequence) with their counts
func cmdRepeat(args []string) string {
	n, _ := strconv.Atoi(args[0])
	raw, err := hex.DecodeString(args[1])
	if err != nil {
		return "bad-request"
	}
	var req parseReq
	if err := json.Unmarshal(raw, &req); err != nil {
		return "bad-request"
	}
	counts := map[string]int{}
	for i := 0; i < n; i++ {
		r := doParse(&req)
		key := fmt.Sprintf("%s faulty=%v", r.Result, r.Faulty)
		for _, d := range r.Diags {
			key += fmt.Sprintf(" [%d %s %v %s]", d.Code, d.File, d.Range, d.Msg)
		}
		if r.Result == "panic" {
			key += " " + r.Panic
		}
		counts[key]++
	}
	type kv struct {
		K string `json:"outcome"`
		N int    `json:"count"`
	}
	var out []kv
	for k, v := range counts {
		out = append(out, kv{k, v})
	}
	sort.Slice(out, func(i, j int) bool { return out[i].K < out[j].K })
	b, _ := json.Marshal(out)
	return string(b)
}

package main

import (
	"encoding/hex"
	"fmt"
	"os"
	"path/filepath"
	"strconv"
	"strings"

	"github.com/DDP-Projekt/Kompilierer/src/ddperror"
	"github.com/DDP-Projekt/Kompilierer/src/scanner"
	"github.com/DDP-Projekt/Kompilierer/src/token"
)

func init() {
	handlers["scan"] = func(args []string) string { return scanCmd(args, false) }
	// the same request, but the scanner reads the source itself from a file (Options.Source == nil),
	// as it does for every imported module
	handlers["scanfile"] = func(args []string) string { return scanCmd(args, true) }
}

func codeName(c ddperror.Code) string {
	switch c {
	case ddperror.SYN_MALFORMED_LITERAL:
		return "SYN_MALFORMED_LITERAL"
	case ddperror.SYN_MALFORMED_ALIAS:
		return "SYN_MALFORMED_ALIAS"
	case ddperror.SYN_EXPECTED_CAPITAL:
		return "SYN_EXPECTED_CAPITAL"
	case ddperror.SYN_INVALID_UTF8:
		return "SYN_INVALID_UTF8"
	}
	return fmt.Sprintf("CODE_%d", int(c))
}

func showRange(r token.Range) string {
	return fmt.Sprintf("%d:%d-%d:%d", r.Start.Line, r.Start.Column, r.End.Line, r.End.Column)
}

// typeName gives the Go constant name of a token type; the table is produced by
// `go generate`-free reflection over the translator's view: we print the ordinal
// and the harness driver maps it through the generated enumeration.
func showTok(t token.Token) string {
	return fmt.Sprintf("#%d|%s|%d|%s", int(t.Type), hex.EncodeToString([]byte(t.Literal)), t.Indent, showRange(t.Range))
}

// scan <strict 0/1> <alias 0/1> <line> <col> <indent> <hex>
func scanCmd(args []string, byFile bool) string {
	if len(args) == 5 {
		args = append(args, "")
	}
	if len(args) != 6 {
		return "bad-request"
	}
	src, err := hex.DecodeString(args[5])
	if err != nil {
		return "bad-request"
	}
	line, _ := strconv.Atoi(args[2])
	col, _ := strconv.Atoi(args[3])
	indent, _ := strconv.Atoi(args[4])
	var diags []string
	h := func(e ddperror.Error) {
		diags = append(diags, codeName(e.Code)+"@"+showRange(e.Range))
	}
	var toks []token.Token
	if args[1] == "1" {
		// ScanAlias takes the alias literal token: it strips the quotes and starts
		// at the token's position
		lit := token.Token{Type: token.STRING, Literal: "\"" + string(src) + "\"", Indent: uint(indent),
			Range: token.Range{Start: token.Position{Line: uint(line), Column: uint(col)}}}
		toks, err = scanner.ScanAlias(lit, h)
	} else {
		mode := scanner.Mode(scanner.ModeNone)
		if args[0] == "1" {
			mode = scanner.ModeStrictCapitalization
		}
		if src == nil {
			src = []byte{}
		}
		if byFile {
			dir, derr := os.MkdirTemp(os.Getenv("VERIF_WORK"), "scan")
			if derr != nil {
				return "error " + hex.EncodeToString([]byte(derr.Error()))
			}
			defer os.RemoveAll(dir)
			name := filepath.Join(dir, "t.ddp")
			if werr := os.WriteFile(name, src, 0o644); werr != nil {
				return "error " + hex.EncodeToString([]byte(werr.Error()))
			}
			toks, err = scanner.Scan(scanner.Options{FileName: name, Source: nil, ScannerMode: mode, ErrorHandler: h})
		} else {
			toks, err = scanner.Scan(scanner.Options{FileName: "t.ddp", Source: src, ScannerMode: mode, ErrorHandler: h})
		}
	}
	if err != nil {
		if de, ok := err.(ddperror.Error); ok && de.Code == ddperror.SYN_INVALID_UTF8 {
			return "invalid-utf8"
		}
		return "error " + hex.EncodeToString([]byte(err.Error()))
	}
	var b strings.Builder
	b.WriteString("tokens")
	for _, t := range toks {
		b.WriteString(" ")
		b.WriteString(showTok(t))
	}
	b.WriteString(" diags")
	for _, d := range diags {
		b.WriteString(" ")
		b.WriteString(d)
	}
	return b.String()
}

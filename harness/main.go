// In-process correspondence harness (T-corr, implementation side).
// Reads one request per line on stdin, prints one canonical answer line.
package main

import (
	"bufio"
	"encoding/hex"
	"fmt"
	"os"
	"strings"
)

type handler func(args []string) string

var handlers = map[string]handler{}

func safe(h handler, args []string) (out string) {
	defer func() {
		if r := recover(); r != nil {
			out = fmt.Sprintf("panic %s", hex.EncodeToString([]byte(fmt.Sprint(r))))
		}
	}()
	return h(args)
}

func main() {
	in := bufio.NewReaderSize(os.Stdin, 1<<24)
	out := bufio.NewWriterSize(os.Stdout, 1<<20)
	defer out.Flush()
	for {
		line, err := in.ReadString('\n')
		if line == "" && err != nil {
			break
		}
		line = strings.TrimRight(line, "\n")
		fields := strings.Fields(line)
		if len(fields) == 0 {
			fmt.Fprintln(out, "bad-request")
			continue
		}
		h, ok := handlers[fields[0]]
		if !ok {
			fmt.Fprintln(out, "bad-request")
			continue
		}
		fmt.Fprintln(out, safe(h, fields[1:]))
		out.Flush()
	}
}

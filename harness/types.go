package main

import (
	"fmt"
	"strconv"
	"strings"

	"github.com/DDP-Projekt/Kompilierer/src/ddptypes"
)

func init() { handlers["types"] = cmdTypes }

// type syntax (no spaces): Z K B W C T (primitives) N (nichts) V (Variable) L(<t>) S<id> A(<t>) D<id>(<t>)
type typeEnv struct {
	structs  map[int]*ddptypes.StructType
	defs     map[int]*ddptypes.TypeDef
	structID map[*ddptypes.StructType]int
	defID    map[*ddptypes.TypeDef]int
}

func newTypeEnv() *typeEnv {
	return &typeEnv{map[int]*ddptypes.StructType{}, map[int]*ddptypes.TypeDef{}, map[*ddptypes.StructType]int{}, map[*ddptypes.TypeDef]int{}}
}

func (e *typeEnv) parse(s string, pos *int) ddptypes.Type {
	c := s[*pos]
	*pos++
	num := func() int {
		st := *pos
		for *pos < len(s) && s[*pos] >= '0' && s[*pos] <= '9' {
			*pos++
		}
		n, _ := strconv.Atoi(s[st:*pos])
		return n
	}
	inner := func() ddptypes.Type {
		*pos++ // (
		t := e.parse(s, pos)
		*pos++ // )
		return t
	}
	switch c {
	case 'Z':
		return ddptypes.ZAHL
	case 'K':
		return ddptypes.KOMMAZAHL
	case 'B':
		return ddptypes.BYTE
	case 'W':
		return ddptypes.WAHRHEITSWERT
	case 'C':
		return ddptypes.BUCHSTABE
	case 'T':
		return ddptypes.TEXT
	case 'N':
		return ddptypes.VoidType{}
	case 'V':
		return ddptypes.VARIABLE
	case 'L':
		return ddptypes.ListType{ElementType: inner()}
	case 'A':
		return &ddptypes.TypeAlias{Name: "A", Underlying: inner(), GramGender: ddptypes.FEMININ}
	case 'S':
		id := num()
		if st, ok := e.structs[id]; ok {
			return st
		}
		st := &ddptypes.StructType{Name: fmt.Sprintf("S%d", id), GramGender: ddptypes.MASKULIN}
		e.structs[id] = st
		e.structID[st] = id
		return st
	case 'D':
		id := num()
		u := inner()
		if d, ok := e.defs[id]; ok {
			return d
		}
		d := &ddptypes.TypeDef{Name: fmt.Sprintf("D%d", id), Underlying: u, GramGender: ddptypes.FEMININ}
		e.defs[id] = d
		e.defID[d] = id
		return d
	}
	panic("bad type syntax " + s)
}

func (e *typeEnv) show(t ddptypes.Type) string {
	switch t := t.(type) {
	case ddptypes.PrimitiveType:
		return string("ZKBWCT"[int(t)])
	case ddptypes.VoidType:
		return "N"
	case ddptypes.Variable:
		return "V"
	case ddptypes.ListType:
		return "L(" + e.show(t.ElementType) + ")"
	case *ddptypes.TypeAlias:
		return "A(" + e.show(t.Underlying) + ")"
	case *ddptypes.StructType:
		return fmt.Sprintf("S%d", e.structID[t])
	case *ddptypes.TypeDef:
		return fmt.Sprintf("D%d(%s)", e.defID[t], e.show(t.Underlying))
	}
	return fmt.Sprintf("?%T", t)
}

func b01(b bool) string {
	if b {
		return "1"
	}
	return "0"
}

// types <t1> <t2>
func cmdTypes(args []string) string {
	env := newTypeEnv()
	p := 0
	a := env.parse(args[0], &p)
	p = 0
	b := env.parse(args[1], &p)
	var sb strings.Builder
	fmt.Fprintf(&sb, "equal=%s deep=%s", b01(ddptypes.Equal(a, b)), b01(ddptypes.DeepEqual(a, b)))
	for i, t := range []ddptypes.Type{a, b} {
		fmt.Fprintf(&sb, " gu%d=%s tu%d=%s num%d=%s prim%d=%s list%d=%s any%d=%s void%d=%s def%d=%s", i, env.show(ddptypes.GetUnderlying(t)),
			i, env.show(ddptypes.TrueUnderlying(t)), i, b01(ddptypes.IsNumeric(t)), i, b01(ddptypes.IsPrimitive(t)),
			i, b01(ddptypes.IsList(t)), i, b01(ddptypes.IsAny(t)), i, b01(ddptypes.IsVoid(t)), i, b01(ddptypes.IsTypeDef(t)))
	}
	return sb.String()
}

// In-process batch compiler: the real src/compiler (LLVM via cgo) behind a line protocol,
// so that thousands of small programs compile without paying process start-up each time.
// Request (one line): hex(JSON{dir, main, out, opt, link_modules, link_listdefs})
// Answer  (one line): JSON{result: ok|rejected|internal-error|panic, diags, err}
package main

import (
	"bufio"
	"encoding/hex"
	"encoding/json"
	"fmt"
	"os"
	"path/filepath"
	"runtime/debug"
	"strings"

	"github.com/DDP-Projekt/Kompilierer/src/compiler"
	"github.com/DDP-Projekt/Kompilierer/src/ddperror"
)

type req struct {
	Dir          string `json:"dir"`
	Main         string `json:"main"`
	Out          string `json:"out"`
	Opt          uint   `json:"opt"`
	LinkModules  bool   `json:"link_modules"`
	LinkListDefs bool   `json:"link_listdefs"`
	Separate     bool   `json:"separate"` // every module into an object of its own (hook VerifCompileSeparate)
}

type diag struct {
	Code  int     `json:"code"`
	Level int     `json:"level"`
	File  string  `json:"file"`
	Range [4]uint `json:"range"`
	Msg   string  `json:"msg"`
}

type resp struct {
	Result string   `json:"result"`
	Diags  []diag   `json:"diags"`
	Err    string   `json:"err,omitempty"`
	Deps   []string `json:"deps,omitempty"`
	Objs   []string `json:"objs,omitempty"`
}

func handle(r *req) (out resp) {
	out.Diags = []diag{}
	defer func() {
		if p := recover(); p != nil {
			out.Result = "panic"
			out.Err = fmt.Sprint(p)
			if len(out.Err) > 1500 {
				out.Err = out.Err[:1500]
			}
			_ = debug.Stack
		}
	}()
	cwd, _ := os.Getwd()
	defer os.Chdir(cwd)
	if err := os.Chdir(r.Dir); err != nil {
		out.Result = "error"
		out.Err = err.Error()
		return
	}
	f, err := os.Create(r.Out)
	if err != nil {
		out.Result = "error"
		out.Err = err.Error()
		return
	}
	handler := func(e ddperror.Error) {
		out.Diags = append(out.Diags, diag{int(e.Code), int(e.Level), filepath.Base(e.File),
			[4]uint{e.Range.Start.Line, e.Range.Start.Column, e.Range.End.Line, e.Range.End.Column}, e.Msg})
	}
	if r.Separate {
		f.Close()
		os.Remove(r.Out)
		objs, res, err := compiler.VerifCompileSeparate(compiler.Options{
			FileName:          r.Main,
			ErrorHandler:      handler,
			LinkInListDefs:    r.LinkListDefs,
			OptimizationLevel: r.Opt,
		}, r.Dir)
		if err != nil {
			out.Err = err.Error()
			if len(out.Err) > 1500 {
				out.Err = out.Err[:1500]
			}
			if strings.Contains(out.Err, "Fehlerhafter Quellcode") || strings.Contains(out.Err, "Fehler beim Parsen") && len(out.Diags) > 0 {
				out.Result = "rejected"
			} else {
				out.Result = "internal-error"
			}
			return
		}
		out.Result = "ok"
		out.Objs = objs
		for d := range res.Dependencies {
			out.Deps = append(out.Deps, d)
		}
		return
	}
	res, err := compiler.Compile(compiler.Options{
		FileName:                r.Main,
		To:                      f,
		OutputType:              compiler.OutputObj,
		ErrorHandler:            handler,
		DeleteIntermediateFiles: true,
		LinkInModules:           r.LinkModules,
		LinkInListDefs:          r.LinkListDefs,
		OptimizationLevel:       r.Opt,
	})
	f.Close()
	if err != nil {
		os.Remove(r.Out)
		out.Err = err.Error()
		if len(out.Err) > 1500 {
			out.Err = out.Err[:1500]
		}
		if strings.Contains(out.Err, "Fehlerhafter Quellcode") || strings.Contains(out.Err, "Fehler beim Parsen") && len(out.Diags) > 0 {
			out.Result = "rejected"
		} else {
			out.Result = "internal-error"
		}
		return
	}
	out.Result = "ok"
	for d := range res.Dependencies {
		out.Deps = append(out.Deps, d)
	}
	return
}

func main() {
	in := bufio.NewReaderSize(os.Stdin, 1<<22)
	w := bufio.NewWriter(os.Stdout)
	defer w.Flush()
	for {
		line, err := in.ReadString('\n')
		if line == "" && err != nil {
			break
		}
		raw, herr := hex.DecodeString(strings.TrimSpace(line))
		var r req
		if herr != nil || json.Unmarshal(raw, &r) != nil {
			fmt.Fprintln(w, `{"result":"bad-request"}`)
			w.Flush()
			continue
		}
		o := handle(&r)
		b, _ := json.Marshal(o)
		w.Write(b)
		w.WriteByte('\n')
		w.Flush()
	}
}

package main

import (
	"encoding/hex"
	"encoding/json"
	"fmt"
	"io"
	"os"
	"path/filepath"
	"runtime/debug"
	"sort"

	"github.com/DDP-Projekt/Kompilierer/src/ast"
	"github.com/DDP-Projekt/Kompilierer/src/ast/annotators"
	"github.com/DDP-Projekt/Kompilierer/src/ddperror"
	"github.com/DDP-Projekt/Kompilierer/src/parser"
)

func init() { handlers["parse"] = cmdParse }

type parseReq struct {
	Files    map[string]string `json:"files"`
	HexFiles map[string]string `json:"hexfiles"` // file contents as hex (for bytes that are not UTF-8)
	Render   bool              `json:"render"`   // also run every diagnostic through ddperror.MakeAdvancedHandler
	Main     string            `json:"main"`
	Dump     []string          `json:"dump"` // extra observables: "calls", "lits", "ast", "decls"
	Annotate bool              `json:"annotate"` // run the constant-parameter annotator (as kddp does at -O 2) before dumping
	Keep     bool              `json:"keep"`
}

type diagOut struct {
	Code  int     `json:"code"`
	Level int     `json:"level"`
	File  string  `json:"file"`
	Range [4]uint `json:"range"`
	Msg   string  `json:"msg"`
}

type parseResp struct {
	Result  string              `json:"result"` // ok | panic | error
	Faulty  bool                `json:"faulty"`
	Diags   []diagOut           `json:"diags"`
	Wrapped []diagOut           `json:"wrapped,omitempty"` // the diagnostics carried inside delivered ones (failed generic instantiations), flattened
	Panic   string              `json:"panic,omitempty"`
	Err     string              `json:"err,omitempty"`
	Extra   map[string][]string `json:"extra,omitempty"`
	Modules []string            `json:"modules,omitempty"`
}

func writeFiles(files map[string]string) (string, error) {
	base := os.Getenv("VERIF_WORK")
	if base == "" {
		base = os.TempDir()
	}
	dir, err := os.MkdirTemp(base, "hp")
	if err != nil {
		return "", err
	}
	for name, txt := range files {
		p := filepath.Join(dir, name)
		os.MkdirAll(filepath.Dir(p), 0o755)
		if err := os.WriteFile(p, []byte(txt), 0o644); err != nil {
			return dir, err
		}
	}
	return dir, nil
}

func doParse(req *parseReq) (resp parseResp) {
	dir, err := writeFiles(req.Files)
	if err == nil {
		for name, hx := range req.HexFiles {
			raw, herr := hex.DecodeString(hx)
			if herr != nil {
				err = herr
				break
			}
			p := filepath.Join(dir, name)
			os.MkdirAll(filepath.Dir(p), 0o755)
			if werr := os.WriteFile(p, raw, 0o644); werr != nil {
				err = werr
				break
			}
		}
	}
	if dir != "" && !req.Keep {
		defer os.RemoveAll(dir)
	}
	if err != nil {
		resp.Result = "error"
		resp.Err = err.Error()
		return
	}
	resp.Diags = []diagOut{}
	renderers := map[string]ddperror.Handler{}
	handler := func(e ddperror.Error) {
		if req.Render {
			func() {
				defer func() {
					if r := recover(); r != nil {
						if resp.Extra == nil {
							resp.Extra = map[string][]string{}
						}
						resp.Extra["render-panic"] = append(resp.Extra["render-panic"], fmt.Sprintf("%s %v: %v", e.File, e.Range, r))
					}
				}()
				h, ok := renderers[e.File]
				if !ok {
					src, _ := os.ReadFile(e.File)
					h = ddperror.MakeAdvancedHandler(e.File, src, io.Discard)
					renderers[e.File] = h
				}
				h(e)
			}()
		}
		f := e.File
		if rel, err := filepath.Rel(dir, f); err == nil && len(rel) > 0 && rel[0] != '.' {
			f = rel
		} else {
			f = filepath.Base(f)
		}
		resp.Diags = append(resp.Diags, diagOut{int(e.Code), int(e.Level), f,
			[4]uint{e.Range.Start.Line, e.Range.Start.Column, e.Range.End.Line, e.Range.End.Column}, e.Msg})
		var flatten func(ws []ddperror.Error)
		flatten = func(ws []ddperror.Error) {
			for _, w := range ws {
				wf := w.File
				if rel, err := filepath.Rel(dir, wf); err == nil && len(rel) > 0 && rel[0] != '.' {
					wf = rel
				} else {
					wf = filepath.Base(wf)
				}
				resp.Wrapped = append(resp.Wrapped, diagOut{int(w.Code), int(w.Level), wf,
					[4]uint{w.Range.Start.Line, w.Range.Start.Column, w.Range.End.Line, w.Range.End.Column}, w.Msg})
				flatten(w.WrappedGenericErrors)
			}
		}
		flatten(e.WrappedGenericErrors)
	}
	defer func() {
		if r := recover(); r != nil {
			resp.Result = "panic"
			resp.Panic = fmt.Sprint(r)
			if len(resp.Panic) > 6000 {
				resp.Panic = resp.Panic[:6000]
			}
			st := string(debug.Stack())
			if len(st) > 1500 {
				st = st[:1500]
			}
			resp.Err = st
		}
	}()
	main := filepath.Join(dir, req.Main)
	modules := map[string]*ast.Module{}
	popts := parser.Options{FileName: main, Modules: modules, ErrorHandler: handler}
	if req.Annotate {
		popts.Annotators = []ast.Annotator{&annotators.ConstFuncParamAnnotator{}}
	}
	mod, perr := parser.Parse(popts)
	if perr != nil {
		resp.Result = "error"
		resp.Err = perr.Error()
		if len(resp.Err) > 600 {
			resp.Err = resp.Err[:600]
		}
		return
	}
	resp.Result = "ok"
	resp.Faulty = mod.Ast.Faulty
	for k := range modules {
		if rel, err := filepath.Rel(dir, k); err == nil && rel[0] != '.' {
			resp.Modules = append(resp.Modules, rel)
		} else {
			resp.Modules = append(resp.Modules, "<"+filepath.Base(k)+">")
		}
	}
	sort.Strings(resp.Modules)
	if len(req.Dump) > 0 {
		if resp.Extra == nil { // may already hold "render-panic"
			resp.Extra = map[string][]string{}
		}
		for _, d := range req.Dump {
			if f, ok := dumpers[d]; ok {
				resp.Extra[d] = f(mod, dir)
			}
		}
	}
	return
}

var dumpers = map[string]func(*ast.Module, string) []string{}

// parse <hex of JSON request>  ->  JSON response (one line)
func cmdParse(args []string) string {
	raw, err := hex.DecodeString(args[0])
	if err != nil {
		return "bad-request"
	}
	var req parseReq
	if err := json.Unmarshal(raw, &req); err != nil {
		return "bad-request"
	}
	resp := doParse(&req)
	out, _ := json.Marshal(resp)
	return string(out)
}

package main

import (
	"encoding/hex"
	"fmt"
	"math"
	"sort"

	"github.com/DDP-Projekt/Kompilierer/src/ast"
)

// literal values as the parser stored them in the AST, in visiting order
type litVisitor struct{ out []string }

func (*litVisitor) Visitor() {}
func (v *litVisitor) VisitIntLit(e *ast.IntLit) ast.VisitResult {
	v.out = append(v.out, fmt.Sprintf("int %d", e.Value))
	return ast.VisitRecurse
}
func (v *litVisitor) VisitFloatLit(e *ast.FloatLit) ast.VisitResult {
	v.out = append(v.out, fmt.Sprintf("float %d", math.Float64bits(e.Value)))
	return ast.VisitRecurse
}
func (v *litVisitor) VisitBoolLit(e *ast.BoolLit) ast.VisitResult {
	v.out = append(v.out, fmt.Sprintf("bool %v", e.Value))
	return ast.VisitRecurse
}
func (v *litVisitor) VisitCharLit(e *ast.CharLit) ast.VisitResult {
	v.out = append(v.out, fmt.Sprintf("chr %d", e.Value))
	return ast.VisitRecurse
}
func (v *litVisitor) VisitStringLit(e *ast.StringLit) ast.VisitResult {
	v.out = append(v.out, "str "+hex.EncodeToString([]byte(e.Value)))
	return ast.VisitRecurse
}

func init() {
	dumpers["lits"] = func(m *ast.Module, dir string) []string {
		v := &litVisitor{}
		ast.VisitModule(m, v)
		return v.out
	}
}

// declared and initialiser types of every variable declaration (checker's view)
type varTypeVisitor struct{ out []string }

func (*varTypeVisitor) Visitor() {}
func (v *varTypeVisitor) VisitVarDecl(d *ast.VarDecl) ast.VisitResult {
	it := "<nil>"
	if d.InitType != nil {
		it = d.InitType.String()
	}
	dt := "<nil>"
	if d.Type != nil {
		dt = d.Type.String()
	}
	v.out = append(v.out, fmt.Sprintf("%s|%s|%s", d.Name(), dt, it))
	return ast.VisitRecurse
}

func init() {
	dumpers["vartypes"] = func(m *ast.Module, dir string) []string {
		v := &varTypeVisitor{}
		ast.VisitModule(m, v)
		return v.out
	}
}

// every function call with the source range of each argument expression, keyed by parameter name
type callVisitor struct{ out []string }

func (*callVisitor) Visitor() {}
func (v *callVisitor) VisitFuncCall(e *ast.FuncCall) ast.VisitResult {
	names := make([]string, 0, len(e.Args))
	for n := range e.Args {
		names = append(names, n)
	}
	sort.Strings(names)
	s := fmt.Sprintf("call %s %d:%d-%d:%d", e.Name, e.Range.Start.Line, e.Range.Start.Column, e.Range.End.Line, e.Range.End.Column)
	for _, n := range names {
		a := e.Args[n]
		if a == nil {
			s += fmt.Sprintf(" %s=nil", n)
			continue
		}
		r := a.GetRange()
		s += fmt.Sprintf(" %s=%d:%d-%d:%d", n, r.Start.Line, r.Start.Column, r.End.Line, r.End.Column)
	}
	v.out = append(v.out, s)
	return ast.VisitRecurse
}

func init() {
	dumpers["calls"] = func(m *ast.Module, dir string) []string {
		v := &callVisitor{}
		ast.VisitModule(m, v)
		return v.out
	}
}

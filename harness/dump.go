package main

import (
	"encoding/hex"
	"fmt"
	"math"
	"reflect"
	"sort"
	"strings"

	"github.com/DDP-Projekt/Kompilierer/src/ast"
	"github.com/DDP-Projekt/Kompilierer/src/ast/annotators"
	"github.com/DDP-Projekt/Kompilierer/src/token"
)

// literal values as the parser stored them in the AST, in visiting order
type litVisitor struct{ out []string }

func (*litVisitor) Visitor() {}
func (v *litVisitor) VisitIntLit(e *ast.IntLit) ast.VisitResult {
	v.out = append(v.out, fmt.Sprintf("int %d", e.Value))
	return ast.VisitRecurse
}
func (v *litVisitor) VisitFloatLit(e *ast.FloatLit) ast.VisitResult {
	v.out = append(v.out, fmt.Sprintf("float %d", math.Float64bits(e.Value)))
	return ast.VisitRecurse
}
func (v *litVisitor) VisitBoolLit(e *ast.BoolLit) ast.VisitResult {
	v.out = append(v.out, fmt.Sprintf("bool %v", e.Value))
	return ast.VisitRecurse
}
func (v *litVisitor) VisitCharLit(e *ast.CharLit) ast.VisitResult {
	v.out = append(v.out, fmt.Sprintf("chr %d", e.Value))
	return ast.VisitRecurse
}
func (v *litVisitor) VisitStringLit(e *ast.StringLit) ast.VisitResult {
	v.out = append(v.out, "str "+hex.EncodeToString([]byte(e.Value)))
	return ast.VisitRecurse
}

func init() {
	dumpers["lits"] = func(m *ast.Module, dir string) []string {
		v := &litVisitor{}
		ast.VisitModule(m, v)
		return v.out
	}
}

// declared and initialiser types of every variable declaration (checker's view)
type varTypeVisitor struct{ out []string }

func (*varTypeVisitor) Visitor() {}
func (v *varTypeVisitor) VisitVarDecl(d *ast.VarDecl) ast.VisitResult {
	it := "<nil>"
	if d.InitType != nil {
		it = d.InitType.String()
	}
	dt := "<nil>"
	if d.Type != nil {
		dt = d.Type.String()
	}
	v.out = append(v.out, fmt.Sprintf("%s|%s|%s", d.Name(), dt, it))
	return ast.VisitRecurse
}

func init() {
	dumpers["vartypes"] = func(m *ast.Module, dir string) []string {
		v := &varTypeVisitor{}
		ast.VisitModule(m, v)
		return v.out
	}
}

// every function call with the source range of each argument expression, keyed by parameter name
type callVisitor struct{ out []string }

func (*callVisitor) Visitor() {}
func (v *callVisitor) VisitFuncCall(e *ast.FuncCall) ast.VisitResult {
	names := make([]string, 0, len(e.Args))
	for n := range e.Args {
		names = append(names, n)
	}
	sort.Strings(names)
	s := fmt.Sprintf("call %s %d:%d-%d:%d", e.Name, e.Range.Start.Line, e.Range.Start.Column, e.Range.End.Line, e.Range.End.Column)
	for _, n := range names {
		a := e.Args[n]
		if a == nil {
			s += fmt.Sprintf(" %s=nil", n)
			continue
		}
		r := a.GetRange()
		s += fmt.Sprintf(" %s=%d:%d-%d:%d", n, r.Start.Line, r.Start.Column, r.End.Line, r.End.Column)
	}
	v.out = append(v.out, s)
	return ast.VisitRecurse
}

func init() {
	dumpers["calls"] = func(m *ast.Module, dir string) []string {
		v := &callVisitor{}
		ast.VisitModule(m, v)
		return v.out
	}
}

// every composite expression with its own source range and the ranges of its operands
type rangeVisitor struct{ out []string }

func rg(r token.Range) string {
	return fmt.Sprintf("%d:%d-%d:%d", r.Start.Line, r.Start.Column, r.End.Line, r.End.Column)
}

func (v *rangeVisitor) node(kind string, own token.Range, kids ...ast.Expression) ast.VisitResult {
	s := kind + " " + rg(own)
	for _, k := range kids {
		if k == nil || reflect.ValueOf(k).IsNil() {
			continue
		}
		s += " " + rg(k.GetRange())
	}
	v.out = append(v.out, s)
	return ast.VisitRecurse
}

func (*rangeVisitor) Visitor() {}
func (v *rangeVisitor) VisitUnaryExpr(e *ast.UnaryExpr) ast.VisitResult {
	return v.node(fmt.Sprintf("unary:%s", e.Operator), e.Range, e.Rhs)
}
func (v *rangeVisitor) VisitBinaryExpr(e *ast.BinaryExpr) ast.VisitResult {
	return v.node(fmt.Sprintf("binary:%s", e.Operator), e.Range, e.Lhs, e.Rhs)
}
func (v *rangeVisitor) VisitTernaryExpr(e *ast.TernaryExpr) ast.VisitResult {
	return v.node(fmt.Sprintf("ternary:%s", e.Operator), e.Range, e.Lhs, e.Mid, e.Rhs)
}
func (v *rangeVisitor) VisitCastExpr(e *ast.CastExpr) ast.VisitResult {
	return v.node("cast", e.Range, e.Lhs)
}
func (v *rangeVisitor) VisitCastAssigneable(e *ast.CastAssigneable) ast.VisitResult {
	return v.node("cast-assignable", e.Range, e.Lhs)
}
func (v *rangeVisitor) VisitTypeCheck(e *ast.TypeCheck) ast.VisitResult {
	return v.node("typecheck", e.Range, e.Lhs)
}
func (v *rangeVisitor) VisitTypeOpExpr(e *ast.TypeOpExpr) ast.VisitResult {
	return v.node(fmt.Sprintf("typeop:%s", e.Operator), e.Range)
}
func (v *rangeVisitor) VisitGrouping(e *ast.Grouping) ast.VisitResult {
	return v.node("grouping", e.Range, e.Expr)
}
func (v *rangeVisitor) VisitIndexing(e *ast.Indexing) ast.VisitResult {
	return v.node("indexing", e.GetRange(), e.Lhs, e.Index)
}
func (v *rangeVisitor) VisitFieldAccess(e *ast.FieldAccess) ast.VisitResult {
	return v.node("field", e.GetRange(), e.Rhs, e.Field)
}
func (v *rangeVisitor) VisitListLit(e *ast.ListLit) ast.VisitResult {
	kids := append([]ast.Expression{}, e.Values...)
	kids = append(kids, e.Count, e.Value)
	return v.node("list", e.Range, kids...)
}
func (v *rangeVisitor) VisitFuncCall(e *ast.FuncCall) ast.VisitResult {
	names := make([]string, 0, len(e.Args))
	for n := range e.Args {
		names = append(names, n)
	}
	sort.Strings(names)
	kids := []ast.Expression{}
	for _, n := range names {
		kids = append(kids, e.Args[n])
	}
	return v.node("call:"+e.Name, e.Range, kids...)
}
func (v *rangeVisitor) VisitStructLiteral(e *ast.StructLiteral) ast.VisitResult {
	names := make([]string, 0, len(e.Args))
	for n := range e.Args {
		names = append(names, n)
	}
	sort.Strings(names)
	kids := []ast.Expression{}
	for _, n := range names {
		kids = append(kids, e.Args[n])
	}
	return v.node("struct", e.Range, kids...)
}

func init() {
	dumpers["ranges"] = func(m *ast.Module, dir string) []string {
		v := &rangeVisitor{}
		ast.VisitModule(m, v)
		return v.out
	}
}

// the tree of the right-hand side of every assignment, as an s-expression (Grouping nodes dropped: parentheses only
// steer the parser) — compared with what the Lean model of the ladder (DDP.LadderParse.parse) builds from the same tokens
type shapeVisitor struct{ out []string }

func shapeOf(e ast.Expression) string {
	if e == nil || reflect.ValueOf(e).IsNil() {
		return "(nil)"
	}
	switch e := e.(type) {
	case *ast.Grouping:
		return shapeOf(e.Expr)
	case *ast.IntLit:
		return fmt.Sprintf("(int %d)", e.Value)
	case *ast.Ident:
		return "(var " + e.Literal.Literal + ")"
	case *ast.UnaryExpr:
		return fmt.Sprintf("(un %s %s)", strings.ReplaceAll(e.Operator.String(), " ", "_"), shapeOf(e.Rhs))
	case *ast.BinaryExpr:
		return fmt.Sprintf("(bin %s %s %s)", strings.ReplaceAll(e.Operator.String(), " ", "_"), shapeOf(e.Lhs), shapeOf(e.Rhs))
	case *ast.TernaryExpr:
		return fmt.Sprintf("(ter %s %s %s %s)", strings.ReplaceAll(e.Operator.String(), " ", "_"), shapeOf(e.Lhs), shapeOf(e.Mid), shapeOf(e.Rhs))
	case *ast.BadExpr:
		return "(bad)"
	default:
		return fmt.Sprintf("(other %T)", e)
	}
}

func (*shapeVisitor) Visitor() {}
func (v *shapeVisitor) VisitAssignStmt(s *ast.AssignStmt) ast.VisitResult {
	v.out = append(v.out, shapeOf(s.Rhs))
	return ast.VisitRecurse
}

func init() {
	dumpers["shape"] = func(m *ast.Module, dir string) []string {
		v := &shapeVisitor{}
		ast.VisitModule(m, v)
		return v.out
	}
}

// the flags of the constant-parameter annotator, one line per function declaration in source order: name and one digit per
// parameter (1 = still constant, 0 = not, - = the annotator attached nothing for it)
type constFlagVisitor struct {
	mod *ast.Module
	out []string
}

func (*constFlagVisitor) Visitor() {}
func (v *constFlagVisitor) VisitFuncDecl(d *ast.FuncDecl) ast.VisitResult {
	line := d.Name() + " "
	att, ok := v.mod.Ast.GetMetadataByKind(d, annotators.ConstFuncParamMetaKind)
	for _, p := range d.Parameters {
		if !ok {
			line += "-"
			continue
		}
		c, has := att.(annotators.ConstFuncParamMeta).IsConst[p.Name.Literal]
		switch {
		case !has:
			line += "-"
		case c:
			line += "1"
		default:
			line += "0"
		}
	}
	v.out = append(v.out, line)
	return ast.VisitRecurse
}

func init() {
	dumpers["constflags"] = func(m *ast.Module, dir string) []string {
		v := &constFlagVisitor{mod: m}
		ast.VisitModule(m, v)
		return v.out
	}
}

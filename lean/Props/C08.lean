import DDP.Spec.Eval
import DDP.Proofs.ConstParam

/-!
# C08 — values are copied; only Referenz parameters alias

In the L2 evaluator a *holder* (variable, parameter, loop variable) is a binding to a location of
the store plus a path into the value kept there.  Every initialisation, assignment, value argument,
element/field store, iteration variable and returned value is a *copy into a fresh or own location*;
only a Referenz parameter is bound to the caller's location and path.
-/

namespace DDP.Spec

/-! ## the store -/

/-- writing through one holder never changes what a holder of another location observes -/
theorem write_other_loc (st st' : State) (b b' : Binding) (v : Val)
    (h : st.write b v = some st') (hne : b.loc ≠ b'.loc) : st'.read b' = st.read b' := by
  unfold State.write at h
  split at h
  · rename_i old hold
    cases hs : setPath old b.path v with
    | none => simp [hs] at h
    | some nv =>
      simp [hs] at h
      subst h
      unfold State.read
      have : (st.store.setIfInBounds b.loc nv)[b'.loc]? = st.store[b'.loc]? :=
        Array.getElem?_setIfInBounds_ne hne
      simp [this]
  · simp at h

/-- a holder that owns its whole location reads back exactly what was written -/
theorem write_read_root (st st' : State) (b : Binding) (v : Val) (hp : b.path = [])
    (h : st.write b v = some st') : st'.read b = some v := by
  unfold State.write at h
  split at h
  · rename_i old hold
    simp [hp, setPath] at h
    subst h
    unfold State.read
    have hlt : b.loc < st.store.size := by
      have := Array.getElem?_eq_some_iff.mp hold
      exact this.1
    simp [hp, getPath, hlt]
  · simp at h

/-- a fresh location is new: it is the old size of the store -/
theorem alloc_loc (st : State) (v : Val) : (st.alloc v).2 = st.store.size := rfl

theorem alloc_read_new (st : State) (v : Val) (t : Ty) : (st.alloc v).1.read ⟨(st.alloc v).2, [], t⟩ = some v := by
  simp [State.alloc, State.read, getPath]

/-- allocating never disturbs an existing holder -/
theorem alloc_read_old (st : State) (v : Val) (b : Binding) (h : b.loc < st.store.size) :
    (st.alloc v).1.read b = st.read b := by
  have h2 : st.store[b.loc]? = some st.store[b.loc] := Array.getElem?_eq_getElem h
  simp [State.alloc, State.read, Array.getElem?_push_lt h, h2]

/-! ## element and field paths -/

theorem getPath_nil (v : Val) : getPath v [] = some v := by cases v <;> rfl
theorem setPath_nil (v x : Val) : setPath v [] x = some x := by cases v <;> rfl

/-- storing into a list element changes that element only -/
theorem set_index_other (t : Ty) (vs : List Val) (i j : Nat) (x : Val) (v' : Val) (hij : i ≠ j)
    (h : setPath (.list t vs) [.idx i] x = some v') : getPath v' [.idx j] = getPath (.list t vs) [.idx j] := by
  simp only [setPath] at h
  split at h
  · rename_i old _
    simp at h
    subst h
    simp [getPath, List.getElem?_set_ne hij]
  · simp at h

theorem set_index_same (t : Ty) (vs : List Val) (i : Nat) (x : Val) (v' : Val)
    (h : setPath (.list t vs) [.idx i] x = some v') : getPath v' [.idx i] = some x := by
  simp only [setPath] at h
  split at h
  · rename_i old hold
    simp at h
    subst h
    have hlt : i < vs.length := by
      have := List.getElem?_eq_some_iff.mp hold
      exact this.1
    simp [getPath, hlt]
  · simp at h

/-! ## statements -/

/-- a declaration copies the initial value into a fresh location -/
theorem decl_fresh (ctx : Ctx) (fuel : Nat) (env : Env) (st st1 : State) (t : Ty) (n : String) (e : Expr) (v v' : Val)
    (he : evalExpr ctx fuel env st e = (st1, .ok v)) (hc : coerceTo t v = .ok v') :
    execStmt ctx (fuel + 1) env st (.decl t n e)
      = (env.bind n ⟨st1.store.size, [], t⟩, (st1.alloc v').1, .normal) := by
  simp only [execStmt, he, hc, State.alloc]

/-- so the new holder and every older holder are independent: writing one leaves the other -/
theorem decl_independent (st1 st2 : State) (v' w : Val) (t : Ty) (old : Binding)
    (hold : old.loc < st1.store.size)
    (hw : (st1.alloc v').1.write ⟨st1.store.size, [], t⟩ w = some st2) :
    st2.read old = st1.read old := by
  have hne : (⟨st1.store.size, [], t⟩ : Binding).loc ≠ old.loc := by simp; omega
  rw [write_other_loc _ _ _ _ _ hw hne, alloc_read_old _ _ _ hold]

/-- a value parameter is bound to a fresh copy of the argument -/
theorem value_param_fresh (ctx : Ctx) (fuel : Nat) (env : Env) (st st1 : State) (fd : Func) (pn : String) (ae : Expr)
    (rest : List (String × Expr)) (sc : Scope) (p : Param) (v : Val)
    (hp : fd.params.find? (·.name == pn) = some p) (hr : p.isRef = false)
    (he : evalExpr ctx fuel env st ae = (st1, .ok v)) :
    bindArgs ctx (fuel + 1) env st fd ((pn, ae) :: rest) sc
      = bindArgs ctx fuel env (st1.alloc v).1 fd rest ((pn, ⟨st1.store.size, [], p.ty⟩) :: sc) := by
  simp only [bindArgs, hp, hr, he, State.alloc]
  simp

/-- a Referenz parameter is bound to the caller's own location and path: it aliases -/
theorem ref_param_alias (ctx : Ctx) (fuel : Nat) (env : Env) (st st1 : State) (fd : Func) (pn : String) (ae : Expr)
    (rest : List (String × Expr)) (sc : Scope) (p : Param) (b : Binding)
    (hp : fd.params.find? (·.name == pn) = some p) (hr : p.isRef = true)
    (he : evalLVal ctx fuel env st ae = (st1, .ok b)) :
    bindArgs ctx (fuel + 1) env st fd ((pn, ae) :: rest) sc
      = bindArgs ctx fuel env st1 fd rest ((pn, b) :: sc) := by
  simp only [bindArgs, hp, hr, he]
  simp

/-- the same variable passed twice as Referenz gives two parameters with one location -/
theorem ref_twice_same (ctx : Ctx) (fuel : Nat) (env : Env) (st : State) (x : String) (b : Binding)
    (h : env.lookup x = some b) :
    evalLVal ctx (fuel + 1) env st (.var x) = (st, .ok b) := by
  simp only [evalLVal, h]

/-- the for-each variable is a copy of the element: a fresh location per round, and the next
round continues with the remaining elements of the value taken on entry -/
theorem foreach_copies (ctx : Ctx) (fuel : Nat) (env : Env) (st st' : State) (t : Ty) (n : String)
    (body : List Stmt) (v : Val) (rest : List Val) (k : Nat)
    (hb : execBlock ctx fuel (env.push.bind n ⟨st.store.size, [], t⟩).push (st.alloc v).1 body = (st', .normal)) :
    execForEach ctx (fuel + 1) env st t n none body (v :: rest) k
      = execForEach ctx fuel env st' t n none body rest (k + 1) := by
  simp only [State.alloc] at hb
  simp only [execForEach, State.alloc, hb]

/-- non-vacuity: copy, mutate the copy, the original is unchanged; mutate through a Referenz, the caller sees it -/
example : (run { structs := [],
                 funcs := [{ name := "f", params := [⟨"p", .liste .zahl, true⟩, ⟨"q", .liste .zahl, false⟩], ret := .nichts,
                             body := [.assign (.bin .index (.var "p") (.intLit 1)) (.intLit 9),
                                      .assign (.bin .index (.var "q") (.intLit 1)) (.intLit 8)] }],
                 main := [.decl (.liste .zahl) "a" (.listLit .zahl [.intLit 1]),
                          .decl (.liste .zahl) "b" (.var "a"),
                          .assign (.bin .index (.var "b") (.intLit 1)) (.intLit 2),
                          .print (.bin .index (.var "a") (.intLit 1)) true,
                          .expr (.call "f" [("p", .var "a"), ("q", .var "b")]),
                          .print (.bin .index (.var "a") (.intLit 1)) true,
                          .print (.bin .index (.var "b") (.intLit 1)) true] } 12).stdout
          = "1\n9\n2\n" := by decide +kernel

end DDP.Spec

/-! ## The `-O 2` protocol: a value parameter flagged constant is handed over without a copy

`DDP.ConstParam` models the annotator that computes the flags (tied to the real one by `vlib/constcorr.py`: flags of generated
modules, function by function). Copy semantics survives the elision exactly if a flagged parameter is never changed by the
callee; that is `sound`. -/

namespace DDP.ConstParam

/-- **No flagged parameter is ever changed**: whatever the module, if the pass leaves parameter `q` of `f` constant, running `f`
does not change `q`'s storage — not by assignment to a part of it, not through a Referenz parameter of any callee (the function
itself called recursively and functions looked at later included), not through a further hand-over without a copy. -/
theorem constant_parameters_are_not_changed (p : Prog) (f q : Nat) (h : (analyse p)[f]?.bind (·[q]?) = some true) :
    ¬ Mut p (analyse p) f q := fun hm => sound p f q hm h

/-- **What a flag means, without the pass**: a parameter keeps its flag exactly when it belongs to a function defined in DDP and no
statement of the body names it as (part of) an assignment target or hands it to a parameter that is not known to be constant.
A flag is cleared only for a reason one can point at; `constant_parameters_are_not_changed` says the reasons suffice. -/
theorem constant_flag_characterised (known : Nat → Option Flags) (self : Nat) (fn : Fn) (q : Nat) :
    (analyseFn known self fn)[q]? = some true ↔
      (q < fn.nparams ∧ fn.extern = false ∧ ∀ s ∈ fn.body, marks known self q s = false) :=
  flag_iff known self fn q

/-- the pass is flow-insensitive: the flags do not depend on the order of the statements of a body (nor, therefore, on which
branch a statement stands in) -/
theorem constant_flags_ignore_statement_order (known : Nat → Option Flags) (self : Nat) (fn fn' : Fn)
    (hn : fn.nparams = fn'.nparams) (he : fn.extern = fn'.extern) (hp : fn.body.Perm fn'.body) (q : Nat) :
    ((analyseFn known self fn)[q]? = some true) ↔ ((analyseFn known self fn')[q]? = some true) :=
  analyseFn_perm known self fn fn' hn he hp q

/-- the function of seed observation C08f: `h r v n` with `r` a Referenz parameter changed *after* the recursive call
`h v v 1` in the text -/
def rekursion : Prog :=
  [{ nparams := 3, isRef := [true, false, false], extern := false,
     body := [.call 0 [.root 1, .root 1, .none], .assign (.root 0)] }]

/-- **The rule before repair 570a0c8 was not sound**, and this is the witness: reading the function's own flags at the recursive
call (`r` still "constant" there) leaves `v` flagged although `v` is changed through `r` -/
theorem old_rule_unsound : (analyseOld rekursion)[0]?.bind (·[1]?) = some true ∧ Mut rekursion (analyseOld rekursion) 0 1 := by
  refine ⟨by decide, ?_⟩
  exact Mut.viaRef (fn := rekursion[0]) (gn := rekursion[0]) (g := 0) (j := 0) (a := .root 1)
    (args := [.root 1, .root 1, .none]) rfl rfl (by decide) rfl (Or.inl rfl) rfl rfl
    (Mut.assign (fn := rekursion[0]) rfl rfl (by decide))

/-- the repaired rule clears the flag on the same function (and `sound` says it does so on every function) -/
example : analyse rekursion = [[false, false, true]] := by decide

/-- non-vacuity: a module where flags survive — `liest` only reads its value parameter, `ruft` hands its own value parameter on
to it, `schreibt` changes its parameter, `ruft2` hands its parameter to `schreibt` -/
example : analyse [{ nparams := 1, isRef := [false], extern := false, body := [] },
                   { nparams := 1, isRef := [false], extern := false, body := [.call 0 [.root 0]] },
                   { nparams := 1, isRef := [false], extern := false, body := [.assign (.root 0)] },
                   { nparams := 2, isRef := [false, true], extern := false, body := [.call 2 [.root 0], .call 9 [.root 1]] },
                   { nparams := 1, isRef := [true], extern := true, body := [] }]
    = [[true], [true], [false], [false, false], [false]] := by decide

end DDP.ConstParam

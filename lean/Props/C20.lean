import DDP.Proofs.Trie
import DDP.Impl.TokenKey
import DDP.Generated.Keywords

/-!
# C20 — duplicate aliases are always rejected; declared aliases stay callable

Theorems over the L1 models of `ordered_map.go`, `alias_trie/trie.go` (generic in the two
key predicates) and of `tokenEqual`/`tokenLess`.  All statements quantify over every
sequence of insertions in every order.
-/

namespace DDP.C20
open DDP.OMap DDP.Trie DDP.TokenKey

variable {K V : Type} {eq less : K → K → Bool}

/-- the map built by a sequence of `Set` calls -/
def runSets (eq less : K → K → Bool) (ops : List (K × V)) : List (K × V) :=
  ops.foldl (fun m op => OMap.set eq less m op.1 op.2) []

theorem foldl_sets (hc : Compat eq less) : ∀ (ops : List (K × V)) (m0 : List (K × V)), Sorted less m0 →
    Sorted less (ops.foldl (fun m op => OMap.set eq less m op.1 op.2) m0) ∧
    ∀ k, OMap.get eq less (ops.foldl (fun m op => OMap.set eq less m op.1 op.2) m0) k =
      match ops.reverse.find? (fun op => eq op.1 k) with
      | some op => some op.2
      | none => OMap.get eq less m0 k
  | [], m0, hs => ⟨hs, fun k => rfl⟩
  | op :: rest, m0, hs => by
    obtain ⟨h1, h2⟩ := foldl_sets hc rest (OMap.set eq less m0 op.1 op.2) (set_sorted hc m0 hs _ _)
    refine ⟨h1, fun k => ?_⟩
    simp only [List.foldl_cons]
    rw [h2 k, List.reverse_cons, List.find?_append]
    cases hf : rest.reverse.find? (fun op => eq op.1 k) with
    | some o => rfl
    | none =>
      simp only [Option.none_or, List.find?_cons, List.find?_nil]
      rw [get_set hc m0 hs]
      cases eq op.1 k <;> rfl

/-- Refinement: under `Compat`, after *any* sequence of `Set`s (any keys, any order) the
sorted-slice map is sorted and `Get k` returns the value of the latest `Set` whose key is
`eq` to `k` — the behaviour of a plain association list. -/
theorem omap_refines (hc : Compat eq less) (ops : List (K × V)) :
    Sorted less (runSets eq less ops) ∧
    ∀ k, OMap.get eq less (runSets eq less ops) k = (ops.reverse.find? (fun op => eq op.1 k)).map (·.2) := by
  obtain ⟨h1, h2⟩ := foldl_sets hc ops [] (by simp [Sorted])
  refine ⟨h1, fun k => ?_⟩
  unfold runSets
  rw [h2 k]
  cases ops.reverse.find? (fun op => eq op.1 k) with
  | some o => rfl
  | none => simp [OMap.get, OMap.find, OMap.bsearch]

/-- the alias trie built by a sequence of `Insert` calls -/
def runInserts (eq less : K → K → Bool) (ops : List (List K × V)) : Node K V :=
  ops.foldl (fun n op => insert eq less op.1 op.2 n) Node.empty

theorem foldl_inserts (hc : Compat eq less) : ∀ (ops : List (List K × V)) (n0 : Node K V), WF less n0 →
    WF less (ops.foldl (fun n op => insert eq less op.1 op.2 n) n0) ∧
    ∀ ks, aliasExists eq less ks (ops.foldl (fun n op => insert eq less op.1 op.2 n) n0) =
      match ops.reverse.find? (fun op => keysEq eq op.1 ks) with
      | some op => some op.2
      | none => aliasExists eq less ks n0
  | [], n0, hw => ⟨hw, fun ks => rfl⟩
  | op :: rest, n0, hw => by
    obtain ⟨h1, h2⟩ := foldl_inserts hc rest (insert eq less op.1 op.2 n0) (insert_wf hc _ _ _ hw)
    refine ⟨h1, fun ks => ?_⟩
    simp only [List.foldl_cons]
    rw [h2 ks, List.reverse_cons, List.find?_append]
    cases hf : rest.reverse.find? (fun op => keysEq eq op.1 ks) with
    | some o => rfl
    | none =>
      simp only [Option.none_or, List.find?_cons, List.find?_nil]
      rw [aliasExists_insert hc _ _ _ _ hw]
      cases keysEq eq op.1 ks <;> rfl

/-- Refinement for the trie: after any sequence of insertions, a pattern is found exactly
when a pattern with pointwise-`eq` tokens was inserted, and yields the latest such alias. -/
theorem trie_refines (hc : Compat eq less) (ops : List (List K × V)) (ks : List K) :
    aliasExists eq less ks (runInserts eq less ops) =
      (ops.reverse.find? (fun op => keysEq eq op.1 ks)).map (·.2) := by
  obtain ⟨_, h2⟩ := foldl_inserts hc ops Node.empty (WF.empty less)
  unfold runInserts
  rw [h2 ks]
  cases ops.reverse.find? (fun op => keysEq eq op.1 ks) with
  | some o => rfl
  | none => simp [aliasExists_empty]

theorem keysEq_refl (hc : Compat eq less) : ∀ (p : List K), keysEq eq p p = true
  | [] => rfl
  | a :: as => by simp [keysEq, hc.eq_refl, keysEq_refl hc as]

/-- what `addAliases` does with one alias: reject if a value is stored under the pattern,
insert otherwise -/
def declare (eq less : K → K → Bool) (n : Node K V) (p : List K) (v : V) : Node K V × Bool :=
  match aliasExists eq less p n with
  | some _ => (n, false)
  | none => (insert eq less p v n, true)

/-- run a sequence of declarations; returns the store and, per declaration, whether it was accepted -/
def declareAll (eq less : K → K → Bool) : Node K V → List (List K × V) → Node K V × List Bool
  | n, [] => (n, [])
  | n, (p, v) :: rest =>
    let (n', ok) := declare eq less n p v
    let (n'', oks) := declareAll eq less n' rest
    (n'', ok :: oks)

/-- **Duplicate rejected / stays callable.**  In any sequence of declarations starting from
any well-formed store: once a pattern is stored (`aliasExists p = some v`), every later
declaration of a pattern with pointwise-`eq` tokens is rejected, and the stored alias is
still found under its pattern after all further declarations. -/
theorem declared_stays (hc : Compat eq less) :
    ∀ (decls : List (List K × V)) (n : Node K V), WF less n → ∀ (p : List K) (v : V),
      aliasExists eq less p n = some v →
      aliasExists eq less p (declareAll eq less n decls).1 = some v ∧
      ∀ i (hi : i < decls.length), keysEq eq (decls[i]).1 p = true →
        (declareAll eq less n decls).2[i]? = some false
  | [], n, _, p, v, h => ⟨h, fun i hi => absurd hi (Nat.not_lt_zero _)⟩
  | (q, w) :: rest, n, hwf, p, v, h => by
    unfold declareAll declare
    cases hq : aliasExists eq less q n with
    | some u =>
      simp only
      obtain ⟨h1, h2⟩ := declared_stays hc rest n hwf p v h
      refine ⟨h1, fun i hi hk => ?_⟩
      cases i with
      | zero => simp
      | succ i => simpa using h2 i (by simpa using hi) (by simpa using hk)
    | none =>
      simp only
      have hnk : keysEq eq q p = false := by
        cases hk : keysEq eq q p with
        | false => rfl
        | true =>
          -- q is pointwise eq to p, so looking up q finds what looking up p finds
          have := aliasExists_insert hc q p w n hwf
          have h3 := aliasExists_insert hc q q w n hwf
          exact absurd hq (by
            intro hq'
            have hpq := trie_lookup_congr hc n hwf q p hk
            rw [hpq, h] at hq'; cases hq')
      have hwf' := insert_wf hc q w n hwf
      have h' : aliasExists eq less p (insert eq less q w n) = some v := by
        rw [aliasExists_insert hc q p w n hwf, hnk]; simpa using h
      obtain ⟨h1, h2⟩ := declared_stays hc rest _ hwf' p v h'
      refine ⟨h1, fun i hi hk => ?_⟩
      cases i with
      | zero => simp at hk; rw [hnk] at hk; cases hk
      | succ i => simpa using h2 i (by simpa using hi) (by simpa using hk)
where
  /-- lookups of pointwise-`eq` patterns agree -/
  trie_lookup_congr (hc : Compat eq less) : ∀ (n : Node K V), WF less n → ∀ (q p : List K),
      keysEq eq q p = true → aliasExists eq less q n = aliasExists eq less p n
    | .mk ch val, _, [], [], _ => rfl
    | .mk ch val, _, [], _ :: _, h => by simp [keysEq] at h
    | .mk ch val, _, _ :: _, [], h => by simp [keysEq] at h
    | .mk ch val, hwf, a :: as, b :: bs, h => by
      cases hwf with
      | mk _ _ hs hch =>
        simp only [keysEq, Bool.and_eq_true] at h
        rw [aliasExists_cons, aliasExists_cons, get_congr hc ch hs a b h.1]
        cases hg : OMap.get eq less ch b with
        | none => rfl
        | some c =>
          obtain ⟨e, hem, _, rfl⟩ := (get_some_iff hc ch hs b c).mp hg
          exact trie_lookup_congr hc e.2 (hch e hem) as bs h.2

/-- A freshly accepted alias is stored: after `declare` accepted `(p, v)`, `p` is found. -/
theorem accepted_is_stored (hc : Compat eq less) (n : Node K V) (hwf : WF less n) (p : List K) (v : V)
    (h : (declare eq less n p v).2 = true) :
    aliasExists eq less p (declare eq less n p v).1 = some v := by
  unfold declare at h ⊢
  cases hq : aliasExists eq less p n with
  | some u => rw [hq] at h; cases h
  | none =>
    simp only
    rw [aliasExists_insert hc p p v n hwf, keysEq_refl hc p]
    simp

/-! ### when do the real key predicates satisfy `Compat`? -/

/-- the ordinals assumed for the literal-compared token types and for ALIAS_PARAMETER are
those of the regenerated `token.TokenType` enumeration -/
theorem token_ordinals :
    (DDP.Generated.TokenType.all.idxOf .IDENTIFIER, DDP.Generated.TokenType.all.idxOf .ALIAS_PARAMETER,
     DDP.Generated.TokenType.all.idxOf .SYMBOL, DDP.Generated.TokenType.all.idxOf .INT,
     DDP.Generated.TokenType.all.idxOf .FLOAT, DDP.Generated.TokenType.all.idxOf .STRING,
     DDP.Generated.TokenType.all.idxOf .CHAR) = (2, 3, 5, 6, 7, 8, 9) := by decide +kernel

theorem litOrd_inj (c d : LitClass) (h : c.ord = d.ord) : c = d := by
  cases c <;> cases d <;> simp [LitClass.ord] at h <;> rfl

theorem litOrd_not_other (c : LitClass) : isOtherTy c.ord = false := by cases c <;> rfl
theorem litOrd_ne_3 (c : LitClass) : c.ord ≠ 3 := by cases c <;> decide

/-- the comparison key `tokenLess` orders by, lexicographically -/
def rank (name : Nat → Nat) (isList : Nat → Bool) : TokKey → Nat × Nat × Nat × Nat
  | .lit c x => (c.ord, 0, 0, x)
  | .other t _ => (t, 0, 0, 0)
  | .param r i => (3, r.toNat, (isList i).toNat, name i)

def lt4 (a b : Nat × Nat × Nat × Nat) : Prop :=
  a.1 < b.1 ∨ (a.1 = b.1 ∧ (a.2.1 < b.2.1 ∨ (a.2.1 = b.2.1 ∧ (a.2.2.1 < b.2.2.1 ∨
    (a.2.2.1 = b.2.2.1 ∧ a.2.2.2 < b.2.2.2)))))

/-- closes the linear-arithmetic goals left after unfolding `lt4` on concrete ranks -/
macro "fin4" : tactic =>
  `(tactic| first | omega | (simp <;> omega) | simp)

theorem tokLess_iff (name : Nat → Nat) (isList : Nat → Bool) (a b : TokKey) :
    tokLess name isList a b = true ↔ lt4 (rank name isList a) (rank name isList b) := by
  have hother3 : ∀ t, isOtherTy t = true → t ≠ 3 := by intro t h e; subst e; simp [isOtherTy] at h
  have hotherlit : ∀ t (c : LitClass), isOtherTy t = true → c.ord ≠ t := by
    intro t c h e; subst e; rw [litOrd_not_other] at h; cases h
  cases a with
  | lit ca xa =>
    cases b with
    | lit cb xb =>
      simp only [tokLess, TokKey.ty, rank, lt4]
      by_cases e : ca.ord = cb.ord
      · simp only [e, ne_eq, not_true_eq_false, if_false, Nat.blt_eq]; fin4
      · simp only [e, ne_eq, not_false_eq_true, if_true, Nat.blt_eq]; fin4
    | other tb hb =>
      have e := hotherlit tb ca hb
      simp only [tokLess, TokKey.ty, rank, lt4, e, ne_eq, not_false_eq_true, if_true, Nat.blt_eq]; fin4
    | param rb ib =>
      have e := litOrd_ne_3 ca
      simp only [tokLess, TokKey.ty, rank, lt4, e, ne_eq, not_false_eq_true, if_true, Nat.blt_eq]; fin4
  | other ta ha =>
    cases b with
    | lit cb xb =>
      have e : ta ≠ cb.ord := fun h => hotherlit ta cb ha h.symm
      simp only [tokLess, TokKey.ty, rank, lt4, e, ne_eq, not_false_eq_true, if_true, Nat.blt_eq]; fin4
    | other tb hb =>
      simp only [tokLess, TokKey.ty, rank, lt4]
      by_cases e : ta = tb
      · simp [e]
      · simp only [e, ne_eq, not_false_eq_true, if_true, Nat.blt_eq]; fin4
    | param rb ib =>
      have e := hother3 ta ha
      simp only [tokLess, TokKey.ty, rank, lt4, e, ne_eq, not_false_eq_true, if_true, Nat.blt_eq]; fin4
  | param ra ia =>
    cases b with
    | lit cb xb =>
      have e : 3 ≠ cb.ord := fun h => litOrd_ne_3 cb h.symm
      simp only [tokLess, TokKey.ty, rank, lt4, e, ne_eq, not_false_eq_true, if_true, Nat.blt_eq]; fin4
    | other tb hb =>
      have e : 3 ≠ tb := fun h => hother3 tb hb h.symm
      simp only [tokLess, TokKey.ty, rank, lt4, e, ne_eq, not_false_eq_true, if_true, Nat.blt_eq]; fin4
    | param rb ib =>
      simp only [tokLess, TokKey.ty, rank, lt4, ne_eq, not_true_eq_false, if_false]
      cases ra <;> cases rb <;> cases hla : isList ia <;> cases hlb : isList ib <;>
        simp [Bool.toNat, Nat.blt_eq]

theorem tokEq_iff (name : Nat → Nat) (isList : Nat → Bool)
    (hinj : ∀ i j, isList i = isList j → name i = name j → i = j) (a b : TokKey) :
    tokEq a b = true ↔ rank name isList a = rank name isList b := by
  have hother3 : ∀ t, isOtherTy t = true → t ≠ 3 := by intro t h e; subst e; simp [isOtherTy] at h
  have hotherlit : ∀ t (c : LitClass), isOtherTy t = true → c.ord ≠ t := by
    intro t c h e; subst e; rw [litOrd_not_other] at h; cases h
  cases a with
  | lit ca xa =>
    cases b with
    | lit cb xb =>
      simp only [tokEq, rank, Bool.and_eq_true, beq_iff_eq, Prod.mk.injEq, true_and]
      constructor
      · rintro ⟨rfl, rfl⟩; exact ⟨rfl, rfl⟩
      · rintro ⟨h1, h2⟩; exact ⟨litOrd_inj _ _ h1, h2⟩
    | other tb hb => simp [tokEq, rank, hotherlit tb ca hb]
    | param rb ib => simp [tokEq, rank, litOrd_ne_3 ca]
  | other ta ha =>
    cases b with
    | lit cb xb =>
      have e : ta ≠ cb.ord := fun h => hotherlit ta cb ha h.symm
      simp [tokEq, rank, e]
    | other tb hb => simp [tokEq, rank]
    | param rb ib => simp [tokEq, rank, hother3 ta ha]
  | param ra ia =>
    cases b with
    | lit cb xb =>
      have e : 3 ≠ cb.ord := fun h => litOrd_ne_3 cb h.symm
      simp [tokEq, rank, e]
    | other tb hb =>
      have e : 3 ≠ tb := fun h => hother3 tb hb h.symm
      simp [tokEq, rank, e]
    | param rb ib =>
      simp only [tokEq, rank, Bool.and_eq_true, beq_iff_eq, Prod.mk.injEq, true_and]
      constructor
      · rintro ⟨rfl, rfl⟩; exact ⟨rfl, rfl, rfl⟩
      · rintro ⟨h1, h2, h3⟩
        have hr : ra = rb := by cases ra <;> cases rb <;> simp [Bool.toNat] at h1 <;> rfl
        have hl : isList ia = isList ib := by
          cases ha : isList ia <;> cases hb : isList ib <;> simp [ha, hb, Bool.toNat] at h2 <;> rfl
        exact ⟨hr, hinj ia ib hl h3⟩

/-- **Characterisation, direction 1.**  If distinct underlying parameter types never share
both list-ness and printed name, `tokenEqual`/`tokenLess` satisfy the contract the sorted map
relies on — and then every theorem above applies to the real alias store. -/
theorem token_compat (name : Nat → Nat) (isList : Nat → Bool)
    (hinj : ∀ i j, isList i = isList j → name i = name j → i = j) :
    Compat tokEq (tokLess name isList) := by
  have hl := tokLess_iff name isList
  have he := tokEq_iff name isList hinj
  have hlf : ∀ a b, tokLess name isList a b = false ↔ ¬ lt4 (rank name isList a) (rank name isList b) := by
    intro a b; rw [← hl]; simp
  refine ⟨?_, ?_, ?_, ?_⟩
  · intro a; rw [hlf]; unfold lt4; omega
  · intro a b c; rw [hl, hl, hl]; unfold lt4; omega
  · intro a b
    cases hab : tokLess name isList a b <;> cases hba : tokLess name isList b a <;>
      simp only [Bool.not_true, Bool.not_false, Bool.and_true, Bool.and_false, Bool.false_and]
    · rw [he]
      rw [hlf] at hab hba
      unfold lt4 at hab hba
      apply Prod.ext; · omega
      apply Prod.ext; · omega
      apply Prod.ext <;> omega
    · cases h : tokEq a b with
      | false => rfl
      | true => rw [he] at h; rw [hl, h] at hba; unfold lt4 at hba; omega
    · cases h : tokEq a b with
      | false => rfl
      | true => rw [he] at h; rw [hl, h] at hab; unfold lt4 at hab; omega
    · cases h : tokEq a b with
      | false => rfl
      | true => rw [he] at h; rw [hl, h] at hab; unfold lt4 at hab; omega
  · intro a b c; rw [he, he, he]; intro h1 h2; exact h1.trans h2

/-- the contract survives reading every key through a map (here: `GetUnderlying` on the
placeholder's type) -/
theorem compat_pullback {K K' : Type} {eq less : K → K → Bool} (hc : Compat eq less) (f : K' → K) :
    Compat (fun a b => eq (f a) (f b)) (fun a b => less (f a) (f b)) :=
  ⟨fun a => hc.irrefl (f a), fun a b c => hc.trans (f a) (f b) (f c), fun a b => hc.eq_iff (f a) (f b),
   fun a b c => hc.eq_trans (f a) (f b) (f c)⟩

/-- **Type aliases are transparent.**  Whatever aliases are declared (`under` = `GetUnderlying`
on type identities), the predicates on possibly-aliased placeholder types satisfy the contract
under the same condition on the *underlying* types: an alias introduces no new key, so
`Zeige <x>` over `Absatz = Text` is the alias `Zeige <x>` over `Text`. -/
theorem token_compat_aliases (under : Nat → Nat) (name : Nat → Nat) (isList : Nat → Bool)
    (hinj : ∀ i j, isList i = isList j → name i = name j → i = j) :
    Compat (tokEqU under) (tokLessU under name isList) :=
  compat_pullback (token_compat name isList hinj) (TokKey.resolve under)

/-- an alias of a type and the type itself are the same key -/
theorem alias_same_key (under : Nat → Nat) (r : Bool) (i j : Nat) (h : under i = under j) :
    tokEqU under (.param r i) (.param r j) = true := by
  simp [tokEqU, TokKey.resolve, tokEq, h]

/-- non-vacuity and the duplicate through an alias: with `4 ↦ 3` (an alias of type 3, printed under
another name) the pattern over type 4 finds the alias stored over type 3, among siblings 1, 2, 3 -/
example :
    let under : Nat → Nat := fun i => if i = 4 then 3 else i
    let eq := tokEqU under
    let less := tokLessU under (fun i => i) (fun _ => false)
    let pat (i : Nat) : List TokKey := [.lit .identifier 7, .param false i]
    let store := runInserts eq less [(pat 1, 1), (pat 2, 2), (pat 3, 3)]
    aliasExists eq less (pat 4) store = some 3 := by decide +kernel

/-- **Characterisation, direction 2.**  Two distinct underlying types with equal list-ness
and equal printed name (e.g. same-named Kombinationen of different modules) break the contract:
as placeholders they are neither `eq` nor ordered. -/
theorem token_incompat (name : Nat → Nat) (isList : Nat → Bool) (i j : Nat) (hij : i ≠ j)
    (hl : isList i = isList j) (hn : name i = name j) : ¬ Compat tokEq (tokLess name isList) := by
  intro hc
  have h := hc.eq_iff (.param false i) (.param false j)
  simp [tokEq, tokLess, TokKey.ty, hl, hn] at h
  cases hb : (name j).blt (name j) with
  | true => rw [Nat.blt_eq] at hb; exact Nat.lt_irrefl _ hb
  | false => rw [hb] at h; simp at h; exact hij h

/-! ### the failure in the wild (witness for the unchanged tree) -/

/-- Placeholder types with the same printed name, inserted after the literal `zeige`
(`name = const`, no lists): with three such aliases the third, with four the fourth is
inserted but can no longer be found (`Get` misses a key that is in the map), so a duplicate
of it would be accepted, and a call to it makes `Search` dereference the nil child —
`alias_trie/trie.go:115`. -/
theorem token_incompat_witness :
    let eq := tokEq
    let less := tokLess (fun _ => 0) (fun _ => false)
    let pat (i : Nat) : List TokKey := [.lit .identifier 7, .param false i]
    let store3 := runInserts eq less [(pat 1, 1), (pat 2, 2), (pat 3, 3)]
    let store4 := runInserts eq less [(pat 1, 1), (pat 2, 2), (pat 3, 3), (pat 4, 4)]
    aliasExists eq less (pat 2) store3 = some 2 ∧ aliasExists eq less (pat 3) store3 = none ∧
    searchExact eq less (pat 3) store3 [] = SearchResult.nilDeref ∧
    aliasExists eq less (pat 3) store4 = some 3 ∧ aliasExists eq less (pat 4) store4 = none ∧
    searchExact eq less (pat 4) store4 [] = SearchResult.nilDeref := by decide +kernel

/-- non-vacuity of `Compat` for the real predicates: with distinct names everything works -/
example :
    let eq := tokEq
    let less := tokLess (fun i => i) (fun _ => false)
    let pat (i : Nat) : List TokKey := [.lit .identifier 7, .param false i]
    let store := runInserts eq less [(pat 1, 1), (pat 2, 2), (pat 3, 3), (pat 4, 4)]
    aliasExists eq less (pat 4) store = some 4 ∧
    searchExact eq less (pat 4) store [] = SearchResult.values [4] := by decide +kernel

end DDP.C20

import DDP.Impl.Abi
import DDP.Impl.AbiLayout

/-!
# C18 — foreign C functions see the published value representation
-/

namespace DDP.Abi
open DDP.Spec

/-- Zahl, Kommazahl, Byte, Wahrheitswert and Buchstabe travel by value -/
theorem primitives_by_value (t : Ty) (h : isPrimitive t = true) : passParam t false = .byValue (ctype t) := by
  simp [passParam, h]

/-- Text, lists, Kombinationen and Variable travel by pointer -/
theorem nonprimitives_by_pointer (t : Ty) (h : isPrimitive t = false) (r : Bool) : passParam t r = .byPointer (ctype t) := by
  simp [passParam, h]

/-- a Referenz parameter is always a pointer (to the caller's own storage), also for primitives -/
theorem referenz_is_pointer (t : Ty) : passParam t true = .byPointer (ctype t) := by
  simp [passParam]

/-- a non-primitive result comes back through a leading out-pointer and the C function returns void -/
theorem nonprimitive_result_out_pointer (params : List (Ty × Bool)) (ret : Ty) (h1 : ret ≠ .nichts) (h2 : isPrimitive ret = false) :
    (signature params ret).ret = "void" ∧ (signature params ret).params.head? = some (.byPointer (ctype ret)) ∧
      (signature params ret).params.length = params.length + 1 := by
  simp [signature, h1, h2]

theorem primitive_result_by_value (params : List (Ty × Bool)) (ret : Ty) (h : isPrimitive ret = true) :
    (signature params ret).ret = ctype ret ∧ (signature params ret).params.length = params.length := by
  have : ret ≠ .nichts := by intro e; subst e; simp [isPrimitive] at h
  simp [signature, h, this]

theorem no_result (params : List (Ty × Bool)) : (signature params .nichts).ret = "void" ∧ (signature params .nichts).params.length = params.length := by
  simp [signature]

/-- the parameters keep their order (after the out-pointer, if any) -/
theorem parameter_order (params : List (Ty × Bool)) (ret : Ty) (i : Nat) (p : Ty × Bool) (h : params[i]? = some p) :
    ∃ k, (signature params ret).params[i + k]? = some (passParam p.1 p.2) ∧ k ≤ 1 := by
  unfold signature
  simp only []
  split
  · exact ⟨0, by simp [h], by omega⟩
  · split
    · exact ⟨0, by simp [h], by omega⟩
    · exact ⟨1, by simp [h], by omega⟩

/-- the five primitive types are exactly the ones passed by value -/
theorem by_value_iff (t : Ty) : (∃ c, passParam t false = .byValue c) ↔ isPrimitive t = true := by
  unfold passParam
  cases h : isPrimitive t <;> simp

example : (signature [(.zahl, false), (.text, false), (.zahl, true)] .text).toC "f" = "void f(ddpstring *, ddpint, ddpstring *, ddpint *)" := by decide


section Layout
open DDP.Generated.Abi


/-! ## The published layout is the generated layout (over the facts regenerated from the source on every run) -/

/-- every primitive has the same width, and is the same kind of scalar, in the generated code and in the header -/
theorem prim_widths_agree :
    goPrims.map (fun (n, t) => (n, irWidth t)) = cPrims.map (fun (n, t) => (n, cWidth t)) ∧
    (goPrims.map fun (_, t) => irWidth t).all Option.isSome = true := by decide

theorem prim_kinds_agree :
    (goPrims.zip cPrims).all (fun ((n, g), (m, c)) => n == m &&
      (irKind g == cKind c || (irKind g == "int" && (cKind c == "sint" || cKind c == "uint")))) = true := by decide

/-- a Byte is the only unsigned integer: the generated code must zero-extend it, never sign-extend -/
theorem byte_unsigned_in_header : (cPrims.lookup "ddpbyte").map cKind = some "uint" ∧ (cPrims.lookup "ddpint").map cKind = some "sint" := by decide

/-- `ddpstring` is {pointer, 64-bit capacity} on both sides, and the code generator's field indices name `str` and `cap` -/
theorem layout_string :
    goStructs.lookup "ddpstring" = cClasses "ddpstring" ∧
    (goFieldIndex.lookup "string_str_field_index").bind (cFieldNameAt "ddpstring") = some "str" ∧
    (goFieldIndex.lookup "string_cap_field_index").bind (cFieldNameAt "ddpstring") = some "cap" := by decide

/-- every published list struct is {pointer to the element type, length, capacity} — the struct `createListType` builds —
and the code generator's `list_*_field_index` constants select `arr`, `len`, `cap` in each of them -/
theorem layout_lists :
    publishedLists.all (fun (name, elem) =>
      cClasses name == goStructs.lookup "list" &&
      cListElem name == some elem &&
      (goFieldIndex.lookup "list_arr_field_index").bind (cFieldNameAt name) == some "arr" &&
      (goFieldIndex.lookup "list_len_field_index").bind (cFieldNameAt name) == some "len" &&
      (goFieldIndex.lookup "list_cap_field_index").bind (cFieldNameAt name) == some "cap") = true ∧
    goStructs.lookup "ddpgenericlist" = goStructs.lookup "list" := by decide

/-- no list struct of the header is missed by `publishedLists` -/
theorem lists_complete :
    (cStructs.map Prod.fst).filter (fun n => n != "ddpstring" && n != "ddpvtable" && n != "ddpany") = publishedLists.map Prod.fst := by decide

/-- `ddpany` is {vtable pointer, 16-byte buffer}; the buffer is what `DDP_SMALL_ANY_BUFF_SIZE` says -/
theorem layout_any :
    goStructs.lookup "ddpany" = cClasses "ddpany" ∧
    (goFieldIndex.lookup "any_vtable_ptr_index").bind (cFieldNameAt "ddpany") = some "vtable_ptr" ∧
    goFieldIndex.lookup "any_value_index" = some 1 ∧
    classWidth "bytes16" = some cSmallAnyBuffSize := by decide

/-- the vtable the generated code emits for a type is the header's `ddpvtable` -/
theorem layout_vtable : goStructs.lookup "vtable" = cClasses "ddpvtable" ∧
    cFieldNames "ddpvtable" = some ["type_size", "free_func", "deep_copy_func", "equal_func"] := by decide

/-- the sizes the header asserts (and the ones foreign code computes with `sizeof`) follow from the generated layout -/
theorem sizes :
    cSizeAsserts.all (fun (n, sz) => (goStructs.lookup n).bind structSize == some sz) = true ∧
    (goStructs.lookup "ddpstring").bind structSize = some 16 ∧
    (goStructs.lookup "list").bind structSize = some 24 ∧
    (goStructs.lookup "ddpany").bind structSize = some 24 := by decide

/-- `toIrParamType` (regenerated truth table) is `passParam` of the model: by value exactly for a primitive that is no Referenz -/
theorem passing_is_generated (t : Ty) (isRef : Bool) :
    goPassing isRef (isPrimitive t) = some (passParam t isRef).cls := by
  cases isRef <;> cases h : isPrimitive t <;> simp [passParam, h, Pass.cls, goPassing, goParamPassing]

/-- what a Referenz parameter is for the C side: the header's `…ref` typedef is a pointer to the value type itself -/
theorem refs_point_to_values :
    cRefs.all (fun (r, pointee) => r == pointee ++ "ref" || (r == "ddpgenericref" && pointee == "void")) = true := by decide

/-- every non-Kombination type of the model has its `…ref` typedef -/
theorem ref_typedef_exists :
    [Ty.zahl, .komma, .byte, .wahr, .buchstabe, .text, .variable, .liste .zahl, .liste .komma, .liste .byte, .liste .wahr,
      .liste .buchstabe, .liste .text, .liste .variable].all (fun t => cRefs.lookup (ctype t ++ "ref") == some (ctype t)) = true := by decide

/-- growth of list capacity: the constants of the header (`DDP_GROW_CAPACITY`) -/
theorem growth_constants : cBaseCapacity = 8 ∧ cGrowthFactorTenths = 15 := by decide

/-- the formats foreign code prints primitives with -/
theorem formats : cFormats.lookup "DDP_INT_FMT" = some "%lld" ∧ cFormats.lookup "DDP_BYTE_FMT" = some "%hhu" ∧
    cFormats.lookup "DDP_FLOAT_FMT" = some "%.16g" := by decide


end Layout

end DDP.Abi

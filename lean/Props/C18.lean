import DDP.Impl.Abi

/-!
# C18 — foreign C functions see the published value representation
-/

namespace DDP.Abi
open DDP.Spec

/-- Zahl, Kommazahl, Byte, Wahrheitswert and Buchstabe travel by value -/
theorem primitives_by_value (t : Ty) (h : isPrimitive t = true) : passParam t false = .byValue (ctype t) := by
  simp [passParam, h]

/-- Text, lists, Kombinationen and Variable travel by pointer -/
theorem nonprimitives_by_pointer (t : Ty) (h : isPrimitive t = false) (r : Bool) : passParam t r = .byPointer (ctype t) := by
  simp [passParam, h]

/-- a Referenz parameter is always a pointer (to the caller's own storage), also for primitives -/
theorem referenz_is_pointer (t : Ty) : passParam t true = .byPointer (ctype t) := by
  simp [passParam]

/-- a non-primitive result comes back through a leading out-pointer and the C function returns void -/
theorem nonprimitive_result_out_pointer (params : List (Ty × Bool)) (ret : Ty) (h1 : ret ≠ .nichts) (h2 : isPrimitive ret = false) :
    (signature params ret).ret = "void" ∧ (signature params ret).params.head? = some (.byPointer (ctype ret)) ∧
      (signature params ret).params.length = params.length + 1 := by
  simp [signature, h1, h2]

theorem primitive_result_by_value (params : List (Ty × Bool)) (ret : Ty) (h : isPrimitive ret = true) :
    (signature params ret).ret = ctype ret ∧ (signature params ret).params.length = params.length := by
  have : ret ≠ .nichts := by intro e; subst e; simp [isPrimitive] at h
  simp [signature, h, this]

theorem no_result (params : List (Ty × Bool)) : (signature params .nichts).ret = "void" ∧ (signature params .nichts).params.length = params.length := by
  simp [signature]

/-- the parameters keep their order (after the out-pointer, if any) -/
theorem parameter_order (params : List (Ty × Bool)) (ret : Ty) (i : Nat) (p : Ty × Bool) (h : params[i]? = some p) :
    ∃ k, (signature params ret).params[i + k]? = some (passParam p.1 p.2) ∧ k ≤ 1 := by
  unfold signature
  simp only []
  split
  · exact ⟨0, by simp [h], by omega⟩
  · split
    · exact ⟨0, by simp [h], by omega⟩
    · exact ⟨1, by simp [h], by omega⟩

/-- the five primitive types are exactly the ones passed by value -/
theorem by_value_iff (t : Ty) : (∃ c, passParam t false = .byValue c) ↔ isPrimitive t = true := by
  unfold passParam
  cases h : isPrimitive t <;> simp

example : (signature [(.zahl, false), (.text, false), (.zahl, true)] .text).toC "f" = "void f(ddpstring *, ddpint, ddpstring *, ddpint *)" := by decide

end DDP.Abi

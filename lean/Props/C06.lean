import DDP.Impl.Bounds
import DDP.Proofs.TextRT

/-!
# C06 — out-of-domain operations stop with a Laufzeitfehler, never silently

The list checks are theorems over the *regenerated* comparison facts
(`DDP.Generated.BoundsFacts`, extracted from `compiler.go` / `list_types.go` on every run),
interpreted over all 2^64 × 2^64 machine values.  Text checks are theorems over the L1
model of the C runtime (shared with C12).
-/

namespace DDP.C06
open DDP.Generated

theorem slt_iff (a b : BitVec 64) : a.slt b = true ↔ a.toInt < b.toInt := by simp [BitVec.slt]
theorem sle_iff (a b : BitVec 64) : a.sle b = true ↔ a.toInt ≤ b.toInt := by simp [BitVec.sle]

/-- the arithmetic core shared by both index checks -/
theorem idx_core (idx len : BitVec 64) (hlen : 0 ≤ len.toInt) :
    (((idx - 1#64).slt len && (0#64).sle (idx - 1#64)) = true ↔ 1 ≤ idx.toInt ∧ idx.toInt ≤ len.toInt) ∧
    (1 ≤ idx.toInt ∧ idx.toInt ≤ len.toInt → (idx - 1#64).toInt = idx.toInt - 1) := by
  have h1 := idx.isLt
  have h2 := len.isLt
  simp only [BitVec.slt, BitVec.sle, BitVec.toInt_eq_toNat_cond, BitVec.toNat_sub, BitVec.toNat_ofNat,
    Bool.and_eq_true, decide_eq_true_eq, Nat.reducePow, Nat.reduceMod] at *
  omega

/-- **List index, value position** (`l an der Stelle i`): for every index and every
(non-negative) length the emitted check passes exactly for `1 ≤ index ≤ length`, and then
the element accessed is `index - 1`, inside the list.  All 2^128 pairs, including
`index = -2^63`, where `index - 1` wraps around to `2^63 - 1`. -/
theorem rvalue_index_correct (idx len : BitVec 64) (hlen : 0 ≤ len.toInt) :
    ((rvalueIndexCheck.eval idx len).1 = true ↔ 1 ≤ idx.toInt ∧ idx.toInt ≤ len.toInt) ∧
    (1 ≤ idx.toInt ∧ idx.toInt ≤ len.toInt → (rvalueIndexCheck.eval idx len).2.toInt = idx.toInt - 1) := by
  have e : rvalueIndexCheck.eval idx len = ((idx - 1#64).slt len && (0#64).sle (idx - 1#64), idx - 1#64) := by
    simp [rvalueIndexCheck, IdxCheckFact.eval, ICmpFact.eval, Opnd.eval, IPred.eval, envSet]
  rw [e]; exact idx_core idx len hlen

/-- **List index, assignment target / Referenz argument / nested indexing** -/
theorem lvalue_index_correct (idx len : BitVec 64) (hlen : 0 ≤ len.toInt) :
    ((lvalueIndexCheck.eval idx len).1 = true ↔ 1 ≤ idx.toInt ∧ idx.toInt ≤ len.toInt) ∧
    (1 ≤ idx.toInt ∧ idx.toInt ≤ len.toInt → (lvalueIndexCheck.eval idx len).2.toInt = idx.toInt - 1) := by
  have e : lvalueIndexCheck.eval idx len = ((idx - 1#64).slt len && (0#64).sle (idx - 1#64), idx - 1#64) := by
    simp [lvalueIndexCheck, IdxCheckFact.eval, ICmpFact.eval, Opnd.eval, IPred.eval, envSet]
  rw [e]; exact idx_core idx len hlen

/-- a Byte index is zero-extended before the check (`floatOrByteAsInt`): same statement on 0…255 -/
theorem byte_index_correct (b : BitVec 8) (len : BitVec 64) (hlen : 0 ≤ len.toInt) :
    (rvalueIndexCheck.eval (b.zeroExtend 64) len).1 = true ↔ 1 ≤ b.toNat ∧ (b.toNat : Int) ≤ len.toInt := by
  have h := (rvalue_index_correct (b.zeroExtend 64) len hlen).1
  have hb : (b.zeroExtend 64).toInt = b.toNat := by
    have := b.isLt
    simp [BitVec.toInt_eq_toNat_cond, BitVec.toNat_setWidth]
    omega
  rw [hb] at h
  rw [h]; omega

/-! ### list slices -/

/-- DDP's documented clamping of a slice bound into `lo … hi` -/
def clampZ (i lo hi : Int) : Int := let t := if i < lo then lo else i; if t > hi then hi else t

/-- the clamp closure as emitted, on machine integers -/
def clampBV (i len : BitVec 64) : BitVec 64 :=
  if len.slt (if i.slt 1#64 then 1#64 else i) then len else (if i.slt 1#64 then 1#64 else i)

theorem clampBV_toInt (i len : BitVec 64) : (clampBV i len).toInt = clampZ i.toInt 1 len.toInt := by
  have one : (1#64 : BitVec 64).toInt = 1 := by decide
  unfold clampBV clampZ
  simp only
  by_cases h1 : i.slt 1#64 = true
  · have h1' := (slt_iff _ _).mp h1
    rw [one] at h1'
    simp only [h1, if_true, h1']
    by_cases h2 : len.slt 1#64 = true
    · have h2' := (slt_iff _ _).mp h2
      rw [one] at h2'
      simp only [h2, if_true]
      have : (1 : Int) > len.toInt := by omega
      simp only [this, if_true]
    · have h2' : ¬ (len.toInt < 1) := by rw [← one, ← slt_iff]; exact h2
      have h2f : len.slt 1#64 = false := by simpa using h2
      have : ¬ ((1 : Int) > len.toInt) := by omega
      simp only [h2f, Bool.false_eq_true, if_false, this, one]
  · have h1' : ¬ (i.toInt < 1) := by rw [← one, ← slt_iff]; exact h1
    have h1f : i.slt 1#64 = false := by simpa using h1
    simp only [h1f, if_false, h1', Bool.false_eq_true]
    by_cases h2 : len.slt i = true
    · have h2' := (slt_iff _ _).mp h2
      simp only [h2, if_true]
      have : i.toInt > len.toInt := by omega
      simp only [this, if_true]
    · have h2' : ¬ (len.toInt < i.toInt) := by rw [← slt_iff]; exact h2
      have h2f : len.slt i = false := by simpa using h2
      have : ¬ (i.toInt > len.toInt) := by omega
      simp only [h2f, Bool.false_eq_true, if_false, this]

theorem slice_unfold (i1 i2 len : BitVec 64) :
    listSliceFacts.eval i1 i2 len =
      if len.sle 0#64 then .empty
      else if (clampBV i2 len).slt (clampBV i1 len) then .error
      else .copy (clampBV i1 len - 1#64) (clampBV i2 len - 1#64 - (clampBV i1 len - 1#64) + 1#64) := by
  simp [listSliceFacts, SliceFacts.eval, SliceFacts.applyClamp, SliceFacts.applySub, SliceFacts.clamp,
    TernaryFact.eval, ICmpFact.eval, Opnd.eval, IPred.eval, envSet]
  rfl

/-- **List slices** (`im Bereich von … bis …`, `ab dem …`, `bis zum …` all call the generated
`ddp_x_slice`): empty list → empty result; otherwise both bounds are clamped into
`1 … length`; crossed bounds (after clamping) → Laufzeitfehler; else exactly the elements
`a … b` are copied — `b - a + 1` elements starting at 0-based `a - 1`, all inside the list. -/
theorem slice_correct (i1 i2 len : BitVec 64) (hlen : 0 ≤ len.toInt) :
    match listSliceFacts.eval i1 i2 len with
    | .empty => len.toInt = 0
    | .error => 0 < len.toInt ∧ clampZ i2.toInt 1 len.toInt < clampZ i1.toInt 1 len.toInt
    | .copy first count =>
      0 < len.toInt ∧ clampZ i1.toInt 1 len.toInt ≤ clampZ i2.toInt 1 len.toInt ∧
      first.toInt = clampZ i1.toInt 1 len.toInt - 1 ∧
      count.toInt = clampZ i2.toInt 1 len.toInt - clampZ i1.toInt 1 len.toInt + 1 ∧
      0 ≤ first.toInt ∧ first.toInt + count.toInt ≤ len.toInt := by
  rw [slice_unfold]
  have ha := clampBV_toInt i1 len
  have hb := clampBV_toInt i2 len
  generalize clampBV i1 len = a at *
  generalize clampBV i2 len = b at *
  have hA : 0 < len.toInt → 1 ≤ clampZ i1.toInt 1 len.toInt ∧ clampZ i1.toInt 1 len.toInt ≤ len.toInt := by
    intro h; unfold clampZ; simp only; repeat' split
    all_goals omega
  have hB : 0 < len.toInt → 1 ≤ clampZ i2.toInt 1 len.toInt ∧ clampZ i2.toInt 1 len.toInt ≤ len.toInt := by
    intro h; unfold clampZ; simp only; repeat' split
    all_goals omega
  generalize clampZ i1.toInt 1 len.toInt = A at *
  generalize clampZ i2.toInt 1 len.toInt = B at *
  by_cases he : len.sle 0#64 = true
  · rw [if_pos he]
    rw [sle_iff] at he
    have z : (0#64 : BitVec 64).toInt = 0 := by decide
    rw [z] at he
    show len.toInt = 0
    omega
  · rw [if_neg he]
    have hpos : 0 < len.toInt := by
      rw [sle_iff] at he
      have z : (0#64 : BitVec 64).toInt = 0 := by decide
      rw [z] at he
      omega
    obtain ⟨hA1, hA2⟩ := hA hpos
    obtain ⟨hB1, hB2⟩ := hB hpos
    by_cases hc : b.slt a = true
    · rw [if_pos hc]
      rw [slt_iff] at hc
      exact ⟨hpos, by omega⟩
    · rw [if_neg hc]
      rw [slt_iff] at hc
      have hl := len.isLt
      have h1 := a.isLt
      have h2 := b.isLt
      simp only [BitVec.toInt_eq_toNat_cond, BitVec.toNat_sub, BitVec.toNat_add, BitVec.toNat_ofNat,
        Nat.reducePow, Nat.reduceMod] at *
      refine ⟨hpos, by omega, ?_, ?_, ?_, ?_⟩ <;> omega

/-! ### texts (C runtime, shared with C12) -/
open DDP.TextRT DDP.Utf8 in
/-- `Text an der Stelle i` errors exactly outside `1 … length` (code points), for every
64-bit index; inside it yields the i-th code point -/
theorem text_index_correct (cps : List Nat) (h : WfCps cps) (i : Int) :
    (index (TextRT.repr cps) i = .err ↔ ¬ (1 ≤ i ∧ i ≤ cps.length)) := by
  rw [index_repr cps h i]
  by_cases hr : 1 ≤ i ∧ i ≤ (cps.length : Int)
  · rw [if_pos hr]
    have hk : (i - 1).toNat < cps.length := by omega
    rw [List.getElem?_eq_getElem hk]
    simp [hr]
  · rw [if_neg hr]; simp [hr]

open DDP.TextRT DDP.Utf8 in
/-- replacing a code point errors exactly outside `1 … length` -/
theorem text_replace_correct (cps : List Nat) (h : WfCps cps) (c : Nat) (hs : isScalar c = true) (h0 : c ≠ 0)
    (i : Int) : (replaceChar (TextRT.repr cps) (c : Int) i = .err ↔ ¬ (1 ≤ i ∧ i ≤ cps.length)) := by
  rw [replace_repr cps h c hs h0 i]
  by_cases hr : 1 ≤ i ∧ i ≤ (cps.length : Int)
  · rw [if_pos hr]; simp [hr]
  · rw [if_neg hr]; simp [hr]

open DDP.TextRT DDP.Utf8 in
/-- text slices: clamped like list slices, error exactly on crossed bounds of a non-empty text -/
theorem text_slice_correct (cps : List Nat) (h : WfCps cps) (i j : Int) :
    (slice (TextRT.repr cps) i j = .err ↔
      (cps ≠ [] ∧ clampI j 1 cps.length < clampI i 1 cps.length)) := by
  rw [slice_repr cps h i j]
  cases cps with
  | nil => simp
  | cons c cs =>
    simp only [List.isEmpty_cons, Bool.false_eq_true, if_false, ne_eq, reduceCtorEq, not_false_eq_true, true_and]
    split <;> simp_all

end DDP.C06

import DDP.Proofs.Lowering

/-!
# C02 — every program the front end accepts is compiled completely (operator table)

`DDP.Checker.admits` models the operator rules of the type checker over *all* type terms
(aliases, definitions, lists, Kombinationen of any nesting), `DDP.Lowering.lowerTy` the
lowering table of the code generator over IR types, `toIr` the translation of types.
Both are tied to the code by the exhaustive cell correspondence of `./check C02`.

Statement shape: if the checker admits `op` on operand types `ts` with result type `τ`, and
the operand types have IR types (`toIr`; undefined only for lists of lists — a recorded
finding), then the lowering has a case for those IR types whose instruction is well-typed,
and its result IR type is the IR type of `τ`.
-/

namespace DDP.C02
open DDP.Types DDP.Checker DDP.Lowering

theorem equal_comm (a b : Ty) : equal a b = equal b a := by
  show (getUnderlying a == getUnderlying b) = (getUnderlying b == getUnderlying a)
  rw [Bool.eq_iff_iff, beq_iff_eq, beq_iff_eq]; exact eq_comm

theorem isOneOf_zb (t : Ty) (h : isOneOf t [zahl, byte] = true) : isOneOf t [zahl, komma, byte] = true := by
  simp only [isOneOf, List.any_cons, List.any_nil, Bool.or_false, Bool.or_eq_true] at h ⊢
  rcases h with h | h <;> simp [h]

theorem wahr_ir (t : Ty) (h : isOneOf t [wahr] = true) : toIr t = some .bool := by
  simp only [isOneOf, List.any_cons, List.any_nil, Bool.or_false] at h
  exact toIr_prim t _ h

/-- **Unary operators** -/
theorem accepted_lowers_unary (op : Op) (t τ : Ty) (i : IrTy)
    (ha : admits op [t] = some τ) (hi : toIr t = some i) :
    ∃ r, lowerTy op [i] = some r ∧ toIr τ = some r := by
  have numeric : isNumeric t = true → (if equal t byte = true then zahl else t) = τ →
      ∃ r, (match i with | .float => some IrTy.float | .int => some .int | .byte => some .int | _ => none) = some r ∧
        toIr τ = some r := by
    intro hn hτ
    rw [isNumeric_iff] at hn
    obtain ⟨n, hg, hir⟩ := numKind_of t hn
    rw [hir] at hi; cases hi
    rw [equal_kind_b t n hg] at hτ
    cases n
    · simp at hτ; subst hτ; exact ⟨.int, rfl, hir⟩
    · simp at hτ; subst hτ; exact ⟨.float, rfl, hir⟩
    · simp at hτ; subst hτ; exact ⟨.int, rfl, rfl⟩
  cases op <;> simp only [admits, reduceCtorEq] at ha
  · -- abs
    split at ha
    · next hn => exact numeric hn (Option.some.inj ha)
    · cases ha
  · -- negate
    split at ha
    · next hn => exact numeric hn (Option.some.inj ha)
    · cases ha
  · -- not
    split at ha
    · next h => cases ha; rw [wahr_ir t h] at hi; cases hi; exact ⟨.bool, rfl, rfl⟩
    · cases ha
  · -- logicNot
    split at ha
    · next h =>
      cases ha
      obtain ⟨n, hk, hg, hir⟩ := zbKind_of t h
      rw [hir] at hi; cases hi
      cases n
      · exact ⟨.int, rfl, hir⟩
      · exact absurd rfl hk
      · exact ⟨.byte, rfl, hir⟩
    · cases ha
  · -- len
    split at ha
    · next h =>
      cases ha
      simp only [Bool.or_eq_true] at h
      rcases h with h | h
      · obtain ⟨e, hg⟩ := (isList_iff t).mp h
        obtain ⟨x, hx, _, _⟩ := toIr_elem t e i hg hi
        subst hx; exact ⟨.int, by simp [lowerTy, isListIr], rfl⟩
      · rw [toIr_prim t _ h] at hi; cases hi; exact ⟨.int, rfl, rfl⟩
    · cases ha

/-- result type of plus/minus/mal, checker versus lowering, on the nine numeric combinations -/
theorem arith_cell (l r τ : Ty) (li ri : IrTy) (hv : validate2 l r [zahl, komma, byte] = true)
    (hτ : (if (equal l zahl && equal r zahl) = true then zahl
        else if (equal l byte && equal r byte) = true then byte
        else if (equal l komma || equal r komma) = true then komma else zahl) = τ)
    (hl : toIr l = some li) (hr : toIr r = some ri) :
    ∃ x, arithIr li ri = some x ∧ toIr τ = some x := by
  simp only [validate2, Bool.and_eq_true] at hv
  obtain ⟨n, hgl, hil⟩ := numKind_of l hv.1
  obtain ⟨m, hgr, hir⟩ := numKind_of r hv.2
  rw [hil] at hl; cases hl
  rw [hir] at hr; cases hr
  rw [equal_kind_z l n hgl, equal_kind_z r m hgr, equal_kind_b l n hgl, equal_kind_b r m hgr,
    equal_kind_k l n hgl, equal_kind_k r m hgr] at hτ
  cases n <;> cases m <;> simp at hτ <;> subst hτ <;> exact ⟨_, rfl, rfl⟩

/-- two operands validated as numeric have numeric IR types -/
theorem num2 (l r : Ty) (li ri : IrTy) (hv : validate2 l r [zahl, komma, byte] = true)
    (hl : toIr l = some li) (hr : toIr r = some ri) : numericIr li = true ∧ numericIr ri = true := by
  simp only [validate2, Bool.and_eq_true] at hv
  obtain ⟨n, _, hil⟩ := numKind_of l hv.1
  obtain ⟨m, _, hir⟩ := numKind_of r hv.2
  rw [hil] at hl; cases hl
  rw [hir] at hr; cases hr
  cases n <;> cases m <;> exact ⟨rfl, rfl⟩

/-- result of modulo and the bitwise operators -/
theorem zb_cell (l r τ : Ty) (li ri : IrTy) (hv : validate2 l r [zahl, byte] = true)
    (hτ : (if isOneOf zahl [l, r] = true then zahl else byte) = τ)
    (hl : toIr l = some li) (hr : toIr r = some ri) :
    ∃ x, (if (li = .byte && ri = .byte) then some IrTy.byte else if (numericIr li && numericIr ri) then some .int else none) = some x ∧
      toIr τ = some x := by
  simp only [validate2, Bool.and_eq_true] at hv
  obtain ⟨n, hn, hgl, hil⟩ := zbKind_of l hv.1
  obtain ⟨m, hm, hgr, hir⟩ := zbKind_of r hv.2
  rw [hil] at hl; cases hl
  rw [hir] at hr; cases hr
  have e1 : equal zahl l = decide (n = .z) := by rw [equal_comm]; exact equal_kind_z l n hgl
  have e2 : equal zahl r = decide (m = .z) := by rw [equal_comm]; exact equal_kind_z r m hgr
  simp only [isOneOf, List.any_cons, List.any_nil, Bool.or_false, e1, e2] at hτ
  cases n <;> cases m <;> simp at hτ hn hm <;> subst hτ <;> exact ⟨_, rfl, rfl⟩

/-- **Binary operators on numbers and truth values, comparisons, equality** -/
theorem accepted_lowers_binary_scalar (op : Op) (l r τ : Ty) (li ri : IrTy)
    (hop : op ∉ [Op.concat, Op.index, Op.sliceFrom, Op.sliceTo])
    (ha : admits op [l, r] = some τ) (hl : toIr l = some li) (hr : toIr r = some ri) :
    ∃ x, lowerTy op [li, ri] = some x ∧ toIr τ = some x := by
  cases op <;> simp only [admits, reduceCtorEq] at ha <;> simp at hop
  · -- and
    split at ha
    · next h =>
      cases ha
      simp only [validate2, Bool.and_eq_true] at h
      rw [wahr_ir l h.1] at hl; cases hl
      rw [wahr_ir r h.2] at hr; cases hr
      exact ⟨.bool, rfl, rfl⟩
    · cases ha
  · -- or
    split at ha
    · next h =>
      cases ha
      simp only [validate2, Bool.and_eq_true] at h
      rw [wahr_ir l h.1] at hl; cases hl
      rw [wahr_ir r h.2] at hr; cases hr
      exact ⟨.bool, rfl, rfl⟩
    · cases ha
  · -- xor
    split at ha
    · next h =>
      cases ha
      simp only [validate2, Bool.and_eq_true] at h
      rw [wahr_ir l h.1] at hl; cases hl
      rw [wahr_ir r h.2] at hr; cases hr
      exact ⟨.bool, rfl, rfl⟩
    · cases ha
  · -- plus
    split at ha
    · next h => exact arith_cell l r τ li ri h (Option.some.inj ha) hl hr
    · cases ha
  · -- minus
    split at ha
    · next h => exact arith_cell l r τ li ri h (Option.some.inj ha) hl hr
    · cases ha
  · -- mult
    split at ha
    · next h => exact arith_cell l r τ li ri h (Option.some.inj ha) hl hr
    · cases ha
  · -- div
    split at ha
    · next h => cases ha; obtain ⟨a, b⟩ := num2 l r li ri h hl hr; exact ⟨.float, by simp [lowerTy, a, b], rfl⟩
    · cases ha
  · -- pow
    split at ha
    · next h => cases ha; obtain ⟨a, b⟩ := num2 l r li ri h hl hr; exact ⟨.float, by simp [lowerTy, a, b], rfl⟩
    · cases ha
  · -- log
    split at ha
    · next h => cases ha; obtain ⟨a, b⟩ := num2 l r li ri h hl hr; exact ⟨.float, by simp [lowerTy, a, b], rfl⟩
    · cases ha
  · -- logicAnd
    split at ha
    · next h => exact zb_cell l r τ li ri h (Option.some.inj ha) hl hr
    · cases ha
  · -- logicOr
    split at ha
    · next h => exact zb_cell l r τ li ri h (Option.some.inj ha) hl hr
    · cases ha
  · -- logicXor
    split at ha
    · next h => exact zb_cell l r τ li ri h (Option.some.inj ha) hl hr
    · cases ha
  · -- mod
    split at ha
    · next h => exact zb_cell l r τ li ri h (Option.some.inj ha) hl hr
    · cases ha
  · -- shl
    split at ha
    · next h =>
      cases ha
      simp only [validate2, Bool.and_eq_true] at h
      obtain ⟨n, hn, _, hil⟩ := zbKind_of l h.1
      obtain ⟨m, _, _, hir⟩ := zbKind_of r h.2
      rw [hil] at hl; cases hl
      rw [hir] at hr; cases hr
      cases n <;> cases m <;> simp at hn <;> exact ⟨_, rfl, hil⟩
    · cases ha
  · -- shr
    split at ha
    · next h =>
      cases ha
      simp only [validate2, Bool.and_eq_true] at h
      obtain ⟨n, hn, _, hil⟩ := zbKind_of l h.1
      obtain ⟨m, _, _, hir⟩ := zbKind_of r h.2
      rw [hil] at hl; cases hl
      rw [hir] at hr; cases hr
      cases n <;> cases m <;> simp at hn <;> exact ⟨_, rfl, hil⟩
    · cases ha
  · -- eq
    split at ha
    · next h =>
      cases ha
      have := toIr_of_equal l r h
      rw [hl, hr] at this; cases this
      exact ⟨.bool, by simp [lowerTy], rfl⟩
    · cases ha
  · -- ne
    split at ha
    · next h =>
      cases ha
      have := toIr_of_equal l r h
      rw [hl, hr] at this; cases this
      exact ⟨.bool, by simp [lowerTy], rfl⟩
    · cases ha
  · -- lt
    split at ha
    · next h => cases ha; obtain ⟨a, b⟩ := num2 l r li ri h hl hr; exact ⟨.bool, by simp [lowerTy, a, b], rfl⟩
    · cases ha
  · -- gt
    split at ha
    · next h => cases ha; obtain ⟨a, b⟩ := num2 l r li ri h hl hr; exact ⟨.bool, by simp [lowerTy, a, b], rfl⟩
    · cases ha
  · -- le
    split at ha
    · next h => cases ha; obtain ⟨a, b⟩ := num2 l r li ri h hl hr; exact ⟨.bool, by simp [lowerTy, a, b], rfl⟩
    · cases ha
  · -- ge
    split at ha
    · next h => cases ha; obtain ⟨a, b⟩ := num2 l r li ri h hl hr; exact ⟨.bool, by simp [lowerTy, a, b], rfl⟩
    · cases ha

theorem numIr_of_zb (t : Ty) (i : IrTy) (h : isOneOf t [zahl, byte] = true) (hi : toIr t = some i) : numericIr i = true := by
  obtain ⟨n, _, _, hir⟩ := zbKind_of t h
  rw [hir] at hi; cases hi; cases n <;> rfl

theorem numIr_of_num (t : Ty) (i : IrTy) (h : isOneOf t [zahl, komma, byte] = true) (hi : toIr t = some i) : numericIr i = true := by
  obtain ⟨n, _, hir⟩ := numKind_of t h
  rw [hir] at hi; cases hi; cases n <;> rfl

/-- a list or Text operand: the checker's result `if isList l then l else text` has the operand's IR type,
which is a list or the string type -/
theorem seq_operand (l : Ty) (li : IrTy) (h : (isList l || equal l text) = true) (hl : toIr l = some li) :
    toIr (if isList l = true then l else text) = some li ∧ (li = .string || isListIr li) = true := by
  by_cases hlist : isList l = true
  · obtain ⟨e, hg⟩ := (isList_iff l).mp hlist
    obtain ⟨x, hx, _, _⟩ := toIr_elem l e li hg hl
    subst hx
    simp [hlist, hl, isListIr]
  · have ht : equal l text = true := by simpa [hlist] using h
    have := toIr_prim l _ ht
    rw [hl] at this
    simp only [elemIr, Option.some.injEq] at this
    subst this
    simp [hlist, toIr_text]

/-- **Indexing and slicing** (`an der Stelle`, `ab dem`, `bis zum`) -/
theorem accepted_lowers_index_slice (op : Op) (l r τ : Ty) (li ri : IrTy)
    (hop : op = .index ∨ op = .sliceFrom ∨ op = .sliceTo)
    (ha : admits op [l, r] = some τ) (hl : toIr l = some li) (hr : toIr r = some ri) :
    ∃ x, lowerTy op [li, ri] = some x ∧ toIr τ = some x := by
  rcases hop with rfl | rfl | rfl
  · -- index
    simp only [admits] at ha
    split at ha
    · next h =>
      simp only [Bool.and_eq_true, Bool.or_eq_true] at h
      have hrn : numericIr ri = true := numIr_of_zb r ri (by
        simp only [isOneOf, List.any_cons, List.any_nil, Bool.or_false, Bool.or_eq_true]; exact h.2) hr
      cases hg : getUnderlying l with
      | list e =>
        rw [hg] at ha
        have hτ := Option.some.inj ha
        subst hτ
        obtain ⟨x, hx, hex, _⟩ := toIr_elem l e li hg hl
        subst hx
        exact ⟨x, by simp [lowerTy, hrn], hex⟩
      | _ =>
        rw [hg] at ha
        simp only [Option.some.injEq] at ha
        subst ha
        have ht : equal l text = true := by
          rcases h.1 with h1 | h1
          · exfalso
            have hh := (isList_iff l).mp h1
            rw [hg] at hh
            obtain ⟨e2, he2⟩ := hh
            cases he2
          · exact h1
        have := toIr_prim l _ ht
        rw [hl] at this; simp only [elemIr, Option.some.injEq] at this; subst this
        exact ⟨.char, by simp [lowerTy, hrn], rfl⟩
    · cases ha
  · -- sliceFrom
    simp only [admits] at ha
    split at ha
    · next h =>
      cases ha
      simp only [Bool.and_eq_true] at h
      obtain ⟨h1, h2⟩ := seq_operand l li h.1 hl
      exact ⟨li, by simp [lowerTy, numIr_of_zb r ri h.2 hr, h2], h1⟩
    · cases ha
  · -- sliceTo
    simp only [admits] at ha
    split at ha
    · next h =>
      cases ha
      simp only [Bool.and_eq_true] at h
      obtain ⟨h1, h2⟩ := seq_operand l li h.1 hl
      exact ⟨li, by simp [lowerTy, numIr_of_zb r ri h.2 hr, h2], h1⟩
    · cases ha

/-- **Ternary operators** (`im Bereich von … bis …`, `zwischen … und …`, `…, falls …, ansonsten …`) -/
theorem accepted_lowers_ternary (op : Op) (l m r τ : Ty) (li mi ri : IrTy)
    (ha : admits op [l, m, r] = some τ) (hl : toIr l = some li) (hm : toIr m = some mi) (hr : toIr r = some ri) :
    ∃ x, lowerTy op [li, mi, ri] = some x ∧ toIr τ = some x := by
  cases op <;> simp only [admits, reduceCtorEq] at ha
  · -- slice
    split at ha
    · next h =>
      cases ha
      simp only [Bool.and_eq_true] at h
      obtain ⟨h1, h2⟩ := seq_operand l li h.1.1 hl
      exact ⟨li, by simp [lowerTy, numIr_of_zb m mi h.1.2 hm, numIr_of_zb r ri h.2 hr, h2], h1⟩
    · cases ha
  · -- between
    split at ha
    · next h =>
      cases ha
      simp only [Bool.and_eq_true] at h
      exact ⟨.bool, by simp [lowerTy, numIr_of_num l li h.1.1 hl, numIr_of_num m mi h.1.2 hm, numIr_of_num r ri h.2 hr], rfl⟩
    · cases ha
  · -- falls
    split at ha
    · next h =>
      cases ha
      simp only [Bool.and_eq_true] at h
      have := toIr_of_equal l r h.1
      rw [hl, hr] at this; cases this
      rw [wahr_ir m h.2] at hm; cases hm
      exact ⟨li, by simp [lowerTy], hl⟩
    · cases ha

theorem listElem_of_list (l e : Ty) (hg : getUnderlying l = .list e) : listElem l = e := by
  simp [listElem, hg]

theorem listElem_of_nonlist (l : Ty) (h : isList l = false) : listElem l = l := by
  unfold listElem
  unfold isList at h
  cases hg : getUnderlying l <;> simp_all

theorem concat_ll (x : IrTy) : lowerTy .concat [.list x, .list x] = some (.list x) := by simp [lowerTy, isListIr]
theorem concat_ls (x : IrTy) (h : isListIr x = false) : lowerTy .concat [.list x, x] = some (.list x) := by
  cases x <;> simp_all [lowerTy, isListIr]
theorem concat_sl (x : IrTy) (h : isListIr x = false) : lowerTy .concat [x, .list x] = some (.list x) := by
  cases x <;> simp_all [lowerTy, isListIr]
theorem concat_ss (x : IrTy) (h : isListIr x = false) (hs : x ≠ .string) : lowerTy .concat [x, x] = some (.list x) := by
  cases x <;> simp_all [lowerTy, isListIr]

/-- **Concatenation** (`verkettet mit`) for operands the checker sees through (everything
except a type *definition* of Text or of a list, see `concat_opaque_text_mismatch`), when the
result type has an IR type (i.e. is not a list of lists). -/
theorem accepted_lowers_concat (l r τ : Ty) (li ri x : IrTy)
    (hol : ¬ OpaqueTextOrList l) (hor : ¬ OpaqueTextOrList r)
    (ha : admits .concat [l, r] = some τ) (hl : toIr l = some li) (hr : toIr r = some ri)
    (hτ : toIr τ = some x) : lowerTy .concat [li, ri] = some x := by
  have all := isList_agrees l li hol hl
  have alr := isList_agrees r ri hor hr
  have atl := isText_agrees l li hol hl
  have atr := isText_agrees r ri hor hr
  simp only [admits] at ha
  split at ha
  · -- Text / Buchstabe
    next h =>
    simp only [Bool.and_eq_true, Bool.not_eq_true', Bool.or_eq_true] at h
    split at ha
    · next hv =>
      cases ha
      rw [toIr_text] at hτ; cases hτ
      simp only [validate2, Bool.and_eq_true, isOneOf, List.any_cons, List.any_nil, Bool.or_false, Bool.or_eq_true] at hv
      have hl2 : li = .string ∨ li = .char := by
        rcases hv.1 with e | e
        · left; have := toIr_prim l _ e; rw [hl] at this; simpa [elemIr] using this
        · right; have := toIr_prim l _ e; rw [hl] at this; simpa [elemIr] using this
      have hr2 : ri = .string ∨ ri = .char := by
        rcases hv.2 with e | e
        · left; have := toIr_prim r _ e; rw [hr] at this; simpa [elemIr] using this
        · right; have := toIr_prim r _ e; rw [hr] at this; simpa [elemIr] using this
      have hone : li = .string ∨ ri = .string := by
        rcases h.2 with e | e
        · left; rw [atl] at e; simpa using e
        · right; rw [atr] at e; simpa using e
      rcases hl2 with rfl | rfl <;> rcases hr2 with rfl | rfl <;> simp_all [lowerTy, isListIr]
    · cases ha
  · -- lists and scalars
    next h =>
    split at ha
    · next he =>
      have hτ' := Option.some.inj ha
      subst hτ'
      obtain ⟨y, hxy, hey, hny⟩ := toIr_list_of (listElem l) x hτ
      subst hxy
      by_cases hll : isList l = true
      · obtain ⟨e, hg⟩ := (isList_iff l).mp hll
        rw [listElem_of_list l e hg] at hey he
        obtain ⟨y', hy', hey', _⟩ := toIr_elem l e li hg hl
        rw [hey] at hey'; cases hey'
        subst hy'
        by_cases hlr : isList r = true
        · obtain ⟨e', hg'⟩ := (isList_iff r).mp hlr
          rw [listElem_of_list r e' hg'] at he
          obtain ⟨z, hz, hez, _⟩ := toIr_elem r e' ri hg' hr
          have := toIr_of_equal e e' he
          rw [hey, hez] at this; cases this
          subst hz
          exact concat_ll _
        · have hlr' : isList r = false := by simpa using hlr
          rw [listElem_of_nonlist r hlr'] at he
          have := toIr_of_equal e r he
          rw [hey, hr] at this; cases this
          have hnl : isListIr ri = false := by rw [← alr]; exact hlr'
          exact concat_ls _ hnl
      · have hll' : isList l = false := by simpa using hll
        rw [listElem_of_nonlist l hll'] at hey he
        rw [hl] at hey; cases hey
        have hnl : isListIr li = false := by rw [← all]; exact hll'
        by_cases hlr : isList r = true
        · obtain ⟨e', hg'⟩ := (isList_iff r).mp hlr
          rw [listElem_of_list r e' hg'] at he
          obtain ⟨z, hz, hez, _⟩ := toIr_elem r e' ri hg' hr
          have := toIr_of_equal l e' he
          rw [hl, hez] at this; cases this
          subst hz
          exact concat_sl _ hnl
        · have hlr' : isList r = false := by simpa using hlr
          rw [listElem_of_nonlist r hlr'] at he
          have := toIr_of_equal l r he
          rw [hl, hr] at this; cases this
          -- neither operand is a Text (otherwise the first branch would have been taken)
          have hnt : equal l text = false ∧ equal r text = false := by
            simp only [Bool.and_eq_true, Bool.not_eq_true', Bool.or_eq_true, not_and, not_or] at h
            have := h ⟨hll', hlr'⟩
            constructor
            · cases hh : equal l text with | false => rfl | true => exact absurd hh this.1
            · cases hh : equal r text with | false => rfl | true => exact absurd hh this.2
          have hns : li ≠ .string := by
            intro e; rw [atl] at hnt; simp [e] at hnt
          exact concat_ss _ hnl hns
    · cases ha

/-- The excluded case is a real defect of the unchanged tree (found by attempting the proof
without the side condition): for a type definition of Text the checker types
`n verkettet mit n` as a list of that definition, while the code generator, which looks at
IR types only, emits a *text* concatenation — the result IR types differ. -/
theorem concat_opaque_text_mismatch :
    admits .concat [.typedef 1 text, .typedef 1 text] = some (.list (.typedef 1 text)) ∧
    toIr (.typedef 1 text) = some .string ∧ toIr (.list (.typedef 1 text)) = some (.list .string) ∧
    lowerTy .concat [.string, .string] = some .string := by decide

/-- non-vacuity: aliases are seen through by both tables -/
example : admits .plus [.alias zahl, byte] = some zahl ∧ toIr (.alias zahl) = some .int ∧
    lowerTy .plus [.int, .byte] = some .int ∧
    admits .concat [.list (.alias text), text] = some (.list text) ∧
    lowerTy .concat [.list .string, .string] = some (.list .string) := by decide

end DDP.C02

import DDP.Proofs.Literal

/-!
# C19 — every literal denotes its written value

Theorems over the scanner model (literal delimiting, escape validation), the parser's
literal helpers (`DDP.Literal`, tables regenerated from the source) and the specification
`DDP.LiteralSpec` (what a literal denotes).  Decimal literals: see the end of the file.
-/

namespace DDP.C19
open DDP.Generated DDP.LiteralSpec DDP.Scanner DDP.Literal

/-! ### the three hand-written escape tables agree -/

/-- scanner acceptance = parser table, text literals: no escape passes the scanner that the
parser cannot map, none is mapped that the scanner refuses -/
theorem escape_tables_agree_string (d : Char) :
    (scannerEscapeLetters.contains d || (scannerEscapeQuote && d == '"')) =
      (lookup parseStringEscapes d).isSome := by
  rw [← isEscape_eq_generated, isEscape_iff_spec, lookup_string_eq_spec]

theorem escape_tables_agree_char (d : Char) :
    (scannerEscapeLetters.contains d || (scannerEscapeQuote && d == '\'')) =
      (lookup parseCharEscapes d).isSome := by
  rw [← isEscape_eq_generated, isEscape_iff_spec, lookup_char_eq_spec]

/-- every escape letter, every image and the backslash are single UTF-8 bytes — the fact
that makes `parseString`'s in-place splice with `i += w` land behind the image -/
theorem escape_images_ascii :
    (∀ e ∈ parseStringEscapes, e.1.utf8Size = 1 ∧ e.2.utf8Size = 1) ∧
    (∀ e ∈ parseCharEscapes, e.1.utf8Size = 1 ∧ e.2.utf8Size = 1) ∧ ('\\' : Char).utf8Size = 1 := by
  decide

/-! ### text literals -/

/-- what the scanner accepted as a terminated literal without diagnostic is
`content ++ [quote]` with `content` a literal in the sense of the specification -/
theorem scanQuoted_accepts (q : Char) : ∀ (n : Nat) (s : St) (cs : List Char), cs.length ≤ n →
    (scanQuoted q s cs).flag = true → (scanQuoted q s cs).diags = [] →
    ∃ content, (scanQuoted q s cs).consumed = content ++ [q] ∧ unescape q content ≠ none
  | 0, s, cs, h => by
    have : cs = [] := List.length_eq_zero_iff.mp (Nat.le_zero.mp h)
    subst this; unfold scanQuoted; intro hf; cases hf
  | n + 1, s, cs, h => by
    cases cs with
    | nil => unfold scanQuoted; intro hf; cases hf
    | cons c cs =>
      have hlen : cs.length ≤ n := by simpa using h
      unfold scanQuoted
      by_cases hq : c = q
      · rw [if_pos hq]; intro _ _; exact ⟨[], by simp [hq], by simp [unescape]⟩
      rw [if_neg hq]
      by_cases hnl : c = '\n'
      · rw [if_pos hnl]
        intro hf hd
        obtain ⟨content, hc, hu⟩ := scanQuoted_accepts q n _ cs hlen (by simpa [Sub.cons] using hf) (by simpa [Sub.cons] using hd)
        refine ⟨c :: content, by simp [Sub.cons, hc], ?_⟩
        have : c ≠ '\\' := by rw [hnl]; decide
        unfold unescape; simp only [this, if_false]
        cases hu' : unescape q content with
        | none => exact absurd hu' hu
        | some v => simp
      rw [if_neg hnl]
      by_cases hb : c = '\\'
      · rw [if_pos hb]
        cases cs with
        | nil => intro _ hd; simp [Sub.cons, Sub.setBackslash, Sub.addDiag] at hd
        | cons d ds =>
          simp only
          by_cases he : isEscape q d = true
          · rw [if_pos he]
            have hl2 : ds.length ≤ n := by simp at hlen; omega
            intro hf hd
            obtain ⟨content, hc, hu⟩ := scanQuoted_accepts q n _ ds hl2
              (by simpa [Sub.cons2, Sub.setBackslash] using hf) (by simpa [Sub.cons2, Sub.setBackslash] using hd)
            refine ⟨c :: d :: content, by simp [Sub.cons2, Sub.setBackslash, hc], ?_⟩
            unfold unescape; simp only [hb, if_true]
            rw [isEscape_iff_spec] at he
            cases hi : escapeImage q d with
            | none => rw [hi] at he; cases he
            | some img =>
              simp only
              cases hu' : unescape q content with
              | none => exact absurd hu' hu
              | some v => simp
          · rw [if_neg he]; intro _ hd; simp [Sub.cons, Sub.setBackslash, Sub.addDiag] at hd
      · rw [if_neg hb]
        intro hf hd
        obtain ⟨content, hc, hu⟩ := scanQuoted_accepts q n _ cs hlen (by simpa [Sub.cons] using hf) (by simpa [Sub.cons] using hd)
        refine ⟨c :: content, by simp [Sub.cons, hc], ?_⟩
        unfold unescape; simp only [hb, if_false]
        cases hu' : unescape q content with
        | none => exact absurd hu' hu
        | some v => simp

/-- **Scanner and parser agree on text literals.**  Whenever the scanner delimits a text
literal without reporting an unknown escape, the parser's unescaping reports no error
either and yields exactly what the literal denotes. -/
theorem string_literal_consistent (s : St) (cs : List Char)
    (hf : (scanQuoted '"' s cs).flag = true) (hd : (scanQuoted '"' s cs).diags = []) :
    ∃ content, (scanQuoted '"' s cs).consumed = content ++ ['"'] ∧
      (parseStringImpl parseStringEscapes content).2 = 0 ∧
      unescape '"' content = some (parseStringImpl parseStringEscapes content).1 := by
  obtain ⟨content, hc, hu⟩ := scanQuoted_accepts '"' cs.length s cs (Nat.le_refl _) hf hd
  obtain ⟨h1, h2⟩ := parseStringImpl_spec parseStringEscapes '"' lookup_string_eq_spec content.length content (Nat.le_refl _)
  exact ⟨content, hc, h2 hu, h1 (h2 hu)⟩

/-- a literal the parser's unescaping complains about is never a literal of the
specification (it is not "silently altered": the diagnostic is the only outcome) -/
theorem bad_escape_reported (content : List Char)
    (h : (parseStringImpl parseStringEscapes content).2 ≠ 0) : unescape '"' content = none := by
  obtain ⟨_, h2⟩ := parseStringImpl_spec parseStringEscapes '"' lookup_string_eq_spec content.length content (Nat.le_refl _)
  cases hu : unescape '"' content with
  | none => rfl
  | some v => exact absurd (h2 (by rw [hu]; simp)) h

/-! ### every text value is writable, and its literal denotes it -/

theorem unescape_escape (q : Char) (hq : q ≠ '\\') (hqq : escapeImage q q = some q) :
    ∀ xs : List Char, unescape q (escape q xs) = some xs
  | [] => by simp [escape, unescape]
  | x :: xs => by
    have ih := unescape_escape q hq hqq xs
    have hsplit : escape q (x :: xs) = escapeChar q x ++ escape q xs := by simp [escape]
    rw [hsplit]
    unfold escapeChar
    by_cases h1 : x = Char.ofNat 7
    · subst h1; simp [unescape, escapeImage, ih]
    by_cases h2 : x = Char.ofNat 8
    · subst h2; simp [unescape, escapeImage, ih]
    by_cases h3 : x = '\n'
    · subst h3; simp [unescape, escapeImage, ih]
    by_cases h4 : x = '\r'
    · subst h4; simp [unescape, escapeImage, ih]
    by_cases h5 : x = '\t'
    · subst h5; simp [unescape, escapeImage, ih]
    by_cases h6 : x = '\\'
    · subst h6; simp [unescape, escapeImage, ih]
    by_cases h7 : x = q
    · subst h7
      simp only [h1, h2, h3, h4, h5, h6, if_false, if_true, List.cons_append, List.nil_append]
      unfold unescape; simp [hqq, ih]
    · simp only [h1, h2, h3, h4, h5, h6, h7, if_false, List.cons_append, List.nil_append]
      unfold unescape; simp [h6, ih]

/-- the scanner delimits the canonical spelling of any text as one literal, without
diagnostic, and leaves exactly what follows the closing quote -/
theorem scan_escape_accepted (q : Char) (hq : q ≠ '\\') :
    ∀ (xs : List Char) (s : St) (rest : List Char),
      (scanQuoted q s (escape q xs ++ q :: rest)).flag = true ∧
      (scanQuoted q s (escape q xs ++ q :: rest)).diags = [] ∧
      (scanQuoted q s (escape q xs ++ q :: rest)).consumed = escape q xs ++ [q] ∧
      (scanQuoted q s (escape q xs ++ q :: rest)).rest = rest
  | [], s, rest => by
    simp only [escape, List.map_nil, List.flatten_nil, List.nil_append]
    unfold scanQuoted; simp
  | x :: xs, s, rest => by
    have hsplit : escape q (x :: xs) = escapeChar q x ++ escape q xs := by simp [escape]
    rw [hsplit, List.append_assoc]
    have hbq : ('\\' : Char) ≠ q := fun e => hq e.symm
    have hbn : ('\\' : Char) ≠ '\n' := by decide
    -- one step of the scanner over an escape sequence `\ l`
    have step : ∀ (l : Char) (s : St) (tail : List Char), isEscape q l = true →
        scanQuoted q s ('\\' :: l :: tail) = ((scanQuoted q ((s.adv '\\').adv l) tail).cons2 '\\' l).setBackslash := by
      intro l s tail hl
      conv => lhs; unfold scanQuoted
      simp [hbq, hbn, hl]
    have fin : ∀ (l : Char) (s : St), isEscape q l = true →
        (scanQuoted q s ('\\' :: l :: (escape q xs ++ q :: rest))).flag = true ∧
        (scanQuoted q s ('\\' :: l :: (escape q xs ++ q :: rest))).diags = [] ∧
        (scanQuoted q s ('\\' :: l :: (escape q xs ++ q :: rest))).consumed = '\\' :: l :: (escape q xs ++ [q]) ∧
        (scanQuoted q s ('\\' :: l :: (escape q xs ++ q :: rest))).rest = rest := by
      intro l s hl
      obtain ⟨i1, i2, i3, i4⟩ := scan_escape_accepted q hq xs ((s.adv '\\').adv l) rest
      rw [step l s _ hl]
      simp [Sub.cons2, Sub.setBackslash, i1, i2, i3, i4]
    unfold escapeChar
    by_cases h1 : x = Char.ofNat 7
    · simp only [h1, if_true, List.cons_append, List.nil_append]; exact fin 'a' s (by simp [isEscape])
    by_cases h2 : x = Char.ofNat 8
    · simp only [h1, h2, if_false, if_true, List.cons_append, List.nil_append]; exact fin 'b' s (by simp [isEscape])
    by_cases h3 : x = '\n'
    · simp only [h1, h2, h3, if_false, if_true, List.cons_append, List.nil_append]; exact fin 'n' s (by simp [isEscape])
    by_cases h4 : x = '\r'
    · simp only [h1, h2, h3, h4, if_false, if_true, List.cons_append, List.nil_append]; exact fin 'r' s (by simp [isEscape])
    by_cases h5 : x = '\t'
    · simp only [h1, h2, h3, h4, h5, if_false, if_true, List.cons_append, List.nil_append]; exact fin 't' s (by simp [isEscape])
    by_cases h6 : x = '\\'
    · simp only [h1, h2, h3, h4, h5, h6, if_false, if_true, List.cons_append, List.nil_append]; exact fin '\\' s (by simp [isEscape])
    by_cases h7 : x = q
    · have hself : isEscape q q = true := by simp [isEscape]
      have := fin q s hself
      rw [← h7] at this ⊢
      simpa only [h1, h2, h3, h4, h5, h6, if_false, if_true, List.cons_append, List.nil_append] using this
    · simp only [h1, h2, h3, h4, h5, h6, h7, if_false, List.cons_append, List.nil_append]
      obtain ⟨i1, i2, i3, i4⟩ := scan_escape_accepted q hq xs (s.adv x) rest
      have plain : scanQuoted q s (x :: (escape q xs ++ q :: rest)) =
          (scanQuoted q (s.adv x) (escape q xs ++ q :: rest)).cons x := by
        conv => lhs; unfold scanQuoted
        simp only [h7, h3, h6, if_false]
      rw [plain]
      simp [Sub.cons, i1, i2, i3, i4]

/-- **Round trip.**  Every text — any code points, including quotes, backslashes, line
breaks, control and multi-byte characters — can be written as a literal (its canonical
spelling), the scanner takes that spelling as exactly one literal, and the parser's
unescaping returns the text. -/
theorem text_literal_roundtrip (xs : List Char) (s : St) (rest : List Char) :
    (scanQuoted '"' s (escape '"' xs ++ '"' :: rest)).flag = true ∧
    (scanQuoted '"' s (escape '"' xs ++ '"' :: rest)).diags = [] ∧
    (scanQuoted '"' s (escape '"' xs ++ '"' :: rest)).consumed = escape '"' xs ++ ['"'] ∧
    (scanQuoted '"' s (escape '"' xs ++ '"' :: rest)).rest = rest ∧
    parseStringImpl parseStringEscapes (escape '"' xs) = (xs, 0) := by
  obtain ⟨h1, h2, h3, h4⟩ := scan_escape_accepted '"' (by decide) xs s rest
  refine ⟨h1, h2, h3, h4, ?_⟩
  have hu := unescape_escape '"' (by decide) (by decide) xs
  obtain ⟨p1, p2⟩ := parseStringImpl_spec parseStringEscapes '"' lookup_string_eq_spec _ (escape '"' xs) (Nat.le_refl _)
  have h0 := p2 (by rw [hu]; simp)
  have hv := p1 h0
  rw [hu] at hv
  exact Prod.ext (Option.some.inj hv).symm h0

/-! ### character literals -/

/-- the parser's value of a character literal: one character denotes itself, a backslash
and an escape letter denote the letter's image, anything else is reported -/
theorem parseChar_spec (content : List Char) :
    parseCharImpl parseCharEscapes content =
      match content with
      | [c] => .ok c
      | [_, l] => (match escapeImage '\'' l with | some img => .ok img | none => .badEscape l)
      | _ => .invalid := by
  cases content with
  | nil => rfl
  | cons a t =>
    cases t with
    | nil => rfl
    | cons b t2 =>
      cases t2 with
      | nil => simp only [parseCharImpl, lookup_char_eq_spec]; cases escapeImage '\'' b <;> rfl
      | cons _ _ => rfl

/-- every character is writable: `'x'` for plain ones, the escape sequence for the rest -/
theorem char_literal_roundtrip (c : Char) :
    parseCharImpl parseCharEscapes (escapeChar '\'' c) = .ok c := by
  rw [parseChar_spec]
  unfold escapeChar
  by_cases h1 : c = Char.ofNat 7; · subst h1; simp [escapeImage]
  by_cases h2 : c = Char.ofNat 8; · subst h2; simp [escapeImage]
  by_cases h3 : c = '\n'; · subst h3; simp [escapeImage]
  by_cases h4 : c = '\r'; · subst h4; simp [escapeImage]
  by_cases h5 : c = '\t'; · subst h5; simp [escapeImage]
  by_cases h6 : c = '\\'; · subst h6; simp [escapeImage]
  by_cases h7 : c = '\''; · subst h7; simp [escapeImage]
  simp [*]

/-! ### integer literals -/

theorem natOfDigits_append (a : List Char) (d : Char) :
    natOfDigits (a ++ [d]) = 10 * natOfDigits a + (d.toNat - 48) := by
  simp [natOfDigits, List.foldl_append]

/-- decimal digits of a number, most significant first -/
def digitsOf (n : Nat) : List Char :=
  if n < 10 then [Char.ofNat (48 + n)] else digitsOf (n / 10) ++ [Char.ofNat (48 + n % 10)]
termination_by n
decreasing_by omega

theorem digit_val (k : Nat) (h : k < 10) : (Char.ofNat (48 + k)).toNat - 48 = k := by
  have : k = 0 ∨ k = 1 ∨ k = 2 ∨ k = 3 ∨ k = 4 ∨ k = 5 ∨ k = 6 ∨ k = 7 ∨ k = 8 ∨ k = 9 := by omega
  rcases this with h | h | h | h | h | h | h | h | h | h <;> subst h <;> decide

theorem digitsOf_isDigit (n : Nat) : ∀ d ∈ digitsOf n, isDigit d = true := by
  induction n using Nat.strongRecOn with
  | _ n ih =>
    unfold digitsOf
    have dig : ∀ k, k < 10 → isDigit (Char.ofNat (48 + k)) = true := by
      intro k hk
      have : k = 0 ∨ k = 1 ∨ k = 2 ∨ k = 3 ∨ k = 4 ∨ k = 5 ∨ k = 6 ∨ k = 7 ∨ k = 8 ∨ k = 9 := by omega
      rcases this with h | h | h | h | h | h | h | h | h | h <;> subst h <;> decide
    split
    · next h => intro d hd; simp at hd; subst hd; exact dig n h
    · next h =>
      intro d hd
      simp only [List.mem_append, List.mem_singleton] at hd
      rcases hd with hd | hd
      · exact ih (n / 10) (by omega) d hd
      · subst hd; exact dig (n % 10) (by omega)

/-- **Integer round trip**: the decimal spelling of `n` denotes `n` -/
theorem natOfDigits_digitsOf (n : Nat) : natOfDigits (digitsOf n) = n := by
  induction n using Nat.strongRecOn with
  | _ n ih =>
    unfold digitsOf
    split
    · next h => simp [natOfDigits, digit_val n h]
    · next h =>
      rw [natOfDigits_append, ih (n / 10) (by omega), digit_val (n % 10) (by omega)]
      omega

/-- an integer literal is accepted exactly when its decimal value fits 63 bits, and then
denotes that value; every value `0 … 2^63-1` is writable -/
theorem int_literal (ds : List Char) (v : Nat) :
    parseIntImpl ds = some v ↔ natOfDigits ds < 2 ^ 63 ∧ v = natOfDigits ds := by
  unfold parseIntImpl
  simp only
  split
  · next h => simp only [Option.some.injEq]; exact ⟨fun e => ⟨h, e.symm⟩, fun e => e.2.symm⟩
  · next h => simp only [reduceCtorEq, false_iff, not_and]; intro h'; omega

theorem int_literal_roundtrip (n : Nat) (h : n < 2 ^ 63) : parseIntImpl (digitsOf n) = some n := by
  rw [int_literal, natOfDigits_digitsOf]; exact ⟨h, rfl⟩

/-- recorded: the most negative Zahl is not writable as `-` followed by a literal, because
its digits alone are out of range (the code rejects it with a diagnostic) -/
theorem min_zahl_not_writable : parseIntImpl "9223372036854775808".toList = none ∧
    parseIntImpl "9223372036854775807".toList = some (2 ^ 63 - 1) := by decide +kernel

/-! ### non-vacuity -/

example : (scanQuoted '"' (initSt ⟨1, 1⟩ 0) "a\\n\\\"ü\nb\" rest".toList).flag = true ∧
    (scanQuoted '"' (initSt ⟨1, 1⟩ 0) "a\\n\\\"ü\nb\" rest".toList).diags = [] ∧
    parseStringImpl parseStringEscapes "a\\n\\\"ü\nb".toList = ("a\n\"ü\nb".toList, 0) := by decide +kernel

/-!
### decimal-comma literals — partial

`strconv.ParseFloat` is not modelled as a theorem.  The check evaluates, for every tested
literal, the decidable specification `DDP.Literal.isNearestDouble` (the double is a nearest
neighbour of the exact rational, ties to even) on the bits the implementation produced
(`./check C19`, evidence key `float_literals`).  That is validation per input, not a proof.
-/

end DDP.C19

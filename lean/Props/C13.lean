import DDP.Proofs.Scanner

/-!
# C13 — the token stream is a faithful, positioned partition of the source

Property theorems over `DDP.Scanner.scan` (L1 model of `src/scanner/scanner.go`, tied to
the code by the exhaustive correspondence run of `./check C13`) and the regenerated
keyword table (`DDP.Generated.keywordMap`).  Helper lemmas live in `DDP/Proofs/Scanner.lean`.
-/

namespace DDP.Scanner
open DDP.Generated

/-- The scanner terminates on every source, in both modes, from every origin
(also the C03 obligation `scan_total`): the fuel `|src|+1` is never exhausted, because
every token consumes at least one code point (`BodyOk.nonempty`). -/
theorem scan_total (m : Mode) (origin : Pos) (indent : Nat) (src : List Char) :
    ∃ r, scan m origin indent src = some r := by
  obtain ⟨r, h, _⟩ := scanAllFuel_spec m (src.length + 1) (initSt origin indent) src (Nat.lt_succ_self _)
  exact ⟨r, h⟩

/-- Partition: the source is exactly gap₁ ++ text₁ ++ … ++ gapₙ ++ textₙ ++ trailing blanks,
in order, every gap consists of blanks only and no token is empty. -/
theorem scan_partition (m : Mode) (origin : Pos) (indent : Nat) (src : List Char) (r : Result)
    (h : scan m origin indent src = some r) :
    coveredBy r.segs ++ r.trailing = src ∧ (∀ sg ∈ r.segs, Blank sg.gap ∧ sg.body ≠ []) ∧
      Blank r.trailing := by
  obtain ⟨r', h', ok⟩ := scanAllFuel_spec m (src.length + 1) (initSt origin indent) src (Nat.lt_succ_self _)
  have : r' = r := by unfold scan at h; rw [h'] at h; exact Option.some.inj h
  subst this
  exact ⟨ok.cover, fun sg hsg => ⟨(ok.segs sg hsg).blank, (ok.segs sg hsg).nonempty⟩, ok.trailing⟩

/-- The literal of every token is the exact source text it covers; the only exception
is ILLEGAL (an unterminated text/character literal), whose literal is a message. -/
theorem scan_literal (m : Mode) (origin : Pos) (indent : Nat) (src : List Char) (r : Result)
    (h : scan m origin indent src = some r) :
    ∀ sg ∈ r.segs, sg.tok.type ≠ .ILLEGAL → sg.tok.literal = sg.body := by
  obtain ⟨r', h', ok⟩ := scanAllFuel_spec m (src.length + 1) (initSt origin indent) src (Nat.lt_succ_self _)
  have : r' = r := by unfold scan at h; rw [h'] at h; exact Option.some.inj h
  subst this
  exact fun sg hsg => (ok.segs sg hsg).lit

/-- Positions: every token starts at the position reached from the origin after the text
before it and ends at the position after its own text, counted in code points with
line breaks starting a new line at column 1; the EOF token sits at the end of the source.
Hypothesis (exactly what the code does not do): a line break inside an alias placeholder
`<…>` is consumed without line bookkeeping (`scan_positions_placeholder_newline` below). -/
theorem scan_positions (m : Mode) (origin : Pos) (indent : Nat) (src : List Char) (r : Result)
    (h : scan m origin indent src = some r) (hnl : NoNlInPlaceholders r.segs) :
    PosOk origin r.segs ∧ r.eof.start = posAfter origin src ∧ r.eof.stop = r.eof.start := by
  obtain ⟨r', h', ok⟩ := scanAllFuel_spec m (src.length + 1) (initSt origin indent) src (Nat.lt_succ_self _)
  have : r' = r := by unfold scan at h; rw [h'] at h; exact Option.some.inj h
  subst this
  exact ok.pos hnl

/-- In normal mode there are no placeholders, so `scan_positions` holds unconditionally. -/
theorem no_placeholder_normal_mode (s0 : St) (c : Char) (cs : List Char) (strict : Bool) :
    (scanBody ⟨strict, false⟩ s0 c cs).1.type = .ALIAS_PARAMETER → False := by
  intro h
  have hid := fun w => (identifierType_ne w)
  unfold scanBody at h
  by_cases h1 : isAlpha c = true
  · rw [if_pos h1] at h
    -- a word is never typed ALIAS_PARAMETER: no keyword maps to it
    have : ∀ e ∈ keywordMap, e.2 ≠ TokenType.ALIAS_PARAMETER := by decide +kernel
    have hk : ∀ w, keywordToTokenType w ≠ .ALIAS_PARAMETER := by
      intro w; unfold keywordToTokenType
      cases hl : lookupKw w with
      | none => simp
      | some t => obtain ⟨e, he, rfl⟩ := lookupKw_mem w t hl; simpa using this e he
    simp only [scanIdent, emit, mkTok, identifierType] at h
    split at h
    · exact hk _ h
    · exact hk _ h
  rw [if_neg h1] at h
  by_cases h2 : isDigit c = true
  · rw [if_pos h2] at h; simp only [scanNum, emit, mkTok] at h; split at h <;> cases h
  rw [if_neg h2] at h
  by_cases h3 : c = '-'
  · rw [if_pos h3] at h; cases h
  rw [if_neg h3] at h
  by_cases h4 : c = '.'
  · rw [if_pos h4] at h; unfold scanDot at h; split at h <;> cases h
  rw [if_neg h4] at h
  by_cases h5 : c = ','
  · rw [if_pos h5] at h; cases h
  rw [if_neg h5] at h
  by_cases h6 : c = ':'
  · rw [if_pos h6] at h; cases h
  rw [if_neg h6] at h
  by_cases h7 : c = '('
  · rw [if_pos h7] at h; cases h
  rw [if_neg h7] at h
  by_cases h8 : c = ')'
  · rw [if_pos h8] at h; cases h
  rw [if_neg h8] at h
  by_cases h9 : c = '"'
  · rw [if_pos h9] at h; simp only [scanStringTok] at h; split at h <;> cases h
  rw [if_neg h9] at h
  by_cases h10 : c = '\''
  · rw [if_pos h10] at h; simp only [scanCharTok] at h; split at h <;> cases h
  rw [if_neg h10] at h
  by_cases h11 : c = '['
  · rw [if_pos h11] at h; cases h
  rw [if_neg h11] at h
  have h12 : ¬ ((c = '<' && (⟨strict, false⟩ : Mode).alias) = true) := by simp
  rw [if_neg h12] at h
  cases h

/-- Every token of the stream is the result of one `NextToken` dispatch on a non-blank
first rune; this lifts the per-token kind theorems below to the whole stream. -/
theorem scan_tokens_from_dispatch (m : Mode) (origin : Pos) (indent : Nat) (src : List Char) (r : Result)
    (h : scan m origin indent src = some r) :
    ∀ sg ∈ r.segs, ∃ s0 c cs, sg.tok = (scanBody m s0 c cs).1 ∧ sg.body = (scanBody m s0 c cs).2.2.1 ∧
      isSpace c = false := by
  obtain ⟨r', h', ok⟩ := scanAllFuel_spec m (src.length + 1) (initSt origin indent) src (Nat.lt_succ_self _)
  have : r' = r := by unfold scan at h; rw [h'] at h; exact Option.some.inj h
  subst this
  exact fun sg hsg => (ok.segs sg hsg).fromBody

/-- `scan_positions` without side condition for `scanner.Scan` (normal / strict mode). -/
theorem scan_positions_normal (strict : Bool) (origin : Pos) (indent : Nat) (src : List Char) (r : Result)
    (h : scan ⟨strict, false⟩ origin indent src = some r) :
    PosOk origin r.segs ∧ r.eof.start = posAfter origin src ∧ r.eof.stop = r.eof.start := by
  refine scan_positions _ origin indent src r h ?_
  intro sg hsg hty
  obtain ⟨s0, c, cs, ht, _, _⟩ := scan_tokens_from_dispatch _ origin indent src r h sg hsg
  rw [ht] at hty
  exact absurd hty (fun e => no_placeholder_normal_mode s0 c cs strict e)

/-- Kind of a word: a token that starts with a letter is the maximal run of letters and
digits, and its type is the keyword-table lookup of that run (exact spelling first, then
lower-cased), IDENTIFIER otherwise. -/
theorem word_kind (m : Mode) (s0 : St) (c : Char) (cs : List Char) (hc : isAlpha c = true) :
    let o := scanBody m s0 c cs
    o.1.type = identifierType o.2.2.1 ∧ (∀ d ∈ o.2.2.1, isAlphaNumeric d = true) ∧
      (∀ d rest, o.2.2.2.1 = d :: rest → isAlphaNumeric d = false) := by
  intro o
  have ho : o = scanIdent m s0 c cs := by show scanBody m s0 c cs = _; unfold scanBody; rw [if_pos hc]
  rw [ho]
  refine ⟨rfl, ?_, ?_⟩
  · intro d hd
    simp only [scanIdent, emit, List.mem_cons] at hd
    rcases hd with rfl | hd
    · simp [isAlphaNumeric, hc]
    · exact takeWhileSt_all _ _ _ d hd
  · intro d rest hr
    exact takeWhileSt_rest _ _ _ d rest hr

/-- Kind of a number: a token that starts with a digit is INT — a maximal run of digits not
followed by `,digit` — or FLOAT — digits, a comma, digits, maximal. -/
theorem number_kind (m : Mode) (s0 : St) (c : Char) (cs : List Char) (ha : isAlpha c = false)
    (hd : isDigit c = true) :
    let o := scanBody m s0 c cs
    (o.1.type = .INT ∧ (∀ d ∈ o.2.2.1, isDigit d = true) ∧
        (∀ d rest, o.2.2.2.1 = d :: rest → isDigit d = false) ∧
        (∀ d rest, o.2.2.2.1 = ',' :: d :: rest → isDigit d = false)) ∨
    (o.1.type = .FLOAT ∧ ∃ a b, o.2.2.1 = a ++ ',' :: b ∧ a ≠ [] ∧ b ≠ [] ∧
        (∀ d ∈ a, isDigit d = true) ∧ (∀ d ∈ b, isDigit d = true) ∧
        (∀ d rest, o.2.2.2.1 = d :: rest → isDigit d = false)) := by
  intro o
  have ho : o = scanNum s0 c cs := by
    show scanBody m s0 c cs = _; unfold scanBody; rw [if_neg (by simp [ha]), if_pos hd]
  rw [ho]
  simp only [scanNum, emit, mkTok, scanNumber]
  have hall := takeWhileSt_all isDigit (s0.adv c) cs
  have hrest := takeWhileSt_rest isDigit (s0.adv c) cs
  generalize takeWhileSt isDigit (s0.adv c) cs = r at *
  obtain ⟨st, consumed, rest, diags, f1, f2⟩ := r
  simp only at *
  match rest, hrest with
  | [], _ =>
    left
    refine ⟨rfl, ?_, by simp, by simp⟩
    intro d hd'; simp only [List.mem_cons] at hd'
    rcases hd' with rfl | hd'
    · exact hd
    · exact hall d hd'
  | [x], hrest =>
    left
    refine ⟨rfl, ?_, fun d rest e => ?_, by simp⟩
    · intro d hd'; simp only [List.mem_cons] at hd'
      rcases hd' with rfl | hd'
      · exact hd
      · exact hall d hd'
    · exact hrest d rest e
  | x :: y :: ds, hrest =>
    simp only
    split
    · next hxy =>
      right
      simp only [Bool.and_eq_true, decide_eq_true_eq] at hxy
      obtain ⟨hx, hy⟩ := hxy
      subst hx
      have hall2 := takeWhileSt_all isDigit (st.adv ',') (y :: ds)
      have hrest2 := takeWhileSt_rest isDigit (st.adv ',') (y :: ds)
      have hcons2 : (takeWhileSt isDigit (st.adv ',') (y :: ds)).consumed ≠ [] := by
        unfold takeWhileSt; rw [if_pos hy]; simp [Sub.cons]
      refine ⟨rfl, c :: consumed, (takeWhileSt isDigit (st.adv ',') (y :: ds)).consumed, by simp, by simp,
        hcons2, ?_, hall2, hrest2⟩
      intro d hd'; simp only [List.mem_cons] at hd'
      rcases hd' with rfl | hd'
      · exact hd
      · exact hall d hd'
    · next hxy =>
      left
      refine ⟨rfl, ?_, fun d rest e => hrest d rest e, ?_⟩
      · intro d hd'; simp only [List.mem_cons] at hd'
        rcases hd' with rfl | hd'
        · exact hd
        · exact hall d hd'
      · intro d rest e
        simp only [List.cons.injEq] at e
        obtain ⟨hx, hy, _⟩ := e
        subst hx; subst hy
        simpa using hxy

/-- Exactly one EOF token, and it is the last one. -/
theorem scan_eof (m : Mode) (origin : Pos) (indent : Nat) (src : List Char) (r : Result)
    (h : scan m origin indent src = some r) :
    r.tokens.getLast? = some r.eof ∧ r.eof.type = .EOF ∧ r.eof.literal = [] ∧
      ∀ sg ∈ r.segs, sg.tok.type ≠ .EOF := by
  obtain ⟨r', h', ok⟩ := scanAllFuel_spec m (src.length + 1) (initSt origin indent) src (Nat.lt_succ_self _)
  have : r' = r := by unfold scan at h; rw [h'] at h; exact Option.some.inj h
  subst this
  exact ⟨by simp [Result.tokens], ok.eofType, ok.eofLit, fun sg hsg => (ok.segs sg hsg).noteof⟩

/-- ASCII spellings: for every keyword written with ä/ö/ü/ß the table also contains its
transliteration (ae/oe/ue/ss) with the same token type.  A statement about the
regenerated table, closed by kernel evaluation over the whole table. -/
def translit : List Char → List Char
  | [] => []
  | c :: cs =>
    (if c = 'ä' then ['a', 'e'] else if c = 'ö' then ['o', 'e'] else if c = 'ü' then ['u', 'e']
     else if c = 'Ä' then ['A', 'e'] else if c = 'Ö' then ['O', 'e'] else if c = 'Ü' then ['U', 'e']
     else if c = 'ß' then ['s', 's'] else [c]) ++ translit cs

theorem ascii_spellings :
    ∀ e ∈ keywordMap, lookupKw (translit e.1.toList) = some e.2 := by decide +kernel

/-- The keyword table is a function: no spelling is listed twice with different types
(so `lookupKw`, which takes the first hit, agrees with Go's map lookup). -/
theorem keywordMap_functional :
    ∀ e ∈ keywordMap, lookupKw e.1.toList = some e.2 := by decide +kernel

/-- Capitalised forms: a word that is not itself a keyword is looked up in lower case. -/
theorem keyword_kind (w : List Char) :
    identifierType w = (match lookupKw w with
      | some t => if t = .IDENTIFIER then keywordToTokenType (w.map toLowerChar) else t
      | none => keywordToTokenType (w.map toLowerChar)) := by
  unfold identifierType keywordToTokenType
  cases lookupKw w <;> simp

/-! ### the premises are satisfiable, the recorded deviation is real -/

/-- non-vacuity: a concrete two-line source is scanned, positions as stated -/
example : (scan ⟨true, false⟩ ⟨1, 1⟩ 0 "Die Zahl\n\tx ist 1,5.".toList).map
    (fun r => r.tokens.map (fun t => (t.type, t.start, t.stop, t.indent))) =
    some [(.DIE, ⟨1,1⟩, ⟨1,4⟩, 0), (.ZAHL, ⟨1,5⟩, ⟨1,9⟩, 0), (.IDENTIFIER, ⟨2,2⟩, ⟨2,3⟩, 1),
      (.IST, ⟨2,4⟩, ⟨2,7⟩, 1), (.FLOAT, ⟨2,8⟩, ⟨2,11⟩, 1), (.DOT, ⟨2,11⟩, ⟨2,12⟩, 1),
      (.EOF, ⟨2,12⟩, ⟨2,12⟩, 1)] := by decide +kernel

/-- the deviation excluded by `NoNlInPlaceholders`: in alias mode a line break inside
`<…>` does not advance the line (what the Go code does; recorded, judged harmless because
alias literals are single-line in practice) -/
theorem scan_positions_placeholder_newline :
    (scan ⟨false, true⟩ ⟨1, 1⟩ 0 "<a\nb> c".toList).map (fun r => r.tokens.map (·.start)) =
      some [⟨1,1⟩, ⟨1,7⟩, ⟨1,8⟩] := by decide +kernel

/-! ### indentation depth: tabs or groups of four spaces at the start of a line -/

theorem adv_indent (s : St) (c : Char) : (s.adv c).indent = s.indent := by simp [St.adv]
theorem adv_should (s : St) (c : Char) (h : isSpace c = true) : (s.adv c).shouldIndent = s.shouldIndent := by simp [St.adv, h]

/-- a line that starts with `t` tabs has indentation depth `t` more -/
theorem indent_tabs (t : Nat) (s : St) (c : Char) (cs : List Char) (hs : s.shouldIndent = true)
    (h1 : c ≠ ' ') (h2 : c ≠ '\r') (h3 : c ≠ '\t') (h4 : c ≠ '\n') :
    (skipWs s 0 (List.replicate t '\t' ++ c :: cs)).st.indent = s.indent + t := by
  induction t generalizing s with
  | zero => simp [skipWs, h1, h2, h3, h4]
  | succ t ih =>
    have : List.replicate (t + 1) '\t' ++ c :: cs = '\t' :: (List.replicate t '\t' ++ c :: cs) := by simp [List.replicate_succ]
    rw [this]
    unfold skipWs
    simp only [show ('\t' : Char) ≠ ' ' by decide, show ('\t' : Char) ≠ '\r' by decide, if_false, if_true, hs]
    simp only [Sub.cons]
    rw [ih]
    · simp [adv_indent]; omega
    · rw [adv_should _ _ (by decide)]

theorem indent_spaces_aux (m : Nat) : ∀ (n : Nat) (s : St) (c : Char) (cs : List Char), n < 4 → s.shouldIndent = true →
    c ≠ ' ' → c ≠ '\r' → c ≠ '\t' → c ≠ '\n' →
    (skipWs s n (List.replicate m ' ' ++ c :: cs)).st.indent = s.indent + (n + m) / 4 := by
  induction m with
  | zero =>
    intro n s c cs hn hs h1 h2 h3 h4
    have : n / 4 = 0 := by omega
    simp [skipWs, h1, h2, h3, h4, this]
  | succ m ih =>
    intro n s c cs hn hs h1 h2 h3 h4
    have : List.replicate (m + 1) ' ' ++ c :: cs = ' ' :: (List.replicate m ' ' ++ c :: cs) := by simp [List.replicate_succ]
    rw [this]
    unfold skipWs
    simp only [if_true, hs, Bool.true_and]
    by_cases h : (n + 1 == 4) = true
    · simp only [h, if_true, Sub.cons]
      have hn3 : n = 3 := by simpa using h
      rw [ih 0 _ c cs (by omega) (by rw [adv_should _ _ (by decide)]) h1 h2 h3 h4]
      simp [adv_indent]; omega
    · simp only [h, Sub.cons]
      have hn3 : n + 1 < 4 := by
        have : n + 1 ≠ 4 := by simpa using h
        omega
      simp only [Bool.false_eq_true, if_false]
      rw [ih (n + 1) _ c cs hn3 (by rw [adv_should _ _ (by decide)]; exact hs) h1 h2 h3 h4]
      simp [adv_indent]; omega

/-- four spaces count as one level, and fewer than four left over count nothing -/
theorem indent_spaces (k r : Nat) (hr : r < 4) (s : St) (c : Char) (cs : List Char) (hs : s.shouldIndent = true)
    (h1 : c ≠ ' ') (h2 : c ≠ '\r') (h3 : c ≠ '\t') (h4 : c ≠ '\n') :
    (skipWs s 0 (List.replicate (4 * k + r) ' ' ++ c :: cs)).st.indent = s.indent + k := by
  rw [indent_spaces_aux (4 * k + r) 0 s c cs (by omega) hs h1 h2 h3 h4]
  omega


end DDP.Scanner

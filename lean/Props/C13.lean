import DDP.Impl.Scanner

import DDP.Impl.Modules

/-!
# C10 — modules expose exactly their public names and initialise once, in order
-/

namespace DDP.Modules

mutual
/-- what is done stays done, in the same order (the new modules are appended) -/
theorem visit_prefix (g : Graph) : (fuel m : Nat) → (done : List Nat) → done <+: visit g fuel m done
  | 0, _, done => by simp [visit]
  | fuel + 1, m, done => by
      unfold visit
      split
      · exact List.prefix_refl _
      · exact (visitAll_prefix g fuel (g m) done).trans (List.prefix_append _ _)
theorem visitAll_prefix (g : Graph) : (fuel : Nat) → (l done : List Nat) → done <+: visitAll g fuel l done
  | _, [], done => by simp [visitAll]
  | fuel, i :: r, done => by
      unfold visitAll
      exact (visit_prefix g fuel i done).trans (visitAll_prefix g fuel r _)
end

mutual
/-- in a ranked graph a visit adds only modules up to the one visited -/
theorem visit_bound (g : Graph) (hr : Ranked g) : (fuel m : Nat) → (done : List Nat) → ∀ x, x ∈ visit g fuel m done → x ∈ done ∨ x ≤ m
  | 0, _, done, x, hx => by simp [visit] at hx; exact Or.inl hx
  | fuel + 1, m, done, x, hx => by
      unfold visit at hx
      split at hx
      · exact Or.inl hx
      · rcases List.mem_append.mp hx with h | h
        · rcases visitAll_bound g hr fuel (g m) done x h with h | ⟨i, hi, hle⟩
          · exact Or.inl h
          · exact Or.inr (Nat.le_of_lt (Nat.lt_of_le_of_lt hle (hr m i hi)))
        · simp at h; exact Or.inr (Nat.le_of_eq h)
theorem visitAll_bound (g : Graph) (hr : Ranked g) : (fuel : Nat) → (l done : List Nat) → ∀ x, x ∈ visitAll g fuel l done →
    x ∈ done ∨ ∃ i ∈ l, x ≤ i
  | _, [], done, x, hx => by simp [visitAll] at hx; exact Or.inl hx
  | fuel, i :: r, done, x, hx => by
      unfold visitAll at hx
      rcases visitAll_bound g hr fuel r _ x hx with h | ⟨j, hj, hle⟩
      · rcases visit_bound g hr fuel i done x h with h | h
        · exact Or.inl h
        · exact Or.inr ⟨i, by simp, h⟩
      · exact Or.inr ⟨j, by simp [hj], hle⟩
end

mutual
/-- **every module is initialised at most once** -/
theorem visit_nodup (g : Graph) (hr : Ranked g) : (fuel m : Nat) → (done : List Nat) → done.Nodup → (visit g fuel m done).Nodup
  | 0, _, done, h => by simpa [visit] using h
  | fuel + 1, m, done, h => by
      unfold visit
      split
      · exact h
      · rename_i hm
        have hn := visitAll_nodup g hr fuel (g m) done h
        apply List.nodup_append.mpr
        refine ⟨hn, by simp, ?_⟩
        intro a ha b hb
        simp at hb
        subst hb
        intro hab
        subst hab
        rcases visitAll_bound g hr fuel (g a) done a ha with h1 | ⟨i, hi, hle⟩
        · exact hm h1
        · exact absurd (hr a i hi) (Nat.not_lt.mpr hle)
theorem visitAll_nodup (g : Graph) (hr : Ranked g) : (fuel : Nat) → (l done : List Nat) → done.Nodup → (visitAll g fuel l done).Nodup
  | _, [], done, h => by simpa [visitAll] using h
  | fuel, i :: r, done, h => by
      unfold visitAll
      exact visitAll_nodup g hr fuel r _ (visit_nodup g hr fuel i done h)
end

theorem init_once (g : Graph) (hr : Ranked g) (fuel : Nat) (imports : List Nat) : (initSeq g fuel imports).Nodup :=
  visitAll_nodup g hr fuel imports [] (by simp)

/-- with enough fuel the visited module itself is initialised -/
theorem visit_mem (g : Graph) (fuel m : Nat) (done : List Nat) : m ∈ visit g (fuel + 1) m done := by
  unfold visit
  split
  · assumption
  · simp

theorem visitAll_mem (g : Graph) (fuel : Nat) : (l done : List Nat) → ∀ i ∈ l, i ∈ visitAll g (fuel + 1) l done
  | [], _, i, hi => by simp at hi
  | j :: r, done, i, hi => by
      unfold visitAll
      rcases List.mem_cons.mp hi with h | h
      · subst h
        exact (visitAll_prefix g (fuel + 1) r _).subset (visit_mem g fuel i done)
      · exact visitAll_mem g fuel r _ i h

/-- every module the main module imports is initialised -/
theorem imported_initialised (g : Graph) (fuel : Nat) (imports : List Nat) (m : Nat) (h : m ∈ imports) :
    m ∈ initSeq g (fuel + 1) imports :=
  visitAll_mem g fuel imports [] m h

/-- **imports before the importer**: when module `m` is newly initialised, each module it imports has
been initialised before it (it stands earlier in the sequence) -/
theorem imports_first (g : Graph) (fuel m : Nat) (done : List Nat) (hm : m ∉ done) (i : Nat) (hi : i ∈ g m) :
    ∃ pre, visit g (fuel + 2) m done = pre ++ [m] ∧ i ∈ pre := by
  refine ⟨visitAll g (fuel + 1) (g m) done, ?_, visitAll_mem g fuel (g m) done i hi⟩
  conv => lhs; unfold visit
  simp [hm]

/-- what was initialised at an earlier import statement is not initialised again at a later one -/
theorem later_import_skips (g : Graph) (fuel m : Nat) (done : List Nat) (h : m ∈ done) : visit g fuel m done = done := by
  cases fuel with
  | zero => simp [visit]
  | succ f => simp [visit, h]

/-! ### visibility -/

theorem private_never_visible (decls : List Decl) (listed : Option (List String)) (vis : List String) (n : String)
    (h : visible decls listed = some vis) (hn : n ∈ vis) : ∃ d ∈ decls, d.name = n ∧ d.isPublic = true := by
  unfold visible at h
  cases listed with
  | none =>
    simp at h
    subst h
    simp at hn
    obtain ⟨d, ⟨hd, hp⟩, hname⟩ := hn
    exact ⟨d, hd, hname, hp⟩
  | some names =>
    simp only [] at h
    split at h
    · rename_i hall
      simp at h
      subst h
      have := (List.all_eq_true.mp hall) n hn
      simp at this
      obtain ⟨d, ⟨hd, hp⟩, hname⟩ := this
      exact ⟨d, hd, hname, hp⟩
    · simp at h

theorem import_all_is_all_public (decls : List Decl) (d : Decl) (hd : d ∈ decls) (hp : d.isPublic = true) :
    ∃ vis, visible decls none = some vis ∧ d.name ∈ vis := by
  refine ⟨_, rfl, ?_⟩
  simp
  exact ⟨d, ⟨hd, hp⟩, rfl⟩

theorem import_listed_is_exactly_listed (decls : List Decl) (names vis : List String)
    (h : visible decls (some names) = some vis) : vis = names := by
  unfold visible at h
  simp only [] at h
  split at h <;> simp at h
  exact h.symm

example : initSeq (fun m => if m = 3 then [1, 2] else if m = 2 then [1] else []) 10 [3, 2] = [1, 2, 3] := by simp [initSeq, visitAll, visit]

/-! ### directory imports -/

mutual
/-- a recursive directory import brings in every module file below the directory … -/
theorem walk_recursive_all : ∀ (es : List DirEntry), walkSorted true es = allModules es
  | [] => rfl
  | e :: r => by simp only [walkSorted, allModules, walkEntry_recursive_all e, walk_recursive_all r]
theorem walkEntry_recursive_all : ∀ (e : DirEntry), walkEntry true e = modulesOf e
  | .file _ _ => rfl
  | .dir _ es => by simp only [walkEntry, modulesOf, if_true, walk_recursive_all es]
end

/-- … a plain one exactly the module files directly in it (nothing of its sub-directories) -/
theorem walk_plain_top : ∀ (es : List DirEntry), walkSorted false es = topModules es
  | [] => rfl
  | .file _ m :: r => by simp [walkSorted, walkEntry, topModules, walk_plain_top r]
  | .dir _ _ :: r => by simp [walkSorted, walkEntry, topModules, walk_plain_top r]

theorem allModules_insert (e : DirEntry) : ∀ (l : List DirEntry), (allModules (insertEntry e l)).Perm (modulesOf e ++ allModules l)
  | [] => by simp [insertEntry, allModules]
  | f :: r => by
    simp only [insertEntry]
    split
    · simp [allModules]
    · simp only [allModules]
      have ih := allModules_insert e r
      -- modulesOf f ++ allModules (insertEntry e r) ~ modulesOf e ++ (modulesOf f ++ allModules r)
      refine (List.Perm.append_left _ ih).trans ?_
      rw [← List.append_assoc, ← List.append_assoc]
      exact List.Perm.append_right _ List.perm_append_comm

theorem topModules_insert (e : DirEntry) : ∀ (l : List DirEntry), (topModules (insertEntry e l)).Perm (topModules [e] ++ topModules l)
  | [] => by cases e <;> simp [insertEntry, topModules]
  | f :: r => by
    simp only [insertEntry]
    split
    · cases e <;> simp [topModules]
    · have ih := topModules_insert e r
      cases f with
      | file n m =>
        cases e with
        | file n' m' =>
          simp only [topModules, List.cons_append, List.nil_append] at ih ⊢
          exact (List.Perm.cons m ih).trans (List.Perm.swap _ _ _)
        | dir n' es' =>
          simp only [topModules, List.nil_append] at ih ⊢
          exact List.Perm.cons m ih
      | dir n es =>
        simp only [topModules] at ih ⊢
        exact ih

mutual
/-- sorting the listings neither loses nor duplicates a module -/
theorem allModules_sortDeep : ∀ (es : List DirEntry), (allModules (sortDeep es)).Perm (allModules es)
  | [] => by simp [sortDeep]
  | e :: r => by
    simp only [sortDeep, allModules]
    exact (allModules_insert _ _).trans (List.Perm.append (modulesOf_sortEntryDeep e) (allModules_sortDeep r))
theorem modulesOf_sortEntryDeep : ∀ (e : DirEntry), (modulesOf (sortEntryDeep e)).Perm (modulesOf e)
  | .file _ _ => by simp [sortEntryDeep]
  | .dir _ es => by simp only [sortEntryDeep, modulesOf]; exact allModules_sortDeep es
end

theorem topModules_sortEntryDeep (e : DirEntry) : topModules [sortEntryDeep e] = topModules [e] := by
  cases e <;> simp [sortEntryDeep, topModules]

theorem topModules_sortDeep : ∀ (es : List DirEntry), (topModules (sortDeep es)).Perm (topModules es)
  | [] => by simp [sortDeep]
  | e :: r => by
    simp only [sortDeep]
    refine (topModules_insert _ _).trans ?_
    rw [topModules_sortEntryDeep]
    have ih := topModules_sortDeep r
    cases e <;> simp [topModules] <;> exact ih

/-- **A recursive directory import brings in every module below the directory exactly as often
as it is there**, whatever order the file system lists the entries in. -/
theorem dirImport_recursive_complete (es : List DirEntry) : (dirImport true es).Perm (allModules es) := by
  unfold dirImport; rw [walk_recursive_all]; exact allModules_sortDeep es

/-- **A plain directory import brings in exactly the module files of the directory itself.** -/
theorem dirImport_plain_complete (es : List DirEntry) : (dirImport false es).Perm (topModules es) := by
  unfold dirImport; rw [walk_plain_top]; exact topModules_sortDeep es

example : dirImport true [.file "m4.ddp" 4, .dir "tief" [.file "m9.ddp" 9, .file "m1.ddp" 1], .file "m2.ddp" 2] = [2, 4, 1, 9] := by decide
example : dirImport false [.file "m4.ddp" 4, .dir "tief" [.file "m9.ddp" 9, .file "m1.ddp" 1], .file "m2.ddp" 2] = [2, 4] := by decide

end DDP.Modules

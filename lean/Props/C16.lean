import DDP.Impl.Order

/-!
# C16 — compilation is repeatable

Theorems about every order in which the Go runtime may hand out map entries (all
permutations), plus the regenerated inventory of order-sensitive sites.
-/

namespace DDP.C16
open DDP.Order DDP.Generated DDP.Scanner

/-! ### sorting makes the iteration order irrelevant -/

/-- **Any correct sort of any permutation gives one result**: if `less` is asymmetric and
any two distinct elements of the list are comparable, two `less`-sorted permutations of the
same entries are equal — so it does not matter in which order the map was iterated before
sorting, nor that `sort.Slice` is unstable. -/
theorem sort_unique {α} (less : α → α → Bool) (l₁ l₂ : List α)
    (total : ∀ a ∈ l₁, ∀ b ∈ l₁, a ≠ b → less a b = true ∨ less b a = true)
    (h₁ : SortedBy less l₁) (h₂ : SortedBy less l₂) (hp : l₁.Perm l₂) : l₁ = l₂ := by
  apply List.Perm.eq_of_pairwise (le := fun a b => less b a = false) _ h₁ h₂ hp
  intro a b ha hb hab hba
  apply Classical.byContradiction
  intro hne
  have hb' : b ∈ l₁ := hp.symm.subset hb
  rcases total a ha b hb' hne with h | h
  · rw [h] at hba; cases hba
  · rw [h] at hab; cases hab

/-- the position order of the repaired comparator is a strict total order -/
theorem posBefore_irrefl (p : Pos) : posBefore p p = false := by simp [posBefore]

theorem posBefore_asymm (p q : Pos) (h : posBefore p q = true) : posBefore q p = false := by
  simp only [posBefore, Bool.or_eq_true, decide_eq_true_eq, Bool.and_eq_true, beq_iff_eq] at h
  simp only [posBefore, Bool.or_eq_false_iff, decide_eq_false_iff_not, Bool.and_eq_false_imp, beq_iff_eq]
  omega

theorem posBefore_total (p q : Pos) (h : p ≠ q) : posBefore p q = true ∨ posBefore q p = true := by
  simp only [posBefore, Bool.or_eq_true, decide_eq_true_eq, Bool.and_eq_true, beq_iff_eq]
  have : p.line ≠ q.line ∨ p.col ≠ q.col := by
    cases p; cases q; simp only [ne_eq, Pos.mk.injEq, not_and] at h ⊢
    by_cases hl : (‹Nat› : Nat) = ‹Nat› <;> simp_all <;> omega
  omega

/-- **Imported declarations**: the declarations of one module start at pairwise different
positions; whatever order the map `PublicDecls` was iterated in, sorting by start position
yields one and the same list (hence one insertion order, one first name clash, …). -/
theorem imported_decl_order_unique {α} (start : α → Pos) (l₁ l₂ : List α)
    (distinct : ∀ a ∈ l₁, ∀ b ∈ l₁, a ≠ b → start a ≠ start b)
    (h₁ : SortedBy (fun a b => posBefore (start a) (start b)) l₁)
    (h₂ : SortedBy (fun a b => posBefore (start a) (start b)) l₂) (hp : l₁.Perm l₂) : l₁ = l₂ :=
  sort_unique _ l₁ l₂ (fun a ha b hb hne => posBefore_total _ _ (distinct a ha b hb hne)) h₁ h₂ hp

/-- the comparator of the unchanged tree (`Line < || Column <`) is not even asymmetric:
with a declaration at 1:31 and one at 2:1 each is "less" than the other, so the result of the
sort depended on the map order it started from (repaired by 340540c) -/
theorem old_comparator_not_asymmetric :
    posBeforeOld ⟨1, 31⟩ ⟨2, 1⟩ = true ∧ posBeforeOld ⟨2, 1⟩ ⟨1, 31⟩ = true := by decide

/-! ### "deliver the first error" -/

/-- if at most one entry can fail, the delivered diagnostic does not depend on the order -/
theorem first_error_perm_invariant {α ε} (check : α → Option ε) (l₁ l₂ : List α) (hp : l₁.Perm l₂)
    (atMostOne : ∀ a ∈ l₁, ∀ b ∈ l₁, (check a).isSome → (check b).isSome → a = b) :
    firstError check l₁ = firstError check l₂ := by
  unfold firstError
  induction hp with
  | nil => rfl
  | cons x _ ih =>
    simp only [List.findSome?_cons]
    cases hx : check x with
    | some e => rfl
    | none => exact ih (fun a ha b hb => atMostOne a (List.mem_cons_of_mem _ ha) b (List.mem_cons_of_mem _ hb))
  | swap x y l =>
    simp only [List.findSome?_cons]
    cases hx : check x with
    | none => cases hy : check y <;> rfl
    | some e =>
      cases hy : check y with
      | none => rfl
      | some e' =>
        have := atMostOne x (by simp) y (by simp) (by simp [hx]) (by simp [hy])
        subst this; rw [hx] at hy; cases hy; rfl
  | trans h₁₂ _ ih₁ ih₂ =>
    rw [ih₁ atMostOne]
    exact ih₂ (fun a ha b hb => atMostOne a (h₁₂.symm.subset ha) b (h₁₂.symm.subset hb))

/-- with two failing entries the delivered diagnostic *does* depend on the order — which is
why iterating `callExpr.Args` / `genericUnifiedMap` as maps was a defect (c1063e9, 1b75d92) -/
theorem first_error_order_dependent :
    firstError (fun n : Nat => if n > 0 then some n else none) [1, 2] ≠
    firstError (fun n : Nat => if n > 0 then some n else none) [2, 1] := by decide

/-- after sorting the entries by a key that is total on them, the delivered diagnostic is the
same for every iteration order, however many entries fail -/
theorem first_error_after_sort {α ε} (check : α → Option ε) (less : α → α → Bool) (s₁ s₂ : List α)
    (total : ∀ a ∈ s₁, ∀ b ∈ s₁, a ≠ b → less a b = true ∨ less b a = true)
    (h₁ : SortedBy less s₁) (h₂ : SortedBy less s₂) (hp : s₁.Perm s₂) :
    firstError check s₁ = firstError check s₂ := by
  rw [sort_unique less s₁ s₂ total h₁ h₂ hp]

/-! ### commuting effects -/

/-- releasing a set of distinct blocks leaves the same live blocks in whatever order the
variables of a scope are visited (`exitScope`, `exitFuncScope`, frees before `Gib … zurück`) -/
theorem free_order_unobservable (live : List Nat) (f₁ f₂ : List Nat) (hp : f₁.Perm f₂) :
    (f₁.foldl (fun h b => h.erase b) live).Perm (f₂.foldl (fun h b => h.erase b) live) := by
  induction hp generalizing live with
  | nil => exact List.Perm.refl _
  | cons x _ ih => exact ih (live.erase x)
  | swap x y l =>
    simp only [List.foldl_cons]
    rw [List.erase_comm]
  | trans _ _ ih₁ ih₂ => exact (ih₁ live).trans (ih₂ live)

/-- counting (`sortAliases`: number of Referenz / generic parameters) is order-independent -/
theorem count_order_unobservable {α} (p : α → Bool) (l₁ l₂ : List α) (hp : l₁.Perm l₂) :
    l₁.countP p = l₂.countP p := hp.countP_eq p

/-! ### every order-sensitive site of the current source is accounted for -/

/-- the regenerated inventory (typed scan: every `range` over a map, every maps.Keys/Values,
every sort and binary search in the front end, code generator and linker driver) is covered
by the classification; a new site makes this fail -/
theorem site_inventory_covered : ∀ s ∈ orderSites, (classify s).isSome = true := by decide +kernel

end DDP.C16

import DDP.Impl.ExprLadder
import DDP.Proofs.LadderParse
import DDP.Spec.Eval

/-!
# C01 — compiled programs behave as DDP's evaluation rules prescribe

The evaluation rules are the L2 reference evaluator (`DDP.Spec.evalExpr`, `execStmt`, …: total
functions, structural on the fuel).  This file states the rules the property singles out as
theorems about that evaluator and its primitive operations; the compiled programs are tied to the
evaluator by the correspondence check (`vlib/props/C01.py`).
-/

namespace DDP.Spec

/-! ## 64-bit and 8-bit arithmetic -/

theorem wrap64_range (i : Int) : -9223372036854775808 ≤ wrap64 i ∧ wrap64 i < 9223372036854775808 := by
  unfold wrap64; simp only []; split <;> omega

theorem wrap64_id (i : Int) (h : -9223372036854775808 ≤ i ∧ i < 9223372036854775808) : wrap64 i = i := by
  unfold wrap64; simp only []; split <;> omega

/-- the wrapped result is congruent to the exact one modulo 2^64 -/
theorem wrap64_congr (i : Int) : (wrap64 i - i) % 18446744073709551616 = 0 := by
  unfold wrap64; simp only []; split <;> omega

theorem wrap8_lt (i : Int) : wrap8 i < 256 := by
  unfold wrap8; omega

theorem wrap8_id (n : Nat) (h : n < 256) : wrap8 (n : Int) = n := by
  unfold wrap8; omega

/-- Zahl arithmetic is exact arithmetic wrapped to 64 bits -/
theorem plus_zahl (a b : Int) : arith .plus (.int a) (.int b) = .ok (.int (wrap64 (a + b))) := by
  simp [arith, isFloatV, Val.toInt?]

theorem minus_zahl (a b : Int) : arith .minus (.int a) (.int b) = .ok (.int (wrap64 (a - b))) := by
  simp [arith, isFloatV, Val.toInt?]

theorem mal_zahl (a b : Int) : arith .mult (.int a) (.int b) = .ok (.int (wrap64 (a * b))) := by
  simp [arith, isFloatV, Val.toInt?]

/-- two Bytes stay a Byte (modulo 256) -/
theorem plus_byte (a b : Nat) : arith .plus (.byte a) (.byte b) = .ok (.byte (wrap8 ((a : Int) + b))) := by
  simp [arith]

/-- a Byte next to a Zahl counts with its unsigned value and the result is a Zahl -/
theorem plus_zahl_byte (a : Int) (b : Nat) : arith .plus (.int a) (.byte b) = .ok (.int (wrap64 (a + b))) := by
  simp [arith, isFloatV, Val.toInt?]

theorem minus_byte_zahl (a : Nat) (b : Int) : arith .minus (.byte a) (.int b) = .ok (.int (wrap64 (a - b))) := by
  simp [arith, isFloatV, Val.toInt?]

/-- a Kommazahl operand makes the operation a floating one; the Byte converts unsigned -/
theorem durch_byte_komma (b : Nat) (k : Float) :
    floatOp2 (· / ·) (.byte b) (.float k) = .ok (.float (Float.ofNat b / k)) := by
  simp [floatOp2, Val.toFloat?]

/-! ## conversions between Zahl, Kommazahl, Byte, Wahrheitswert, Buchstabe -/

theorem byte_als_zahl (n : Nat) : castVal (.byte n) .zahl = .ok (.int n) := by
  simp [castVal, numCast, Val.toInt?]

theorem zahl_als_byte (z : Int) : castVal (.int z) .byte = .ok (.byte (z % 256).toNat) := by
  simp [castVal, numCast, Val.toInt?, wrap8]

theorem wahr_als_zahl (b : Bool) : castVal (.bool b) .zahl = .ok (.int (if b then 1 else 0)) := by
  simp [castVal]

theorem buchstabe_als_zahl (c : Int) : castVal (.char c) .zahl = .ok (.int c) := by
  simp [castVal]

theorem zahl_als_wahr (z : Int) : castVal (.int z) .wahr = .ok (.bool (z != 0)) := by
  simp [castVal]

/-- an initialiser / assignment converts between the numeric types, and only between them -/
theorem coerce_numeric (v : Val) (t : Ty) (h : isNumTy t = true) (hv : isNumVal v = true) :
    coerceTo t v = numCast t v := by
  cases t <;> simp_all [coerceTo, isNumTy]

theorem coerce_other (v : Val) (t : Ty) (h : isNumTy t = false) (hv : t ≠ .variable) : coerceTo t v = .ok v := by
  cases t <;> simp_all [coerceTo, isNumTy]

/-! ## short-circuit evaluation -/

/-- `a und b` with `a` false: `b` is not evaluated (no output, no Laufzeitfehler, no state change) -/
theorem und_short (ctx : Ctx) (fuel : Nat) (env : Env) (st st' : State) (a b : Expr)
    (h : evalExpr ctx fuel env st a = (st', .ok (.bool false))) :
    evalExpr ctx (fuel + 1) env st (.bin .and a b) = (st', .ok (.bool false)) := by
  simp only [evalExpr, h]

theorem und_long (ctx : Ctx) (fuel : Nat) (env : Env) (st st' : State) (a b : Expr)
    (h : evalExpr ctx fuel env st a = (st', .ok (.bool true))) :
    evalExpr ctx (fuel + 1) env st (.bin .and a b) = evalExpr ctx fuel env st' b := by
  simp only [evalExpr, h]

theorem oder_short (ctx : Ctx) (fuel : Nat) (env : Env) (st st' : State) (a b : Expr)
    (h : evalExpr ctx fuel env st a = (st', .ok (.bool true))) :
    evalExpr ctx (fuel + 1) env st (.bin .or a b) = (st', .ok (.bool true)) := by
  simp only [evalExpr, h]

theorem oder_long (ctx : Ctx) (fuel : Nat) (env : Env) (st st' : State) (a b : Expr)
    (h : evalExpr ctx fuel env st a = (st', .ok (.bool false))) :
    evalExpr ctx (fuel + 1) env st (.bin .or a b) = evalExpr ctx fuel env st' b := by
  simp only [evalExpr, h]

/-- the skipped operand is irrelevant: any two right operands give the same result -/
theorem und_short_indep (ctx : Ctx) (fuel : Nat) (env : Env) (st st' : State) (a b b' : Expr)
    (h : evalExpr ctx fuel env st a = (st', .ok (.bool false))) :
    evalExpr ctx (fuel + 1) env st (.bin .and a b) = evalExpr ctx (fuel + 1) env st (.bin .and a b') := by
  rw [und_short ctx fuel env st st' a b h, und_short ctx fuel env st st' a b' h]

/-- `x, falls c, ansonsten y`: the condition first, then only the chosen operand -/
theorem falls_wahr (ctx : Ctx) (fuel : Nat) (env : Env) (st st' : State) (x c y : Expr)
    (h : evalExpr ctx fuel env st c = (st', .ok (.bool true))) :
    evalExpr ctx (fuel + 1) env st (.ter .falls x c y) = evalExpr ctx fuel env st' x := by
  simp only [evalExpr, h]

theorem falls_falsch (ctx : Ctx) (fuel : Nat) (env : Env) (st st' : State) (x c y : Expr)
    (h : evalExpr ctx fuel env st c = (st', .ok (.bool false))) :
    evalExpr ctx (fuel + 1) env st (.ter .falls x c y) = evalExpr ctx fuel env st' y := by
  simp only [evalExpr, h]

/-- binary operators evaluate the left operand first; its Laufzeitfehler ends the evaluation -/
theorem bin_left_fehler (ctx : Ctx) (fuel : Nat) (env : Env) (st st' : State) (a b : Expr)
    (h : evalExpr ctx fuel env st a = (st', .fehler)) :
    evalExpr ctx (fuel + 1) env st (.bin .plus a b) = (st', .fehler) := by
  simp only [evalExpr, h]

/-! ## 1-based indexing and slicing -/

theorem index_one_based (t : Ty) (vs : List Val) (i : Int) (h1 : 1 ≤ i) (h2 : i ≤ vs.length) :
    indexVal (.list t vs) i = .ok (vs[(i - 1).toNat]'(by omega)) := by
  have hlt : i.toNat - 1 < vs.length := by omega
  simp [indexVal, h1, h2, List.getElem?_eq_getElem hlt]

theorem index_outside (t : Ty) (vs : List Val) (i : Int) (h : i < 1 ∨ (vs.length : Int) < i) :
    indexVal (.list t vs) i = .fehler := by
  unfold indexVal
  have : ¬ (1 ≤ i ∧ i ≤ vs.length) := by omega
  simp [this]

theorem text_index_one_based (cps : List Nat) (i : Int) (h1 : 1 ≤ i) (h2 : i ≤ cps.length) :
    indexVal (.text cps) i = .ok (.char (cps[(i - 1).toNat]'(by omega))) := by
  have hlt : i.toNat - 1 < cps.length := by omega
  simp [indexVal, h1, h2, List.getElem?_eq_getElem hlt]

theorem clampI_inside (i lo hi : Int) (h1 : lo ≤ i) (h2 : i ≤ hi) : clampI i lo hi = i := by
  have a : ¬ i < lo := by omega
  have b : ¬ i > hi := by omega
  simp [clampI, a, b]

theorem clampI_low (i lo hi : Int) (h1 : i ≤ lo) (h2 : lo ≤ hi) : clampI i lo hi = lo := by
  by_cases a : i < lo
  · have b : ¬ lo > hi := by omega
    simp [clampI, a, b]
  · have : i = lo := by omega
    subst this
    have b : ¬ i > hi := by omega
    simp [clampI, b]

theorem clampI_high (i lo hi : Int) (h1 : hi ≤ i) (h2 : lo ≤ hi) : clampI i lo hi = hi := by
  by_cases a : i < lo
  · have : lo = hi := by omega
    subst this
    simp [clampI, a]
  · by_cases b : i > hi
    · simp [clampI, a, b]
    · have : i = hi := by omega
      subst this
      simp [clampI, a]

/-- a slice inside the bounds is exactly `drop (i-1)` then `take (j-i+1)` -/
theorem slice_inside {α} (l : List α) (i j : Int) (h1 : 1 ≤ i) (h2 : i ≤ j) (h3 : j ≤ l.length) :
    sliceList l i j = some ((l.drop (i - 1).toNat).take ((j - i).toNat + 1)) := by
  have hne : l ≠ [] := by intro h; subst h; simp at h3; omega
  have hi : clampI i 1 l.length = i := clampI_inside _ _ _ h1 (by omega)
  have hj : clampI j 1 l.length = j := clampI_inside _ _ _ (by omega) h3
  unfold sliceList
  simp only [hi, hj]
  have : l.isEmpty = false := by cases l <;> simp_all
  simp [this]
  omega

/-- the whole list is the slice from 1 to its length, and bounds beyond the ends are clamped -/
theorem slice_clamped {α} (l : List α) (i j : Int) (h : l ≠ []) (hi : i ≤ 1) (hj : (l.length : Int) ≤ j) :
    sliceList l i j = some l := by
  have hl : 0 < l.length := by cases l <;> simp_all
  have ci : clampI i 1 l.length = 1 := clampI_low _ _ _ hi (by omega)
  have cj : clampI j 1 l.length = l.length := clampI_high _ _ _ hj (by omega)
  unfold sliceList
  have : l.isEmpty = false := by cases l <;> simp_all
  simp only [this, ci, cj]
  have h2 : ¬ ((l.length : Int) < 1) := by omega
  have h3 : l.length - 1 + 1 = l.length := by omega
  simp [h2, h3]

theorem slice_crossed {α} (l : List α) (i j : Int) (h1 : 1 ≤ j) (h2 : j < i) (h3 : i ≤ l.length) :
    sliceList l i j = none := by
  have hi : clampI i 1 l.length = i := clampI_inside _ _ _ (by omega) h3
  have hj : clampI j 1 l.length = j := clampI_inside _ _ _ h1 (by omega)
  have : l.isEmpty = false := by cases l <;> simp_all <;> omega
  unfold sliceList
  simp [this, hi, hj, h2]

/-! ## equality on every type -/

theorem gleich_zahl (a b : Int) : equalVals (.int a) (.int b) = (a == b) := by simp [equalVals]
theorem gleich_text (a b : List Nat) : equalVals (.text a) (.text b) = (a == b) := by simp [equalVals]
theorem gleich_buchstabe (a b : Int) : equalVals (.char a) (.char b) = (a == b) := by simp [equalVals]
theorem gleich_wahr (a b : Bool) : equalVals (.bool a) (.bool b) = (a == b) := by simp [equalVals]

/-- lists are equal when they have the same length and equal elements at every position;
the (static) element type does not take part -/
theorem gleich_liste_nil (t u : Ty) : equalVals (.list t []) (.list u []) = true := by simp [equalVals, equalList]

theorem gleich_liste_cons (t u : Ty) (x y : Val) (xs ys : List Val) :
    equalVals (.list t (x :: xs)) (.list u (y :: ys)) = (equalVals x y && equalVals (.list t xs) (.list u ys)) := by
  simp [equalVals, equalList]

theorem gleich_liste_length (t u : Ty) (xs ys : List Val) (h : xs.length ≠ ys.length) :
    equalVals (.list t xs) (.list u ys) = false := by
  simp only [equalVals]
  induction xs generalizing ys with
  | nil => cases ys <;> simp_all [equalList]
  | cons x xs ih =>
    cases ys with
    | nil => simp [equalList]
    | cons y ys =>
      simp only [equalList]
      have : xs.length ≠ ys.length := by simpa using h
      simp [ih ys this]

/-- a Variable equals another exactly when both are empty or hold equal values of the same type -/
theorem gleich_variable (tx ty : Ty) (x y : Val) :
    equalVals (.any (some (tx, x))) (.any (some (ty, y))) = (tx == ty && equalVals x y) := by simp [equalVals]

/-! ## counting loops: one check, one round -/

/-- a loop whose condition is false ends normally, with only the condition's effects -/
theorem loop_ends (ctx : Ctx) (fuel : Nat) (env : Env) (st st' : State)
    (cond : Env → State → State × R Bool) (body : List Stmt) (after : Env → State → State)
    (h : cond env st = (st', .ok false)) :
    execLoop ctx (fuel + 1) env st cond body after false = (st', .normal) := by
  simp only [execLoop, h]
  simp

/-- a round: the body in a fresh scope, then the step, then the next check -/
theorem loop_round (ctx : Ctx) (fuel : Nat) (env : Env) (st st' st'' : State)
    (cond : Env → State → State × R Bool) (body : List Stmt) (after : Env → State → State)
    (h : cond env st = (st', .ok true)) (hb : execBlock ctx fuel env.push st' body = (st'', .normal)) :
    execLoop ctx (fuel + 1) env st cond body after false = execLoop ctx fuel env (after env st'') cond body after false := by
  simp only [execLoop, h]
  simp [hb]

/-- `Verlasse die Schleife` ends the loop normally, `Fahre mit der Schleife fort` goes on with the step -/
theorem loop_break (ctx : Ctx) (fuel : Nat) (env : Env) (st st' st'' : State)
    (cond : Env → State → State × R Bool) (body : List Stmt) (after : Env → State → State)
    (h : cond env st = (st', .ok true)) (hb : execBlock ctx fuel env.push st' body = (st'', .brk)) :
    execLoop ctx (fuel + 1) env st cond body after false = (st'', .normal) := by
  simp only [execLoop, h]
  simp [hb]

theorem loop_continue (ctx : Ctx) (fuel : Nat) (env : Env) (st st' st'' : State)
    (cond : Env → State → State × R Bool) (body : List Stmt) (after : Env → State → State)
    (h : cond env st = (st', .ok true)) (hb : execBlock ctx fuel env.push st' body = (st'', .cont)) :
    execLoop ctx (fuel + 1) env st cond body after false = execLoop ctx fuel env (after env st'') cond body after false := by
  simp only [execLoop, h]
  simp [hb]

/-- for-each visits the elements of the value the operand had on entry, in order, index from 1 -/
theorem foreach_nil (ctx : Ctx) (fuel : Nat) (env : Env) (st : State) (t : Ty) (n : String) (ix : Option String)
    (body : List Stmt) (k : Nat) :
    execForEach ctx (fuel + 1) env st t n ix body [] k = (st, .normal) := by
  simp only [execForEach]

/-- `Wiederhole … n Mal` with a count of zero or below does not run its body (the compiled loop used to test `counter ≠ 0`
and ran 2^64 − |n| times; repaired) -/
example : (run { structs := [], funcs := [],
                 main := [.repeat (.intLit (-3)) [.print (.intLit 1) true], .repeat (.intLit 0) [.print (.intLit 2) true],
                          .repeat (.intLit 2) [.print (.intLit 3) true], .print (.intLit 9) true] } 8).stdout
          = "3\n3\n9\n" := by decide +kernel

/-- non-vacuity: a concrete program exercising precedence, conversion, short-circuit, indexing -/
example : (run { structs := [], funcs := [],
                 main := [.print (.bin .plus (.intLit 1) (.bin .mult (.intLit 2) (.intLit 3))) true,
                          .print (.bin .and (.boolLit false) (.bin .eq (.bin .index (.listLit .zahl []) (.intLit 1)) (.intLit 0))) true,
                          .print (.bin .index (.listLit .zahl [.intLit 4, .intLit 5]) (.intLit 2)) true] } 8).stdout
          = "7\nfalsch\n5\n" := by decide +kernel

end DDP.Spec

namespace DDP.Ladder
open DDP.Generated.Ladder

/-! ## Precedence and associativity as the parser has them now (over the ladder regenerated from expressions.go) -/

/-- the rungs exist in the documented order (each one's number is its precedence) -/
theorem ladder_order : ladder.map (·.name) = expectedOrder := by decide

/-- ten rungs are left-associative chains whose operands all come from the next tighter rung:
`a op b op c` is `(a op b) op c`, and an operand with a looser operator needs parentheses -/
theorem left_chains : leftChains.all (fun (n, next) => (rung? n).any (isLeftChain · next)) = true := by decide

/-- consecutive chain rungs are consecutive on the ladder: there is no rung between an operator and its operands -/
theorem chains_are_consecutive :
    leftChains.all (fun (n, next) => (level n).bind (fun i => (level next).map (· == i + 1)) == some true) = true := by decide

/-- every operator is built on its documented rung, and on no looser one -/
theorem op_precedence : expectedOps.all (fun (op, r) => (buildersOf op).head? == some r ||
      -- `nicht` is also built by `kein(e) T` on the equality rung, around the type test it negates
      (op == "UN_NOT" && buildersOf op == ["equality", "unary"])) = true := by decide

/-- no operator of the parser is missing from the table -/
theorem ops_complete : (ladder.flatMap (·.ops)).all (fun op => (expectedOps.map Prod.fst).contains op) = true := by decide

/-- the token (sequence) that announces each operator family -/
theorem loop_tokens : expectedLoopToks.all (fun (n, toks) => (rung? n).any (fun r => r.loops.map (·.toks) == [toks])) = true := by decide

/-- `entweder a, oder b` and the sign `-a` are prefix forms: they return after one application, there is no chain to associate -/
theorem prefix_forms : (rung? "boolXOR").any isPrefixForm = true ∧ (rung? "negate").any isPrefixForm = true ∧
    (rung? "negate").map (·.calls) = some ["negate", "power"] := by decide

/-- `a, falls c, ansonsten b`: the first operand is an `entweder`-level expression, condition and alternative are whole
`falls` expressions again (right nested) -/
theorem falls_shape : (rung? "ifExpression").map (fun r => (r.calls, r.loops.map (·.calls))) =
    some (["boolXOR", "ifExpression"], [["ifExpression"]]) := by decide

/-- `hoch` takes a postfix-level left operand and a whole unary expression as exponent, chained to the left -/
theorem power_shape : (rung? "power").map (fun r => r.loops.map (fun l => (l.toks, l.calls, l.rebinds))) =
    some [(["HOCH"], ["unary"], true)] := by decide

/-- unary operators apply to unary expressions (so `nicht nicht a`, `der Betrag von -a` need no parentheses) and give way
to `negate` otherwise -/
theorem unary_shape : (rung? "unary").map (·.calls) = some ["alias", "power", "negate", "unary"] := by decide

/-- the numbers the program generator prints minimal parentheses with (`P_FALLS` = 1 … `P_PRIMARY` = 20) -/
theorem generator_levels : level "ifExpression" = some 1 ∧ level "boolOR" = some 3 ∧ level "equality" = some 8 ∧
    level "term" = some 11 ∧ level "factor" = some 12 ∧ level "unary" = some 13 ∧ level "negate" = some 14 ∧
    level "power" = some 15 ∧ level "primary" = some 20 := by decide

/-! ## The ladder as a parser: what the chain rungs make of a token sequence

`DDP.LadderParse.parse` is the executable model of the shape the theorems above read off the source (ten chain rungs,
`unary` calling itself, `primary` restarting at the loosest rung inside parentheses), `ddpTbl` its operator table computed
from the regenerated ladder. The tie (`vlib/laddercorr.py`) gives the same token sequences to this model and — spelled as
DDP — to the real parser and compares the trees. -/

open DDP.LadderParse in
/-- the table computed from the source is the documented one: ten chain rungs; `oder` loosest, then `und`, the three
`logisch` operators, three rungs further (equality, comparison, shifts) `plus / minus / verkettet mit`, then
`mal / durch / modulo`; the four comparisons on rung 6 and the two shifts on rung 7 are the operators with a closing word -/
theorem chain_table_from_source : ddpTbl.n = 10 ∧
    (List.range 18).map ddpTbl.lv = [0, 1, 2, 3, 4, 8, 8, 8, 9, 9, 9, 6, 6, 6, 6, 7, 7, 10] ∧
    (List.range 18).map ddpTbl.cl = [false, false, false, false, false, false, false, false, false, false, false,
                                     true, true, true, true, true, true, false] := by decide

open DDP.LadderParse in
/-- … and these are the numbers the generator's printer parenthesises with: `P_x - P_OR` -/
theorem chain_table_is_generator_table :
    (chainOps.map (fun op => (buildersOf op).head?.bind level)).map (·.map (· - 3)) =
      (List.range 17).map (fun o => some (ddpTbl.lv o)) := by decide

open DDP.LadderParse in
/-- every rung of the table is one of the loops `left_chains` found in the source: rung `k` of the model is the `k`-th
function from `boolOR`, and that function is `next (op next)*` over the function after it -/
theorem chain_rungs_are_source_loops :
    (List.range ddpTbl.n).all (fun k =>
      match (ladder.map (·.name))[chainBase + k]?, (ladder.map (·.name))[chainBase + k + 1]? with
      | some r, some next => leftChains.contains (r, next) && (rung? r).any (isLeftChain · next)
      | _, _ => false) = true := by decide

open DDP.LadderParse in
/-- **Minimal parentheses are faithful.** For every tree over the chain operators, the prefix operators, `entweder a, oder b` and the conditional
expression `a, falls c, ansonsten b`, the parser (at the table of the DDP in /repo) reads the minimal-parentheses spelling
back as that tree, and every larger fuel gives the same answer. Instance of `parse_pp` (`DDP/Proofs/LadderParse.lean`: any
table, any tree, induction on the tree). -/
theorem minimal_parentheses_faithful (e : E) (h : wf ddpTbl e) :
    ∃ f₀, ∀ f, f₀ ≤ f → parseIf ddpTbl f (ppI ddpTbl e) = some (e, []) :=
  parse_pp_stable ddpTbl e h

open DDP.LadderParse in
/-- the same without fuel: `parseAll` runs the ladder with the fuel `fuel_suffices` proves sufficient for every input -/
theorem minimal_parentheses_roundtrip (e : E) (h : wf ddpTbl e) : parseAll ddpTbl (ppI ddpTbl e) = some e :=
  parseAll_pp ddpTbl e h

open DDP.LadderParse in
/-- `parseAll` answers exactly what the ladder answers with any amount of fuel (so the model driver of the tie, which calls
`parseAll`, is the model and not a truncation of it) -/
theorem parseAll_is_the_ladder (ts : List Tok) (e : E) :
    parseAll ddpTbl ts = some e ↔ ∃ f, parseIf ddpTbl f ts = some (e, []) :=
  ⟨parseAll_sound ddpTbl, fun ⟨_, h⟩ => parseAll_complete ddpTbl h⟩

open DDP.LadderParse in
/-- the same inside a larger sentence, as operand of chain rung `k`: whatever follows, as long as it is not an operator word
the rung would take -/
theorem minimal_parentheses_faithful_in_context (e : E) (h : wf ddpTbl e) (k : Nat) (hk : k ≤ 10) (rest : List Tok)
    (hrest : okRest ddpTbl k rest) : ∃ f, parse ddpTbl f k (pp ddpTbl k e ++ rest) = some (e, rest) :=
  parse_pp_at ddpTbl e h k (by rw [chain_table_from_source.1]; exact hk) rest hrest

open DDP.LadderParse in
/-- … and where a whole expression stands (condition or alternative of a conditional expression, inside parentheses): what
follows must be neither an operator word nor `, falls` -/
theorem minimal_parentheses_faithful_whole_expression (e : E) (h : wf ddpTbl e) (rest : List Tok) (hrest : okRestI rest) :
    ∃ f, parseIf ddpTbl f (ppI ddpTbl e ++ rest) = some (e, rest) :=
  parseIf_pp_at ddpTbl e h rest hrest

open DDP.LadderParse in
/-- **Minimal parentheses lose nothing**: different trees are spelled differently -/
theorem minimal_parentheses_injective (e₁ e₂ : E) (h₁ : wf ddpTbl e₁) (h₂ : wf ddpTbl e₂)
    (h : ppI ddpTbl e₁ = ppI ddpTbl e₂) : e₁ = e₂ :=
  pp_injective ddpTbl e₁ e₂ h₁ h₂ h

open DDP.LadderParse in
/-- the ladder reads from the front and leaves the rest alone: what a rung hands back as remaining tokens is a suffix of what it
was given (no token dropped from the middle, reordered or invented), for every token sequence -/
theorem ladder_reads_from_the_front (f k : Nat) (ts : List Tok) (x : E × List Tok) (h : parse ddpTbl f k ts = some x) :
    ∃ pre, ts = pre ++ x.2 :=
  (consumes_prefix ddpTbl f).1 k ts x h

open DDP.LadderParse in
/-- the parser is a function of the tokens: the fuel only decides whether it finishes -/
theorem ladder_parse_deterministic {f f' k ts x y} (h : parse ddpTbl f k ts = some x) (h' : parse ddpTbl f' k ts = some y) :
    x = y := parse_det ddpTbl h h'

section examples
open DDP.LadderParse

/-- `1 plus 2 mal 3` is `1 plus (2 mal 3)` -/
example : parseAll ddpTbl [.atom 1, .bop 5, .atom 2, .bop 8, .atom 3] =
    some (.bin 5 (.atom 1) (.bin 8 (.atom 2) (.atom 3))) := by decide
/-- `1 minus 2 minus 3` is `(1 minus 2) minus 3` -/
example : parseAll ddpTbl [.atom 1, .bop 6, .atom 2, .bop 6, .atom 3] =
    some (.bin 6 (.bin 6 (.atom 1) (.atom 2)) (.atom 3)) := by decide
/-- `a oder b und nicht c plus d` -/
example : parseAll ddpTbl [.atom 1, .bop 0, .atom 2, .bop 1, .uop 0, .atom 3, .bop 5, .atom 4] =
    some (.bin 0 (.atom 1) (.bin 1 (.atom 2) (.bin 5 (.un 0 (.atom 3)) (.atom 4)))) := by decide
/-- the right-nested tree needs its parentheses, the left-nested one none; the hypothesis of the theorem is met -/
example : pp ddpTbl 0 (.bin 6 (.atom 1) (.bin 6 (.atom 2) (.atom 3))) =
    [.atom 1, .bop 6, .lp, .atom 2, .bop 6, .atom 3, .rp] ∧
    pp ddpTbl 0 (.bin 6 (.bin 6 (.atom 1) (.atom 2)) (.atom 3)) = [.atom 1, .bop 6, .atom 2, .bop 6, .atom 3] ∧
    wf ddpTbl (.bin 6 (.atom 1) (.bin 6 (.atom 2) (.atom 3))) := by decide
/-- a prefix operator binds tighter than every chain: `nicht (a und b)` keeps its parentheses, `(nicht a) und b` drops them -/
example : pp ddpTbl 0 (.un 0 (.bin 1 (.atom 1) (.atom 2))) = [.uop 0, .lp, .atom 1, .bop 1, .atom 2, .rp] ∧
    pp ddpTbl 0 (.bin 1 (.un 0 (.atom 1)) (.atom 2)) = [.uop 0, .atom 1, .bop 1, .atom 2] := by decide
/-- the table matters: with `mal` moved to the rung of `plus` the same tokens give another tree -/
example : parseAll ⟨10, fun o => if o = 8 then 8 else ddpTbl.lv o, ddpTbl.cl⟩ [.atom 1, .bop 5, .atom 2, .bop 8, .atom 3] =
    some (.bin 8 (.bin 5 (.atom 1) (.atom 2)) (.atom 3)) := by decide
/-- `1, falls a, ansonsten 2, falls b, ansonsten 3` is `1, falls a, ansonsten (2, falls b, ansonsten 3)`: a chain of conditional
expressions nests to the right and is spelled without parentheses; the left-nested tree needs them -/
example : parseAll ddpTbl [.atom 1, .falls, .atom 7, .sonst, .atom 2, .falls, .atom 8, .sonst, .atom 3] =
    some (.ite (.atom 1) (.atom 7) (.ite (.atom 2) (.atom 8) (.atom 3))) ∧
    ppI ddpTbl (.ite (.atom 1) (.atom 7) (.ite (.atom 2) (.atom 8) (.atom 3))) =
      [.atom 1, .falls, .atom 7, .sonst, .atom 2, .falls, .atom 8, .sonst, .atom 3] ∧
    ppI ddpTbl (.ite (.ite (.atom 1) (.atom 7) (.atom 2)) (.atom 8) (.atom 3)) =
      [.lp, .atom 1, .falls, .atom 7, .sonst, .atom 2, .rp, .falls, .atom 8, .sonst, .atom 3] := by decide
/-- a conditional expression is looser than every chain: as an operand it is parenthesised, its own value operand is not -/
example : ppI ddpTbl (.bin 5 (.atom 1) (.ite (.atom 2) (.atom 7) (.atom 3))) =
      [.atom 1, .bop 5, .lp, .atom 2, .falls, .atom 7, .sonst, .atom 3, .rp] ∧
    parseAll ddpTbl [.atom 1, .bop 5, .atom 2, .falls, .atom 7, .sonst, .atom 3] =
      some (.ite (.bin 5 (.atom 1) (.atom 2)) (.atom 7) (.atom 3)) := by decide
/-- `entweder a, oder b` is a prefix form over the loosest chain rung: its operands take whole chains without parentheses, as a
value operand of a conditional expression it stands free, as an operand of a chain it is parenthesised -/
example : parseAll ddpTbl [.entw, .atom 1, .bop 1, .atom 2, .oderk, .atom 3, .bop 0, .atom 4] =
      some (.xor (.bin 1 (.atom 1) (.atom 2)) (.bin 0 (.atom 3) (.atom 4))) ∧
    ppI ddpTbl (.ite (.xor (.atom 1) (.atom 2)) (.atom 7) (.atom 3)) = [.entw, .atom 1, .oderk, .atom 2, .falls, .atom 7, .sonst, .atom 3] ∧
    ppI ddpTbl (.bin 1 (.xor (.atom 1) (.atom 2)) (.atom 3)) = [.lp, .entw, .atom 1, .oderk, .atom 2, .rp, .bop 1, .atom 3] ∧
    parseAll ddpTbl [.entw, .atom 1, .oderk, .atom 2, .falls, .atom 7, .sonst, .atom 3] =
      some (.ite (.xor (.atom 1) (.atom 2)) (.atom 7) (.atom 3)) := by decide
/-- comparisons and shifts close behind their right operand: `a größer als b plus 1 ist` compares `a` with `b plus 1`;
`a um 2 Bit nach Links verschoben kleiner als b ist` shifts first; a missing or foreign closing word is rejected -/
example : parseAll ddpTbl [.atom 1, .bop 11, .atom 2, .bop 5, .atom 3, .cls 11] =
      some (.bin 11 (.atom 1) (.bin 5 (.atom 2) (.atom 3))) ∧
    parseAll ddpTbl [.atom 1, .bop 15, .atom 2, .cls 15, .bop 12, .atom 3, .cls 12] =
      some (.bin 12 (.bin 15 (.atom 1) (.atom 2)) (.atom 3)) ∧
    ppI ddpTbl (.bin 12 (.bin 15 (.atom 1) (.atom 2)) (.atom 3)) = [.atom 1, .bop 15, .atom 2, .cls 15, .bop 12, .atom 3, .cls 12] ∧
    ppI ddpTbl (.bin 15 (.atom 1) (.bin 12 (.atom 2) (.atom 3))) = [.atom 1, .bop 15, .lp, .atom 2, .bop 12, .atom 3, .cls 12, .rp, .cls 15] ∧
    parseAll ddpTbl [.atom 1, .bop 11, .atom 2] = none ∧ parseAll ddpTbl [.atom 1, .bop 11, .atom 2, .cls 12] = none := by decide
/-- ill-formed sequences are rejected, not repaired -/
example : parseAll ddpTbl [.atom 1, .bop 5] = none ∧ parseAll ddpTbl [.atom 1, .atom 2] = none ∧
    parseAll ddpTbl [.lp, .atom 1] = none ∧ parseAll ddpTbl [.bop 5, .atom 1] = none ∧
    parseAll ddpTbl [.atom 1, .falls, .atom 7] = none ∧ parseAll ddpTbl [.atom 1, .sonst, .atom 7] = none ∧
    parseAll ddpTbl [.entw, .atom 1] = none ∧ parseAll ddpTbl [.atom 1, .oderk, .atom 2] = none := by decide
end examples

end DDP.Ladder

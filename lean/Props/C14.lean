import DDP.Impl.Types

/-!
# C14 — type equivalence is lawful; aliases are transparent, definitions opaque

Theorems over `DDP.Types` (L1 model of `src/ddptypes` and of the checker's three
positions), for all type terms of any depth.
-/

namespace DDP.Types

/-! ### equivalence laws -/

theorem equal_refl (a : Ty) : equal a a = true := by simp [equal]

theorem equal_symm (a b : Ty) : equal a b = equal b a := by
  show (getUnderlying a == getUnderlying b) = (getUnderlying b == getUnderlying a)
  rw [Bool.eq_iff_iff, beq_iff_eq, beq_iff_eq]; exact eq_comm

theorem equal_iff (a b : Ty) : equal a b = true ↔ getUnderlying a = getUnderlying b := by
  simp [equal]

theorem equal_trans (a b c : Ty) (h1 : equal a b = true) (h2 : equal b c = true) : equal a c = true := by
  rw [equal_iff] at *; exact h1.trans h2

theorem getUnderlying_idem (a : Ty) : getUnderlying (getUnderlying a) = getUnderlying a := by
  induction a with
  | alias u ih => simpa [getUnderlying] using ih
  | list e ih => simp [getUnderlying, ih]
  | _ => simp [getUnderlying]

/-! ### aliases are transparent — everywhere -/

/-- an alias is its target -/
theorem alias_transparent (t : Ty) : equal (.alias t) t = true := by
  simp [equal, getUnderlying]

/-- … also behind further aliases -/
theorem alias_chain (t : Ty) (n : Nat) : equal (Nat.repeat Ty.alias n t) t = true := by
  induction n with
  | zero => exact equal_refl t
  | succ n ih => simpa [Nat.repeat, equal, getUnderlying] using ih

/-- … and inside list types: equivalence is a congruence for list-of -/
theorem equal_congr_list (a b : Ty) : equal (.list a) (.list b) = equal a b := by
  show (getUnderlying (.list a) == getUnderlying (.list b)) = (getUnderlying a == getUnderlying b)
  rw [Bool.eq_iff_iff]; simp [getUnderlying]

/-- … and a congruence for alias-of -/
theorem equal_congr_alias (a b : Ty) : equal (.alias a) b = equal a b := by
  simp [equal, getUnderlying]

theorem alias_in_list (t : Ty) : equal (.list (.alias t)) (.list t) = true := by
  rw [equal_congr_list]; exact alias_transparent t

/-! ### definitions are opaque -/

/-- the types a definition is equivalent to are exactly the aliases of that very definition -/
theorem typedef_equal_iff (i : Nat) (t s : Ty) :
    equal (.typedef i t) s = true ↔ getUnderlying s = .typedef i t := by
  rw [equal_iff]; simp only [getUnderlying]; exact eq_comm

/-- a definition is never equivalent to its base type … -/
theorem typedef_opaque (i : Nat) (t : Ty) : equal (.typedef i t) t = false := by
  cases h : equal (.typedef i t) t with
  | false => rfl
  | true =>
    rw [typedef_equal_iff] at h
    -- getUnderlying t = typedef i t is impossible: sizes
    exfalso
    have hs : ∀ x : Ty, sizeOf (getUnderlying x) ≤ sizeOf x := by
      intro x
      induction x with
      | alias u ih => simp only [getUnderlying, Ty.alias.sizeOf_spec]; omega
      | list e ih => simp only [getUnderlying, Ty.list.sizeOf_spec]; omega
      | _ => simp [getUnderlying]
    have := hs t
    rw [h] at this
    simp only [Ty.typedef.sizeOf_spec] at this
    omega

/-- … nor to another definition, whatever its base -/
theorem typedef_distinct (i j : Nat) (t s : Ty) (h : i ≠ j) : equal (.typedef i t) (.typedef j s) = false := by
  cases he : equal (.typedef i t) (.typedef j s) with
  | false => rfl
  | true => rw [equal_iff] at he; simp [getUnderlying] at he; exact absurd he.1 h

/-- … nor to any primitive, list, Kombination, Variable -/
theorem typedef_not_structural (i : Nat) (t s : Ty) (hs : ∀ j u, getUnderlying s ≠ .typedef j u) :
    equal (.typedef i t) s = false := by
  cases he : equal (.typedef i t) s with
  | false => rfl
  | true => rw [typedef_equal_iff] at he; exact absurd he (hs i t)

theorem typedef_not_numeric (i : Nat) (t : Ty) : isNumeric (.typedef i t) = false := by
  simp [isNumeric, getUnderlying]

/-! ### initialisation and assignment -/

/-- the two positions always agree -/
theorem initOk_eq_assignOk (target value : Ty) : initOk target value = assignOk target value := by
  simp only [initOk, assignOk, equal_symm value target]

/-- they accept exactly: equivalent types, numeric for numeric, anything but `nichts` for Variable -/
theorem initOk_iff (target value : Ty) :
    initOk target value = true ↔
      equal value target = true ∨ (isNumeric target = true ∧ isNumeric value = true) ∨
      (equal target .variable = true ∧ equal value .void = false) := by
  simp only [initOk]
  cases equal value target <;> cases isNumeric target <;> cases isNumeric value <;>
    cases equal target .variable <;> cases equal value .void <;> simp

/-- a returned value is accepted exactly when it has the declared type, or the function returns a
Variable and the value is not 'nichts' -/
theorem returnOk_iff (ret value : Ty) :
    returnOk ret value = true ↔ equal ret value = true ∨ (equal ret .variable = true ∧ equal value .void = false) := by
  simp only [returnOk]
  cases equal ret value <;> cases equal ret .variable <;> cases equal value .void <;> simp

/-- what may be returned may be assigned (the return position is the stricter one: it has no
numeric conversion) -/
theorem returnOk_imp_assignOk (target value : Ty) (h : returnOk target value = true) : assignOk target value = true := by
  rw [← initOk_eq_assignOk, initOk_iff]
  rw [returnOk_iff] at h
  rcases h with h | h
  · exact Or.inl (by rw [equal_symm]; exact h)
  · exact Or.inr (Or.inr h)

/-- 'nichts' is accepted nowhere: not as initialiser, not in an assignment, not as returned value
of a function that returns something -/
theorem void_never_accepted (target : Ty) (ht : equal target .void = false) :
    initOk target .void = false ∧ assignOk target .void = false ∧ returnOk target .void = false := by
  have hn : isNumeric .void = false := by simp [isNumeric, getUnderlying]
  have hv : equal (.void : Ty) .void = true := by simp [equal]
  have hs : equal .void target = false := by rw [equal_symm]; exact ht
  refine ⟨?_, ?_, ?_⟩
  · cases h : initOk target .void with
    | false => rfl
    | true => rw [initOk_iff] at h; simp [hs, hn, hv] at h
  · rw [← initOk_eq_assignOk]
    cases h : initOk target .void with
    | false => rfl
    | true => rw [initOk_iff] at h; simp [hs, hn, hv] at h
  · cases h : returnOk target .void with
    | false => rfl
    | true => rw [returnOk_iff] at h; simp [ht, hv] at h

/-- a definition is returned only from a function declared with that very definition -/
theorem typedef_return_only_itself (i : Nat) (t s : Ty) :
    returnOk (.typedef i t) s = true ↔ equal (.typedef i t) s = true := by
  rw [returnOk_iff]
  simp [equal, getUnderlying]

/-- a definition converts only explicitly: it is accepted only where the very same
definition (or Variable) is required, and only the very same definition is accepted where
it is required -/
theorem typedef_init_only_itself (i : Nat) (t s : Ty) :
    initOk (.typedef i t) s = true ↔ equal s (.typedef i t) = true := by
  rw [initOk_iff]
  simp [typedef_not_numeric, equal, getUnderlying]

theorem typedef_value_only_into_itself_or_variable (i : Nat) (t s : Ty) :
    initOk s (.typedef i t) = true ↔ equal (.typedef i t) s = true ∨ equal s .variable = true := by
  rw [initOk_iff]
  simp [typedef_not_numeric, equal, getUnderlying]

/-- in particular neither direction between a definition and its base type is implicit -/
theorem typedef_converts_only_explicitly (i : Nat) (t : Ty) (hv : equal t .variable = false) :
    initOk (.typedef i t) t = false ∧ initOk t (.typedef i t) = false := by
  constructor
  · cases h : initOk (.typedef i t) t with
    | false => rfl
    | true =>
      rw [typedef_init_only_itself, equal_symm, typedef_opaque] at h; cases h
  · cases h : initOk t (.typedef i t) with
    | false => rfl
    | true =>
      rw [typedef_value_only_into_itself_or_variable, typedef_opaque, hv] at h
      simp at h

/-! ### explicit conversion of definitions -/

/-- converting *to* a definition from a type that is not itself a definition or Variable:
only from its own base type -/
theorem cast_to_typedef (i : Nat) (t lhs : Ty) (hl : castTypeDef lhs = none) (ha : isAny lhs = false) :
    castOk lhs (.typedef i t) = equal lhs t := by
  have ha' := ha
  simp only [isAny] at ha'
  simp only [castTypeDef] at hl
  simp only [castOk, ha, isAny, castTypeDef, getUnderlying, Bool.false_or, Bool.false_and]
  cases h : getUnderlying lhs <;> simp_all

/-- converting *from* a definition to a type that is not itself a definition or Variable:
only to its own base type -/
theorem cast_from_typedef (i : Nat) (t target : Ty) (ht : castTypeDef target = none) (ha : isAny target = false) :
    castOk (.typedef i t) target = equal target t := by
  have ha' := ha
  simp only [isAny] at ha'
  simp only [castTypeDef] at ht
  simp only [castOk, ha, isAny, isVoid, castTypeDef, getUnderlying, Bool.false_or, Bool.false_and, Bool.and_false]
  cases h : getUnderlying target <;> simp_all

/-- between two definitions: only if one is (an alias of) the other's base type -/
theorem cast_between_typedefs (i j : Nat) (t s : Ty) :
    castOk (.typedef i t) (.typedef j s) = (equal t (.typedef j s) || equal s (.typedef i t)) := by
  simp [castOk, isAny, isVoid, castTypeDef, getUnderlying]

/-! ### non-vacuity -/

example : equal (.list (.alias (.alias (.prim .zahl)))) (.alias (.list (.prim .zahl))) = true ∧
    equal (.typedef 1 (.prim .zahl)) (.prim .zahl) = false ∧
    initOk (.prim .komma) (.alias (.prim .byte)) = true ∧
    initOk (.variable) (.typedef 1 (.prim .zahl)) = true ∧ initOk .variable .void = false ∧
    castOk (.prim .zahl) (.typedef 1 (.alias (.prim .zahl))) = true ∧
    castOk (.prim .komma) (.typedef 1 (.prim .zahl)) = false := by decide

end DDP.Types

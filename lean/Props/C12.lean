import DDP.Proofs.TextRT

/-!
# C12 — a Text is a sequence of Unicode code points

`DDP.Utf8` / `DDP.TextRT` are L1 models of `utf8.c`, `operators.c`, `ddptypes.c` (byte
level, with `cap`) and of the compiler's text iteration.  `repr cps` is the canonical
representation of a code-point sequence.  All theorems quantify over *all* scalar values
other than NUL (a NUL-terminated text cannot hold U+0000) and all sequences of them.
-/

namespace DDP.C12
open DDP.Utf8 DDP.TextRT

/-! ### per scalar value (every 1-, 2-, 3- and 4-byte code point, no enumeration) -/

theorem decode_encode (c : Nat) (hs : isScalar c = true) (h0 : c ≠ 0) (rest : List Nat) :
    decode1 (encode c ++ rest) = c := decode1_encode c hs h0 rest

theorem num_bytes_encode (c : Nat) (hs : isScalar c = true) (h0 : c ≠ 0) (rest : List Nat) :
    numBytes (encode c ++ rest) = (encode c).length := numBytes_encode c hs h0 rest

theorem indicated_num_bytes_first (c : Nat) (hs : isScalar c = true) (rest : List Nat) :
    indicatedNumBytes ((encode c ++ rest).headD 0) = (encode c).length := indicated_encode c hs rest

/-- surrogates and values above U+10FFFF have no size (`-1`), scalar values have their encoding's -/
theorem num_bytes_char (c : Nat) :
    numBytesChar c = if isScalar c then some (encode c).length else none := numBytesChar_spec c

/-- `Buchstabe als Text als Buchstabe` (first code point) is the identity -/
theorem char_text_char (c : Nat) (hs : isScalar c = true) (h0 : c ≠ 0) :
    index (charToString (c : Int)) 1 = .ok c := by
  rw [charToString_repr c hs, index_repr [c] (by intro x hx; simp at hx; subst hx; exact ⟨hs, h0⟩)]
  simp

/-! ### every operation keeps the representation canonical (`cap = strlen + 1 = block size`) -/

theorem inv_fromConstant (cps : List Nat) (h : WfCps cps) (rest : List Nat) :
    Inv (fromConstant (encodeAll cps ++ 0 :: rest)) :=
  ⟨cps, h, fromConstant_encodeAll cps h rest⟩

theorem inv_deepCopy (t : Text) (h : Inv t) : Inv (deepCopy t) := by
  obtain ⟨cps, hw, rfl⟩ := h; exact ⟨cps, hw, deepCopy_repr cps⟩

theorem inv_charToString (c : Nat) (hs : isScalar c = true) (h0 : c ≠ 0) : Inv (charToString (c : Int)) :=
  ⟨[c], by intro x hx; simp at hx; subst hx; exact ⟨hs, h0⟩, charToString_repr c hs⟩

theorem inv_concat (a b : Text) (ha : Inv a) (hb : Inv b) : Inv (concatSS a b) := by
  obtain ⟨x, hx, rfl⟩ := ha; obtain ⟨y, hy, rfl⟩ := hb
  exact ⟨x ++ y, hx.append hy, concatSS_repr x y hx hy⟩

theorem inv_concat_char_left (c : Nat) (hs : isScalar c = true) (h0 : c ≠ 0) (t : Text) (ht : Inv t) :
    Inv (concatCS (c : Int) t) := by
  obtain ⟨x, hx, rfl⟩ := ht
  exact ⟨c :: x, by intro y hy; simp at hy; rcases hy with rfl | hy; exact ⟨hs, h0⟩; exact hx y hy,
    concatCS_repr c x hs h0 hx⟩

theorem inv_concat_char_right (t : Text) (ht : Inv t) (c : Nat) (hs : isScalar c = true) (h0 : c ≠ 0) :
    Inv (concatSC t (c : Int)) := by
  obtain ⟨x, hx, rfl⟩ := ht
  exact ⟨x ++ [c], hx.append (by intro y hy; simp at hy; subst hy; exact ⟨hs, h0⟩), concatSC_repr x c hs h0 hx⟩

theorem WfCps_set (cps : List Nat) (h : WfCps cps) (k c : Nat) (hs : isScalar c = true) (h0 : c ≠ 0) :
    WfCps (cps.set k c) := by
  intro x hx
  rcases List.mem_or_eq_of_mem_set hx with hx | rfl
  · exact h x hx
  · exact ⟨hs, h0⟩

/-- also when the new character is shorter or longer than the old one
(this is the theorem that failed before the repair e5a451a of `ddp_replace_char_in_string`) -/
theorem inv_replace (t : Text) (ht : Inv t) (c : Nat) (hs : isScalar c = true) (h0 : c ≠ 0) (i : Int)
    (t' : Text) (hr : replaceChar t (c : Int) i = .ok t') : Inv t' := by
  obtain ⟨x, hx, rfl⟩ := ht
  rw [replace_repr x hx c hs h0 i] at hr
  split at hr
  · cases hr; exact ⟨_, WfCps_set x hx _ c hs h0, rfl⟩
  · cases hr

theorem inv_slice (t : Text) (ht : Inv t) (i j : Int) (t' : Text) (hr : slice t i j = .ok t') : Inv t' := by
  obtain ⟨x, hx, rfl⟩ := ht
  rw [slice_repr x hx i j] at hr
  split at hr
  · cases hr; exact ⟨[], by intro y hy; simp at hy, rfl⟩
  · simp only at hr
    split at hr
    · cases hr
    · cases hr
      exact ⟨_, fun y hy => hx y (List.mem_of_mem_drop (List.mem_of_mem_take hy)), rfl⟩

/-! ### refinement: each operation computes the sequence operation on code points -/

theorem abs_canonical (cps : List Nat) (h : WfCps cps) : abs (repr cps) = cps := abs_repr cps h

theorem length_spec (cps : List Nat) (h : WfCps cps) : length (repr cps) = cps.length := length_repr cps h

theorem index_spec (cps : List Nat) (h : WfCps cps) (i : Int) :
    index (repr cps) i =
      if 1 ≤ i ∧ i ≤ cps.length then (match cps[(i - 1).toNat]? with | some c => .ok c | none => .err)
      else .err := index_repr cps h i

theorem replace_spec (cps : List Nat) (h : WfCps cps) (c : Nat) (hs : isScalar c = true) (h0 : c ≠ 0) (i : Int) :
    replaceChar (repr cps) (c : Int) i =
      if 1 ≤ i ∧ i ≤ cps.length then .ok (TextRT.repr (cps.set (i - 1).toNat c)) else .err :=
  replace_repr cps h c hs h0 i

theorem slice_spec (cps : List Nat) (h : WfCps cps) (i j : Int) :
    slice (repr cps) i j =
      if cps.isEmpty then .ok (TextRT.repr [])
      else
        let a := clampI i 1 cps.length
        let b := clampI j 1 cps.length
        if b < a then .err else .ok (TextRT.repr ((cps.drop (a - 1).toNat).take ((b - a).toNat + 1))) :=
  slice_repr cps h i j

theorem concat_spec (a b : List Nat) (ha : WfCps a) (hb : WfCps b) :
    concatSS (repr a) (repr b) = TextRT.repr (a ++ b) := concatSS_repr a b ha hb

theorem concat_char_left_spec (c : Nat) (a : List Nat) (hs : isScalar c = true) (h0 : c ≠ 0) (ha : WfCps a) :
    concatCS (c : Int) (repr a) = TextRT.repr (c :: a) := concatCS_repr c a hs h0 ha

theorem concat_char_right_spec (a : List Nat) (c : Nat) (hs : isScalar c = true) (h0 : c ≠ 0) (ha : WfCps a) :
    concatSC (repr a) (c : Int) = TextRT.repr (a ++ [c]) := concatSC_repr a c hs h0 ha

/-- the generated for-each visits exactly the code points, in order, and terminates -/
theorem iteration_spec (cps : List Nat) (h : WfCps cps) : iterateAll (repr cps) = .ok cps := iterate_repr cps h

/-- two texts are equal exactly when their code-point sequences are; the comparison never
reads outside a block -/
theorem equal_iff (a b : List Nat) (ha : WfCps a) (hb : WfCps b) :
    equal (repr a) (repr b) = .ok (decide (a = b)) := equal_repr a b ha hb

/-- **History independence.**  Texts reachable through the operations are canonical
(`inv_*`), and a canonical text is determined by its code points: two texts with the same
abstraction are the *same* value, hence indistinguishable by every operation — however they
were produced (literal, concatenation, slice, in-place replacement by a shorter or longer
character). -/
theorem history_independent (s t : Text) (hs : Inv s) (ht : Inv t) (h : abs s = abs t) : s = t := by
  obtain ⟨x, hx, rfl⟩ := hs; obtain ⟨y, hy, rfl⟩ := ht
  rw [abs_repr x hx, abs_repr y hy] at h; rw [h]

/-! ### non-vacuity and the recorded edge -/

example : replaceChar (TextRT.repr [97, 228, 98]) 120 2 = .ok (TextRT.repr [97, 120, 98]) ∧
    equal (TextRT.repr [97, 120, 98]) (fromConstant [0x61, 0x78, 0x62]) = .ok true ∧
    iterateAll (TextRT.repr [97, 0x1F600, 98]) = .ok [97, 0x1F600, 98] := by decide +kernel

/-- recorded: U+0000 is a scalar value that a NUL-terminated text cannot hold; `Buchstabe 0 als
Text` yields a two-byte block that counts as empty, and comparing it with the empty text
`(NULL, 0)` hands `memcmp` a null pointer (model: `overread`; the implementation crashes).
Outside the quantification of this property, listed in DESIGN §7. -/
theorem nul_char_edge : charToString 0 = ⟨[0, 0], 2⟩ ∧ equal (charToString 0) emptyText = .overread := by
  decide

end DDP.C12

import DDP.Spec.Duden

/-!
# C17 — Duden list, text, number and sorting functions meet their specification

`DDP.Duden` states the documented meaning as sequence operations; the real functions are compared
with it on generated arguments (`vlib/props/C17.py`).  The theorems are the laws that make these
definitions *the* mathematical operations: lengths, inverses, involutions, and for sorting
"ordered permutation".
-/

namespace DDP.Duden

theorem anfuegen_length (l : List Int) (e : Int) : (anfuegen l e).length = l.length + 1 := by simp [anfuegen]
theorem anfuegen_last (l : List Int) (e : Int) : (anfuegen l e).getLast? = some e := by simp [anfuegen]
theorem voranstellen_head (l : List Int) (e : Int) : (voranstellen l e).head? = some e := rfl

theorem take_mid (A B : List Int) (e : Int) : (A ++ [e] ++ B).take A.length = A := by
  rw [List.append_assoc, List.take_append_of_le_length (Nat.le_refl _), List.take_length]

theorem drop_mid (A B : List Int) (e : Int) : (A ++ [e] ++ B).drop (A.length + 1) = B := by
  have : A.length + 1 = (A ++ [e]).length := by simp
  rw [this, List.drop_left]

/-- inserting at position i and deleting position i again gives the list back -/
theorem einfuegen_loesche (l l' : List Int) (i : Nat) (e : Int) (h : einfuegen l i e = some l') : loesche l' i = some l := by
  unfold einfuegen at h
  split at h
  · rename_i hi
    injection h with h
    subst h
    unfold loesche
    have ht : (l.take (i - 1)).length = i - 1 := by simp [List.length_take]; omega
    have hlen : (l.take (i - 1) ++ [e] ++ l.drop (i - 1)).length = l.length + 1 := by
      simp [List.length_take, List.length_drop]; omega
    have h1 : 1 ≤ i ∧ i ≤ (l.take (i - 1) ++ [e] ++ l.drop (i - 1)).length := by rw [hlen]; omega
    simp only [h1, and_self, if_true]
    have e1 := take_mid (l.take (i - 1)) (l.drop (i - 1)) e
    have e2 := drop_mid (l.take (i - 1)) (l.drop (i - 1)) e
    rw [ht] at e1 e2
    have hi' : i - 1 + 1 = i := by omega
    rw [hi'] at e2
    rw [e1, e2, List.take_append_drop]
  · simp at h

theorem einfuegen_at (l l' : List Int) (i : Nat) (e : Int) (h : einfuegen l i e = some l') : l'[i - 1]? = some e := by
  unfold einfuegen at h
  split at h
  · rename_i hi
    injection h with h
    subst h
    have ht : (l.take (i - 1)).length = i - 1 := by simp [List.length_take]; omega
    rw [List.append_assoc, List.getElem?_append_right (by omega)]
    simp [ht]
  · simp at h

/-- the position behind the last element is an insert position: inserting there appends (also for the empty list) -/
theorem einfuegen_end (l : List Int) (e : Int) : einfuegen l (l.length + 1) e = some (anfuegen l e) := by
  simp [einfuegen, anfuegen]

theorem einfuegen_defined_iff (l : List Int) (i : Nat) (e : Int) : (einfuegen l i e).isSome ↔ (1 ≤ i ∧ i ≤ l.length + 1) := by
  unfold einfuegen; split <;> simp_all

theorem einfuegenBereich_end (l r : List Int) : einfuegenBereich l (l.length + 1) r = some (l ++ r) := by
  simp [einfuegenBereich]

theorem loesche_length (l l' : List Int) (i : Nat) (h : loesche l i = some l') : l'.length + 1 = l.length := by
  unfold loesche at h
  split at h
  · injection h with h; subst h; simp [List.length_take, List.length_drop]; omega
  · simp at h

theorem gespiegelt_involution (l : List Int) : gespiegelt (gespiegelt l) = l := by simp [gespiegelt]
theorem gespiegelt_length (l : List Int) : (gespiegelt l).length = l.length := by simp [gespiegelt]

theorem foldl_add_shift (l : List Int) (a : Int) : l.foldl (· + ·) a = a + l.foldl (· + ·) 0 := by
  induction l generalizing a with
  | nil => simp
  | cons x r ih => simp only [List.foldl_cons]; rw [ih (a + x), ih (0 + x)]; omega

theorem summe_anfuegen (l : List Int) (e : Int) : summe (anfuegen l e) = summe l + e := by
  simp [summe, anfuegen, List.foldl_append]

theorem summe_verkettet (a b : List Int) : summe (a ++ b) = summe a + summe b := by
  simp only [summe, List.foldl_append]
  rw [foldl_add_shift]

theorem indexVon_found (l : List Int) (e : Int) (i : Int) (h : indexVon l e = i) (hi : i ≠ -1) : e ∈ l := by
  unfold indexVon at h
  cases hf : l.findIdx? (· == e) with
  | none => simp [hf] at h; omega
  | some k =>
    have := List.findIdx?_eq_some_iff_getElem.mp hf
    obtain ⟨hk, hp, _⟩ := this
    have : l[k] = e := by simpa using hp
    exact this ▸ List.getElem_mem hk

theorem indexVon_none (l : List Int) (e : Int) (h : e ∉ l) : indexVon l e = -1 := by
  unfold indexVon
  have : l.findIdx? (· == e) = none := by
    apply List.findIdx?_eq_none_iff.mpr
    intro x hx
    simp
    intro hxe
    exact h (hxe ▸ hx)
  simp [this]

/-! ### sorting: an ordered permutation -/

theorem einsortieren_perm (x : Int) (l : List Int) : (einsortieren x l).Perm (x :: l) := by
  induction l with
  | nil => exact List.Perm.refl _
  | cons y r ih =>
    unfold einsortieren
    split
    · exact List.Perm.refl _
    · exact (List.Perm.cons y ih).trans (List.Perm.swap x y r)

theorem sortiert_perm (l : List Int) : (sortiert l).Perm l := by
  induction l with
  | nil => exact List.Perm.refl _
  | cons x r ih =>
    show (einsortieren x (sortiert r)).Perm (x :: r)
    exact (einsortieren_perm x _).trans (List.Perm.cons x ih)

theorem einsortieren_sorted (x : Int) (l : List Int) (h : l.Pairwise (· ≤ ·)) : (einsortieren x l).Pairwise (· ≤ ·) := by
  induction l with
  | nil => simp [einsortieren]
  | cons y r ih =>
    unfold einsortieren
    have hy := List.pairwise_cons.mp h
    split
    · rename_i hxy
      refine List.pairwise_cons.mpr ⟨?_, h⟩
      intro z hz
      rcases List.mem_cons.mp hz with e | e
      · subst e; exact hxy
      · exact Int.le_trans hxy (hy.1 z e)
    · rename_i hxy
      refine List.pairwise_cons.mpr ⟨?_, ih hy.2⟩
      intro z hz
      have := (einsortieren_perm x r).mem_iff.mp hz
      rcases List.mem_cons.mp this with e | e
      · subst e; omega
      · exact hy.1 z e

theorem sortiert_sorted (l : List Int) : (sortiert l).Pairwise (· ≤ ·) := by
  induction l with
  | nil => simp [sortiert]
  | cons x r ih => exact einsortieren_sorted x _ ih

theorem sortiert_length (l : List Int) : (sortiert l).length = l.length := (sortiert_perm l).length_eq

/-! ### texts -/

theorem trimAnfang_idempotent (t : Text) (c : Nat) : trimAnfang (trimAnfang t c) c = trimAnfang t c := by
  unfold trimAnfang
  induction t with
  | nil => simp
  | cons x r ih =>
    by_cases h : (x == c) = true
    · simp [h, ih]
    · simp [h]

theorem trimAnfang_head (t : Text) (c : Nat) : (trimAnfang t c).head? ≠ some c := by
  unfold trimAnfang
  induction t with
  | nil => simp
  | cons x r ih =>
    by_cases h : (x == c) = true
    · simpa [h] using ih
    · simp [h]; intro e; simp [e] at h

theorem polsterLinks_length (t : Text) (c n : Nat) : (polsterLinks t c n).length = max n t.length := by
  simp [polsterLinks]; omega

theorem polsterLinks_noop (t : Text) (c n : Nat) (h : n ≤ t.length) : polsterLinks t c n = t := by
  have : n - t.length = 0 := by omega
  simp [polsterLinks, this]

theorem polsterRechts_prefix (t : Text) (c n : Nat) : t <+: polsterRechts t c n := by
  exact List.prefix_append _ _

theorem vergleiche_refl (t : Text) : vergleiche t t = 0 := by
  induction t with
  | nil => rfl
  | cons x r ih => simp [vergleiche, ih]

theorem vergleiche_eq (a b : Text) (h : vergleiche a b = 0) (hl : a.length = b.length) : a = b := by
  induction a generalizing b with
  | nil => cases b <;> simp_all
  | cons x r ih =>
    cases b with
    | nil => simp at hl
    | cons y s =>
      unfold vergleiche at h
      split at h
      · rename_i hxy
        have : x = y := by simpa using hxy
        subst this
        rw [ih s h (by simpa using hl)]
      · rename_i hxy
        have : x ≠ y := by simpa using hxy
        omega

theorem spalteAux_ne_nil (c : Nat) (t cur : Text) : spalteAux c t cur ≠ [] := by
  induction t generalizing cur with
  | nil => simp [spalteAux]
  | cons x r ih =>
    unfold spalteAux
    split
    · simp
    · exact ih _

theorem foldl_join_shift (c : Nat) (acc : Text) (l : List Text) :
    List.foldl (fun acc y => acc ++ [c] ++ y) acc l = acc ++ List.foldl (fun acc y => acc ++ [c] ++ y) [] l := by
  induction l generalizing acc with
  | nil => simp
  | cons z zs ihz =>
    simp only [List.foldl_cons]
    rw [ihz (acc ++ [c] ++ z), ihz ([] ++ [c] ++ z)]
    simp [List.append_assoc]

/-- join after split gives the text back (for a non-empty text) -/
theorem verbinden_spalteAux (c : Nat) (t cur : Text) :
    verbinden (spalteAux c t cur) c = cur.reverse ++ t := by
  induction t generalizing cur with
  | nil => simp [spalteAux, verbinden]
  | cons x r ih =>
    unfold spalteAux
    split
    · rename_i hx
      have hxc : x = c := by simpa using hx
      have h0 := ih []
      simp only [List.reverse_nil, List.nil_append] at h0
      cases hr : spalteAux c r [] with
      | nil => exact absurd hr (spalteAux_ne_nil c r [])
      | cons y ys =>
        rw [hr] at h0
        simp only [verbinden] at h0 ⊢
        simp only [List.foldl_cons]
        rw [foldl_join_shift] at h0 ⊢
        rw [← h0, hxc]
        simp [List.append_assoc]
    · rw [ih (x :: cur)]
      simp

theorem verbinden_spalte (t : Text) (c : Nat) (h : t ≠ []) : verbinden (spalte t c) c = t := by
  unfold spalte
  have : t.isEmpty = false := by cases t <;> simp_all
  simp [this, verbinden_spalteAux]

example : sortiert [3, 1, 2, 1] = [1, 1, 2, 3] := by decide
example : spalte [97, 44, 98, 44, 44, 99] 44 = [[97], [98], [], [99]] := by decide
example : einfuegen [1, 2, 3] 2 9 = some [1, 9, 2, 3] := by decide

/-! ### numbers -/

theorem max2_ge (a b : Int) : a ≤ max2 a b ∧ b ≤ max2 a b ∧ (max2 a b = a ∨ max2 a b = b) := by
  unfold max2; split <;> omega

theorem min2_le (a b : Int) : min2 a b ≤ a ∧ min2 a b ≤ b ∧ (min2 a b = a ∨ min2 a b = b) := by
  unfold min2; split <;> omega

theorem max3_ge (a b c : Int) : a ≤ max3 a b c ∧ b ≤ max3 a b c ∧ c ≤ max3 a b c := by
  unfold max3 max2; split <;> split <;> omega

theorem clamp_range (w lo hi : Int) (h : lo ≤ hi) : lo ≤ clamp w lo hi ∧ clamp w lo hi ≤ hi := by
  unfold clamp; split <;> (try split) <;> omega

theorem clamp_inside (w lo hi : Int) (h1 : lo ≤ w) (h2 : w ≤ hi) : clamp w lo hi = w := by
  unfold clamp; split <;> (try split) <;> omega

theorem sign_spec (a : Int) : (a < 0 → sign a = -1) ∧ (a > 0 → sign a = 1) ∧ (a = 0 → sign a = 0) := by
  unfold sign; refine ⟨?_, ?_, ?_⟩ <;> intro h <;> split <;> (try split) <;> omega

theorem ggT_divides (a b : Nat) : ggT a b ∣ a ∧ ggT a b ∣ b := ⟨Nat.gcd_dvd_left a b, Nat.gcd_dvd_right a b⟩

theorem ggT_greatest (a b d : Nat) (ha : d ∣ a) (hb : d ∣ b) : d ∣ ggT a b := Nat.dvd_gcd ha hb

/-- the product of the prime factors is the number -/
theorem primAux_prod : ∀ (fuel n d : Nat), 1 ≤ n → (primAux fuel n d).foldl (· * ·) 1 = n := by
  intro fuel
  induction fuel with
  | zero =>
    intro n d hn
    unfold primAux
    split
    · simp
    · have : n = 1 := by omega
      simp [this]
  | succ fuel ih =>
    intro n d hn
    unfold primAux
    split
    · have : n = 1 := by omega
      simp [this]
    · split
      · simp
      · split
        · rename_i h1 h2 hdiv
          have hmod : n % d = 0 := by simpa using hdiv
          have hd : 0 < d := by
            cases d with
            | zero => simp at h2; omega
            | succ k => omega
          have hq : 1 ≤ n / d := by
            have : d ≤ n := by
              have : d * d ≤ n := by omega
              calc d ≤ d * d := Nat.le_mul_self d
                _ ≤ n := this
            exact Nat.div_pos this hd
          have := ih (n / d) d hq
          simp only [List.foldl_cons, Nat.one_mul]
          have key : ∀ (l : List Nat) (a : Nat), l.foldl (· * ·) a = a * l.foldl (· * ·) 1 := by
            intro l
            induction l with
            | nil => intro a; simp
            | cons x r ihl => intro a; simp only [List.foldl_cons]; rw [ihl (a * x), ihl (1 * x)]; simp [Nat.mul_assoc]
          rw [key, this]
          exact Nat.mul_div_cancel' (Nat.dvd_of_mod_eq_zero hmod)
        · exact ih n (d + 1) hn

theorem primfaktoren_prod (z : Nat) (h : 1 ≤ z) : (primfaktoren z).foldl (· * ·) 1 = z := primAux_prod _ _ _ h

example : primfaktoren 360 = [2, 2, 2, 3, 3, 5] := by decide
example : kgV 4 6 = 12 ∧ ggT 12 18 = 6 := by decide

/-! ### more text functions -/

theorem loescheT_length (t t' : Text) (i : Nat) (h : loescheT t i = some t') : t'.length + 1 = t.length := by
  unfold loescheT at h
  split at h
  · injection h with h; subst h; simp [List.length_take, List.length_drop]; omega
  · simp at h

theorem einfuegenT_length (t t' e : Text) (i : Nat) (h : einfuegenT t i e = some t') : t'.length = t.length + e.length := by
  unfold einfuegenT at h
  split at h
  · injection h with h; subst h; simp [List.length_take, List.length_drop]; omega
  · simp at h

theorem einfuegenT_first (t t' e : Text) (h : einfuegenT t 1 e = some t') : t' = e ++ t := by
  unfold einfuegenT at h
  split at h
  · injection h with h; subst h; simp
  · simp at h

theorem loescheBereichT_all (t : Text) (h : t ≠ []) : loescheBereichT t 1 t.length = some [] := by
  have : 0 < t.length := List.length_pos_iff.mpr h
  simp [loescheBereichT]; omega

example : finde [97, 97, 97] [97, 97] = [1] := by decide
example : finde [97, 98, 97, 98] [97, 98] = [1, 3] := by decide
example : spalteText [120, 97, 97, 98] [97, 98] = [[120, 97], []] := by decide

/-! ## second part: the remaining functions -/

/-! ### lists -/

theorem einfuegenBereich_length (l l' r : List Int) (i : Nat) (h : einfuegenBereich l i r = some l') :
    l'.length = l.length + r.length := by
  unfold einfuegenBereich at h
  split at h
  · injection h with h; subst h; simp [List.length_take, List.length_drop]; omega
  · simp at h

/-- inserting a one-element range is inserting the element -/
theorem einfuegenBereich_single (l : List Int) (i : Nat) (e : Int) : einfuegenBereich l i [e] = einfuegen l i e := rfl

theorem einfuegenBereich_nil (l l' : List Int) (i : Nat) (h : einfuegenBereich l i [] = some l') : l' = l := by
  unfold einfuegenBereich at h
  split at h
  · injection h with h; subst h; simp
  · simp at h

theorem voranstellenListe_single (l : List Int) (e : Int) : voranstellenListe l [e] = voranstellen l e := rfl

theorem voranstellenListe_length (l o : List Int) : (voranstellenListe l o).length = l.length + o.length := by
  simp [voranstellenListe]; omega

theorem leere_leer (l : List Int) : (leere l).isEmpty = true := rfl

theorem absteigend_length (a b : Int) (h : b ≤ a) : ((absteigend a b).length : Int) = a - b + 1 := by
  simp [absteigend]; omega

/-- exactly the numbers from b to a -/
theorem absteigend_mem (a b x : Int) : x ∈ absteigend a b ↔ b ≤ x ∧ x ≤ a := by
  simp only [absteigend, List.mem_map, List.mem_range]
  constructor
  · rintro ⟨k, hk, rfl⟩; omega
  · intro ⟨h1, h2⟩
    exact ⟨(a - x).toNat, by omega, by omega⟩

theorem aufsteigend_mem (a b x : Int) : x ∈ aufsteigend a b ↔ a ≤ x ∧ x ≤ b := by
  simp only [aufsteigend, List.mem_map, List.mem_range]
  constructor
  · rintro ⟨k, hk, rfl⟩; omega
  · intro ⟨h1, h2⟩
    exact ⟨(x - a).toNat, by omega, by omega⟩

theorem absteigend_sorted (a b : Int) : (absteigend a b).Pairwise (· ≥ ·) := by
  simp only [absteigend]
  rw [List.pairwise_map]
  have : ∀ n : Nat, (List.range n).Pairwise fun (x y : Nat) => a - (x : Int) ≥ a - (y : Int) := by
    intro n
    induction n with
    | zero => simp
    | succ n ih =>
      rw [List.range_succ, List.pairwise_append]
      refine ⟨ih, by simp, ?_⟩
      intro x hx y hy
      have hx' := List.mem_range.mp hx
      have : y = n := by simpa using hy
      omega
  exact this _

theorem verketteTexte_append (a b : List (List Nat)) : verketteTexte (a ++ b) = verketteTexte a ++ verketteTexte b := by
  simp [verketteTexte]

theorem elementweiseVerketten_length (a b r : List (List Nat)) (h : elementweiseVerketten a b = some r) : r.length = a.length := by
  unfold elementweiseVerketten at h
  split at h
  · rename_i hl; injection h with h; subst h; simp [List.length_zipWith, hl]
  · simp at h

theorem elementweise_length (f : Int → Int → Int) (a b r : List Int) (h : elementweise f a b = some r) : r.length = a.length := by
  unfold elementweise at h
  split at h
  · rename_i hl; injection h with h; subst h; simp [List.length_zipWith, hl]
  · simp at h

theorem summeK_anfuegen (l : List Rat) (x : Rat) : summeK (l ++ [x]) = summeK l + x := by
  simp [summeK, List.foldl_append]

theorem tausche_zurueck (a b : Int) : tausche (tausche a b).1 (tausche a b).2 = (a, b) := rfl

example : absteigend 3 (-1) = [3, 2, 1, 0, -1] := by decide
example : einfuegenBereich [1, 2, 3] 3 [7, 8] = some [1, 2, 7, 8, 3] := by decide

/-! ### texts -/

theorem entferneVorne_length (t : Text) (n : Int) : (entferneVorne t n).length = t.length - n.toNat := by
  simp [entferneVorne]

/-- a count below 0 counts as 0 -/
theorem entferneVorne_neg (t : Text) (n : Int) (h : n ≤ 0) : entferneVorne t n = t := by
  have : n.toNat = 0 := by omega
  simp [entferneVorne, this]

theorem entferneVorne_alles (t : Text) (n : Int) (h : (t.length : Int) ≤ n) : entferneVorne t n = [] := by
  have : t.length ≤ n.toNat := by omega
  simp [entferneVorne, this]

theorem entferneHinten_length (t : Text) (n : Int) : (entferneHinten t n).length = t.length - n.toNat := by
  simp [entferneHinten, List.length_take]

theorem entferneHinten_prefix (t : Text) (n : Int) : entferneHinten t n <+: t := List.take_prefix _ _

theorem entferneHinten_neg (t : Text) (n : Int) (h : n ≤ 0) : entferneHinten t n = t := by
  have : n.toNat = 0 := by omega
  simp [entferneHinten, this]

/-- what is removed in front and what stays make up the text -/
theorem entferneVorne_rest (t : Text) (n : Int) : t.take n.toNat ++ entferneVorne t n = t := List.take_append_drop _ _

theorem fuelleText_length (t : Text) (c : Nat) : (fuelleText t c).length = t.length := by simp [fuelleText]

theorem fuelleText_all (t : Text) (c x : Nat) (h : x ∈ fuelleText t c) : x = c := by
  simp [fuelleText] at h; exact h.2.symm

/-- the letters as texts, put together again, are the text -/
theorem verkette_buchstabenTexte (t : Text) : verketteTexte (buchstabenTexte t) = t := by
  induction t with
  | nil => rfl
  | cons x r ih =>
    simp only [verketteTexte, buchstabenTexte, List.map_cons, List.flatten_cons] at ih ⊢
    rw [ih]; rfl

theorem buchstabenTexte_length (t : Text) : (buchstabenTexte t).length = t.length := by simp [buchstabenTexte]

theorem indexVonBuchstabe_none (t : Text) (c : Nat) (h : c ∉ t) : indexVonBuchstabe t c = -1 := by
  unfold indexVonBuchstabe
  have : t.findIdx? (· == c) = none := by
    apply List.findIdx?_eq_none_iff.mpr
    intro x hx
    simp
    intro hxe
    exact h (hxe ▸ hx)
  simp [this]

theorem indexVonBuchstabe_found (t : Text) (c : Nat) (i : Int) (h : indexVonBuchstabe t c = i) (hi : i ≠ -1) : c ∈ t := by
  unfold indexVonBuchstabe at h
  cases hf : t.findIdx? (· == c) with
  | none => simp [hf] at h; omega
  | some k =>
    obtain ⟨hk, hp, _⟩ := List.findIdx?_eq_some_iff_getElem.mp hf
    have : t[k] = c := by simpa using hp
    exact this ▸ List.getElem_mem hk

theorem beginntMitBuchstabe_leer (c : Nat) : beginntMitBuchstabe [] c = false := rfl
theorem endetMitBuchstabe_anfuegen (t : Text) (c : Nat) : endetMitBuchstabe (textAnfuegen t [c]) c = true := by
  simp [endetMitBuchstabe, textAnfuegen]
theorem beginntMitBuchstabe_voranstellen (t : Text) (c : Nat) : beginntMitBuchstabe (textVoranstellen t [c]) c = true := by
  simp [beginntMitBuchstabe, textVoranstellen]

theorem levenshtein_nil_left (b : Text) : levenshtein [] b = b.length := by
  unfold levenshtein; rfl

theorem levenshtein_nil_right (a : Text) : levenshtein a [] = a.length := by
  cases a with
  | nil => unfold levenshtein; rfl
  | cons x r => unfold levenshtein; rfl

/-- equal texts have distance 0 -/
theorem levenshtein_self (a : Text) : levenshtein a a = 0 := by
  induction a with
  | nil => unfold levenshtein; rfl
  | cons x r ih =>
    unfold levenshtein
    simp [ih]

/-- every part of a split at a set of letters is non-empty -/
theorem spalteMengeAux_nonempty (m : List Nat) (t cur : Text) : ∀ p ∈ spalteMengeAux m t cur, p ≠ [] := by
  induction t generalizing cur with
  | nil =>
    intro p hp
    unfold spalteMengeAux at hp
    split at hp
    · simp at hp
    · rename_i hc
      have : p = cur.reverse := by simpa using hp
      subst this
      intro h
      apply hc
      have : cur = [] := by simpa using h
      simp [this]
  | cons x r ih =>
    intro p hp
    unfold spalteMengeAux at hp
    split at hp
    · split at hp
      · exact ih [] p hp
      · rename_i hc
        rcases List.mem_cons.mp hp with e | e
        · subst e
          intro h
          apply hc
          have : cur = [] := by simpa using h
          simp [this]
        · exact ih [] p e
    · exact ih (x :: cur) p hp

/-- … and together the parts are the text without the letters of the set -/
theorem spalteMengeAux_flatten (m : List Nat) (t cur : Text) :
    (spalteMengeAux m t cur).flatten = cur.reverse ++ t.filter (fun x => !m.contains x) := by
  induction t generalizing cur with
  | nil =>
    unfold spalteMengeAux
    split
    · rename_i hc
      have : cur = [] := by simpa using hc
      simp [this]
    · simp
  | cons x r ih =>
    unfold spalteMengeAux
    split
    · rename_i hx
      have hx' : x ∈ m := by simpa using hx
      split
      · rename_i hc
        have : cur = [] := by simpa using hc
        simp [ih, this, hx']
      · simp [ih, hx']
    · rename_i hx
      have hx' : x ∉ m := by simpa using hx
      rw [ih]
      simp [hx']

theorem spalteMenge_flatten (t : Text) (m : List Nat) : (spalteMenge t m).flatten = t.filter (fun x => !m.contains x) := by
  simp [spalteMenge, spalteMengeAux_flatten]

theorem spalteMenge_nonempty (t : Text) (m : List Nat) : ∀ p ∈ spalteMenge t m, p ≠ [] := spalteMengeAux_nonempty m t []

example : worte [68, 105, 101, 13, 10, 87, 32, 32, 33] = [[68, 105, 101], [87], [33]] := by decide
example : textIstZahl [45, 49, 50] = true ∧ textIstZahl [45] = false ∧ textIstZahl [49, 97] = false := by decide
example : verbindenZahl [1, -234, 0] 45 = [49, 45, 45, 50, 51, 52, 45, 48] := by decide
example : anzahlNichtUeberlappend [120, 97, 98, 97, 98] [97, 98] = 2 := by decide

/-! UTF-8: decoding the bytes of a text gives the text back -/

theorem utf8_length (c : Nat) : 1 ≤ (utf8 c).length ∧ (utf8 c).length ≤ 4 := by
  unfold utf8; split <;> (try split) <;> (try split) <;> simp

theorem vonBytes_utf8 (c : Nat) (hc : c < 0x110000) (r : List Nat) :
    vonBytes (utf8 c ++ r) = (vonBytes r).map (c :: ·) := by
  unfold utf8
  by_cases h1 : c < 0x80
  · simp only [h1, if_true, List.cons_append, List.nil_append]
    rw [vonBytes.eq_def]; simp only [h1, if_true]
  · by_cases h2 : c < 0x800
    · simp only [h1, h2, if_true, if_false, List.cons_append, List.nil_append]
      rw [vonBytes.eq_def]
      have a1 : ¬ (0xC0 + c / 64 < 0x80) := by omega
      have a2 : ¬ (0xC0 + c / 64 < 0xC0) := by omega
      have a3 : 0xC0 + c / 64 < 0xE0 := by omega
      simp only [a1, a2, a3, if_true, if_false]
      have : (0xC0 + c / 64 - 0xC0) * 64 + (0x80 + c % 64 - 0x80) = c := by omega
      rw [this]
    · by_cases h3 : c < 0x10000
      · simp only [h1, h2, h3, if_true, if_false, List.cons_append, List.nil_append]
        rw [vonBytes.eq_def]
        have a1 : ¬ (0xE0 + c / 4096 < 0x80) := by omega
        have a2 : ¬ (0xE0 + c / 4096 < 0xC0) := by omega
        have a3 : ¬ (0xE0 + c / 4096 < 0xE0) := by omega
        have a4 : 0xE0 + c / 4096 < 0xF0 := by omega
        simp only [a1, a2, a3, a4, if_true, if_false]
        have : (0xE0 + c / 4096 - 0xE0) * 4096 + (0x80 + c / 64 % 64 - 0x80) * 64 + (0x80 + c % 64 - 0x80) = c := by omega
        rw [this]
      · simp only [h1, h2, h3, if_false, List.cons_append, List.nil_append]
        rw [vonBytes.eq_def]
        have a1 : ¬ (0xF0 + c / 262144 < 0x80) := by omega
        have a2 : ¬ (0xF0 + c / 262144 < 0xC0) := by omega
        have a3 : ¬ (0xF0 + c / 262144 < 0xE0) := by omega
        have a4 : ¬ (0xF0 + c / 262144 < 0xF0) := by omega
        simp only [a1, a2, a3, a4, if_false]
        have : (0xF0 + c / 262144 - 0xF0) * 262144 + (0x80 + c / 4096 % 64 - 0x80) * 4096 + (0x80 + c / 64 % 64 - 0x80) * 64 + (0x80 + c % 64 - 0x80) = c := by omega
        rw [this]

theorem vonBytes_bytes (t : Text) (h : ∀ c ∈ t, c < 0x110000) : vonBytes (bytes t) = some t := by
  induction t with
  | nil => simp [bytes, vonBytes]
  | cons c r ih =>
    have hr : ∀ c ∈ r, c < 0x110000 := fun x hx => h x (List.mem_cons_of_mem _ hx)
    have hc : c < 0x110000 := h c (List.mem_cons_self ..)
    have := vonBytes_utf8 c hc (bytes r)
    simp only [bytes, List.flatMap_cons] at this ⊢
    rw [this]
    have ih' := ih hr
    simp only [bytes] at ih'
    rw [ih']; rfl

example : bytes [97, 228, 8364, 128512] = [97, 195, 164, 226, 130, 172, 240, 159, 152, 128] := by decide

/-! ### characters -/

/-- the German letters are the capital and the small ones, and no letter is both -/
theorem istDeutsch_gross_oder_klein (c : Nat) : istDeutschZ c = (istGrossZ c || istKleinZ c) := by
  rw [Bool.eq_iff_iff]
  simp only [istDeutschZ, istLateinischZ, istGrossZ, istKleinZ, Bool.or_eq_true, Bool.and_eq_true, decide_eq_true_eq, beq_iff_eq]
  omega

theorem gross_nicht_klein (c : Nat) (h : istGrossZ c = true) : istKleinZ c = false := by
  simp only [istGrossZ, Bool.or_eq_true, Bool.and_eq_true, decide_eq_true_eq, beq_iff_eq] at h
  simp only [istKleinZ, Bool.or_eq_false_iff, Bool.and_eq_false_iff, decide_eq_false_iff_not, beq_eq_false_iff_ne]
  omega

theorem grossBuchstabe_istGross (c : Nat) (h : istKleinZ c = true) (hs : c ≠ 223) : istGrossZ (grossBuchstabe c) = true := by
  simp only [istKleinZ, Bool.or_eq_true, Bool.and_eq_true, decide_eq_true_eq, beq_iff_eq] at h
  unfold grossBuchstabe
  simp only [istGrossZ, Bool.or_eq_true, Bool.and_eq_true, decide_eq_true_eq, beq_iff_eq]
  split
  · omega
  · split
    · omega
    · split
      · omega
      · split <;> omega

/-- small → capital → small gives the letter back (ß has no capital letter) -/
theorem klein_gross (c : Nat) (h : istKleinZ c = true) : kleinBuchstabe (grossBuchstabe c) = c := by
  simp only [istKleinZ, Bool.or_eq_true, Bool.and_eq_true, decide_eq_true_eq, beq_iff_eq] at h
  unfold grossBuchstabe
  split
  · unfold kleinBuchstabe; split <;> omega
  · split
    · unfold kleinBuchstabe; simp; omega
    · split
      · unfold kleinBuchstabe; simp; omega
      · split
        · unfold kleinBuchstabe; simp; omega
        · unfold kleinBuchstabe
          split
          · omega
          · split
            · omega
            · split
              · omega
              · split <;> omega

theorem gross_klein (c : Nat) (h : istGrossZ c = true) : grossBuchstabe (kleinBuchstabe c) = c := by
  simp only [istGrossZ, Bool.or_eq_true, Bool.and_eq_true, decide_eq_true_eq, beq_iff_eq] at h
  unfold kleinBuchstabe
  split
  · unfold grossBuchstabe; split <;> omega
  · split
    · unfold grossBuchstabe; simp; omega
    · split
      · unfold grossBuchstabe; simp; omega
      · split
        · unfold grossBuchstabe; simp; omega
        · omega

/-- letters that are not German letters stay what they are -/
theorem grossBuchstabe_fremd (c : Nat) (h : istDeutschZ c = false) : grossBuchstabe c = c ∧ kleinBuchstabe c = c := by
  simp only [istDeutschZ, istLateinischZ, Bool.or_eq_false_iff, Bool.and_eq_false_iff, decide_eq_false_iff_not, beq_eq_false_iff_ne] at h
  unfold grossBuchstabe kleinBuchstabe
  constructor
  · split
    · omega
    · split
      · omega
      · split
        · omega
        · split <;> omega
  · split
    · omega
    · split
      · omega
      · split
        · omega
        · split <;> omega

theorem asciiGroesser_kleiner (a b : Nat) : asciiGroesser a b = asciiKleiner b a := rfl

theorem hexWert_hexZiffer (v : Nat) (h : v < 16) : hexWert (hexZiffer v) = some v := by
  unfold hexZiffer hexWert
  split
  · have : 48 ≤ 48 + v ∧ 48 + v ≤ 57 := by omega
    simp [this]
  · have a : ¬ (48 ≤ 55 + v ∧ 55 + v ≤ 57) := by omega
    have b : 65 ≤ 55 + v ∧ 55 + v ≤ 70 := by omega
    rw [if_neg a, if_pos b]
    congr 1
    omega

/-! ### numbers -/

/-- the documented value of the smallest Zahl -/
theorem minZahl_maxZahl : minZahl = -maxZahl := by decide

theorem floorK_spec (x : Rat) : floorK x ≤ x ∧ x < floorK x + 1 := by
  refine ⟨Rat.floor_le x, ?_⟩
  have := Rat.lt_floor_add_one x
  simpa [floorK, Rat.intCast_add] using this

theorem floorK_ganz (n : Int) : floorK (n : Rat) = n := by simp [floorK, Rat.floor_intCast]

theorem maxK_ge (a b : Rat) : a ≤ maxK a b ∧ b ≤ maxK a b ∧ (maxK a b = a ∨ maxK a b = b) := by
  unfold maxK
  split
  · rename_i h; exact ⟨Rat.le_refl, h, Or.inl rfl⟩
  · rename_i h; exact ⟨Rat.le_of_lt (Rat.not_le.mp h), Rat.le_refl, Or.inr rfl⟩

theorem minK_le (a b : Rat) : minK a b ≤ a ∧ minK a b ≤ b ∧ (minK a b = a ∨ minK a b = b) := by
  unfold minK
  split
  · rename_i h; exact ⟨Rat.le_refl, h, Or.inl rfl⟩
  · rename_i h; exact ⟨Rat.le_of_lt (Rat.not_le.mp h), Rat.le_refl, Or.inr rfl⟩

theorem clampK_range (w lo hi : Rat) (h : lo ≤ hi) : lo ≤ clampK w lo hi ∧ clampK w lo hi ≤ hi := by
  unfold clampK
  split
  · exact ⟨h, Rat.le_refl⟩
  · rename_i h1
    split
    · exact ⟨Rat.le_refl, h⟩
    · rename_i h2
      exact ⟨Rat.not_lt.mp h2, Rat.not_lt.mp h1⟩

theorem fakultaet_pos (n : Nat) : 0 < fakultaet n := by
  induction n with
  | zero => decide
  | succ n ih => unfold fakultaet; exact Nat.mul_pos (Nat.succ_pos n) ih

theorem fakultaet_teilbar (n k : Nat) (h1 : 1 ≤ k) (h2 : k ≤ n) : k ∣ fakultaet n := by
  induction n with
  | zero => omega
  | succ n ih =>
    unfold fakultaet
    by_cases hk : k = n + 1
    · subst hk; exact Nat.dvd_mul_right _ _
    · exact Nat.dvd_trans (ih (by omega)) (Nat.dvd_mul_left _ _)

example : fakultaet 20 = 2432902008176640000 := by decide

/-- `teiler z` are exactly the divisors of z -/
theorem teiler_mem (z d : Nat) (hz : 1 ≤ z) : d ∈ teiler z ↔ d ∣ z := by
  simp only [teiler, List.mem_filter, List.mem_range, Bool.and_eq_true, decide_eq_true_eq, beq_iff_eq]
  constructor
  · intro ⟨_, _, h⟩; exact Nat.dvd_of_mod_eq_zero h
  · intro h
    have hd : d ≤ z := Nat.le_of_dvd (by omega) h
    have hp : 0 < d := Nat.pos_of_dvd_of_pos h (by omega)
    exact ⟨by omega, hp, Nat.mod_eq_zero_of_dvd h⟩

theorem ggTZ_teilt (a b : Int) : ((ggTZ a b : Nat) : Int) ∣ a ∧ ((ggTZ a b : Nat) : Int) ∣ b :=
  ⟨Int.gcd_dvd_left a b, Int.gcd_dvd_right a b⟩

theorem geradeZahl_iff (x : Int) : geradeZahl x = true ↔ ∃ k, x = 2 * k := by
  simp only [geradeZahl, beq_iff_eq]
  constructor
  · intro h; exact ⟨x / 2, by omega⟩
  · rintro ⟨k, rfl⟩; omega

example : hexZuZahl [55, 102, 70, 70] = some 32767 ∧ zahlZuHex (-255) = [45, 70, 70] ∧ zahlZuHex 0 = [48] := by decide
example : teiler 12 = [1, 2, 3, 4, 6, 12] := by decide

/-! ### statistics -/

theorem hoechsteZ_spec (l : List Int) (m : Int) (h : hoechsteZ l = some m) : m ∈ l ∧ ∀ x ∈ l, x ≤ m :=
  List.max?_eq_some_iff.mp h

theorem kleinsteZ_spec (l : List Int) (m : Int) (h : kleinsteZ l = some m) : m ∈ l ∧ ∀ x ∈ l, m ≤ x :=
  List.min?_eq_some_iff.mp h

theorem absoluteHaeufigkeit_le (l : List Rat) (x : Rat) : absoluteHaeufigkeit l x ≤ l.length := List.count_le_length

theorem absoluteHaeufigkeit_pos (l : List Rat) (x : Rat) : 0 < absoluteHaeufigkeit l x ↔ x ∈ l := List.count_pos_iff

/-- every modal value occurs in the list -/
theorem modalwert_mem (l : List Rat) (x : Rat) (h : x ∈ modalwert l) : x ∈ l := by
  simp only [modalwert] at h
  exact (List.mem_filter.mp (List.mem_eraseDups.mp h)).1

theorem median_eins (x : Rat) : median [x] = some x := by simp [median]

theorem mittelwert_leer : mittelwert [] = none := rfl

example : median [1, 5 / 2, 5 / 2, 4] = some (5 / 2) := by decide +kernel
example : quantil [1, 5 / 2, 5 / 2, 4] (1 / 4) = some (7 / 4) := by decide +kernel
example : varianz [1, 2, 3] = some 1 ∧ standardabweichung [0, 0, 4, 4, 2] = some 2 := by decide +kernel
example : mindestens 3 [1, 5 / 2, 3, 4] = some (1 / 2) ∧ hoechstens 1 [1, 5 / 2, 3, 4] = some (1 / 4) := by decide +kernel
example : modalwert [1, 5 / 2, 5 / 2, 4, 1] = [1, 5 / 2] := by decide +kernel
example : kovarianz [1, 2, 3] [2, 4, 6] = some 2 := by decide +kernel

/-! ### TextIterator -/

/-- handled and remaining letters always make up the text, in number … -/
theorem iter_counts (t : List Int) (k : Nat) (h : k ≤ t.length) :
    (iterView t k).behandelt + (iterView t k).verbleibend = t.length := by
  simp [iterView]; omega

/-- … and in content -/
theorem iter_bisher_rest (t : List Int) (k : Nat) : (iterView t k).bisher ++ (iterView t k).rest = t := by
  simp [iterView]

/-- the remaining count is the length of the remaining text (letters, not bytes) -/
theorem iter_verbleibend_rest (t : List Int) (k : Nat) : (iterView t k).verbleibend = (iterView t k).rest.length := by
  simp [iterView]

/-- the walk visits every letter once, in order -/
theorem iterWalk_letters (t : List Int) : (iterWalk t).map (·.buchstabe) = t := by
  apply List.ext_getElem
  · simp [iterWalk]
  · intro i h1 h2
    simp [iterWalk] at h1
    simp [iterWalk, iterView, List.headD_eq_head?_getD, List.head?_drop, h1]

example : (iterWalk [97, 8364, 128512]).map (fun v => (v.index, v.verbleibend, v.rest)) =
    [(1, 3, [97, 8364, 128512]), (2, 2, [8364, 128512]), (3, 1, [128512])] := by decide

end DDP.Duden

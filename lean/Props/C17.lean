import DDP.Spec.Duden

/-!
# C17 — Duden list, text, number and sorting functions meet their specification

`DDP.Duden` states the documented meaning as sequence operations; the real functions are compared
with it on generated arguments (`vlib/props/C17.py`).  The theorems are the laws that make these
definitions *the* mathematical operations: lengths, inverses, involutions, and for sorting
"ordered permutation".
-/

namespace DDP.Duden

theorem anfuegen_length (l : List Int) (e : Int) : (anfuegen l e).length = l.length + 1 := by simp [anfuegen]
theorem anfuegen_last (l : List Int) (e : Int) : (anfuegen l e).getLast? = some e := by simp [anfuegen]
theorem voranstellen_head (l : List Int) (e : Int) : (voranstellen l e).head? = some e := rfl

theorem take_mid (A B : List Int) (e : Int) : (A ++ [e] ++ B).take A.length = A := by
  rw [List.append_assoc, List.take_append_of_le_length (Nat.le_refl _), List.take_length]

theorem drop_mid (A B : List Int) (e : Int) : (A ++ [e] ++ B).drop (A.length + 1) = B := by
  have : A.length + 1 = (A ++ [e]).length := by simp
  rw [this, List.drop_left]

/-- inserting at position i and deleting position i again gives the list back -/
theorem einfuegen_loesche (l l' : List Int) (i : Nat) (e : Int) (h : einfuegen l i e = some l') : loesche l' i = some l := by
  unfold einfuegen at h
  split at h
  · rename_i hi
    injection h with h
    subst h
    unfold loesche
    have ht : (l.take (i - 1)).length = i - 1 := by simp [List.length_take]; omega
    have hlen : (l.take (i - 1) ++ [e] ++ l.drop (i - 1)).length = l.length + 1 := by
      simp [List.length_take, List.length_drop]; omega
    have h1 : 1 ≤ i ∧ i ≤ (l.take (i - 1) ++ [e] ++ l.drop (i - 1)).length := by rw [hlen]; omega
    simp only [h1, and_self, if_true]
    have e1 := take_mid (l.take (i - 1)) (l.drop (i - 1)) e
    have e2 := drop_mid (l.take (i - 1)) (l.drop (i - 1)) e
    rw [ht] at e1 e2
    have hi' : i - 1 + 1 = i := by omega
    rw [hi'] at e2
    rw [e1, e2, List.take_append_drop]
  · simp at h

theorem einfuegen_at (l l' : List Int) (i : Nat) (e : Int) (h : einfuegen l i e = some l') : l'[i - 1]? = some e := by
  unfold einfuegen at h
  split at h
  · rename_i hi
    injection h with h
    subst h
    have ht : (l.take (i - 1)).length = i - 1 := by simp [List.length_take]; omega
    rw [List.append_assoc, List.getElem?_append_right (by omega)]
    simp [ht]
  · simp at h

theorem loesche_length (l l' : List Int) (i : Nat) (h : loesche l i = some l') : l'.length + 1 = l.length := by
  unfold loesche at h
  split at h
  · injection h with h; subst h; simp [List.length_take, List.length_drop]; omega
  · simp at h

theorem gespiegelt_involution (l : List Int) : gespiegelt (gespiegelt l) = l := by simp [gespiegelt]
theorem gespiegelt_length (l : List Int) : (gespiegelt l).length = l.length := by simp [gespiegelt]

theorem foldl_add_shift (l : List Int) (a : Int) : l.foldl (· + ·) a = a + l.foldl (· + ·) 0 := by
  induction l generalizing a with
  | nil => simp
  | cons x r ih => simp only [List.foldl_cons]; rw [ih (a + x), ih (0 + x)]; omega

theorem summe_anfuegen (l : List Int) (e : Int) : summe (anfuegen l e) = summe l + e := by
  simp [summe, anfuegen, List.foldl_append]

theorem summe_verkettet (a b : List Int) : summe (a ++ b) = summe a + summe b := by
  simp only [summe, List.foldl_append]
  rw [foldl_add_shift]

theorem indexVon_found (l : List Int) (e : Int) (i : Int) (h : indexVon l e = i) (hi : i ≠ -1) : e ∈ l := by
  unfold indexVon at h
  cases hf : l.findIdx? (· == e) with
  | none => simp [hf] at h; omega
  | some k =>
    have := List.findIdx?_eq_some_iff_getElem.mp hf
    obtain ⟨hk, hp, _⟩ := this
    have : l[k] = e := by simpa using hp
    exact this ▸ List.getElem_mem hk

theorem indexVon_none (l : List Int) (e : Int) (h : e ∉ l) : indexVon l e = -1 := by
  unfold indexVon
  have : l.findIdx? (· == e) = none := by
    apply List.findIdx?_eq_none_iff.mpr
    intro x hx
    simp
    intro hxe
    exact h (hxe ▸ hx)
  simp [this]

/-! ### sorting: an ordered permutation -/

theorem einsortieren_perm (x : Int) (l : List Int) : (einsortieren x l).Perm (x :: l) := by
  induction l with
  | nil => exact List.Perm.refl _
  | cons y r ih =>
    unfold einsortieren
    split
    · exact List.Perm.refl _
    · exact (List.Perm.cons y ih).trans (List.Perm.swap x y r)

theorem sortiert_perm (l : List Int) : (sortiert l).Perm l := by
  induction l with
  | nil => exact List.Perm.refl _
  | cons x r ih =>
    show (einsortieren x (sortiert r)).Perm (x :: r)
    exact (einsortieren_perm x _).trans (List.Perm.cons x ih)

theorem einsortieren_sorted (x : Int) (l : List Int) (h : l.Pairwise (· ≤ ·)) : (einsortieren x l).Pairwise (· ≤ ·) := by
  induction l with
  | nil => simp [einsortieren]
  | cons y r ih =>
    unfold einsortieren
    have hy := List.pairwise_cons.mp h
    split
    · rename_i hxy
      refine List.pairwise_cons.mpr ⟨?_, h⟩
      intro z hz
      rcases List.mem_cons.mp hz with e | e
      · subst e; exact hxy
      · exact Int.le_trans hxy (hy.1 z e)
    · rename_i hxy
      refine List.pairwise_cons.mpr ⟨?_, ih hy.2⟩
      intro z hz
      have := (einsortieren_perm x r).mem_iff.mp hz
      rcases List.mem_cons.mp this with e | e
      · subst e; omega
      · exact hy.1 z e

theorem sortiert_sorted (l : List Int) : (sortiert l).Pairwise (· ≤ ·) := by
  induction l with
  | nil => simp [sortiert]
  | cons x r ih => exact einsortieren_sorted x _ ih

theorem sortiert_length (l : List Int) : (sortiert l).length = l.length := (sortiert_perm l).length_eq

/-! ### texts -/

theorem trimAnfang_idempotent (t : Text) (c : Nat) : trimAnfang (trimAnfang t c) c = trimAnfang t c := by
  unfold trimAnfang
  induction t with
  | nil => simp
  | cons x r ih =>
    by_cases h : (x == c) = true
    · simp [h, ih]
    · simp [h]

theorem trimAnfang_head (t : Text) (c : Nat) : (trimAnfang t c).head? ≠ some c := by
  unfold trimAnfang
  induction t with
  | nil => simp
  | cons x r ih =>
    by_cases h : (x == c) = true
    · simpa [h] using ih
    · simp [h]; intro e; simp [e] at h

theorem polsterLinks_length (t : Text) (c n : Nat) : (polsterLinks t c n).length = max n t.length := by
  simp [polsterLinks]; omega

theorem polsterLinks_noop (t : Text) (c n : Nat) (h : n ≤ t.length) : polsterLinks t c n = t := by
  have : n - t.length = 0 := by omega
  simp [polsterLinks, this]

theorem polsterRechts_prefix (t : Text) (c n : Nat) : t <+: polsterRechts t c n := by
  exact List.prefix_append _ _

theorem vergleiche_refl (t : Text) : vergleiche t t = 0 := by
  induction t with
  | nil => rfl
  | cons x r ih => simp [vergleiche, ih]

theorem vergleiche_eq (a b : Text) (h : vergleiche a b = 0) (hl : a.length = b.length) : a = b := by
  induction a generalizing b with
  | nil => cases b <;> simp_all
  | cons x r ih =>
    cases b with
    | nil => simp at hl
    | cons y s =>
      unfold vergleiche at h
      split at h
      · rename_i hxy
        have : x = y := by simpa using hxy
        subst this
        rw [ih s h (by simpa using hl)]
      · rename_i hxy
        have : x ≠ y := by simpa using hxy
        omega

theorem spalteAux_ne_nil (c : Nat) (t cur : Text) : spalteAux c t cur ≠ [] := by
  induction t generalizing cur with
  | nil => simp [spalteAux]
  | cons x r ih =>
    unfold spalteAux
    split
    · simp
    · exact ih _

theorem foldl_join_shift (c : Nat) (acc : Text) (l : List Text) :
    List.foldl (fun acc y => acc ++ [c] ++ y) acc l = acc ++ List.foldl (fun acc y => acc ++ [c] ++ y) [] l := by
  induction l generalizing acc with
  | nil => simp
  | cons z zs ihz =>
    simp only [List.foldl_cons]
    rw [ihz (acc ++ [c] ++ z), ihz ([] ++ [c] ++ z)]
    simp [List.append_assoc]

/-- join after split gives the text back (for a non-empty text) -/
theorem verbinden_spalteAux (c : Nat) (t cur : Text) :
    verbinden (spalteAux c t cur) c = cur.reverse ++ t := by
  induction t generalizing cur with
  | nil => simp [spalteAux, verbinden]
  | cons x r ih =>
    unfold spalteAux
    split
    · rename_i hx
      have hxc : x = c := by simpa using hx
      have h0 := ih []
      simp only [List.reverse_nil, List.nil_append] at h0
      cases hr : spalteAux c r [] with
      | nil => exact absurd hr (spalteAux_ne_nil c r [])
      | cons y ys =>
        rw [hr] at h0
        simp only [verbinden] at h0 ⊢
        simp only [List.foldl_cons]
        rw [foldl_join_shift] at h0 ⊢
        rw [← h0, hxc]
        simp [List.append_assoc]
    · rw [ih (x :: cur)]
      simp

theorem verbinden_spalte (t : Text) (c : Nat) (h : t ≠ []) : verbinden (spalte t c) c = t := by
  unfold spalte
  have : t.isEmpty = false := by cases t <;> simp_all
  simp [this, verbinden_spalteAux]

example : sortiert [3, 1, 2, 1] = [1, 1, 2, 3] := by decide
example : spalte [97, 44, 98, 44, 44, 99] 44 = [[97], [98], [], [99]] := by decide
example : einfuegen [1, 2, 3] 2 9 = some [1, 9, 2, 3] := by decide

/-! ### numbers -/

theorem max2_ge (a b : Int) : a ≤ max2 a b ∧ b ≤ max2 a b ∧ (max2 a b = a ∨ max2 a b = b) := by
  unfold max2; split <;> omega

theorem min2_le (a b : Int) : min2 a b ≤ a ∧ min2 a b ≤ b ∧ (min2 a b = a ∨ min2 a b = b) := by
  unfold min2; split <;> omega

theorem max3_ge (a b c : Int) : a ≤ max3 a b c ∧ b ≤ max3 a b c ∧ c ≤ max3 a b c := by
  unfold max3 max2; split <;> split <;> omega

theorem clamp_range (w lo hi : Int) (h : lo ≤ hi) : lo ≤ clamp w lo hi ∧ clamp w lo hi ≤ hi := by
  unfold clamp; split <;> (try split) <;> omega

theorem clamp_inside (w lo hi : Int) (h1 : lo ≤ w) (h2 : w ≤ hi) : clamp w lo hi = w := by
  unfold clamp; split <;> (try split) <;> omega

theorem sign_spec (a : Int) : (a < 0 → sign a = -1) ∧ (a > 0 → sign a = 1) ∧ (a = 0 → sign a = 0) := by
  unfold sign; refine ⟨?_, ?_, ?_⟩ <;> intro h <;> split <;> (try split) <;> omega

theorem ggT_divides (a b : Nat) : ggT a b ∣ a ∧ ggT a b ∣ b := ⟨Nat.gcd_dvd_left a b, Nat.gcd_dvd_right a b⟩

theorem ggT_greatest (a b d : Nat) (ha : d ∣ a) (hb : d ∣ b) : d ∣ ggT a b := Nat.dvd_gcd ha hb

/-- the product of the prime factors is the number -/
theorem primAux_prod : ∀ (fuel n d : Nat), 1 ≤ n → (primAux fuel n d).foldl (· * ·) 1 = n := by
  intro fuel
  induction fuel with
  | zero =>
    intro n d hn
    unfold primAux
    split
    · simp
    · have : n = 1 := by omega
      simp [this]
  | succ fuel ih =>
    intro n d hn
    unfold primAux
    split
    · have : n = 1 := by omega
      simp [this]
    · split
      · simp
      · split
        · rename_i h1 h2 hdiv
          have hmod : n % d = 0 := by simpa using hdiv
          have hd : 0 < d := by
            cases d with
            | zero => simp at h2; omega
            | succ k => omega
          have hq : 1 ≤ n / d := by
            have : d ≤ n := by
              have : d * d ≤ n := by omega
              calc d ≤ d * d := Nat.le_mul_self d
                _ ≤ n := this
            exact Nat.div_pos this hd
          have := ih (n / d) d hq
          simp only [List.foldl_cons, Nat.one_mul]
          have key : ∀ (l : List Nat) (a : Nat), l.foldl (· * ·) a = a * l.foldl (· * ·) 1 := by
            intro l
            induction l with
            | nil => intro a; simp
            | cons x r ihl => intro a; simp only [List.foldl_cons]; rw [ihl (a * x), ihl (1 * x)]; simp [Nat.mul_assoc]
          rw [key, this]
          exact Nat.mul_div_cancel' (Nat.dvd_of_mod_eq_zero hmod)
        · exact ih n (d + 1) hn

theorem primfaktoren_prod (z : Nat) (h : 1 ≤ z) : (primfaktoren z).foldl (· * ·) 1 = z := primAux_prod _ _ _ h

example : primfaktoren 360 = [2, 2, 2, 3, 3, 5] := by decide
example : kgV 4 6 = 12 ∧ ggT 12 18 = 6 := by decide

/-! ### more text functions -/

theorem loescheT_length (t t' : Text) (i : Nat) (h : loescheT t i = some t') : t'.length + 1 = t.length := by
  unfold loescheT at h
  split at h
  · injection h with h; subst h; simp [List.length_take, List.length_drop]; omega
  · simp at h

theorem einfuegenT_length (t t' e : Text) (i : Nat) (h : einfuegenT t i e = some t') : t'.length = t.length + e.length := by
  unfold einfuegenT at h
  split at h
  · injection h with h; subst h; simp [List.length_take, List.length_drop]; omega
  · simp at h

theorem einfuegenT_first (t t' e : Text) (h : einfuegenT t 1 e = some t') : t' = e ++ t := by
  unfold einfuegenT at h
  split at h
  · injection h with h; subst h; simp
  · simp at h

theorem loescheBereichT_all (t : Text) (h : t ≠ []) : loescheBereichT t 1 t.length = some [] := by
  have : 0 < t.length := List.length_pos_iff.mpr h
  simp [loescheBereichT]; omega

example : finde [97, 97, 97] [97, 97] = [1] := by decide
example : finde [97, 98, 97, 98] [97, 98] = [1, 3] := by decide
example : spalteText [120, 97, 97, 98] [97, 98] = [[120, 97], []] := by decide

end DDP.Duden

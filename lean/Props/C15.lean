import DDP.Impl.Generics

/-!
# C15 — a generic call behaves like its monomorphic specialisation (type level)

`DDP.Generics.unify` transcribes `UnifyGenericType`; a call fits when every argument type comes back
from unification (`fits`, the test of `alias.go`).  The theorems: a binding, once made, is never
changed; a type parameter bound to one type rejects an argument of another type; when a call fits,
the binding of each plain type parameter *is* the argument's type, so instantiating the parameter
type gives exactly the argument type (the specialisation the generic function is compiled as).
-/

namespace DDP.Generics

/-! ## `Equal` -/

mutual
theorem Ty.beq_refl : (t : Ty) → Ty.beq t t = true
  | .prim _ => by simp [Ty.beq]
  | .var _ => by simp [Ty.beq]
  | .list e => by simp [Ty.beq, Ty.beq_refl e]
  | .inst _ as => by simp [Ty.beq, Ty.beqList_refl as]
theorem Ty.beqList_refl : (l : List Ty) → Ty.beqList l l = true
  | [] => by simp [Ty.beqList]
  | a :: r => by simp [Ty.beqList, Ty.beq_refl a, Ty.beqList_refl r]
end

mutual
theorem Ty.eq_of_beq : (a b : Ty) → Ty.beq a b = true → a = b
  | .prim x, .prim y, h => by simp [Ty.beq] at h; simp [h]
  | .var x, .var y, h => by simp [Ty.beq] at h; simp [h]
  | .list x, .list y, h => by simp only [Ty.beq] at h; rw [Ty.eq_of_beq x y h]
  | .inst s as, .inst t bs, h => by
      simp only [Ty.beq, Bool.and_eq_true, beq_iff_eq] at h
      rw [h.1, Ty.eqList_of_beq as bs h.2]
  | .prim _, .var _, h | .prim _, .list _, h | .prim _, .inst _ _, h
  | .var _, .prim _, h | .var _, .list _, h | .var _, .inst _ _, h
  | .list _, .prim _, h | .list _, .var _, h | .list _, .inst _ _, h
  | .inst _ _, .prim _, h | .inst _ _, .var _, h | .inst _ _, .list _, h => by simp [Ty.beq] at h
theorem Ty.eqList_of_beq : (a b : List Ty) → Ty.beqList a b = true → a = b
  | [], [], _ => rfl
  | x :: xs, y :: ys, h => by
      simp only [Ty.beqList, Bool.and_eq_true] at h
      rw [Ty.eq_of_beq x y h.1, Ty.eqList_of_beq xs ys h.2]
  | [], _ :: _, h | _ :: _, [], h => by simp [Ty.beqList] at h
end

/-- instantiations with equal type arguments are one and the same type, with different arguments
different types (`Equal` decides exactly the equality of the argument lists) -/
theorem inst_equal_iff (s : Nat) (as bs : List Ty) : Ty.beq (.inst s as) (.inst s bs) = true ↔ as = bs := by
  constructor
  · intro h
    have := Ty.eq_of_beq _ _ h
    injection this
  · intro h; subst h; exact Ty.beq_refl _

theorem inst_different_struct (s t : Nat) (as bs : List Ty) (h : s ≠ t) : Ty.beq (.inst s as) (.inst t bs) = false := by
  simp [Ty.beq, h]

/-! ## bindings are made once -/

theorem lookup_append_some (σ : Bindings) (n m : Nat) (t u : Ty) (h : lookup σ n = some t) :
    lookup (σ ++ [(m, u)]) n = some t := by
  unfold lookup at *
  cases hf : σ.find? (·.1 == n) with
  | none => simp [hf] at h
  | some x => simp [List.find?_append, hf] at *; exact h

theorem bindOrLookup_keeps (σ : Bindings) (n m : Nat) (arg t : Ty) (h : lookup σ n = some t) :
    lookup (bindOrLookup σ m arg).2 n = some t := by
  unfold bindOrLookup
  split
  · exact h
  · exact lookup_append_some σ n m t arg h

theorem unifyArgs_keeps (s : Nat) (ps as : List Ty) (σ : Bindings) (acc : List Ty) (n : Nat) (t : Ty)
    (h : lookup σ n = some t) : lookup (unifyArgs s ps as σ acc).2 n = some t := by
  induction ps generalizing as σ acc with
  | nil => simpa [unifyArgs] using h
  | cons p ps ih =>
    cases as with
    | nil => simpa [unifyArgs] using h
    | cons a as =>
      simp only [unifyArgs]
      cases p with
      | var m =>
        simp only []
        have hk := bindOrLookup_keeps σ n m a t h
        split
        · exact ih as _ _ hk
        · exact hk
      | prim _ => simp only []; split; exact ih as _ _ h; exact h
      | list _ => simp only []; split; exact ih as _ _ h; exact h
      | inst _ _ => simp only []; split; exact ih as _ _ h; exact h

theorem unifyCore_keeps (arg gen : Ty) (σ : Bindings) (n : Nat) (t : Ty) (h : lookup σ n = some t) :
    lookup (unifyCore arg gen σ).2 n = some t := by
  unfold unifyCore
  cases gen with
  | var m =>
    simp only []
    have hk := bindOrLookup_keeps σ n m arg t h
    generalize bindOrLookup σ m arg = r at hk
    obtain ⟨g, σ'⟩ := r
    simp only [] at hk ⊢
    cases g with
    | inst s ps =>
      simp only []
      cases arg with
      | inst s' as => simp only []; split; exact hk; exact unifyArgs_keeps _ _ _ _ _ _ _ hk
      | _ => simpa using hk
    | _ => simpa using hk
  | inst s ps =>
    simp only []
    cases arg with
    | inst s' as => simp only []; split; exact h; exact unifyArgs_keeps _ _ _ _ _ _ _ h
    | _ => simpa using h
  | prim _ => simpa using h
  | list _ => simpa using h

/-- **a binding, once made, is never changed** by unifying further arguments -/
theorem unify_keeps : (arg param : Ty) → (σ : Bindings) → (n : Nat) → (t : Ty) → lookup σ n = some t →
    lookup (unify arg param σ).2 n = some t
  | .list a, .list p, σ, n, t, h => by
      unfold unify
      cases p with
      | var m => simpa using unifyCore_keeps a (.var m) σ n t h
      | prim k => simpa using unify_keeps a (.prim k) σ n t h
      | list e => simpa using unify_keeps a (.list e) σ n t h
      | inst s as => simpa using unify_keeps a (.inst s as) σ n t h
  | .prim _, .list _, σ, n, t, h => by simpa [unify] using h
  | .var _, .list _, σ, n, t, h => by simpa [unify] using h
  | .inst _ _, .list _, σ, n, t, h => by simpa [unify] using h
  | arg, .prim k, σ, n, t, h => by
      have : unify arg (.prim k) σ = unifyCore arg (.prim k) σ := by cases arg <;> simp [unify]
      rw [this]; exact unifyCore_keeps _ _ _ _ _ h
  | arg, .var k, σ, n, t, h => by
      have : unify arg (.var k) σ = unifyCore arg (.var k) σ := by cases arg <;> simp [unify]
      rw [this]; exact unifyCore_keeps _ _ _ _ _ h
  | arg, .inst s as, σ, n, t, h => by
      have : unify arg (.inst s as) σ = unifyCore arg (.inst s as) σ := by cases arg <;> simp [unify]
      rw [this]; exact unifyCore_keeps _ _ _ _ _ h

/-! ## one type parameter, two different argument types: the call does not fit -/

/-- the second argument meets the binding made by the first one; a different type is refused
(stated for bindings that are not instantiations of a generic Kombination, see `conflict_inst`) -/
theorem conflict_rejected (arg t : Ty) (σ : Bindings) (n : Nat) (h : lookup σ n = some t)
    (hne : Ty.beq arg t = false) (hsimple : ∀ s as, t ≠ .inst s as) :
    (fits arg (.var n) σ).1 = false := by
  have hu : unify arg (.var n) σ = unifyCore arg (.var n) σ := by cases arg <;> simp [unify]
  unfold fits
  rw [hu]
  unfold unifyCore
  simp only [bindOrLookup, h]
  cases t with
  | inst s as => exact absurd rfl (hsimple s as)
  | prim k => simp [hne]
  | var k => simp [hne]
  | list e => simp [hne]

/-- a parameter bound to an instantiation refuses an instantiation of another generic Kombination
(the case that made the compiler index past the type arguments before the repair) -/
theorem conflict_inst (s s' : Nat) (as bs : List Ty) (σ : Bindings) (n : Nat)
    (h : lookup σ n = some (.inst s as)) (hs : s ≠ s') :
    fits (.inst s' bs) (.var n) σ = (false, σ) := by
  unfold fits
  simp only [unify, unifyCore, bindOrLookup, h]
  have : (s != s') = true := by simp [hs]
  simp [this]

/-! ## when the call fits, the parameter is instantiated to the argument's type -/

/-- an unbound plain type parameter is bound to the argument's type, and the call fits -/
theorem fresh_binds (arg : Ty) (σ : Bindings) (n : Nat) (h : lookup σ n = none) (hsimple : ∀ s as, arg ≠ .inst s as) :
    fits arg (.var n) σ = (true, σ ++ [(n, arg)]) := by
  have hu : unify arg (.var n) σ = unifyCore arg (.var n) σ := by cases arg <;> simp [unify]
  unfold fits
  rw [hu]
  unfold unifyCore
  simp only [bindOrLookup, h]
  cases arg with
  | inst s as => exact absurd rfl (hsimple s as)
  | prim k => simp [Ty.beq]
  | var k => simp [Ty.beq]
  | list e => simp [Ty.beq_refl]

/-- whenever an argument fits a plain type parameter, the parameter's binding afterwards is the
argument's type: `subst` of the parameter — the specialisation — is exactly that type -/
theorem fits_var_instantiates (arg : Ty) (σ : Bindings) (n : Nat) (hsimple : ∀ s as, arg ≠ .inst s as)
    (hf : (fits arg (.var n) σ).1 = true) :
    lookup (fits arg (.var n) σ).2 n = some arg := by
  cases hl : lookup σ n with
  | none =>
    rw [fresh_binds arg σ n hl hsimple]
    unfold lookup at *
    cases hfind : σ.find? (·.1 == n) with
    | some x => simp [hfind] at hl
    | none => simp [List.find?_append, hfind]
  | some t =>
    have hu : unify arg (.var n) σ = unifyCore arg (.var n) σ := by cases arg <;> simp [unify]
    unfold fits at hf ⊢
    rw [hu] at hf ⊢
    unfold unifyCore at hf ⊢
    simp only [bindOrLookup, hl] at hf ⊢
    cases t with
    | prim k =>
      simp only [] at hf ⊢
      have := Ty.eq_of_beq _ _ hf
      subst this; exact hl
    | var k =>
      simp only [] at hf ⊢
      have := Ty.eq_of_beq _ _ hf
      subst this; exact hl
    | list e =>
      simp only [] at hf ⊢
      have := Ty.eq_of_beq _ _ hf
      subst this; exact hl
    | inst s as =>
      simp only [] at hf ⊢
      cases arg with
      | inst s' bs => exact absurd rfl (hsimple s' bs)
      | prim _ => simp at hf
      | var _ => simp at hf
      | list _ => simp at hf

/-- non-vacuity: `f (T Liste, T)` called with (Zahlen Liste, Zahl) fits and binds T to Zahl;
called with (Zahlen Liste, Text) it does not fit -/
example : fitsAll [(.list (.prim 0), .list (.var 0)), (.prim 0, .var 0)] [] = (true, [(0, .prim 0)]) := by rfl
example : (fitsAll [(.list (.prim 0), .list (.var 0)), (.prim 5, .var 0)] []).1 = false := by decide

end DDP.Generics

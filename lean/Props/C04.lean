import DDP.Spec.Static

/-!
# C04 — statically ill-formed programs are never accepted

`DDP.Spec.checkProgram` is the statement of the static rules for the core language; the compiler's
verdict is compared with it on generated programs and on their ill-formed variants
(`vlib/props/C04.py`).  The theorems say, rule by rule, that the statement rejects what the
property lists.
-/

namespace DDP.Spec

/-- an undeclared (or no longer visible) name has no type -/
theorem undeclared_name (env : SEnv) (n : String) (h : env.lookup n = none) : typeOf env (.var n) = none := by
  simp [typeOf, h]

/-- and so every statement that uses it is rejected, e.g. an initialiser -/
theorem undeclared_in_initialiser (env : SEnv) (t : Ty) (x n : String) (h : env.lookup n = none) :
    checkStmt env (.decl t x (.var n)) = none := by
  simp [checkStmt, typeOf, h]

/-- a name declared in the innermost scope cannot be declared there again -/
theorem redeclaration (env : SEnv) (sc : TScope) (rest : List TScope) (n : String) (t t' : Ty)
    (hs : env.scopes = sc :: rest) (h : (n, t') ∈ sc) : env.declare n t = none := by
  unfold SEnv.declare
  rw [hs]
  have : (sc.find? (·.1 == n)).isSome = true := by
    rw [List.find?_isSome]
    exact ⟨(n, t'), h, by simp⟩
  simp [this]

/-- a name declared inside a block is not declared after it: the block works on a pushed scope and
the statement after the block sees the old environment -/
theorem block_scope_ends (env env' : SEnv) (c : Expr) (a b : List Stmt) (h : checkStmt env (.ifElse c a b) = some env') : env' = env := by
  simp only [checkStmt] at h
  split at h <;> simp at h
  exact h.symm

/-- initialisers and assigned values: equal types, any numeric for any numeric, anything but nothing
into a Variable — and nothing else -/
theorem initialiser_rule (target value : Ty) :
    assignable target value = true ↔
      (target = value ∨ (target = .variable ∧ value ≠ .nichts) ∨ (target.isNum = true ∧ value.isNum = true)) := by
  unfold assignable
  simp only [Bool.or_eq_true, Bool.and_eq_true, beq_iff_eq, bne_iff_ne]
  constructor
  · intro h; rcases h with (h | h) | h
    · exact Or.inl h
    · exact Or.inr (Or.inl h)
    · exact Or.inr (Or.inr h)
  · intro h; rcases h with h | h | h
    · exact Or.inl (Or.inl h)
    · exact Or.inl (Or.inr h)
    · exact Or.inr h

theorem wrong_initialiser (env : SEnv) (t te : Ty) (n : String) (e : Expr) (he : typeOf env e = some te)
    (h : assignable t te = false) : checkStmt env (.decl t n e) = none := by
  simp [checkStmt, he, h]

theorem wrong_assignment (env : SEnv) (target e : Expr) (tt te : Ty) (ht : typeOf env target = some tt) (he : typeOf env e = some te)
    (h : assignable tt te = false) : checkStmt env (.assign target e) = none := by
  simp only [checkStmt]
  split
  · rfl
  · simp [ht, he, h]

/-- a condition that is not a Wahrheitswert -/
theorem wrong_condition_if (env : SEnv) (c : Expr) (a b : List Stmt) (tc : Ty) (hc : typeOf env c = some tc) (h : tc ≠ .wahr) :
    checkStmt env (.ifElse c a b) = none := by
  simp [checkStmt, hc, h]

theorem wrong_condition_while (env : SEnv) (c : Expr) (body : List Stmt) (tc : Ty) (hc : typeOf env c = some tc) (h : tc ≠ .wahr) :
    checkStmt env (.while c body) = none := by
  simp [checkStmt, hc, h]

/-- loop bounds must be numeric -/
theorem wrong_loop_bound (env : SEnv) (n : String) (t tf tt : Ty) (frm to : Expr) (step : Option Expr) (body : List Stmt)
    (hf : typeOf env frm = some tf) (ht : typeOf env to = some tt) (h : tt.isNum = false) :
    checkStmt env (.forRange n t frm to step body) = none := by
  simp [checkStmt, hf, ht, h]

/-- operands: every operator has its admissible operand types, e.g. no arithmetic on a Text -/
theorem wrong_operand_plus (b : Ty) : binTy .plus .text b = none := by
  simp [binTy, Ty.isNum]

theorem wrong_operand_und (a b : Ty) (h : a ≠ .wahr) : binTy .and a b = none := by
  simp [binTy, h]

/-- arguments: the parameter's type exactly -/
theorem wrong_argument (env : SEnv) (params : List Param) (p : Param) (pn : String) (ae : Expr) (ta : Ty) (rest : List (String × Expr))
    (hp : params.find? (·.name == pn) = some p) (ha : typeOf env ae = some ta) (h : ta ≠ p.ty) :
    typeArgs env params ((pn, ae) :: rest) = false := by
  simp [typeArgs, hp, ha, h]

/-- a Referenz parameter takes an assignable, not a value -/
theorem value_for_referenz (env : SEnv) (params : List Param) (p : Param) (pn : String) (v : Int) (rest : List (String × Expr))
    (hp : params.find? (·.name == pn) = some p) (hr : p.isRef = true) :
    typeArgs env params ((pn, .intLit v) :: rest) = false := by
  simp [typeArgs, hp, hr, typeOf]

/-- returned values: the declared type exactly (or anything into a Variable) -/
theorem wrong_return (env : SEnv) (rt te : Ty) (e : Expr) (hr : env.ret = some rt) (he : typeOf env e = some te)
    (h : returnable rt te = false) : checkStmt env (.ret (some e)) = none := by
  simp [checkStmt, hr, he, h]

/-- `Verlasse die Schleife` / `Fahre mit der Schleife fort` outside of a loop -/
theorem break_outside_loop (env : SEnv) (h : env.loopDepth = 0) : checkStmt env .break = none ∧ checkStmt env .continue = none := by
  simp [checkStmt, h]

/-- a value-returning function whose body does not end in a return is rejected -/
theorem missing_final_return (env : SEnv) (f : Func) (h1 : f.ret ≠ .nichts) (h2 : endsInReturn f.body = false) : checkFunc env f = false := by
  simp [checkFunc, h1, h2]

/-- a rejected statement rejects the block, the function and the program around it -/
theorem block_rejects (env : SEnv) (pre post : List Stmt) (s : Stmt) :
    ∀ env', checkBlock env pre = some env' → checkStmt env' s = none → checkBlock env (pre ++ s :: post) = none := by
  induction pre generalizing env with
  | nil =>
    intro env' h hs
    simp [checkBlock] at h
    subst h
    simp [checkBlock, hs]
  | cons x r ih =>
    intro env' h hs
    simp only [checkBlock, List.cons_append] at h ⊢
    cases hx : checkStmt env x with
    | none => simp [hx] at h
    | some e1 =>
      simp only [hx, Option.bind_some] at h ⊢
      exact ih e1 env' h hs

example : checkProgram { structs := [], funcs := [], main := [.decl .zahl "a" (.intLit 1), .print (.var "a") true] } 1 = true := by decide
example : checkProgram { structs := [], funcs := [], main := [.decl .zahl "a" (.textLit []), .print (.var "a") true] } 1 = false := by decide
example : checkProgram { structs := [], funcs := [], main := [.decl .zahl "a" (.intLit 1), .decl .zahl "a" (.intLit 2)] } 2 = false := by decide

end DDP.Spec

import DDP.Impl.Resolve

/-!
# C09 — calls resolve to the longest type-matching alias
-/

namespace DDP.Resolve

/-- `before` spelled out: longer first, then fewer generic parameters, then more Referenz parameters -/
theorem before_iff (a b : Cand) : before a b = true ↔
    (b.len < a.len ∨ (a.len = b.len ∧ (a.gen < b.gen ∨ (a.gen = b.gen ∧ b.refs < a.refs)))) := by
  unfold before
  by_cases e1 : a.len = b.len <;> by_cases e2 : a.gen = b.gen <;> simp [e1, e2] <;> omega

theorem before_false_iff (a b : Cand) : before a b = false ↔
    ¬ (b.len < a.len ∨ (a.len = b.len ∧ (a.gen < b.gen ∨ (a.gen = b.gen ∧ b.refs < a.refs)))) := by
  rw [← before_iff]; simp

theorem before_irrefl (a : Cand) : before a a = false := by
  rw [before_false_iff]; omega

theorem before_asymm (a b : Cand) (h : before a b = true) : before b a = false := by
  rw [before_iff] at h; rw [before_false_iff]; omega

theorem before_trans (a b c : Cand) (h1 : before a b = true) (h2 : before b c = true) : before a c = true := by
  rw [before_iff] at *; omega

/-- of two candidates one comes before the other, or they have the same key -/
theorem before_total (a b : Cand) : before a b = true ∨ before b a = true ∨ key a = key b := by
  by_cases h1 : before a b = true
  · exact Or.inl h1
  · by_cases h2 : before b a = true
    · exact Or.inr (Or.inl h2)
    · right; right
      simp only [Bool.not_eq_true] at h1 h2
      rw [before_false_iff] at h1 h2
      unfold key
      have : a.len = b.len ∧ a.gen = b.gen ∧ a.refs = b.refs := by omega
      simp [this.1, this.2.1, this.2.2]

/-! ### the sort -/

theorem mem_insertC (c x : Cand) (l : List Cand) : x ∈ insertC c l ↔ x = c ∨ x ∈ l := by
  induction l with
  | nil => simp [insertC]
  | cons d r ih =>
    unfold insertC
    split
    · simp [ih]; constructor <;> (intro h; rcases h with h | h | h <;> simp [h])
    · simp

theorem mem_sortC (x : Cand) (l : List Cand) : x ∈ sortC l ↔ x ∈ l := by
  induction l with
  | nil => simp [sortC]
  | cons c r ih => simp [sortC, mem_insertC, ih]

/-- in the tried order nobody stands behind a candidate that should come before him -/
def Ordered : List Cand → Prop
  | [] => True
  | c :: r => (∀ d ∈ r, before d c = false) ∧ Ordered r

theorem insertC_ordered (c : Cand) (l : List Cand) (h : Ordered l) : Ordered (insertC c l) := by
  induction l with
  | nil => simp [insertC, Ordered]
  | cons d r ih =>
    unfold insertC
    split
    · rename_i hdc
      refine ⟨?_, ih h.2⟩
      intro x hx
      rcases (mem_insertC c x r).mp hx with e | e
      · subst e; exact before_asymm _ _ hdc
      · exact h.1 x e
    · rename_i hdc
      refine ⟨?_, h⟩
      intro x hx
      rcases List.mem_cons.mp hx with e | e
      · subst e; simpa using hdc
      · -- x stands behind d, and d is not before c: then x is not before c either
        have hxd := h.1 x e
        have hdc' : before d c = false := by simpa using hdc
        rw [before_false_iff] at hxd hdc' ⊢
        omega

theorem sortC_ordered (l : List Cand) : Ordered (sortC l) := by
  induction l with
  | nil => simp [sortC, Ordered]
  | cons c r ih => exact insertC_ordered c _ ih

/-! ### the selected alias -/

theorem find_ordered (l : List Cand) (h : Ordered l) (c : Cand) (hc : l.find? (·.fits) = some c) :
    c ∈ l ∧ c.fits = true ∧ ∀ d ∈ l, d.fits = true → before d c = false := by
  induction l with
  | nil => simp at hc
  | cons x r ih =>
    simp only [List.find?_cons] at hc
    split at hc
    · rename_i hx
      simp at hc
      subst hc
      refine ⟨by simp, hx, ?_⟩
      intro d hd _
      rcases List.mem_cons.mp hd with e | e
      · subst e; exact before_irrefl _
      · exact h.1 d e
    · rename_i hx
      obtain ⟨hm, hf, hall⟩ := ih h.2 hc
      refine ⟨by simp [hm], hf, ?_⟩
      intro d hd hdf
      rcases List.mem_cons.mp hd with e | e
      · subst e; simp [hdf] at hx
      · exact hall d e hdf

/-- **the call goes to a fitting alias, and no fitting alias comes before it**: none is longer; among
the longest none has fewer generic parameters; among those none has more Referenz parameters -/
theorem select_best (cs : List Cand) (c : Cand) (h : select cs = some c) :
    c ∈ cs ∧ c.fits = true ∧ ∀ d ∈ cs, d.fits = true → before d c = false := by
  obtain ⟨hm, hf, hall⟩ := find_ordered (sortC cs) (sortC_ordered cs) c h
  exact ⟨(mem_sortC c cs).mp hm, hf, fun d hd hdf => hall d ((mem_sortC d cs).mpr hd) hdf⟩

theorem select_longest (cs : List Cand) (c d : Cand) (h : select cs = some c) (hd : d ∈ cs) (hf : d.fits = true) : d.len ≤ c.len := by
  have := (select_best cs c h).2.2 d hd hf
  rw [before_false_iff] at this; omega

theorem select_prefers_nongeneric (cs : List Cand) (c d : Cand) (h : select cs = some c) (hd : d ∈ cs) (hf : d.fits = true)
    (hl : d.len = c.len) : c.gen ≤ d.gen := by
  have := (select_best cs c h).2.2 d hd hf
  rw [before_false_iff] at this; omega

theorem select_prefers_referenz (cs : List Cand) (c d : Cand) (h : select cs = some c) (hd : d ∈ cs) (hf : d.fits = true)
    (hl : d.len = c.len) (hg : d.gen = c.gen) : d.refs ≤ c.refs := by
  have := (select_best cs c h).2.2 d hd hf
  rw [before_false_iff] at this; omega

/-- a call resolves whenever some matched alias fits -/
theorem select_some (cs : List Cand) (d : Cand) (hd : d ∈ cs) (hf : d.fits = true) : ∃ c, select cs = some c := by
  unfold select
  cases h : (sortC cs).find? (·.fits) with
  | some c => exact ⟨c, rfl⟩
  | none =>
    have := List.find?_eq_none.mp h d ((mem_sortC d cs).mpr hd)
    simp [hf] at this

example : (select [⟨1, 2, 0, 0, true⟩, ⟨2, 3, 0, 0, false⟩, ⟨3, 2, 1, 0, true⟩, ⟨4, 2, 0, 1, true⟩]).map (·.id) = some 4 := by decide

end DDP.Resolve

import DDP.Impl.Resolve
import DDP.Impl.AliasMatch

/-!
# C09 — calls resolve to the longest type-matching alias
-/

namespace DDP.Resolve

/-- `before` spelled out: longer first, then fewer generic parameters, then more Referenz parameters -/
theorem before_iff (a b : Cand) : before a b = true ↔
    (b.len < a.len ∨ (a.len = b.len ∧ (a.gen < b.gen ∨ (a.gen = b.gen ∧ b.refs < a.refs)))) := by
  unfold before
  by_cases e1 : a.len = b.len <;> by_cases e2 : a.gen = b.gen <;> simp [e1, e2] <;> omega

theorem before_false_iff (a b : Cand) : before a b = false ↔
    ¬ (b.len < a.len ∨ (a.len = b.len ∧ (a.gen < b.gen ∨ (a.gen = b.gen ∧ b.refs < a.refs)))) := by
  rw [← before_iff]; simp

theorem before_irrefl (a : Cand) : before a a = false := by
  rw [before_false_iff]; omega

theorem before_asymm (a b : Cand) (h : before a b = true) : before b a = false := by
  rw [before_iff] at h; rw [before_false_iff]; omega

theorem before_trans (a b c : Cand) (h1 : before a b = true) (h2 : before b c = true) : before a c = true := by
  rw [before_iff] at *; omega

/-- of two candidates one comes before the other, or they have the same key -/
theorem before_total (a b : Cand) : before a b = true ∨ before b a = true ∨ key a = key b := by
  by_cases h1 : before a b = true
  · exact Or.inl h1
  · by_cases h2 : before b a = true
    · exact Or.inr (Or.inl h2)
    · right; right
      simp only [Bool.not_eq_true] at h1 h2
      rw [before_false_iff] at h1 h2
      unfold key
      have : a.len = b.len ∧ a.gen = b.gen ∧ a.refs = b.refs := by omega
      simp [this.1, this.2.1, this.2.2]

/-! ### the sort -/

theorem mem_insertC (c x : Cand) (l : List Cand) : x ∈ insertC c l ↔ x = c ∨ x ∈ l := by
  induction l with
  | nil => simp [insertC]
  | cons d r ih =>
    unfold insertC
    split
    · simp [ih]; constructor <;> (intro h; rcases h with h | h | h <;> simp [h])
    · simp

theorem mem_sortC (x : Cand) (l : List Cand) : x ∈ sortC l ↔ x ∈ l := by
  induction l with
  | nil => simp [sortC]
  | cons c r ih => simp [sortC, mem_insertC, ih]

/-- in the tried order nobody stands behind a candidate that should come before him -/
def Ordered : List Cand → Prop
  | [] => True
  | c :: r => (∀ d ∈ r, before d c = false) ∧ Ordered r

theorem insertC_ordered (c : Cand) (l : List Cand) (h : Ordered l) : Ordered (insertC c l) := by
  induction l with
  | nil => simp [insertC, Ordered]
  | cons d r ih =>
    unfold insertC
    split
    · rename_i hdc
      refine ⟨?_, ih h.2⟩
      intro x hx
      rcases (mem_insertC c x r).mp hx with e | e
      · subst e; exact before_asymm _ _ hdc
      · exact h.1 x e
    · rename_i hdc
      refine ⟨?_, h⟩
      intro x hx
      rcases List.mem_cons.mp hx with e | e
      · subst e; simpa using hdc
      · -- x stands behind d, and d is not before c: then x is not before c either
        have hxd := h.1 x e
        have hdc' : before d c = false := by simpa using hdc
        rw [before_false_iff] at hxd hdc' ⊢
        omega

theorem sortC_ordered (l : List Cand) : Ordered (sortC l) := by
  induction l with
  | nil => simp [sortC, Ordered]
  | cons c r ih => exact insertC_ordered c _ ih

/-! ### the selected alias -/

theorem find_ordered (l : List Cand) (h : Ordered l) (c : Cand) (hc : l.find? (·.fits) = some c) :
    c ∈ l ∧ c.fits = true ∧ ∀ d ∈ l, d.fits = true → before d c = false := by
  induction l with
  | nil => simp at hc
  | cons x r ih =>
    simp only [List.find?_cons] at hc
    split at hc
    · rename_i hx
      simp at hc
      subst hc
      refine ⟨by simp, hx, ?_⟩
      intro d hd _
      rcases List.mem_cons.mp hd with e | e
      · subst e; exact before_irrefl _
      · exact h.1 d e
    · rename_i hx
      obtain ⟨hm, hf, hall⟩ := ih h.2 hc
      refine ⟨by simp [hm], hf, ?_⟩
      intro d hd hdf
      rcases List.mem_cons.mp hd with e | e
      · subst e; simp [hdf] at hx
      · exact hall d e hdf

/-- **the call goes to a fitting alias, and no fitting alias comes before it**: none is longer; among
the longest none has fewer generic parameters; among those none has more Referenz parameters -/
theorem select_best (cs : List Cand) (c : Cand) (h : select cs = some c) :
    c ∈ cs ∧ c.fits = true ∧ ∀ d ∈ cs, d.fits = true → before d c = false := by
  obtain ⟨hm, hf, hall⟩ := find_ordered (sortC cs) (sortC_ordered cs) c h
  exact ⟨(mem_sortC c cs).mp hm, hf, fun d hd hdf => hall d ((mem_sortC d cs).mpr hd) hdf⟩

theorem select_longest (cs : List Cand) (c d : Cand) (h : select cs = some c) (hd : d ∈ cs) (hf : d.fits = true) : d.len ≤ c.len := by
  have := (select_best cs c h).2.2 d hd hf
  rw [before_false_iff] at this; omega

theorem select_prefers_nongeneric (cs : List Cand) (c d : Cand) (h : select cs = some c) (hd : d ∈ cs) (hf : d.fits = true)
    (hl : d.len = c.len) : c.gen ≤ d.gen := by
  have := (select_best cs c h).2.2 d hd hf
  rw [before_false_iff] at this; omega

theorem select_prefers_referenz (cs : List Cand) (c d : Cand) (h : select cs = some c) (hd : d ∈ cs) (hf : d.fits = true)
    (hl : d.len = c.len) (hg : d.gen = c.gen) : d.refs ≤ c.refs := by
  have := (select_best cs c h).2.2 d hd hf
  rw [before_false_iff] at this; omega

/-- a call resolves whenever some matched alias fits -/
theorem select_some (cs : List Cand) (d : Cand) (hd : d ∈ cs) (hf : d.fits = true) : ∃ c, select cs = some c := by
  unfold select
  cases h : (sortC cs).find? (·.fits) with
  | some c => exact ⟨c, rfl⟩
  | none =>
    have := List.find?_eq_none.mp h d ((mem_sortC d cs).mpr hd)
    simp [hf] at this

example : (select [⟨1, 2, 0, 0, true⟩, ⟨2, 3, 0, 0, false⟩, ⟨3, 2, 1, 0, true⟩, ⟨4, 2, 0, 1, true⟩]).map (·.id) = some 4 := by decide

end DDP.Resolve

/-!
# C09 (second part) — how the tokens of a call are bound to the placeholders of an alias

Theorems about `DDP.AliasMatch` (transcription of the `Search` callback in `parser.alias` and of
the argument loop of `parser.checkAlias`).
-/

set_option linter.unusedSimpArgs false

namespace DDP.AliasMatch

/-! ### the parenthesis loop -/

theorem closeParen_le : ∀ (ts : List Tok) (d n : Nat), closeParen d ts = some n → n ≤ ts.length := by
  intro ts
  induction ts with
  | nil => intro d n h; cases d <;> simp [closeParen] at h; omega
  | cons t r ih =>
    intro d n h
    cases d with
    | zero => simp [closeParen] at h; omega
    | succ d =>
      simp only [closeParen] at h
      split at h <;> (
        obtain ⟨m, hc, hm⟩ := Option.map_eq_some_iff.mp h
        have := ih _ _ hc
        simp only [List.length_cons]; omega)

theorem closeParen_pos (ts : List Tok) (d n : Nat) (h : closeParen (d + 1) ts = some n) : 0 < n := by
  cases ts with
  | nil => simp [closeParen] at h
  | cons t r =>
    simp only [closeParen] at h
    split at h <;> (
      obtain ⟨m, hc, hm⟩ := Option.map_eq_some_iff.mp h
      omega)

/-- the loop of `checkAlias` (no end-of-input test) consumes the same tokens whenever the loop of
the `Search` callback succeeds -/
theorem closeParenLax_eq : ∀ (ts : List Tok) (d n : Nat), closeParen d ts = some n → closeParenLax d ts = n := by
  intro ts
  induction ts with
  | nil => intro d n h; cases d <;> simp [closeParen] at h; simp [closeParenLax, h]
  | cons t r ih =>
    intro d n h
    cases d with
    | zero => simp [closeParen] at h; simp [closeParenLax, h]
    | succ d =>
      simp only [closeParen] at h
      simp only [closeParenLax]
      split at h <;> (
        obtain ⟨m, hc, hm⟩ := Option.map_eq_some_iff.mp h
        rw [ih _ _ hc]; exact hm)

/-- the tokens the loop consumes bring the depth back to 0 … -/
theorem closeParen_depth : ∀ (ts : List Tok) (d n : Nat), closeParen d ts = some n → depthAfter d (ts.take n) = some 0 := by
  intro ts
  induction ts with
  | nil => intro d n h; cases d <;> simp [closeParen] at h; simp [h, depthAfter]
  | cons t r ih =>
    intro d n h
    cases d with
    | zero => simp [closeParen] at h; simp [← h, depthAfter]
    | succ d =>
      simp only [closeParen] at h
      split at h <;> rename_i hk <;> (
        obtain ⟨m, hc, hm⟩ := Option.map_eq_some_iff.mp h
        subst hm
        simp only [List.take_succ_cons, depthAfter, hk]
        exact ih _ _ hc)

/-- … and no shorter prefix does: the argument ends at the *matching* parenthesis -/
theorem closeParen_first : ∀ (ts : List Tok) (d n : Nat), closeParen (d + 1) ts = some n →
    ∀ m, m < n → ∃ e, depthAfter (d + 1) (ts.take m) = some (e + 1) := by
  intro ts
  induction ts with
  | nil => intro d n h; simp [closeParen] at h
  | cons t r ih =>
    intro d n h m hm
    cases m with
    | zero => exact ⟨d, by simp [depthAfter]⟩
    | succ m =>
      simp only [closeParen] at h
      split at h <;> rename_i hk
      · obtain ⟨k, hc, hk2⟩ := Option.map_eq_some_iff.mp h
        simp only [List.take_succ_cons, depthAfter, hk]
        exact ih (d + 1) k hc m (by omega)
      · obtain ⟨k, hc, hk2⟩ := Option.map_eq_some_iff.mp h
        cases d with
        | zero => simp [closeParen] at hc; omega
        | succ d =>
          simp only [List.take_succ_cons, depthAfter, hk]
          exact ih d k hc m (by omega)
      · obtain ⟨k, hc, hk2⟩ := Option.map_eq_some_iff.mp h
        simp only [List.take_succ_cons, depthAfter]
        exact ih d k hc m (by omega)

/-! ### one argument -/

/-- an argument is never empty and never longer than what is there -/
theorem argSearch_bounds (ts : List Tok) (k : Nat) (h : argSearch ts = some k) : 0 < k ∧ k ≤ ts.length := by
  cases ts with
  | nil => simp [argSearch] at h
  | cons t r =>
    simp only [argSearch] at h
    split at h
    · simp at h; subst h; simp
    · simp at h; subst h; simp
    · split at h
      · split at h <;> simp at h
        subst h; simp
      · simp at h
    · split at h
      · rename_i n hc
        split at h
        · simp at h
        · simp at h; subst h
          have := closeParen_le _ _ _ hc
          simp; omega
      · simp at h
    · simp at h

/-- **The two loops agree.**  Whenever the `Search` callback accepts an argument of `k` tokens,
`checkAlias` cuts out exactly those `k` tokens for the argument's sub-parser. -/
theorem spanCheck_eq (ts : List Tok) (k : Nat) (h : argSearch ts = some k) : spanCheck ts = k := by
  cases ts with
  | nil => simp [argSearch] at h
  | cons t r =>
    simp only [argSearch] at h
    simp only [spanCheck]
    split at h
    · rename_i hk; simp at h; simp [hk, h]
    · rename_i hk; simp at h; simp [hk, h]
    · rename_i hk
      split at h
      · rename_i n r'
        split at h
        · rename_i hn; simp at h; simp [hk, hn, h]
        · simp at h
      · simp at h
    · rename_i hk
      split at h
      · rename_i n hc
        split at h
        · simp at h
        · simp at h; simp [hk, closeParenLax_eq _ _ _ hc, h]
      · simp at h
    · simp at h

/-- a parenthesised argument is `(` … `)` with balanced content, and something follows it -/
theorem paren_arg_shape (t : Tok) (r : List Tok) (k : Nat) (ht : t.kind = .lparen) (h : argSearch (t :: r) = some k) :
    ∃ n, k = n + 1 ∧ depthAfter 1 (r.take n) = some 0 ∧ (∀ m, m < n → ∃ e, depthAfter 1 (r.take m) = some (e + 1)) ∧
      r.drop n ≠ [] := by
  simp only [argSearch, ht] at h
  split at h
  · rename_i n hc
    split at h
    · simp at h
    · rename_i hd
      simp at h
      exact ⟨n, h.symm, closeParen_depth _ _ _ hc, closeParen_first _ _ _ hc, hd⟩
  · simp at h

/-- what follows the call does not influence an accepted argument -/
theorem closeParen_append : ∀ (ts ex : List Tok) (d n : Nat), closeParen d ts = some n → closeParen d (ts ++ ex) = some n := by
  intro ts
  induction ts with
  | nil => intro ex d n h; cases d <;> simp [closeParen] at h; subst h; cases ex <;> simp [closeParen]
  | cons t r ih =>
    intro ex d n h
    cases d with
    | zero => simp [closeParen] at h; subst h; simp [closeParen]
    | succ d =>
      simp only [closeParen] at h
      simp only [List.cons_append, closeParen]
      split at h <;> rename_i hk <;> (
        obtain ⟨m, hc, hm⟩ := Option.map_eq_some_iff.mp h
        simp [ih ex _ _ hc, hm])

theorem argSearch_append (ts ex : List Tok) (k : Nat) (h : argSearch ts = some k) : argSearch (ts ++ ex) = some k := by
  cases ts with
  | nil => simp [argSearch] at h
  | cons t r =>
    simp only [argSearch] at h
    simp only [List.cons_append, argSearch]
    split at h
    · rename_i hk; simp [hk]; simpa using h
    · rename_i hk; simp [hk]; simpa using h
    · rename_i hk
      split at h
      · rename_i n r'
        split at h
        · rename_i hn; simp at h; simp [hk, hn, h]
        · simp at h
      · simp at h
    · rename_i hk
      split at h
      · rename_i n hc
        split at h
        · simp at h
        · rename_i hd
          simp at h
          have hle := closeParen_le _ _ _ hc
          simp only [hk, closeParen_append _ ex _ _ hc]
          have : (r ++ ex).drop n ≠ [] := by
            rw [List.drop_append_of_le_length hle]
            intro h2; exact hd (List.append_eq_nil_iff.mp h2).1
          simp [this, h]
      · simp at h
    · simp at h

/-! ### a whole pattern -/

def params : List Pat → List Nat
  | [] => []
  | .word _ :: ps => params ps
  | .param n :: ps => n :: params ps

def wordCount : List Pat → Nat
  | [] => 0
  | .word _ :: ps => wordCount ps + 1
  | .param _ :: ps => wordCount ps

/-- the call as the pattern's words and the bound arguments spell it -/
def reassemble : List Pat → List Binding → List Tok
  | [], _ => []
  | .word w :: ps, bs => w :: reassemble ps bs
  | .param _ :: ps, b :: bs => b.2 ++ reassemble ps bs
  | .param _ :: ps, [] => reassemble ps []

/-- **A match is a partition of the call.**  The tokens of the call are exactly the words of the
pattern with the arguments in the places of the placeholders, followed by the rest; the
arguments are bound to the placeholders' names in pattern order and none is empty. -/
theorem matchPat_partition : ∀ (ps : List Pat) (ts : List Tok) (bs : List Binding) (rest : List Tok),
    matchPat ps ts = some (bs, rest) →
    ts = reassemble ps bs ++ rest ∧ bs.map (·.1) = params ps ∧ ∀ b ∈ bs, b.2 ≠ [] := by
  intro ps
  induction ps with
  | nil => intro ts bs rest h; simp [matchPat] at h; obtain ⟨rfl, rfl⟩ := h; simp [reassemble, params]
  | cons p ps ih =>
    intro ts bs rest h
    cases p with
    | word w =>
      cases ts with
      | nil => simp [matchPat] at h
      | cons t r =>
        simp only [matchPat] at h
        split at h
        · rename_i htw
          obtain ⟨h1, h2, h3⟩ := ih r bs rest h
          refine ⟨?_, by simpa [params] using h2, h3⟩
          simp [reassemble, htw, ← h1]
        · simp at h
    | param n =>
      simp only [matchPat] at h
      split at h
      · rename_i k hk
        split at h
        · rename_i bs' rest' hm
          simp at h
          obtain ⟨rfl, rfl⟩ := h
          obtain ⟨h1, h2, h3⟩ := ih _ _ _ hm
          have hb := argSearch_bounds ts k hk
          refine ⟨?_, by simp [params, h2], ?_⟩
          · simp only [reassemble, List.append_assoc]
            rw [← h1, List.take_append_drop]
          · intro b hbm
            simp at hbm
            rcases hbm with rfl | hbm
            · simp only [ne_eq, List.take_eq_nil_iff, not_or]
              refine ⟨by omega, ?_⟩
              intro h0; subst h0; simp at hb; omega
            · exact h3 b hbm
        · simp at h
      · simp at h

theorem reassemble_length : ∀ (ps : List Pat) (bs : List Binding), bs.length = (params ps).length →
    (reassemble ps bs).length = wordCount ps + (bs.map (·.2.length)).sum := by
  intro ps
  induction ps with
  | nil => intro bs h; simp [params] at h; subst h; simp [reassemble, wordCount]
  | cons p ps ih =>
    intro bs h
    cases p with
    | word w => simp [reassemble, wordCount, ih bs (by simpa [params] using h)]; omega
    | param n =>
      cases bs with
      | nil => simp [params] at h
      | cons b bs => simp [reassemble, wordCount, ih bs (by simpa [params] using h)]; omega

theorem sum_ge_mem (l : List Nat) (x : Nat) (h : x ∈ l) : x ≤ l.sum := by
  induction l with
  | nil => cases h
  | cons a r ih =>
    simp at h ⊢
    rcases h with rfl | h
    · omega
    · have := ih h; omega

/-- **Nested calls terminate.**  If the pattern contains at least one word (which
`validateAliasHasWord` demands of every declared alias), every argument is strictly shorter than
the call it belongs to: the sub-parser started for an argument always gets fewer tokens than its
parent consumed, so the recursion through `checkAlias` is bounded by the number of tokens. -/
theorem arg_shorter_than_call (ps : List Pat) (ts : List Tok) (bs : List Binding) (rest : List Tok)
    (h : matchPat ps ts = some (bs, rest)) (hw : 0 < wordCount ps) :
    ∀ b ∈ bs, b.2.length < (reassemble ps bs).length ∧ (reassemble ps bs).length + rest.length = ts.length := by
  obtain ⟨h1, h2, _⟩ := matchPat_partition ps ts bs rest h
  intro b hb
  have hl : bs.length = (params ps).length := by rw [← h2]; simp
  have := reassemble_length ps bs hl
  have hs := sum_ge_mem (bs.map (·.2.length)) b.2.length (List.mem_map.mpr ⟨b, hb, rfl⟩)
  refine ⟨by omega, ?_⟩
  conv => rhs; rw [h1]
  simp

/-- without a word the bound fails: the alias `"<x>"` matches a call consisting of its own
argument only, and the argument's sub-parser gets all the tokens of its parent again -/
theorem no_word_no_progress :
    let ts := [Tok.mk .num 7, Tok.mk .other 0]
    matchPat [.param 1] ts = some ([(1, [Tok.mk .num 7])], [Tok.mk .other 0]) ∧ wordCount [.param 1] = 0 := by decide

/-- **Arguments are bound by name, not by position.**  Renaming the placeholders of a pattern
renames the bindings accordingly and changes nothing else — in particular two aliases that differ
only in which parameter stands where bind the same tokens to swapped names. -/
theorem bind_by_name (f : Nat → Nat) : ∀ (ps : List Pat) (ts : List Tok),
    matchPat (ps.map (Pat.rename f)) ts =
      (matchPat ps ts).map (fun r => (r.1.map (fun b => (f b.1, b.2)), r.2)) := by
  intro ps
  induction ps with
  | nil => intro ts; simp [matchPat]
  | cons p ps ih =>
    intro ts
    cases p with
    | word w =>
      cases ts with
      | nil => simp [matchPat, Pat.rename]
      | cons t r =>
        simp only [List.map_cons, Pat.rename, matchPat]
        split
        · exact ih r
        · simp
    | param n =>
      simp only [List.map_cons, Pat.rename, matchPat]
      cases argSearch ts with
      | none => simp
      | some k =>
        simp only [ih (ts.drop k)]
        cases matchPat ps (ts.drop k) with
        | none => simp
        | some r => simp

/-- **`checkAlias` binds what `Search` matched.**  For a pattern that matched, cutting the
arguments out again (with the second loop, which never fails) gives the same bindings. -/
theorem cutArgs_eq : ∀ (ps : List Pat) (ts : List Tok) (bs : List Binding) (rest : List Tok),
    matchPat ps ts = some (bs, rest) → cutArgs ps ts = bs := by
  intro ps
  induction ps with
  | nil => intro ts bs rest h; simp [matchPat] at h; simp [cutArgs, h.1]
  | cons p ps ih =>
    intro ts bs rest h
    cases p with
    | word w =>
      cases ts with
      | nil => simp [matchPat] at h
      | cons t r =>
        simp only [matchPat] at h
        split at h
        · simpa [cutArgs] using ih r bs rest h
        · simp at h
    | param n =>
      simp only [matchPat] at h
      split at h
      · rename_i k hk
        split at h
        · rename_i bs' rest' hm
          simp at h
          obtain ⟨rfl, rfl⟩ := h
          simp [cutArgs, spanCheck_eq ts k hk, ih _ _ _ hm]
        · simp at h
      · simp at h

/-- **What follows a call does not change how it is matched.** -/
theorem matchPat_append : ∀ (ps : List Pat) (ts ex : List Tok) (bs : List Binding) (rest : List Tok),
    matchPat ps ts = some (bs, rest) → matchPat ps (ts ++ ex) = some (bs, rest ++ ex) := by
  intro ps
  induction ps with
  | nil => intro ts ex bs rest h; simp [matchPat] at h; obtain ⟨rfl, rfl⟩ := h; simp [matchPat]
  | cons p ps ih =>
    intro ts ex bs rest h
    cases p with
    | word w =>
      cases ts with
      | nil => simp [matchPat] at h
      | cons t r =>
        simp only [matchPat] at h
        simp only [List.cons_append, matchPat]
        split at h
        · rename_i htw; simp [htw, ih r ex bs rest h]
        · simp at h
    | param n =>
      simp only [matchPat] at h
      split at h
      · rename_i k hk
        split at h
        · rename_i bs' rest' hm
          simp at h
          obtain ⟨rfl, rfl⟩ := h
          have hb := argSearch_bounds ts k hk
          simp only [matchPat, argSearch_append ts ex k hk]
          rw [List.drop_append_of_le_length hb.2, ih _ ex _ _ hm, List.take_append_of_le_length hb.2]
        · simp at h
      · simp at h

/-! ### non-vacuity: `nimm <a> von <b>` on `nimm -3 von ( f ( 1 ) ) .` -/

example :
    let w (i : Nat) : Tok := ⟨.num, i⟩        -- identifiers: 1 = nimm, 3 = f
    let von : Tok := ⟨.other, 2⟩
    let lp : Tok := ⟨.lparen, 0⟩; let rp : Tok := ⟨.rparen, 0⟩; let dot : Tok := ⟨.other, 9⟩
    let ts := [w 1, ⟨.negate, 0⟩, w 30, von, lp, w 3, lp, w 31, rp, rp, dot]
    matchPat [.word (w 1), .param 10, .word von, .param 11] ts =
      some ([(10, [⟨.negate, 0⟩, w 30]), (11, [lp, w 3, lp, w 31, rp, rp])], [dot]) ∧
    -- the same call without anything after the closing parenthesis is not matched (`p.atEnd()`)
    matchPat [.word (w 1), .param 10, .word von, .param 11] (ts.take 10) = none := by decide

end DDP.AliasMatch

import DDP.Impl.Ledger

/-!
# C05 — compiled programs release every heap block exactly once

What the ledger's verdict means.  A compiled program is linked against the C ledger, its trace is
re-judged by this model on every run (`vlib/props/C05.py`), and then: an accepted trace with no live
block at the end is a run in which every block obtained was released exactly once, every resize and
release stated the true size, and nothing that was not owned was released.
-/

namespace DDP.Ledger

def count (f : Call → Bool) (t : List Call) : Nat := (t.filter f).length

theorem sizeOf_remove_self (l : Live) (p : Nat) : sizeOf? (remove l p) p = none := by
  unfold sizeOf? remove
  have : (l.filter (·.1 != p)).find? (·.1 == p) = none := by
    apply List.find?_eq_none.mpr
    intro x hx
    simp at hx
    simp [hx.2]
  simp [this]

/-- a released block cannot be released (or resized) again: the second call is refused -/
theorem no_double_release (l l' : Live) (c : Call) (hp : c.ptr ≠ 0) (hn : c.new = 0) (h : step l c = .ok l') :
    ∀ c2 : Call, c2.ptr = c.ptr → step l' c2 = .error "not-live" := by
  intro c2 h2
  unfold step at h
  simp only [hp, if_false] at h
  split at h
  · cases h
  · rename_i s hs
    split at h
    · cases h
    · simp at h
      subst h
      unfold step
      simp [h2, hp, sizeOf_remove_self]

/-- a release or resize is accepted only with the size the block really has -/
theorem sizes_true (l l' : Live) (c : Call) (hp : c.ptr ≠ 0) (h : step l c = .ok l') : sizeOf? l c.ptr = some c.old := by
  unfold step at h
  simp only [hp, if_false] at h
  split at h
  · cases h
  · rename_i s hs
    split at h
    · cases h
    · rename_i heq
      simp at heq
      rw [hs, heq]

/-- releasing what is not owned (never obtained, or already given up) is refused -/
theorem foreign_refused (l : Live) (c : Call) (hp : c.ptr ≠ 0) (h : sizeOf? l c.ptr = none) : step l c = .error "not-live" := by
  unfold step
  simp [hp, h]

/-- the live blocks never contain one address twice -/
def Distinct (l : Live) : Prop := (l.map (·.1)).Nodup

theorem remove_distinct (l : Live) (p : Nat) (h : Distinct l) : Distinct (remove l p) := by
  unfold Distinct remove at *
  exact List.Nodup.sublist (List.Sublist.map _ List.filter_sublist) h

theorem sizeOf_none_not_mem (l : Live) (p : Nat) (h : (sizeOf? l p).isSome = false) : p ∉ l.map (·.1) := by
  unfold sizeOf? at h
  intro hm
  simp at hm
  obtain ⟨s, hs⟩ := hm
  cases hf : l.find? (·.1 == p) with
  | some x => simp [hf] at h
  | none =>
    have := List.find?_eq_none.mp hf (p, s) hs
    simp at this

theorem step_distinct (l l' : Live) (c : Call) (hd : Distinct l) (h : step l c = .ok l') : Distinct l' := by
  unfold step at h
  split at h
  · split at h
    · simp at h
    · split at h
      · injection h with h; subst h; exact hd
      · split at h
        · simp at h
        · rename_i hfresh
          injection h with h; subst h
          unfold Distinct
          simp only [List.map_cons, List.nodup_cons]
          exact ⟨sizeOf_none_not_mem l c.result (by simpa using hfresh), hd⟩
  · split at h
    · simp at h
    · split at h
      · simp at h
      · split at h
        · injection h with h; subst h; exact remove_distinct l c.ptr hd
        · split at h
          · split at h
            · injection h with h; subst h; exact hd
            · simp at h
          · split at h
            · simp at h
            · rename_i hfresh
              injection h with h; subst h
              unfold Distinct
              simp only [List.map_cons, List.nodup_cons]
              exact ⟨sizeOf_none_not_mem _ c.result (by simpa using hfresh), remove_distinct l c.ptr hd⟩

theorem length_remove (l : Live) (p s : Nat) (hd : Distinct l) (h : sizeOf? l p = some s) : (remove l p).length + 1 = l.length := by
  induction l with
  | nil => simp [sizeOf?] at h
  | cons x r ih =>
    unfold Distinct at hd
    simp only [List.map_cons, List.nodup_cons] at hd
    by_cases hx : x.1 = p
    · -- x is the block; it is not in the rest
      have hnot : ∀ y ∈ r, (y.1 != p) = true := by
        intro y hy
        have : y.1 ∈ r.map (·.1) := List.mem_map.mpr ⟨y, hy, rfl⟩
        have : y.1 ≠ x.1 := fun e => hd.1 (e ▸ this)
        simp [← hx, this]
      have : r.filter (·.1 != p) = r := List.filter_eq_self.mpr hnot
      simp [remove, hx, this]
    · have h' : sizeOf? r p = some s := by
        unfold sizeOf? at h ⊢
        simpa [List.find?_cons, hx] using h
      have := ih hd.2 h'
      simp [remove, hx] at this ⊢
      omega

/-- **bookkeeping**: along an accepted trace, blocks live = blocks obtained − blocks given up -/
theorem balance (t : List Call) : ∀ (l lf : Live) (i j : Nat), Distinct l → run l t i = (j, .ok lf) →
    lf.length + count Call.releases t = l.length + count Call.acquires t := by
  induction t with
  | nil =>
    intro l lf i j _ h
    simp [run] at h
    simp [count, h.2]
  | cons c r ih =>
    intro l lf i j hd h
    unfold run at h
    cases hs : step l c with
    | error k => simp [hs] at h
    | ok l' =>
      simp only [hs] at h
      have hd' := step_distinct l l' c hd hs
      have := ih l' lf (i + 1) j hd' h
      -- relate l'.length to l.length by cases on the call
      have key : l'.length + (if c.releases then 1 else 0) = l.length + (if c.acquires then 1 else 0) := by
        unfold step at hs
        unfold Call.releases Call.acquires
        split at hs
        · rename_i hp
          split at hs
          · simp at hs
          · split at hs
            · rename_i hn
              injection hs with hs; subst hs; simp [hp, hn]
            · split at hs
              · simp at hs
              · rename_i hn _
                injection hs with hs; subst hs; simp [hp, hn]
        · rename_i hp
          split at hs
          · simp at hs
          · rename_i s hsz
            split at hs
            · simp at hs
            · rename_i hso
              simp at hso
              split at hs
              · rename_i hn
                injection hs with hs; subst hs
                have := length_remove l c.ptr s hd hsz
                simp [hp, hn]; omega
              · rename_i hn
                split at hs
                · rename_i heq
                  split at hs
                  · injection hs with hs; subst hs; simp [hp, hn, heq]
                  · simp at hs
                · rename_i hne
                  split at hs
                  · simp at hs
                  · injection hs with hs; subst hs
                    have := length_remove l c.ptr s hd hsz
                    simp [hp, hn, hne]; omega
      simp only [count, List.filter_cons] at this ⊢
      split <;> split <;> simp_all <;> omega

/-- **every block exactly once**: a trace that is accepted from the empty heap and ends with no live
block obtained exactly as many blocks as it gave up — and by `no_double_release`, `sizes_true`,
`foreign_refused` each release was of a live block with its true size -/
theorem exactly_once (t : List Call) (j : Nat) (h : run [] t 0 = (j, .ok [])) :
    count Call.acquires t = count Call.releases t := by
  have := balance t [] [] 0 j (by simp [Distinct]) h
  simpa using this.symm

/-- non-vacuity: allocate, grow, release is accepted and balanced; releasing twice is not -/
example : (run [] [⟨0, 0, 8, 100⟩, ⟨100, 8, 16, 200⟩, ⟨200, 16, 0, 0⟩] 0).2 matches .ok [] := by decide
example : (run [] [⟨0, 0, 8, 100⟩, ⟨100, 8, 0, 0⟩, ⟨100, 8, 0, 0⟩] 0).1 = 2 := by decide

end DDP.Ledger

import DDP.Impl.Ledger
import DDP.Proofs.Own

/-!
# C05 — compiled programs release every heap block exactly once

What the ledger's verdict means.  A compiled program is linked against the C ledger, its trace is
re-judged by this model on every run (`vlib/props/C05.py`), and then: an accepted trace with no live
block at the end is a run in which every block obtained was released exactly once, every resize and
release stated the true size, and nothing that was not owned was released.
-/

namespace DDP.Ledger

def count (f : Call → Bool) (t : List Call) : Nat := (t.filter f).length

theorem sizeOf_remove_self (l : Live) (p : Nat) : sizeOf? (remove l p) p = none := by
  unfold sizeOf? remove
  have : (l.filter (·.1 != p)).find? (·.1 == p) = none := by
    apply List.find?_eq_none.mpr
    intro x hx
    simp at hx
    simp [hx.2]
  simp [this]

/-- a released block cannot be released (or resized) again: the second call is refused -/
theorem no_double_release (l l' : Live) (c : Call) (hp : c.ptr ≠ 0) (hn : c.new = 0) (h : step l c = .ok l') :
    ∀ c2 : Call, c2.ptr = c.ptr → step l' c2 = .error "not-live" := by
  intro c2 h2
  unfold step at h
  simp only [hp, if_false] at h
  split at h
  · cases h
  · rename_i s hs
    split at h
    · cases h
    · simp at h
      subst h
      unfold step
      simp [h2, hp, sizeOf_remove_self]

/-- a release or resize is accepted only with the size the block really has -/
theorem sizes_true (l l' : Live) (c : Call) (hp : c.ptr ≠ 0) (h : step l c = .ok l') : sizeOf? l c.ptr = some c.old := by
  unfold step at h
  simp only [hp, if_false] at h
  split at h
  · cases h
  · rename_i s hs
    split at h
    · cases h
    · rename_i heq
      simp at heq
      rw [hs, heq]

/-- releasing what is not owned (never obtained, or already given up) is refused -/
theorem foreign_refused (l : Live) (c : Call) (hp : c.ptr ≠ 0) (h : sizeOf? l c.ptr = none) : step l c = .error "not-live" := by
  unfold step
  simp [hp, h]

/-- the live blocks never contain one address twice -/
def Distinct (l : Live) : Prop := (l.map (·.1)).Nodup

theorem remove_distinct (l : Live) (p : Nat) (h : Distinct l) : Distinct (remove l p) := by
  unfold Distinct remove at *
  exact List.Nodup.sublist (List.Sublist.map _ List.filter_sublist) h

theorem sizeOf_none_not_mem (l : Live) (p : Nat) (h : (sizeOf? l p).isSome = false) : p ∉ l.map (·.1) := by
  unfold sizeOf? at h
  intro hm
  simp at hm
  obtain ⟨s, hs⟩ := hm
  cases hf : l.find? (·.1 == p) with
  | some x => simp [hf] at h
  | none =>
    have := List.find?_eq_none.mp hf (p, s) hs
    simp at this

theorem step_distinct (l l' : Live) (c : Call) (hd : Distinct l) (h : step l c = .ok l') : Distinct l' := by
  unfold step at h
  split at h
  · split at h
    · simp at h
    · split at h
      · injection h with h; subst h; exact hd
      · split at h
        · simp at h
        · rename_i hfresh
          injection h with h; subst h
          unfold Distinct
          simp only [List.map_cons, List.nodup_cons]
          exact ⟨sizeOf_none_not_mem l c.result (by simpa using hfresh), hd⟩
  · split at h
    · simp at h
    · split at h
      · simp at h
      · split at h
        · injection h with h; subst h; exact remove_distinct l c.ptr hd
        · split at h
          · split at h
            · injection h with h; subst h; exact hd
            · simp at h
          · split at h
            · simp at h
            · rename_i hfresh
              injection h with h; subst h
              unfold Distinct
              simp only [List.map_cons, List.nodup_cons]
              exact ⟨sizeOf_none_not_mem _ c.result (by simpa using hfresh), remove_distinct l c.ptr hd⟩

theorem length_remove (l : Live) (p s : Nat) (hd : Distinct l) (h : sizeOf? l p = some s) : (remove l p).length + 1 = l.length := by
  induction l with
  | nil => simp [sizeOf?] at h
  | cons x r ih =>
    unfold Distinct at hd
    simp only [List.map_cons, List.nodup_cons] at hd
    by_cases hx : x.1 = p
    · -- x is the block; it is not in the rest
      have hnot : ∀ y ∈ r, (y.1 != p) = true := by
        intro y hy
        have : y.1 ∈ r.map (·.1) := List.mem_map.mpr ⟨y, hy, rfl⟩
        have : y.1 ≠ x.1 := fun e => hd.1 (e ▸ this)
        simp [← hx, this]
      have : r.filter (·.1 != p) = r := List.filter_eq_self.mpr hnot
      simp [remove, hx, this]
    · have h' : sizeOf? r p = some s := by
        unfold sizeOf? at h ⊢
        simpa [List.find?_cons, hx] using h
      have := ih hd.2 h'
      simp [remove, hx] at this ⊢
      omega

/-- **bookkeeping**: along an accepted trace, blocks live = blocks obtained − blocks given up -/
theorem balance (t : List Call) : ∀ (l lf : Live) (i j : Nat), Distinct l → run l t i = (j, .ok lf) →
    lf.length + count Call.releases t = l.length + count Call.acquires t := by
  induction t with
  | nil =>
    intro l lf i j _ h
    simp [run] at h
    simp [count, h.2]
  | cons c r ih =>
    intro l lf i j hd h
    unfold run at h
    cases hs : step l c with
    | error k => simp [hs] at h
    | ok l' =>
      simp only [hs] at h
      have hd' := step_distinct l l' c hd hs
      have := ih l' lf (i + 1) j hd' h
      -- relate l'.length to l.length by cases on the call
      have key : l'.length + (if c.releases then 1 else 0) = l.length + (if c.acquires then 1 else 0) := by
        unfold step at hs
        unfold Call.releases Call.acquires
        split at hs
        · rename_i hp
          split at hs
          · simp at hs
          · split at hs
            · rename_i hn
              injection hs with hs; subst hs; simp [hp, hn]
            · split at hs
              · simp at hs
              · rename_i hn _
                injection hs with hs; subst hs; simp [hp, hn]
        · rename_i hp
          split at hs
          · simp at hs
          · rename_i s hsz
            split at hs
            · simp at hs
            · rename_i hso
              simp at hso
              split at hs
              · rename_i hn
                injection hs with hs; subst hs
                have := length_remove l c.ptr s hd hsz
                simp [hp, hn]; omega
              · rename_i hn
                split at hs
                · rename_i heq
                  split at hs
                  · injection hs with hs; subst hs; simp [hp, hn, heq]
                  · simp at hs
                · rename_i hne
                  split at hs
                  · simp at hs
                  · injection hs with hs; subst hs
                    have := length_remove l c.ptr s hd hsz
                    simp [hp, hn, hne]; omega
      simp only [count, List.filter_cons] at this ⊢
      split <;> split <;> simp_all <;> omega

/-- **every block exactly once**: a trace that is accepted from the empty heap and ends with no live
block obtained exactly as many blocks as it gave up — and by `no_double_release`, `sizes_true`,
`foreign_refused` each release was of a live block with its true size -/
theorem exactly_once (t : List Call) (j : Nat) (h : run [] t 0 = (j, .ok [])) :
    count Call.acquires t = count Call.releases t := by
  have := balance t [] [] 0 j (by simp [Distinct]) h
  simpa using this.symm

/-- non-vacuity: allocate, grow, release is accepted and balanced; releasing twice is not -/
example : (run [] [⟨0, 0, 8, 100⟩, ⟨100, 8, 16, 200⟩, ⟨200, 16, 0, 0⟩] 0).2 matches .ok [] := by decide
example : (run [] [⟨0, 0, 8, 100⟩, ⟨100, 8, 0, 0⟩, ⟨100, 8, 0, 0⟩] 0).1 = 2 := by decide

end DDP.Ledger


/-! ## The code generator's ownership bookkeeping (model `DDP.Own`, tied to `src/compiler` by `vlib/ownmodel.py`)

For every well-scoped function body of the modelled fragment and every sequence of branch decisions, the abstract code
the model compiles — the calls that create, copy, move and release Texte, in the control flow of the body — never
releases or reads a slot that owns nothing, never overwrites a slot that still owns a block, and ends owning nothing
but the returned value. This is the statement "released exactly once, on every control-flow path" for the bookkeeping
itself (`claimOrCopy`, temporaries, scope exit, `exitNestedScopes` on leaving / continuing a loop, the releases in
front of a return, sub-scopes of short-circuited operands); the runtime functions behind the calls are the subject of
the ledger theorems above and of C12/C17. -/

namespace DDP.Own

theorem inv_start : Inv { next := 2, cur := { vars := [paramSlot] }, outer := [] } [paramSlot] := by
  refine ⟨⟨by simp, by simp [CS.all, paramSlot], by simp [CS.all]⟩, ?_, by simp⟩
  intro x hx
  simp [CS.all, paramSlot] at hx
  subst hx; exact ⟨by decide, by decide⟩

/-- **every path of every function body**: no double release, no use after release, no release of something never
obtained, no overwritten owner — and at the end nothing is owned but the returned value (`[retSlot]`), or nothing at all
when the body ends without a return -/
theorem fn_balanced (body : Blk) (hw : wfB body 1 false = true) (fuel : Nat) (path : List Bool) :
    match run fuel (compileFn body) path [paramSlot] with
    | .ret own => own = [retSlot] ∨ own = []
    | .timeout => True
    | _ => False := by
  have h0 := inv_start
  generalize hcs0 : ({ next := 2, cur := { vars := [paramSlot] }, outer := [] } : CS) = cs0 at h0
  have ho0 : cs0.outer = [] := by subst hcs0; rfl
  have hvis : cs0.push.visible.length = 1 := by subst hcs0; simp [CS.visible, CS.all, CS.push]
  have hs := compileStmts_ok body cs0.push [paramSlot] fuel path false h0.push (by rw [hvis]; exact hw) (by simp) (HW_push _)
  have hf := compileStmts_frame body cs0.push
  have hlt : LTail cs0.push = none := by subst hcs0; simp [LTail, CS.push, bump]
  rw [hlt] at hs
  unfold compileFn
  rw [hcs0]
  cases hret : (compileStmts body cs0.push).2.2 with
  | true =>
    simp only [hret, if_true]
    rw [hret] at hs
    have hn := hs.2 rfl
    have hp := hs.1
    cases hr : run fuel (compileStmts body cs0.push).1 path [paramSlot] with
    | normal o p => exact absurd hr (hn o p)
    | ret o => rw [hr] at hp; simp only [Post] at hp; exact Or.inl hp
    | timeout => trivial
    | err w => rw [hr] at hp; simp [Post] at hp
    | brk o p => rw [hr] at hp; simp [Post] at hp
    | cont o p => rw [hr] at hp; simp [Post] at hp
  | false =>
    simp only [hret, Bool.false_eq_true, if_false, run]
    have hp := hs.1
    cases hr : run fuel (compileStmts body cs0.push).1 path [paramSlot] with
    | normal o p =>
      rw [hr] at hp
      simp only [Post] at hp
      generalize (compileStmts body cs0.push).2.1 = cs' at hp hf
      have hout : cs'.outer = [cs0.cur] := by simpa [CS.push, ho0] using hf.outer
      have hall : cs'.all = [cs'.cur, cs'.pop.cur] := by simp [CS.all, CS.pop, hout]
      have h1 : InvT (cs'.all ++ []) o := by simpa using hp.1
      obtain ⟨o2, ho2, hinv2⟩ := exit_scopes cs'.all [] o h1
      have ho2' : runIns (cs'.cur.frees ++ cs'.pop.cur.frees) o = some o2 := by
        rw [hall] at ho2; simpa using ho2
      have hemp : o2 = [] := by
        cases o2 with
        | nil => rfl
        | cons a r => exact absurd ((hinv2.mem a).mp (by simp)) (by simp)
      simp [run_ofList fuel _ p o o2 ho2', hemp, run]
    | ret o => rw [hr] at hp; simp only [Post] at hp; exact Or.inl hp
    | timeout => trivial
    | err w => rw [hr] at hp; simp [Post] at hp
    | brk o p => rw [hr] at hp; simp [Post] at hp
    | cont o p => rw [hr] at hp; simp [Post] at hp

/-- in particular the abstract machine never reports an ownership error -/
theorem fn_no_ownership_error (body : Blk) (hw : wfB body 1 false = true) (fuel : Nat) (path : List Bool) (w : String) :
    run fuel (compileFn body) path [paramSlot] ≠ .err w := by
  intro h
  have := fn_balanced body hw fuel path
  rw [h] at this
  exact this

/-- evaluating an expression releases nothing that was owned before, and its value is owned afterwards — by the
temporaries of the current scope when `latestIsTemp` says so -/
theorem expression_keeps_owners (e : Ex) (cs : CS) (own : List Slot) (h : Inv cs own) (hw : wfE e cs.visible.length = true) :
    ∃ own', runIns (compileE e cs).code own = some own' ∧ (∀ x, x ∈ own → x ∈ own') ∧ (compileE e cs).slot ∈ own' ∧
      ((compileE e cs).isTemp = true → (compileE e cs).slot ∈ (compileE e cs).cs.cur.temps) := by
  obtain ⟨own', hok⟩ := compileE_ok e cs own h hw
  exact ⟨own', hok.run, hok.keep, hok.slot, fun ht => (hok.temp ht).1⟩

/-- a condition — with Text operands and short-circuited right operands — leaves the heap as the compile-time state
says, whichever branch was taken: the temporaries of a skipped operand are neither released nor leaked -/
theorem short_circuit_balanced (c : Cond) (cs : CS) (own : List Slot) (fuel : Nat) (path : List Bool) (h : Inv cs own)
    (hw : wfC c cs.visible.length = true) :
    match run fuel (compileC c cs).1 path own with
    | .normal own' _ => Inv (compileC c cs).2 own'
    | .timeout => True
    | _ => False := by
  have := compileC_ok c cs own fuel path h hw
  cases hr : run fuel (compileC c cs).1 path own <;> simp_all [GoodC]

/-- `Verlasse die Schleife` / `Fahre mit der Schleife fort`: exactly the scopes opened since the loop body began are released -/
theorem leaving_a_loop_releases_the_body (cs : CS) (own : List Slot) (h : Inv cs own) (d : Nat) (r : List Nat)
    (hl : cs.loops = d :: r) (hd : 1 ≤ d) :
    ∃ o, runIns cs.loopFrees own = some o ∧ InvT (cs.outer.drop (d - 1)) o :=
  loop_frees h hl hd

/-- `Gib … zurück`: once the value is in the out-pointer, everything else the function owns is released -/
theorem return_releases_everything (cs : CS) (o : List Slot) (h : Inv cs o) :
    runIns cs.returnFrees (retSlot :: o) = some [retSlot] := ret_frees h

/-- compile-time state after any statement: the enclosing scopes and the loop nesting are as before -/
theorem statement_keeps_outer_scopes (s : St) (cs : CS) :
    (compileS s cs).2.outer = cs.outer ∧ (compileS s cs).2.loops = cs.loops :=
  ⟨(compileS_frame s cs).1.outer, (compileS_frame s cs).1.loops⟩

/-! non-vacuity: a body with a loop, a call, a conditional `Verlasse die Schleife` and an assignment is well-scoped,
so the hypothesis of `fn_balanced` is met by it (its compiled code is run on all paths of a few decisions by `ddpmodel own`, see the evidence) -/
def sample : Blk :=
  .cons (.while (.eq (.var 0) .lit)
    (.cons (.decl (.call 1 (.var 0)))
      (.cons (.ite (.and .prim (.eq (.var 0) .lit)) (.cons .brk .nil) (.cons (.assign 1 (.concat (.var 0) (.var 1))) .nil)) .nil)))
    (.cons (.ret (.concat (.var 0) .lit)) .nil)

example : wfB sample 1 false = true := by decide
/-- the machine does notice a missing release: the same code without its last `free` ends owning more than the result -/
example : run 10 (.seq (.ins (.fromConst 2)) (.seq (.ins (.copy 0 2)) .ret)) [] [] = .ret [0, 2] := by simp [run, step]
example : run 10 (.seq (.ins (.fromConst 2)) (.seq (.ins (.free 2)) (.ins (.free 2)))) [] [] = .err (reprStr (Ins.free 2)) := by simp [run, step]

end DDP.Own

import DDP.Spec.Eval

/-!
# C11 — optimisation level and link mode do not change program behaviour

The evaluation rules know neither an optimisation level nor a link mode: `run` is a function of the
program alone, so every configuration is compared with the *same* value (`vlib/props/C11.py`).

The one place where the code generator itself changes the lowering with the level is the call of a
function with a *constant* value parameter at `-O 2` (no copy of the argument, the callee does not
free it).  What makes that unobservable is stated here about the store of the evaluator: a holder
whose location nobody writes during the call reads the same as a copy taken before the call.
-/

namespace DDP.Spec

/-- the effects a callee can have on the store: writes through its own holders, and allocations -/
inductive Effect
  | write (b : Binding) (v : Val)
  | alloc (v : Val)

def applyEffect (st : State) : Effect → State
  | .write b v => (st.write b v).getD st
  | .alloc v => (st.alloc v).1

/-- location `l` exists and no effect writes through a holder of location `l` -/
def Untouched (l : Nat) : List Effect → Prop
  | [] => True
  | .write b _ :: r => b.loc ≠ l ∧ Untouched l r
  | .alloc _ :: r => Untouched l r

theorem size_mono (st : State) (e : Effect) : st.store.size ≤ (applyEffect st e).store.size := by
  cases e with
  | alloc v => simp [applyEffect, State.alloc]
  | write b v =>
    simp only [applyEffect, State.write]
    split
    · rename_i old _
      cases h : setPath old b.path v <;> simp
    · simp

theorem effect_keeps (st : State) (e : Effect) (arg : Binding) (hl : arg.loc < st.store.size)
    (h : Untouched arg.loc [e]) : (applyEffect st e).read arg = st.read arg := by
  cases e with
  | alloc v =>
    have h2 : st.store[arg.loc]? = some st.store[arg.loc] := Array.getElem?_eq_getElem hl
    simp [applyEffect, State.alloc, State.read, Array.getElem?_push_lt hl, h2]
  | write b v =>
    have hne : b.loc ≠ arg.loc := h.1
    simp only [applyEffect, State.write]
    split
    · rename_i old _
      cases hs : setPath old b.path v with
      | none => simp
      | some nv =>
        have : (st.store.setIfInBounds b.loc nv)[arg.loc]? = st.store[arg.loc]? :=
          Array.getElem?_setIfInBounds_ne hne
        simp [State.read, this]
    · simp

/-- **no-copy is unobservable**: whatever the callee does, as long as it never writes through a holder
of the argument's location, the argument reads the same afterwards — so a parameter bound to the
caller's location (no copy, `-O 2`) and one bound to a copy made before the call (`-O 0/1`) agree -/
theorem nocopy_unobservable (es : List Effect) (st : State) (arg : Binding)
    (hl : arg.loc < st.store.size) (h : Untouched arg.loc es) :
    (es.foldl applyEffect st).read arg = st.read arg := by
  induction es generalizing st with
  | nil => rfl
  | cons e es ih =>
    have he : Untouched arg.loc [e] := by
      cases e <;> simp_all [Untouched]
    have hr : Untouched arg.loc es := by
      cases e <;> simp_all [Untouched]
    have hs := size_mono st e
    simp only [List.foldl_cons]
    rw [ih (applyEffect st e) (by omega) hr, effect_keeps st e arg hl he]

/-- and the converse, why the condition is needed: a write through another holder of the same
location is seen (this is the defect repaired in the call lowering: a global changed by the callee) -/
theorem aliased_write_seen (st st' : State) (g p : Binding) (v : Val)
    (hsame : p = g) (hroot : g.path = []) (hw : st.write g v = some st') : st'.read p = some v := by
  subst hsame
  unfold State.write at hw
  split at hw
  · rename_i old hold
    simp [hroot, setPath] at hw
    subst hw
    have hlt : p.loc < st.store.size := (Array.getElem?_eq_some_iff.mp hold).1
    simp [State.read, hroot, getPath, hlt]
  · simp at hw

/-- the rules assign exactly one behaviour to a program (no level, no link mode among the arguments) -/
theorem one_behaviour (p : Program) (fuel : Nat) (a b : RunResult) (ha : a = run p fuel) (hb : b = run p fuel) : a = b := by
  rw [ha, hb]

example : Untouched 0 [.alloc (.int 1), .write ⟨1, [], .zahl⟩ (.int 2)] := by simp [Untouched]

end DDP.Spec

import Props.C13
import Props.C15
import Props.C10

/-!
# C03 — the front end is total (the parts of totality that are logic)

The recursive-descent parser, resolver and type checker as a whole (mutually recursive Go methods over
a shared cursor with back-tracking) have no Lean model; for them the claim "returns" is carried by
the crash probe of `vlib/props/C03.py` only (a search, not a proof).  Proved here are the pieces of
the front end that *are* modelled: the scanner always returns and is linear in the input, the type
unifier and the initialisation walk are total functions with bounded results.
-/

namespace DDP.C03
open DDP.Scanner

/-- the scanner returns on every source text (also unterminated texts, characters, comments, alias
placeholders) -/
theorem scanner_returns (m : Mode) (origin : Pos) (indent : Nat) (src : List Char) :
    ∃ r, scan m origin indent src = some r := scan_total m origin indent src

theorem coveredBy_length (segs : List Seg) (h : ∀ sg ∈ segs, sg.body ≠ []) : segs.length ≤ (coveredBy segs).length := by
  induction segs with
  | nil => simp
  | cons sg r ih =>
    have h1 : sg.body ≠ [] := h sg (by simp)
    have h2 := ih (fun x hx => h x (by simp [hx]))
    have : 0 < sg.body.length := List.length_pos_iff.mpr h1
    simp only [coveredBy, List.length_cons, List.length_append]
    omega

/-- and never yields more tokens than the source has code points (plus the end-of-file token):
no input makes the token stream grow without bound -/
theorem token_count_bounded (m : Mode) (origin : Pos) (indent : Nat) (src : List Char) (r : Result)
    (h : scan m origin indent src = some r) : r.tokens.length ≤ src.length + 1 := by
  obtain ⟨hcov, hseg, _⟩ := scan_partition m origin indent src r h
  have := coveredBy_length r.segs (fun sg hsg => (hseg sg hsg).2)
  have hl : (coveredBy r.segs ++ r.trailing).length = src.length := by rw [hcov]
  simp only [List.length_append] at hl
  simp only [Result.tokens, List.length_append, List.length_map, List.length_singleton]
  omega

/-- unification never invents bindings: what is bound afterwards was bound before or is the
parameter being bound (so a call with n arguments binds at most n type parameters more) -/
theorem bindOrLookup_grows_by_one (σ : DDP.Generics.Bindings) (n : Nat) (arg : DDP.Generics.Ty) :
    (DDP.Generics.bindOrLookup σ n arg).2.length ≤ σ.length + 1 := by
  unfold DDP.Generics.bindOrLookup
  split <;> simp

/-- the initialisation walk visits a finite list: its result only contains the start modules and
modules reachable through the import table -/
theorem init_walk_bounded (g : DDP.Modules.Graph) (hr : DDP.Modules.Ranked g) (fuel m : Nat) (done : List Nat) :
    ∀ x ∈ DDP.Modules.visit g fuel m done, x ∈ done ∨ x ≤ m := DDP.Modules.visit_bound g hr fuel m done

end DDP.C03

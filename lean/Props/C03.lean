import Props.C13
import Props.C15
import Props.C10
import Props.C09
import Props.C01

/-!
# C03 — the front end is total (the parts of totality that are logic)

The recursive-descent parser, resolver and type checker as a whole (mutually recursive Go methods over
a shared cursor with back-tracking) have no Lean model; for them the claim "returns" is carried by
the crash probe of `vlib/props/C03.py` only (a search, not a proof).  Proved here are the pieces of
the front end that *are* modelled: the scanner always returns and is linear in the input, the type
unifier and the initialisation walk are total functions with bounded results, and the recursion
through the sub-parsers of alias arguments is bounded by the number of tokens (exactly when every
alias pattern contains a word).
-/

namespace DDP.C03
open DDP.Scanner

/-- the scanner returns on every source text (also unterminated texts, characters, comments, alias
placeholders) -/
theorem scanner_returns (m : Mode) (origin : Pos) (indent : Nat) (src : List Char) :
    ∃ r, scan m origin indent src = some r := scan_total m origin indent src

theorem coveredBy_length (segs : List Seg) (h : ∀ sg ∈ segs, sg.body ≠ []) : segs.length ≤ (coveredBy segs).length := by
  induction segs with
  | nil => simp
  | cons sg r ih =>
    have h1 : sg.body ≠ [] := h sg (by simp)
    have h2 := ih (fun x hx => h x (by simp [hx]))
    have : 0 < sg.body.length := List.length_pos_iff.mpr h1
    simp only [coveredBy, List.length_cons, List.length_append]
    omega

/-- and never yields more tokens than the source has code points (plus the end-of-file token):
no input makes the token stream grow without bound -/
theorem token_count_bounded (m : Mode) (origin : Pos) (indent : Nat) (src : List Char) (r : Result)
    (h : scan m origin indent src = some r) : r.tokens.length ≤ src.length + 1 := by
  obtain ⟨hcov, hseg, _⟩ := scan_partition m origin indent src r h
  have := coveredBy_length r.segs (fun sg hsg => (hseg sg hsg).2)
  have hl : (coveredBy r.segs ++ r.trailing).length = src.length := by rw [hcov]
  simp only [List.length_append] at hl
  simp only [Result.tokens, List.length_append, List.length_map, List.length_singleton]
  omega

/-- unification never invents bindings: what is bound afterwards was bound before or is the
parameter being bound (so a call with n arguments binds at most n type parameters more) -/
theorem bindOrLookup_grows_by_one (σ : DDP.Generics.Bindings) (n : Nat) (arg : DDP.Generics.Ty) :
    (DDP.Generics.bindOrLookup σ n arg).2.length ≤ σ.length + 1 := by
  unfold DDP.Generics.bindOrLookup
  split <;> simp

/-- the initialisation walk visits a finite list: its result only contains the start modules and
modules reachable through the import table -/
theorem init_walk_bounded (g : DDP.Modules.Graph) (hr : DDP.Modules.Ranked g) (fuel m : Nat) (done : List Nat) :
    ∀ x ∈ DDP.Modules.visit g fuel m done, x ∈ done ∨ x ≤ m := DDP.Modules.visit_bound g hr fuel m done

/-! ### the recursion through argument sub-parsers (`parser.checkAlias`) -/

section
open DDP.AliasMatch

theorem firstMatch_mem (pats : List (List Pat)) (ts : List AliasMatch.Tok) (r : List Binding × List AliasMatch.Tok)
    (h : firstMatch pats ts = some r) : ∃ p ∈ pats, matchPat p ts = some r := by
  unfold firstMatch at h
  obtain ⟨p, hp, hm⟩ := List.exists_of_findSome?_eq_some h
  exact ⟨p, hp, hm⟩

theorem sumSome_isSome (l : List (Option Nat)) (h : ∀ o ∈ l, o.isSome = true) : (sumSome l).isSome = true := by
  induction l with
  | nil => rfl
  | cons o l ih =>
    have ho := h o (by simp)
    obtain ⟨n, rfl⟩ := Option.isSome_iff_exists.mp ho
    have := ih (fun o' ho' => h o' (by simp [ho']))
    obtain ⟨m, hm⟩ := Option.isSome_iff_exists.mp this
    simp [sumSome, hm]

/-- **Nested alias calls terminate.**  If every declared pattern contains a word, the recursion
through argument sub-parsers needs no more stack than there are tokens: with fuel above the
number of tokens it always returns. -/
theorem nested_alias_parsing_terminates (pats : List (List Pat)) (hw : ∀ p ∈ pats, 0 < wordCount p) :
    ∀ (f : Nat) (ts : List AliasMatch.Tok), ts.length < f → (parseToks pats f ts).isSome = true := by
  intro f
  induction f with
  | zero => intro ts h; omega
  | succ f ih =>
    intro ts h
    cases ts with
    | nil => simp [parseToks]
    | cons t r =>
      simp only [parseToks]
      cases hm : firstMatch pats (t :: r) with
      | none => simp only; exact ih r (by simp at h; omega)
      | some res =>
        obtain ⟨bs, rest⟩ := res
        obtain ⟨p, hp, hmp⟩ := firstMatch_mem pats _ _ hm
        have hsh := arg_shorter_than_call p (t :: r) bs rest hmp (hw p hp)
        obtain ⟨hpart, hnames, _⟩ := matchPat_partition p (t :: r) bs rest hmp
        have hlen : (reassemble p bs).length + rest.length = (t :: r).length := by
          conv => rhs; rw [hpart]
          simp
        have hcons : 0 < (reassemble p bs).length := by
          have hl : bs.length = (params p).length := by rw [← hnames]; simp
          rw [reassemble_length p bs hl]; have := hw p hp; omega
        -- every argument is short enough for the induction hypothesis
        have hargs : ∀ b ∈ bs, (parseToks pats f b.2).isSome = true := by
          intro b hb
          apply ih
          have := (hsh b hb).1
          simp at h hlen; omega
        have hsum := sumSome_isSome (bs.map (fun b => parseToks pats f b.2)) (by
          intro o ho
          obtain ⟨b, hb, rfl⟩ := List.mem_map.mp ho
          exact hargs b hb)
        obtain ⟨a, ha⟩ := Option.isSome_iff_exists.mp hsum
        have hrest := ih rest (by simp at h hlen; omega)
        obtain ⟨n, hn⟩ := Option.isSome_iff_exists.mp hrest
        simp [ha, hn]

/-- **Without that rule they need not.**  The alias `"<x>"` (a pattern without a word, accepted by
the pinned tree until 130575b) matches its own argument again: no amount of stack suffices.
This is the unrecoverable stack overflow `KNOWN_SEEDS/single-parameter-alias` of the probe. -/
theorem single_parameter_alias_diverges (f : Nat) :
    parseToks [[.param 1]] f [⟨.num, 7⟩] = none := by
  induction f with
  | zero => rfl
  | succ f ih =>
    simp only [parseToks]
    have : firstMatch [[Pat.param 1]] [⟨.num, 7⟩] = some ([(1, [⟨.num, 7⟩])], []) := by decide
    simp [this, sumSome, ih]

/-- non-vacuity: a pattern set with words, a nested call, and the count of sub-parsers started -/
example :
    let w (i : Nat) : AliasMatch.Tok := ⟨.num, i⟩
    let lp : AliasMatch.Tok := ⟨.lparen, 0⟩; let rp : AliasMatch.Tok := ⟨.rparen, 0⟩; let dot : AliasMatch.Tok := ⟨.other, 9⟩
    let pats := [[Pat.word (w 1), .param 10, .word ⟨.other, 2⟩, .param 11], [Pat.word (w 3), .param 10]]
    parseToks pats 12 [w 1, ⟨.negate, 0⟩, w 30, ⟨.other, 2⟩, lp, w 3, lp, w 31, rp, rp, dot] = some 3 := by decide

end

/-! ### the expression ladder

`ifExpression`, `boolXOR`, the ten chain rungs, `unary` and `primary` of `src/parser/expressions.go` as modelled by `DDP.LadderParse` (shape and
operator table regenerated from the source, tied to the real parser by `vlib/laddercorr.py`): the Go functions recurse
without any counter; the model carries fuel only to be a structural recursion. These theorems say the fuel is idle. -/

open DDP.LadderParse in
/-- every rung that delivers an operand has consumed at least one token, and a loop never gives tokens back: the `for`
loops of the chain rungs make progress -/
theorem ladder_rungs_consume (f k : Nat) (ts : List DDP.LadderParse.Tok) (x : DDP.LadderParse.E × List DDP.LadderParse.Tok)
    (h : parse DDP.Ladder.ddpTbl f k ts = some x) : x.2.length < ts.length :=
  (progress DDP.Ladder.ddpTbl f).1 k ts x h

open DDP.LadderParse in
/-- **The expression ladder terminates on every token sequence**, well-formed or not: with `|ts|·15 + 11 − k` units of fuel
rung `k` has answered, and no larger amount changes the answer — acceptance *and* rejection are decided, never cut off -/
theorem expression_ladder_terminates (k : Nat) (ts : List DDP.LadderParse.Tok) (f : Nat) (hf : ts.length * 15 + (11 - k) ≤ f) :
    parse DDP.Ladder.ddpTbl f k ts = parse DDP.Ladder.ddpTbl (ts.length * 15 + (11 - k)) k ts := by
  have h := fuel_irrelevant DDP.Ladder.ddpTbl k ts f
  have hn : DDP.Ladder.ddpTbl.n = 10 := DDP.Ladder.chain_table_from_source.1
  unfold bound at h
  rw [hn] at h
  exact h hf

open DDP.LadderParse in
/-- non-vacuity: an ill-formed sequence is rejected with the bound's fuel (not for lack of it: `fuel_irrelevant`), a
well-formed one accepted -/
example : parse DDP.Ladder.ddpTbl (2 * 15 + 11) 0 [DDP.LadderParse.Tok.atom 1, DDP.LadderParse.Tok.bop 5] = none ∧
    parse DDP.Ladder.ddpTbl (3 * 15 + 11) 0 [DDP.LadderParse.Tok.atom 1, DDP.LadderParse.Tok.bop 5, DDP.LadderParse.Tok.atom 2] = some (DDP.LadderParse.E.bin 5 (DDP.LadderParse.E.atom 1) (DDP.LadderParse.E.atom 2), []) := by decide

end DDP.C03

import DDP.Generated.DiagSites
import DDP.Impl.Diag

/-!
# C07 — failure is reported faithfully: flag, exit status and source ranges
-/

namespace DDP.Diag

theorem foldl_deliver_true (ds : List Diag) : ds.foldl deliver true = true := by
  induction ds with
  | nil => rfl
  | cons d r ih => simp [List.foldl_cons, deliver, ih]

/-- **the module is faulty exactly when a diagnostic of level error was delivered** -/
theorem faulty_iff_error (ds : List Diag) : faultyAfter ds = true ↔ ∃ d ∈ ds, d.level = .error := by
  unfold faultyAfter
  induction ds with
  | nil => simp
  | cons d r ih =>
    simp only [List.foldl_cons, deliver, Bool.false_or]
    by_cases h : d.level = .error
    · simp [h, foldl_deliver_true]
    · simp only [h, decide_false]
      rw [ih]
      simp [h]

/-- warnings alone never fail a compilation -/
theorem warnings_dont_fail (ds : List Diag) (h : ∀ d ∈ ds, d.level = .warn) : faultyAfter ds = false := by
  cases hf : faultyAfter ds with
  | false => rfl
  | true =>
    obtain ⟨d, hd, he⟩ := (faulty_iff_error ds).mp hf
    rw [h d hd] at he
    cases he

/-- the exit status is non-zero exactly when an error was delivered, and then nothing usable is left -/
theorem exit_iff_error (ds : List Diag) : exitStatus ds ≠ 0 ↔ ∃ d ∈ ds, d.level = .error := by
  unfold exitStatus
  rw [← faulty_iff_error]
  cases faultyAfter ds <;> simp

theorem no_artefact_on_failure (ds : List Diag) (d : Diag) (hd : d ∈ ds) (he : d.level = .error) : artefact ds = false := by
  unfold artefact
  rw [(faulty_iff_error ds).mpr ⟨d, hd, he⟩]
  rfl

theorem artefact_without_errors (ds : List Diag) (h : ∀ d ∈ ds, d.level = .warn) : artefact ds = true ∧ exitStatus ds = 0 := by
  simp [artefact, exitStatus, warnings_dont_fail ds h]

/-- the order of delivery does not matter for the verdict -/
theorem faulty_perm (a b : List Diag) (h : a.Perm b) : faultyAfter a = faultyAfter b := by
  have key : (faultyAfter a = true ↔ faultyAfter b = true) := by
    rw [faulty_iff_error, faulty_iff_error]
    constructor
    · rintro ⟨d, hd, he⟩; exact ⟨d, (h.mem_iff).1 hd, he⟩
    · rintro ⟨d, hd, he⟩; exact ⟨d, (h.mem_iff).2 hd, he⟩
  cases ha : faultyAfter a <;> cases hb : faultyAfter b <;> simp_all

/-! ### a range inside the text can always be rendered -/

theorem slice_some (l : List Char) (a b : Nat) (h1 : a ≤ b) (h2 : b ≤ l.length) : ∃ s, slice? l a b = some s := by
  simp [slice?, h1, h2]

theorem getD_of_getElem? (lines : List (List Char)) (i : Nat) (line : List Char) (h : lines[i]? = some line) : lines.getD i [] = line := by
  simp [List.getD, h]

theorem renderLine_some (lines : List (List Char)) (r : Range) (h : inText lines r) (i : Nat)
    (h1 : r.start.line - 1 ≤ i) (h2 : i < r.stop.line) : ∃ m, renderLine lines r i = some m := by
  obtain ⟨hs1, hs2, hs3, hc1, hc2, hc3, hc4, hc5⟩ := h
  have hi : i < lines.length := by omega
  obtain ⟨line, hl⟩ : ∃ line, lines[i]? = some line := ⟨lines[i], List.getElem?_eq_getElem hi⟩
  unfold renderLine
  rw [hl]
  simp only []
  by_cases e1 : i = r.start.line - 1
  · have hline : lines.getD (r.start.line - 1) [] = line := by
      rw [← e1]; exact getD_of_getElem? lines _ _ hl
    rw [hline] at hc2
    simp only [e1, if_true]
    obtain ⟨s0, hs0⟩ := slice_some line 0 (r.start.col - 1) (by omega) (by omega)
    rw [hs0]
    simp only [Option.bind_some]
    by_cases e2 : r.start.line = r.stop.line
    · have hline2 : lines.getD (r.stop.line - 1) [] = line := by
        rw [← e2, ← e1]; exact getD_of_getElem? lines _ _ hl
      rw [hline2] at hc4
      have := hc5 e2
      simp only [e2, if_true]
      obtain ⟨s, hs⟩ := slice_some line (r.start.col - 1) (r.stop.col - 1) (by omega) (by omega)
      exact ⟨s.length, by simp [hs]⟩
    · simp only [e2, if_false]
      obtain ⟨s, hs⟩ := slice_some line (r.start.col - 1) line.length (by omega) (by omega)
      exact ⟨s.length, by simp [hs]⟩
  · simp only [e1, if_false]
    by_cases e3 : i < r.stop.line - 1
    · exact ⟨line.length, by simp [e3]⟩
    · have e4 : i = r.stop.line - 1 := by omega
      have hline2 : lines.getD (r.stop.line - 1) [] = line := by
        rw [← e4]; exact getD_of_getElem? lines _ _ hl
      rw [hline2] at hc4
      simp only [e3, if_false]
      obtain ⟨s, hs⟩ := slice_some line 0 (r.stop.col - 1) (by omega) (by omega)
      exact ⟨s.length, by simp [hs]⟩

theorem renderFrom_some (lines : List (List Char)) (r : Range) (h : inText lines r) :
    ∀ (n i : Nat), r.start.line - 1 ≤ i → i + n ≤ r.stop.line → ∃ ms, renderFrom lines r i n = some ms := by
  intro n
  induction n with
  | zero => intro i _ _; exact ⟨[], rfl⟩
  | succ n ih =>
    intro i h1 h2
    obtain ⟨m, hm⟩ := renderLine_some lines r h i h1 (by omega)
    obtain ⟨ms, hms⟩ := ih (i + 1) (by omega) (by omega)
    exact ⟨m :: ms, by simp [renderFrom, hm, hms]⟩

/-- **every diagnostic whose range lies inside its file can be rendered**: none of the renderer's
slices is out of range -/
theorem render_total (lines : List (List Char)) (r : Range) (h : inText lines r) : ∃ ms, render lines r = some ms := by
  unfold render
  have hs1 := h.1
  have hs2 := h.2.1
  exact renderFrom_some lines r h _ _ (Nat.le_refl _) (by omega)

/-- and the hypothesis is needed: an end column beyond the line breaks the renderer -/
example : render [['a', 'b']] ⟨⟨1, 1⟩, ⟨1, 9⟩⟩ = none := by decide
example : render [['a', 'b'], ['c']] ⟨⟨1, 2⟩, ⟨2, 2⟩⟩ = some [1, 1] := by decide

/-! ### ranges of composite expressions

The parser gives a composite expression the range from the start of its first operand (or its own
first token) to the end of its last one.  The monitor of `vlib/props/C07.py` checks on the real
syntax tree what is proved here of that construction. -/

def Pos.le (a b : Pos) : Prop := a.line < b.line ∨ (a.line = b.line ∧ a.col ≤ b.col)

/-- start is not behind the end -/
def Range.wf (r : Range) : Prop := Pos.le r.start r.stop
/-- `a` covers `b` -/
def Range.covers (a b : Range) : Prop := Pos.le a.start b.start ∧ Pos.le b.stop a.stop
/-- from the start of the first to the end of the last -/
def Range.span (first last : Range) : Range := ⟨first.start, last.stop⟩

theorem Pos.le_refl (a : Pos) : Pos.le a a := Or.inr ⟨rfl, Nat.le_refl _⟩
theorem Pos.le_trans {a b c : Pos} (h1 : Pos.le a b) (h2 : Pos.le b c) : Pos.le a c := by
  unfold Pos.le at *; omega

/-- **Composite ranges are well-formed and cover their operands** when the operands are
well-formed and written in this order. -/
theorem span_wf_covers (a b : Range) (ha : a.wf) (hb : b.wf) (hord : Pos.le a.stop b.start) :
    (Range.span a b).wf ∧ (Range.span a b).covers a ∧ (Range.span a b).covers b := by
  unfold Range.wf Range.covers Range.span at *
  refine ⟨Pos.le_trans ha (Pos.le_trans hord hb), ⟨Pos.le_refl _, Pos.le_trans hord hb⟩, ⟨Pos.le_trans ha hord, Pos.le_refl _⟩⟩

/-- taking the operands in the other order than they are written — what the pinned tree did for
`die n. Wurzel von x` (start of `x`, end of `n`) — gives a range whose start lies behind its end
as soon as the two operands do not overlap -/
theorem span_swapped_not_wf (a b : Range) (hb : b.wf) (hord : Pos.le a.stop b.start)
    (hne : a.stop ≠ b.stop) (ha : a.wf) : ¬ (Range.span b a).wf ∨ b.start = a.stop := by
  unfold Range.wf Range.span Pos.le at *
  simp only
  by_cases h : b.start = a.stop
  · exact Or.inr h
  · left
    intro hc
    apply h
    cases hp : b.start; cases hq : a.stop
    simp_all
    omega

/-- a well-formed range inside a text stays renderable when it is widened to a composite range
whose end is inside the same text -/
example : (Range.span ⟨⟨1, 5⟩, ⟨1, 6⟩⟩ ⟨⟨1, 16⟩, ⟨1, 18⟩⟩) = ⟨⟨1, 5⟩, ⟨1, 18⟩⟩ := rfl
example : ¬ (Range.span ⟨⟨1, 16⟩, ⟨1, 18⟩⟩ ⟨⟨1, 5⟩, ⟨1, 6⟩⟩).wf := by
  unfold Range.wf Range.span Pos.le; simp

end DDP.Diag


/-! ## Every diagnostic that can be delivered has a level (over the inventory regenerated from the source)

`ddperror.New` takes the level as an argument. A diagnostic value built by hand as `ddperror.Error{…}` without a `Level`
has level 0 (`LEVEL_INVALID`): the handlers print it like an error, but the parser's flag — and with it `Faulty` and the
exit status — only reacts to `LEVEL_ERROR`. -/

namespace DDP.DiagLevels
open DDP.Generated.DiagSites

/-- every hand-built diagnostic sets its level, unless it is only the payload of a `Bad…` syntax node (those are kept
in the tree; what is delivered for them goes through `ddperror.New`) -/
theorem hand_built_diagnostics_have_a_level :
    errorLiterals.all (fun s => s.fields.contains "Level" || s.badNodePayload) = true := by decide

/-- the constructor itself sets all five fields -/
theorem constructor_sets_level :
    (errorLiterals.filter (fun s => s.func == "New")).map (·.fields) = [["Code", "File", "Level", "Msg", "Range"]] := by decide

end DDP.DiagLevels

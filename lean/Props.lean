import Props.C02
import Props.C06
import Props.C12
import Props.C13
import Props.C14
import Props.C16
import Props.C19
import Props.C20

import Props.C13
import Props.C20

import Props.C13

import Props.C13
import Props.C14
import Props.C20

import DDP.Generated.Keywords
import DDP.Impl.Scanner
import DDP.Impl.OrderedMap
import DDP.Impl.TokenKey
import DDP.Impl.Types
import DDP.Impl.Literal
import DDP.Spec.Literal

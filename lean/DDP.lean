import DDP.Generated.Keywords
import DDP.Impl.Scanner
import DDP.Impl.OrderedMap
import DDP.Impl.TokenKey
import DDP.Impl.Types

import DDP.Generated.Keywords
import DDP.Impl.Scanner

import DDP
import DDP.Drv.Util

/-! `ddpmodel`: line-protocol driver over the executable models (core only).
One request per line, one canonical answer line. -/
open DDP DDP.Drv

namespace DDP.Drv

def showPos (p : Scanner.Pos) : String := s!"{p.line}:{p.col}"

def showTok (t : Scanner.Tok) : String :=
  s!"#{Generated.TokenType.all.idxOf t.type}|{hexOfString (String.ofList t.literal)}|{t.indent}|{showPos t.start}-{showPos t.stop}"

def showDCode : Scanner.DCode → String
  | .malformedLiteral => "SYN_MALFORMED_LITERAL"
  | .malformedAlias => "SYN_MALFORMED_ALIAS"
  | .expectedCapital => "SYN_EXPECTED_CAPITAL"

def showDiag (d : Scanner.Diag) : String := s!"{showDCode d.code}@{showPos d.start}-{showPos d.stop}"

/-- `scan <strict 0/1> <alias 0/1> <line> <col> <indent> <hex>` -/
def cmdScan (args : List String) : String :=
  let args := if args.length == 5 then args ++ [""] else args
  match args with
  | [st, al, l, c, ind, hex] =>
    match stringOfHex hex with
    | none => "invalid-utf8"
    | some src =>
      match Scanner.scan ⟨st == "1", al == "1"⟩ ⟨l.toNat!, c.toNat!⟩ ind.toNat! src.toList with
      | none => "out-of-fuel"
      | some r =>
        "tokens " ++ " ".intercalate (r.tokens.map showTok) ++ " diags " ++ " ".intercalate (r.diags.map showDiag)
  | _ => "bad-request"

def dispatch (line : String) : String :=
  match (line.splitOn " ").filter (· ≠ "") with
  | "scan" :: args => cmdScan args
  | _ => "bad-request"

partial def loop (h : IO.FS.Stream) (out : IO.FS.Stream) : IO Unit := do
  let line ← h.getLine
  if line.isEmpty then return ()
  let l := (line.dropEndWhile (· == '\n')).toString
  out.putStrLn (dispatch l)
  loop h out

end DDP.Drv

def main : IO Unit := do
  let out ← IO.getStdout
  DDP.Drv.loop (← IO.getStdin) out
  out.flush

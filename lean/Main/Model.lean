import DDP
import DDP.Drv.Util

/-! `ddpmodel`: line-protocol driver over the executable models (core only).
One request per line, one canonical answer line. -/
open DDP DDP.Drv

namespace DDP.Drv

def showPos (p : Scanner.Pos) : String := s!"{p.line}:{p.col}"

def showTok (t : Scanner.Tok) : String :=
  s!"#{Generated.TokenType.all.idxOf t.type}|{hexOfString (String.ofList t.literal)}|{t.indent}|{showPos t.start}-{showPos t.stop}"

def showDCode : Scanner.DCode → String
  | .malformedLiteral => "SYN_MALFORMED_LITERAL"
  | .malformedAlias => "SYN_MALFORMED_ALIAS"
  | .expectedCapital => "SYN_EXPECTED_CAPITAL"

def showDiag (d : Scanner.Diag) : String := s!"{showDCode d.code}@{showPos d.start}-{showPos d.stop}"

/-- `scan <strict 0/1> <alias 0/1> <line> <col> <indent> <hex>` -/
def cmdScan (args : List String) : String :=
  let args := if args.length == 5 then args ++ [""] else args
  match args with
  | [st, al, l, c, ind, hex] =>
    match stringOfHex hex with
    | none => "invalid-utf8"
    | some src =>
      match Scanner.scan ⟨st == "1", al == "1"⟩ ⟨l.toNat!, c.toNat!⟩ ind.toNat! src.toList with
      | none => "out-of-fuel"
      | some r =>
        "tokens " ++ " ".intercalate (r.tokens.map showTok) ++ " diags " ++ " ".intercalate (r.diags.map showDiag)
  | _ => "bad-request"

/-! ### alias store (C20) -/
/-- type table entries `id:kind:name[:target]` — kind 0 a Kombination, 1 a list of a fresh Kombination,
2 a type alias of `target`, 3 a list whose element type is `target` -/
structure TyEntry where
  id : Nat
  kind : Nat
  name : Nat
  target : Nat

def parseTypes (spec : String) : List TyEntry :=
  if spec == "" || spec == "-" then [] else
  (spec.splitOn ",").filterMap fun e =>
    match e.splitOn ":" with
    | [i, l, n] => some ⟨i.toNat!, l.toNat!, n.toNat!, 0⟩
    | [i, l, n, t] => some ⟨i.toNat!, l.toNat!, n.toNat!, t.toNat!⟩
    | _ => none

/-- `ddptypes.GetUnderlying` on the identities of the table: aliases resolve to their target,
a list resolves to the (first listed) list over the resolved element type -/
def typeUnder (tys : List TyEntry) : Nat → Nat → Nat
  | 0, id => id
  | fuel + 1, id =>
    match tys.find? (·.id == id) with
    | none => id
    | some e =>
      if e.kind == 2 then typeUnder tys fuel e.target
      else if e.kind == 3 then
        let u := typeUnder tys fuel e.target
        match tys.find? (fun f => f.kind == 3 && typeUnder tys fuel f.target == u) with
        | some f => f.id
        | none => id
      else id

def typeName (tys : List TyEntry) (id : Nat) : Nat :=
  match tys.find? (·.id == id) with
  | none => 0
  | some e => if e.kind == 3 then ((tys.find? (·.id == typeUnder tys 8 e.target)).map (·.name)).getD 0 else e.name
def typeIsList (tys : List TyEntry) (id : Nat) : Bool :=
  ((tys.find? (·.id == id)).map (fun e => e.kind == 1 || e.kind == 3)).getD false

open DDP.TokenKey in
def parseKey (s : String) : Option TokKey :=
  match s.toList with
  | 'L' :: rest =>
    match (String.ofList rest).splitOn "." with
    | [c, r] =>
      let cls : Option LitClass := match c with
        | "id" => some .identifier | "sym" => some .symbol | "int" => some .int
        | "float" => some .float | "str" => some .string | "chr" => some .char | _ => none
      cls.map (fun c => .lit c r.toNat!)
    | _ => none
  | 'O' :: rest =>
    let n := (String.ofList rest).toNat!
    if h : isOtherTy n = true then some (.other n h) else none
  | 'P' :: rest =>
    match (String.ofList rest).splitOn "." with
    | [r, i] => some (.param (r == "1") i.toNat!)
    | _ => none
  | _ => none

def parseKeys (s : String) : List TokenKey.TokKey :=
  if s == "" then [] else (s.splitOn ",").filterMap parseKey

def b2s (b : Bool) : String := if b then "1" else "0"

def cmdTokcmp (args : List String) : String :=
  match args with
  | [tys, a, b] =>
    let t := parseTypes tys
    match parseKey a, parseKey b with
    | some a, some b =>
      s!"eq={b2s (TokenKey.tokEqU (typeUnder t 8) a b)} less={b2s (TokenKey.tokLessU (typeUnder t 8) (typeName t) (typeIsList t) a b)}"
    | _, _ => "bad-key"
  | _ => "bad-request"

def cmdTrie (args : List String) : String :=
  let args := if args.length == 1 then args ++ [""] else args
  match args with
  | [tys, ops] =>
    let t := parseTypes tys
    let eq := TokenKey.tokEqU (typeUnder t 8)
    let less := TokenKey.tokLessU (typeUnder t 8) (typeName t) (typeIsList t)
    let step (st : Trie.Node TokenKey.TokKey Nat × List String) (op : String) : Trie.Node TokenKey.TokKey Nat × List String :=
      let (n, out) := st
      match op.toList with
      | 'Y' :: _ => (n, out ++ ["ok"])     -- a copy of the store is the same store
      | 'I' :: rest =>
        match (String.ofList rest).splitOn "=" with
        | [ks, v] => (Trie.insert eq less (parseKeys ks) v.toNat! n, out ++ ["ok"])
        | _ => (n, out ++ ["bad-op"])
      | 'C' :: rest =>
        let r := match Trie.contains eq less (parseKeys (String.ofList rest)) n with
          | (false, _) => "none"
          | (true, none) => "novalue"
          | (true, some v) => s!"some {v}"
        (n, out ++ [r])
      | 'S' :: rest =>
        let r := match Trie.searchExact eq less (parseKeys (String.ofList rest)) n [] with
          | .nilDeref => "nilderef"
          | .values vs => "vals " ++ ",".intercalate (vs.map toString)
        (n, out ++ [r])
      | _ => (n, out)
    let (_, out) := ((ops.splitOn ";").filter (· ≠ "")).foldl step (Trie.Node.empty, [])
    ";".intercalate out
  | _ => "bad-request"

/-! ### types (C14) -/
open DDP.Types in
partial def parseTy : List Char → Option (Ty × List Char)
  | 'Z' :: r => some (.prim .zahl, r)
  | 'K' :: r => some (.prim .komma, r)
  | 'B' :: r => some (.prim .byte, r)
  | 'W' :: r => some (.prim .wahr, r)
  | 'C' :: r => some (.prim .buchstabe, r)
  | 'T' :: r => some (.prim .text, r)
  | 'N' :: r => some (.void, r)
  | 'V' :: r => some (.variable, r)
  | 'L' :: '(' :: r => do
    let (t, r) ← parseTy r
    match r with | ')' :: r => some (.list t, r) | _ => none
  | 'A' :: '(' :: r => do
    let (t, r) ← parseTy r
    match r with | ')' :: r => some (.alias t, r) | _ => none
  | 'S' :: r =>
    let ds := r.takeWhile Char.isDigit
    some (.struct (String.ofList ds).toNat!, r.dropWhile Char.isDigit)
  | 'D' :: r =>
    let ds := r.takeWhile Char.isDigit
    match r.dropWhile Char.isDigit with
    | '(' :: r => do
      let (t, r) ← parseTy r
      match r with | ')' :: r => some (.typedef (String.ofList ds).toNat! t, r) | _ => none
    | _ => none
  | _ => none

open DDP.Types in
def showTy : Ty → String
  | .prim .zahl => "Z" | .prim .komma => "K" | .prim .byte => "B" | .prim .wahr => "W"
  | .prim .buchstabe => "C" | .prim .text => "T" | .void => "N" | .variable => "V"
  | .list e => "L(" ++ showTy e ++ ")"
  | .alias u => "A(" ++ showTy u ++ ")"
  | .struct i => s!"S{i}"
  | .typedef i u => s!"D{i}(" ++ showTy u ++ ")"

open DDP.Types in
def cmdTypes (args : List String) : String :=
  match args with
  | [a, b] =>
    match parseTy a.toList, parseTy b.toList with
    | some (a, []), some (b, []) =>
      let one (i : Nat) (t : Ty) : String :=
        s!" gu{i}={showTy (getUnderlying t)} tu{i}={showTy (trueUnderlying t)} num{i}={b2s (isNumeric t)} prim{i}={b2s (isPrimitive t)} list{i}={b2s (isList t)} any{i}={b2s (isAny t)} void{i}={b2s (isVoid t)} def{i}={b2s (castTypeDef t).isSome}"
      s!"equal={b2s (equal a b)} deep={b2s (deepEqual a b)}" ++ one 0 a ++ one 1 b
    | _, _ => "bad-type"
  | _ => "bad-request"

open DDP.Types in
/-- `typos <init|assign|cast> <t1> <t2>`: t1 supplied where t2 is required -/
def cmdTypos (args : List String) : String :=
  match args with
  | [pos, a, b] =>
    match parseTy a.toList, parseTy b.toList with
    | some (a, []), some (b, []) =>
      match pos with
      | "init" => b2s (initOk b a)
      | "assign" => b2s (assignOk b a)
      | "return" => b2s (returnOk b a)
      | "cast" => b2s (castOk a b)
      | _ => "bad-request"
    | _, _ => "bad-type"
  | _ => "bad-request"

/-! ### literals (C19) -/

def showCharVal : Literal.CharVal → String
  | .ok c => s!"chr {c.toNat}"
  | .badEscape c => s!"chr-bad-escape {c.toNat}"
  | .invalid => "chr-invalid"

/-- `lit <hex of source text>`: scan the first token (normal mode) and evaluate it as the
parser does.  Answer: `<kind> <value> scandiags=<n> parsediags=<m>` -/
def cmdLit (args : List String) : String :=
  match args with
  | [hex] =>
    match stringOfHex hex with
    | none => "invalid-utf8"
    | some src =>
      match Scanner.scan ⟨true, false⟩ ⟨1, 1⟩ 0 src.toList with
      | none => "out-of-fuel"
      | some r =>
        match r.segs with
        | [] => "no-token"
        | sg :: _ =>
          let nd := r.diags.length
          let inner := (sg.body.drop 1).dropLast
          match sg.tok.type with
          | .STRING =>
            let (v, e) := Literal.parseStringImpl Generated.parseStringEscapes inner
            s!"str {hexOfString (String.ofList v)} scandiags={nd} parsediags={e}"
          | .CHAR => s!"{showCharVal (Literal.parseCharImpl Generated.parseCharEscapes inner)} scandiags={nd}"
          | .INT =>
            match Literal.parseIntImpl sg.body with
            | some v => s!"int {v} scandiags={nd} parsediags=0"
            | none => s!"int-range scandiags={nd} parsediags=1"
          | .FLOAT => s!"float scandiags={nd}"
          | .ILLEGAL => s!"illegal scandiags={nd}"
          | _ => s!"other scandiags={nd}"
  | _ => "bad-request"

/-- `flt <intdigits> <fracdigits> <bits>`: is `bits` the correctly rounded double? -/
def cmdFlt (args : List String) : String :=
  match args with
  | [i, f, b] => b2s (LiteralSpec.isNearestDouble i.toList f.toList b.toNat!)
  | _ => "bad-request"

/-! ### text runtime (C12) -/
open DDP.TextRT in
def parseInt (cs : List Char) : Int × List Char :=
  match cs with
  | '-' :: r =>
    let ds := r.takeWhile Char.isDigit
    (-((String.ofList ds).toNat! : Int), r.dropWhile Char.isDigit)
  | _ =>
    let ds := cs.takeWhile Char.isDigit
    (((String.ofList ds).toNat! : Int), cs.dropWhile Char.isDigit)

def hexBytes (cs : List Char) : List Nat × List Char :=
  let isHex (c : Char) : Bool := c.isDigit || ('a' ≤ c && c ≤ 'f')
  let hs := cs.takeWhile isHex
  let rec go : List Char → List Nat
    | a :: b :: r => ((hexVal a).getD 0 * 16 + (hexVal b).getD 0) :: go r
    | _ => []
  (go hs, cs.dropWhile isHex)

open DDP.TextRT in
/-- text expressions: `L<hex> | C(T,T) | P<cp>(T) | A<cp>(T) | R<idx>,<cp>(T) | S<i1>,<i2>(T) | X<cp> | D(T)` -/
partial def evalText : List Char → Option (Res Text × List Char)
  | 'L' :: r => let (bs, r) := hexBytes r; some (.ok (fromConstant bs), r)
  | 'C' :: '(' :: r => do
    let (a, r) ← evalText r
    let (b, r) ← evalText (r.drop 1)
    let v := match a, b with
      | .ok a, .ok b => Res.ok (concatSS a b)
      | .ok _, e => e
      | e, _ => e
    some (v, r.drop 1)
  | 'P' :: r => do
    let (cp, r) := parseInt r
    let (a, r) ← evalText (r.drop 1)
    some ((match a with | .ok a => Res.ok (concatCS cp a) | e => e), r.drop 1)
  | 'A' :: r => do
    let (cp, r) := parseInt r
    let (a, r) ← evalText (r.drop 1)
    some ((match a with | .ok a => Res.ok (concatSC a cp) | e => e), r.drop 1)
  | 'R' :: r => do
    let (idx, r) := parseInt r
    let (cp, r) := parseInt (r.drop 1)
    let (a, r) ← evalText (r.drop 1)
    some ((match a with | .ok a => replaceChar a cp idx | e => e), r.drop 1)
  | 'S' :: r => do
    let (i1, r) := parseInt r
    let (i2, r) := parseInt (r.drop 1)
    let (a, r) ← evalText (r.drop 1)
    some ((match a with | .ok a => slice a i1 i2 | e => e), r.drop 1)
  | 'X' :: r => let (cp, r) := parseInt r; some (.ok (charToString cp), r)
  | 'D' :: '(' :: r => do
    let (a, r) ← evalText r
    some ((match a with | .ok a => Res.ok (deepCopy a) | e => e), r.drop 1)
  | _ => none

def hexOfNats (bs : List Nat) : String :=
  String.ofList (bs.flatMap fun b => [hexDigit (b / 16), hexDigit (b % 16)])

open DDP.TextRT in
def showRes {α} (f : α → String) : Res α → String
  | .ok a => "ok " ++ f a
  | .err => "err"
  | .overread => "overread"
  | .hang => "hang"

open DDP.TextRT in
def cmdText (kind : String) (args : List String) : String :=
  match kind, args with
  | "show", [t] =>
    match evalText t.toList with
    | some (r, _) => showRes (fun t => s!"{hexOfNats (t.buf.take t.cap)} cap={t.cap}") r
    | none => "bad-request"
  | "len", [t] =>
    match evalText t.toList with
    | some (r, _) => showRes (fun t => toString (length t)) r
    | none => "bad-request"
  | "idx", [i, t] =>
    match evalText t.toList with
    | some (.ok t, _) => showRes toString (index t (parseInt i.toList).1)
    | some (r, _) => showRes (fun (_ : Text) => "") r
    | none => "bad-request"
  | "eq", [a, b] =>
    match evalText a.toList, evalText b.toList with
    | some (.ok a, _), some (.ok b, _) => showRes (fun b => if b then "1" else "0") (equal a b)
    | some (.ok _, _), some (r, _) => showRes (fun (_ : Text) => "") r
    | some (r, _), _ => showRes (fun (_ : Text) => "") r
    | _, _ => "bad-request"
  | "iter", [t] =>
    match evalText t.toList with
    | some (.ok t, _) => showRes (fun cs => ",".intercalate (cs.map toString)) (iterateAll t)
    | some (r, _) => showRes (fun (_ : Text) => "") r
    | none => "bad-request"
  | "abs", [t] =>
    match evalText t.toList with
    | some (.ok t, _) => "ok " ++ ",".intercalate ((abs t).map toString)
    | some (r, _) => showRes (fun (_ : Text) => "") r
    | none => "bad-request"
  | _, _ => "bad-request"

/-! ### generated bounds checks (C06) -/

def bv64 (s : String) : BitVec 64 := BitVec.ofInt 64 (parseInt s.toList).1

/-- `idxcheck <rvalue|lvalue> <idx> <len>`: the *regenerated* check evaluated on machine integers -/
def cmdIdxCheck (args : List String) : String :=
  match args with
  | [which, i, l] =>
    let f := if which == "rvalue" then Generated.rvalueIndexCheck else Generated.lvalueIndexCheck
    let r := f.eval (bv64 i) (bv64 l)
    s!"{b2s r.1} {r.2.toInt}"
  | _ => "bad-request"

/-- `slicecheck <i1> <i2> <len>` -/
def cmdSliceCheck (args : List String) : String :=
  match args with
  | [a, b, l] =>
    match Generated.listSliceFacts.eval (bv64 a) (bv64 b) (bv64 l) with
    | .empty => "empty"
    | .error => "error"
    | .copy f c => s!"copy {f.toInt} {c.toInt}"
  | _ => "bad-request"

/-! ### operator table (C02) -/
open DDP.Checker in
def parseOp (s : String) : Option Op :=
  match s with
  | "UN_ABS" => some .abs | "UN_NEGATE" => some .negate | "UN_NOT" => some .not | "UN_LOGIC_NOT" => some .logicNot
  | "UN_LEN" => some .len | "BIN_AND" => some .and | "BIN_OR" => some .or | "BIN_XOR" => some .xor
  | "BIN_CONCAT" => some .concat | "BIN_PLUS" => some .plus | "BIN_MINUS" => some .minus | "BIN_MULT" => some .mult
  | "BIN_DIV" => some .div | "BIN_INDEX" => some .index | "BIN_POW" => some .pow | "BIN_LOG" => some .log
  | "BIN_LOGIC_AND" => some .logicAnd | "BIN_LOGIC_OR" => some .logicOr | "BIN_LOGIC_XOR" => some .logicXor
  | "BIN_MOD" => some .mod | "BIN_LEFT_SHIFT" => some .shl | "BIN_RIGHT_SHIFT" => some .shr
  | "BIN_EQUAL" => some .eq | "BIN_UNEQUAL" => some .ne | "BIN_LESS" => some .lt | "BIN_GREATER" => some .gt
  | "BIN_LESS_EQ" => some .le | "BIN_GREATER_EQ" => some .ge | "BIN_SLICE_TO" => some .sliceTo
  | "BIN_SLICE_FROM" => some .sliceFrom | "TER_SLICE" => some .slice | "TER_BETWEEN" => some .between
  | "TER_FALLS" => some .falls | _ => none

open DDP.Lowering in
def showIr : IrTy → String
  | .int => "int" | .float => "float" | .byte => "byte" | .bool => "bool" | .char => "char" | .string => "string"
  | .any => "any" | .void => "void" | .struct i => s!"struct{i}" | .list e => "list(" ++ showIr e ++ ")"

/-- `optab <op> <type>…`: checker verdict and result type, IR types, lowering result -/
def cmdOptab (args : List String) : String :=
  match args with
  | op :: tys =>
    match parseOp op, tys.mapM (fun t => match parseTy t.toList with | some (t, []) => some t | _ => none) with
    | some op, some tys =>
      let adm := Checker.admits op tys
      let irs := tys.mapM Lowering.toIr
      let low := irs.bind (Lowering.lowerTy op)
      let tauIr := adm.bind Lowering.toIr
      let so {α} (f : α → String) : Option α → String := fun o => match o with | some a => f a | none => "none"
      s!"admits={so showTy adm} lower={so showIr low} tauir={so showIr tauIr} irs={so (fun l => ",".intercalate (l.map showIr)) irs}"
    | _, _ => "bad-request"
  | _ => "bad-request"

/-! ### L2 evaluator (C01 …) -/

/-- `eval <fuel> <hex of program s-expression>` → `<outcome> <hex of stdout>` -/
def cmdEval (args : List String) : String :=
  match args with
  | [fuel, hex] =>
    match stringOfHex hex with
    | none => "bad-request"
    | some src =>
      match Spec.parseSExp src with
      | none => "bad-sexp"
      | some sx =>
        let r := Spec.run (Spec.decProgram sx) fuel.toNat!
        s!"{r.outcome.replace " " "_"} {hexOfString r.stdout}"
  | _ => "bad-request"

def cmdFmt (args : List String) : String :=
  match args with
  | [bits] => Spec.fmtFloat (Float.ofBits (UInt64.ofNat bits.toNat!))
  | _ => "bad-request"

/-- `unify <arg>|<param>;…`: the arguments of one call against the parameter types -/
def cmdUnify (args : List String) : String :=
  match args with
  | [spec] =>
    let pairs := (spec.splitOn ";").map fun pr =>
      match pr.splitOn "|" with
      | [a, p] => ((DDP.Generics.parseTy a.toList).1, (DDP.Generics.parseTy p.toList).1)
      | _ => (DDP.Generics.Ty.prim 0, DDP.Generics.Ty.prim 0)
    let rec go (ps : List (DDP.Generics.Ty × DDP.Generics.Ty)) (σ : DDP.Generics.Bindings) (acc : List String) : List String × DDP.Generics.Bindings :=
      match ps with
      | [] => (acc.reverse, σ)
      | (a, p) :: r =>
        match DDP.Generics.unify a p σ with
        | (none, σ') => (("0:nil" :: acc).reverse, σ')
        | (some t, σ') =>
          let f := DDP.Generics.Ty.beq a t
          let acc := ((if f then "1:" else "0:") ++ t.toStr) :: acc
          if f then go r σ' acc else (acc.reverse, σ')
    let (outs, σ) := go pairs [] []
    let sorted := σ.toArray.qsort (fun x y => ("G" ++ toString x.1) < ("G" ++ toString y.1)) |>.toList
    " ".intercalate outs ++ " | " ++ DDP.Generics.showBindings sorted
  | _ => "bad-request"

/-- `modinit <fuel> <m:i,j;…> <a,b,…>`: the modules initialised by a main module importing a, b, … -/
def cmdModinit (args : List String) : String :=
  match args with
  | [fuel, graph, imports] =>
    let nums (t : String) : List Nat := if t == "-" then [] else (t.splitOn ",").filterMap String.toNat?
    let table : List (Nat × List Nat) := (graph.splitOn ";").filterMap fun e =>
      match e.splitOn ":" with
      | [m, is] => m.toNat?.map fun k => (k, nums (if is == "" then "-" else is))
      | _ => none
    let g : DDP.Modules.Graph := fun m => ((table.find? (·.1 == m)).map (·.2)).getD []
    ",".intercalate ((DDP.Modules.initSeq g fuel.toNat! (nums imports)).map toString)
  | _ => "bad-request"

/-- files below a directory as a tree: a path `a/b/m.ddp` goes into directory `a`, then `b` -/
def insertPath : List String → Nat → List DDP.Modules.DirEntry → List DDP.Modules.DirEntry
  | [], _, es => es
  | [f], m, es => es ++ [.file f m]
  | d :: rest, m, es =>
    if es.any (fun e => match e with | .dir n _ => n == d | _ => false) then
      es.map (fun e => match e with
        | .dir n sub => if n == d then .dir n (insertPath rest m sub) else .dir n sub
        | f => f)
    else es ++ [.dir d (insertPath rest m [])]

/-- `dirwalk <0/1 recursive> <path=module,…>`: the modules a directory import brings in, in order -/
def cmdDirWalk (args : List String) : String :=
  match args with
  | [r, spec] =>
    let files := if spec == "-" then [] else (spec.splitOn ",").filterMap fun e =>
      match e.splitOn "=" with
      | [p, m] => some (p.splitOn "/", m.toNat!)
      | _ => none
    let tree := files.foldl (fun t (p, m) => insertPath p m t) []
    ",".intercalate ((DDP.Modules.dirImport (r == "1") tree).map toString)
  | _ => "bad-request"

/-- `visible <name>:<0/1 public>,… <listed names or ->`: the names an import makes visible, or `error` -/
def cmdVisible (args : List String) : String :=
  match args with
  | [decls, listed] =>
    let ds : List DDP.Modules.Decl := (decls.splitOn ",").filterMap fun e =>
      match e.splitOn ":" with
      | [n, p] => some ⟨n, p == "1"⟩
      | _ => none
    let l : Option (List String) := if listed == "-" then none else some (listed.splitOn ",")
    match DDP.Modules.visible ds l with
    | some ns => "visible " ++ ",".intercalate ns
    | none => "error"
  | _ => "bad-request"

/-- `sortaliases <len>.<gen>.<refs>;…`: keys in the order the candidates are tried;
`resolve <len>.<gen>.<refs>.<fits>;…`: index of the selected candidate or `none` -/
def parseCands (spec : String) : List DDP.Resolve.Cand :=
  ((spec.splitOn ";").zipIdx).filterMap fun (c, i) =>
    match (c.splitOn ".").map String.toNat! with
    | [l, g, r] => some ⟨i, l, g, r, true⟩
    | [l, g, r, f] => some ⟨i, l, g, r, f == 1⟩
    | _ => none

def cmdSortAliases (args : List String) : String :=
  match args with
  | [spec] => ";".intercalate ((DDP.Resolve.sortC (parseCands spec)).map fun c => s!"{c.len}.{c.gen}.{c.refs}")
  | _ => "bad-request"

def cmdResolve (args : List String) : String :=
  match args with
  | [spec] => (match DDP.Resolve.select (parseCands spec) with | some c => s!"{c.len}.{c.gen}.{c.refs}" | none => "none")
  | _ => "bad-request"

/-! ### alias matching at a call site (C09) -/
def parseMTok (s : String) : Option DDP.AliasMatch.Tok :=
  match s.splitOn "." with
  | [k, i] =>
    let kind : Option DDP.AliasMatch.Kind := match k with
      | "n" => some .num | "l" => some .lit | "m" => some .negate | "L" => some .lparen | "R" => some .rparen | "o" => some .other
      | _ => none
    kind.map (fun k => ⟨k, i.toNat!⟩)
  | _ => none

def parseMPat (s : String) : Option DDP.AliasMatch.Pat :=
  match s.toList with
  | 'p' :: rest => some (.param (String.ofList rest).toNat!)
  | 'w' :: rest => (parseMTok (String.ofList rest)).map .word
  | _ => none

/-- `aliasmatch <pattern> <tokens>`: `nomatch`, or `match rest=<n> <name>=<start>+<len>;…` (also what the
argument loop of checkAlias cuts out: `cut <name>=<start>+<len>;…`) -/
def cmdAliasMatch (args : List String) : String :=
  match args with
  | [ps, ts] =>
    let pat := (ps.splitOn ",").filterMap parseMPat
    let toks := if ts == "-" then [] else (ts.splitOn ",").filterMap parseMTok
    let showB (bs : List DDP.AliasMatch.Binding) : String :=
      -- positions: walk pattern and bindings together
      let rec go (ps : List DDP.AliasMatch.Pat) (bs : List DDP.AliasMatch.Binding) (pos : Nat) (out : List String) : List String :=
        match ps, bs with
        | [], _ => out
        | .word _ :: ps, bs => go ps bs (pos + 1) out
        | .param _ :: ps, b :: bs => go ps bs (pos + b.2.length) (out ++ [s!"{b.1}={pos}+{b.2.length}"])
        | .param _ :: _, [] => out
      ";".intercalate (go pat bs 0 [])
    let cut := "cut " ++ showB (DDP.AliasMatch.cutArgs pat toks)
    match DDP.AliasMatch.matchPat pat toks with
    | some (bs, rest) => s!"match rest={rest.length} {showB bs} {cut}"
    | none => s!"nomatch {cut}"
  | _ => "bad-request"

/-- `ledger <ptr,old,new,result;…>`: the model's verdict on a trace of ddp_reallocate calls -/
def cmdLedger (args : List String) : String :=
  match args with
  | [spec] =>
    let calls : List DDP.Ledger.Call := (spec.splitOn ";").filterMap fun c =>
      match (c.splitOn ",").map String.toNat! with
      | [p, o, n, r] => some ⟨p, o, n, r⟩
      | _ => none
    match DDP.Ledger.run [] calls 0 with
    | (_, .ok l) => s!"ok {l.length}"
    | (i, .error k) => s!"error {i} {k}"
  | _ => "bad-request"

/-- `static <nglobals> <hex s-expression>`: the verdict of the static rules -/
def cmdStatic (args : List String) : String :=
  match args with
  | [ng, hx] =>
    match (stringOfHex hx).bind DDP.Spec.parseSExp with
    | some sx => if DDP.Spec.checkProgram (DDP.Spec.decProgram sx) ng.toNat! then "accept" else "reject"
    | none => "bad-sexpr"
  | _ => "bad-request"

/-- `rangecheck <sl> <sc> <el> <ec> <len,len,…>`: is the range inside a text with these line lengths, and
does the renderer model get through -/
def cmdRangeCheck (args : List String) : String :=
  match args with
  | [sl, sc, el, ec, lens] =>
    let lines : List (List Char) := (if lens == "-" then [] else (lens.splitOn ",").map fun n => List.replicate n.toNat! 'x')
    let r : DDP.Diag.Range := ⟨⟨sl.toNat!, sc.toNat!⟩, ⟨el.toNat!, ec.toNat!⟩⟩
    let it := if decide (DDP.Diag.inText lines r) then "1" else "0"
    let rd := match DDP.Diag.render lines r with | some _ => "some" | none => "none"
    s!"intext={it} render={rd}"
  | _ => "bad-request"

/-- `duden <op> <args…>`: the documented result of a Duden function (lists `1,2,3`, texts as code
points, `-` = empty, text lists separated by `/`) -/
def parseInts (t : String) : List Int :=
  if t == "-" then [] else (t.splitOn ",").map fun x => if x.startsWith "-" then -((x.drop 1).toString.toNat! : Int) else (x.toNat! : Int)
def parseNats (t : String) : List Nat := if t == "-" then [] else (t.splitOn ",").map String.toNat!
def showInts (l : List Int) : String := if l.isEmpty then "-" else ",".intercalate (l.map toString)
def showNats (l : List Nat) : String := if l.isEmpty then "-" else ",".intercalate (l.map toString)
def showOpt (o : Option (List Int)) : String := match o with | some l => showInts l | none => "domain"
def showBool (b : Bool) : String := if b then "1" else "0"

/-- Kommazahlen travel as whole numbers of eighths; results are printed as exact decimals when they are
dyadic with a denominator ≤ 1024 (then `%.16g` of the double prints the same digits), else `inexact` -/
def ratOfEighths (k : Int) : Rat := (k : Rat) / 8
def parseRats (t : String) : List Rat := (parseInts t).map ratOfEighths
def parseRat (t : String) : Rat := ratOfEighths (parseInts t).head!
def parseTexts (ts : String) : List (List Nat) := if ts == "leer" then [] else (ts.splitOn "/").map parseNats
def showTexts (l : List (List Nat)) : String := if l.isEmpty then "leer" else "/".intercalate (l.map showNats)
def log2Exact (n : Nat) : Option Nat := (List.range 11).find? fun k => 2 ^ k == n
def showRat (q : Rat) : String :=
  match log2Exact q.den with
  | none => "inexact"
  | some k =>
    let scaled := q.num.natAbs * 5 ^ k
    let p := 10 ^ k
    let ip := scaled / p
    let fp := scaled % p
    let digits := (toString (p + fp)).drop 1
    let frac := (digits.toString.dropEndWhile (· == '0')).toString
    (if q.num < 0 then "-" else "") ++ toString ip ++ (if frac == "" then "" else "." ++ frac)
def showRats (l : List Rat) : String :=
  let parts := l.map showRat
  if parts.contains "inexact" then "inexact" else if parts.isEmpty then "-" else ",".intercalate parts
def showOptRat (o : Option Rat) : String := match o with | some q => showRat q | none => "domain"
def showOptRats (o : Option (List Rat)) : String := match o with | some q => showRats q | none => "domain"
def showOptNat (o : Option Nat) : String := match o with | some q => toString q | none => "domain"
def showOptInt (o : Option Int) : String := match o with | some q => toString q | none => "domain"
def showOptNats (o : Option (List Nat)) : String := match o with | some q => showNats q | none => "domain"
def int1 (t : String) : Int := (parseInts t).head!

def zeichenPred (name : String) : Option (Nat → Bool) :=
  open DDP.Duden in
  match name with
  | "istLeer" => some istLeerZ | "istGross" => some istGrossZ | "istKlein" => some istKleinZ
  | "istLeerzeichen" => some istLeerzeichenZ | "istZiffer" => some istZiffer | "istKontroll" => some istKontrollZ
  | "istLateinisch" => some istLateinischZ | "istLateinischOderZahl" => some istLateinischOderZahlZ
  | "istDeutsch" => some istDeutschZ | "istDeutschOderZahl" => some istDeutschOderZahlZ
  | _ => none

def cmdDuden2 (args : List String) : String :=
  open DDP.Duden in
  match args with
  -- lists
  | ["textiter", t] =>
    ";".intercalate ((iterWalk (parseInts t)).map fun v =>
      s!"{v.index}:{v.buchstabe}:{v.verbleibend}:{v.behandelt}:{showInts v.rest}:{showInts v.bisher}")
  | ["leere", l] => showInts (leere (parseInts l))
  | ["einfuegenBereich", l, i, r] => showOpt (einfuegenBereich (parseInts l) i.toNat! (parseInts r))
  | ["voranstellenListe", l, o] => showInts (voranstellenListe (parseInts l) (parseInts o))
  | ["elementweiseDifferenz", a, b] => showOpt (elementweise (· - ·) (parseInts a) (parseInts b))
  | ["elementweiseQuotient", a, b] => showOptRats (elementweiseQuotient (parseInts a) (parseInts b))
  | ["absteigend", a, b] => showInts (absteigend (int1 a) (int1 b))
  | ["summeK", l] => showRat (summeK (parseRats l))
  | ["produktK", l] => showRat (produktK (parseRats l))
  | ["linspace", a, b, n] => showOptRats (linspace (parseRat a) (parseRat b) n.toNat!)
  | ["aneinandergehaengt", l] => showNats (aneinandergehaengt (parseNats l))
  | ["verketteTexte", ts] => showNats (verketteTexte (parseTexts ts))
  | ["elementweiseVerketten", a, b] => (match elementweiseVerketten (parseTexts a) (parseTexts b) with | some r => showTexts r | none => "domain")
  | ["tausche", a, b] => let r := tausche (int1 a) (int1 b); s!"{r.1},{r.2}"
  -- texts
  | ["ersterBuchstabe", t] => showOptNat (ersterBuchstabe (parseNats t))
  | ["nterBuchstabe", n, t] => showOptNat (nterBuchstabe n.toNat! (parseNats t))
  | ["letzterBuchstabe", t] => showOptNat (letzterBuchstabe (parseNats t))
  | ["entferneVorne", t, n] => showNats (entferneVorne (parseNats t) (int1 n))
  | ["entferneHinten", t, n] => showNats (entferneHinten (parseNats t) (int1 n))
  | ["anzahlNichtUeberlappend", t, u] => toString (anzahlNichtUeberlappend (parseNats t) (parseNats u))
  | ["beginntMitBuchstabe", t, c] => showBool (beginntMitBuchstabe (parseNats t) c.toNat!)
  | ["endetMitBuchstabe", t, c] => showBool (endetMitBuchstabe (parseNats t) c.toNat!)
  | ["textAnfuegen", t, e] => showNats (textAnfuegen (parseNats t) (parseNats e))
  | ["textVoranstellen", t, e] => showNats (textVoranstellen (parseNats t) (parseNats e))
  | ["fuelleText", t, c] => showNats (fuelleText (parseNats t) c.toNat!)
  | ["buchstaben", t] => showNats (buchstaben (parseNats t))
  | ["buchstabenTexte", t] => showTexts (buchstabenTexte (parseNats t))
  | ["indexVonBuchstabe", t, c] => toString (indexVonBuchstabe (parseNats t) c.toNat!)
  | ["textLeer", t] => showBool (parseNats t).isEmpty
  | ["textIstZahl", t] => showBool (textIstZahl (parseNats t))
  | ["grossD", t] => showNats ((parseNats t).map grossBuchstabe)
  | ["kleinD", t] => showNats ((parseNats t).map kleinBuchstabe)
  | ["verbindenZahl", l, c] => showNats (verbindenZahl (parseInts l) c.toNat!)
  | ["verbindenBuchstabe", l, c] => showNats (verbindenBuchstabe (parseNats l) c.toNat!)
  | ["verbindenWahr", l, c] => showNats (verbindenWahr ((parseNats l).map (· != 0)) c.toNat!)
  | ["levenshtein", a, b] => toString (levenshtein (parseNats a) (parseNats b))
  | ["spalteMenge", t, m] => showTexts (spalteMenge (parseNats t) (parseNats m))
  | ["worte", t] => showTexts (worte (parseNats t))
  | ["bytes", t] => showNats (bytes (parseNats t))
  | ["vonBytes", b] => showOptNats (vonBytes (parseNats b))
  -- characters
  | ["ztab", name, codes] => (match zeichenPred name with
      | some p => String.join ((parseNats codes).map fun c => showBool (p c))
      | none => "bad-request")
  | ["zmap", "gross", codes] => showNats ((parseNats codes).map grossBuchstabe)
  | ["zmap", "klein", codes] => showNats ((parseNats codes).map kleinBuchstabe)
  | ["asciiGroesser", a, b] => showBool (asciiGroesser a.toNat! b.toNat!)
  | ["asciiKleiner", a, b] => showBool (asciiKleiner a.toNat! b.toNat!)
  -- numbers
  | ["minZahl"] => toString minZahl
  | ["maxZahl"] => toString maxZahl
  | ["million", n] => toString (million (int1 n))
  | ["dutzend", n] => toString (dutzend (int1 n))
  | ["bruch", n, d] => showRat (bruch (int1 n) d.toNat!)
  | ["hexZuZahl", t] => showOptNat (hexZuZahl (parseNats t))
  | ["zahlZuHex", z] => showNats (zahlZuHex (int1 z))
  | ["clamp", w, lo, hi] => toString (clamp (int1 w) (int1 lo) (int1 hi))
  | ["maxK", a, b] => showRat (maxK (parseRat a) (parseRat b))
  | ["minK", a, b] => showRat (minK (parseRat a) (parseRat b))
  | ["max3K", a, b, c] => showRat (max3K (parseRat a) (parseRat b) (parseRat c))
  | ["min3K", a, b, c] => showRat (min3K (parseRat a) (parseRat b) (parseRat c))
  | ["clampK", w, lo, hi] => showRat (clampK (parseRat w) (parseRat lo) (parseRat hi))
  | ["signK", a] => toString (signK (parseRat a))
  | ["floorK", a] => showRat (floorK (parseRat a))
  | ["ceilK", a] => showRat (ceilK (parseRat a))
  | ["truncK", a] => showRat (truncK (parseRat a))
  | ["rundenK", a, n] => showRat (rundenK (parseRat a) n.toNat!)
  | ["quadrat", a] => showRat (quadrat (parseRat a))
  | ["ganzeZahl", a] => showBool (ganzeZahl (parseRat a))
  | ["geradeZahl", a] => showBool (geradeZahl (int1 a))
  | ["geradeKommazahl", a] => showBool (geradeKommazahl (parseRat a))
  | ["fakultaet", n] => toString (fakultaet n.toNat!)
  | ["teiler", z] => showNats (teiler z.toNat!)
  | ["ggTZ", a, b] => toString (ggTZ (int1 a) (int1 b))
  | ["kgVZ", a, b] => toString (kgVZ (int1 a) (int1 b))
  -- statistics
  | ["hoechsteZ", l] => showOptInt (hoechsteZ (parseInts l))
  | ["kleinsteZ", l] => showOptInt (kleinsteZ (parseInts l))
  | ["hoechsteK", l] => showOptRat (hoechsteK (parseRats l))
  | ["kleinsteK", l] => showOptRat (kleinsteK (parseRats l))
  | ["mindestens", x, l] => showOptRat (mindestens (parseRat x) (parseRats l))
  | ["hoechstens", x, l] => showOptRat (hoechstens (parseRat x) (parseRats l))
  | ["zwischen", x, y, l] => showOptRat (zwischen (parseRat x) (parseRat y) (parseRats l))
  | ["absoluteHaeufigkeit", l, x] => toString (absoluteHaeufigkeit (parseRats l) (parseRat x))
  | ["relativeHaeufigkeit", l, x] => showOptRat (relativeHaeufigkeit (parseRats l) (parseRat x))
  | ["mittelwert", l] => showOptRat (mittelwert (parseRats l))
  | ["median", l] => showOptRat (median (parseRats l))
  | ["modalwert", l] => showRats (modalwert (parseRats l))
  | ["quantil", l, p] => showOptRat (quantil (parseRats l) (parseRat p))
  | ["varianz", l] => showOptRat (varianz (parseRats l))
  | ["standardabweichung", l] => (match varianz (parseRats l) with
      | none => "domain"
      | some v => match wurzel v with | some r => showRat r | none => "inexact")
  | ["spannweite", l] => showOptRat (spannweite (parseRats l))
  | ["interquartilabstand", l] => showOptRat (interquartilabstand (parseRats l))
  | ["elementweiseSummeK", a, b] => showOptRats (elementweiseK (· + ·) (parseRats a) (parseRats b))
  | ["elementweiseDifferenzK", a, b] => showOptRats (elementweiseK (· - ·) (parseRats a) (parseRats b))
  | ["elementweiseProduktK", a, b] => showOptRats (elementweiseK (· * ·) (parseRats a) (parseRats b))
  | ["logspace", a, b, n] => (match logspace (parseRat a) (parseRat b) n.toNat! with | some l => showRats l | none => "inexact")
  | ["konstante", "maxKommazahl"] => s!"{maxKommazahl.num}/{maxKommazahl.den}"
  | ["konstante", "minKommazahl"] => s!"{minKommazahl.num}/{minKommazahl.den}"
  | ["konstante", "epsilonPos"] => s!"{epsilonPos.num}/{epsilonPos.den}"
  | ["konstante", "epsilonNeg"] => s!"{epsilonNeg.num}/{epsilonNeg.den}"
  | ["kovarianz", a, b] => showOptRat (kovarianz (parseRats a) (parseRats b))
  | ["korrelation", a, b] => (match korrelation (parseRats a) (parseRats b) with | some r => showRat r | none => "inexact")
  | ["bestimmtheitsmass", a, b] => (match bestimmtheitsmass (parseRats a) (parseRats b) with | some r => showRat r | none => "inexact")
  | _ => "bad-request"

def cmdDuden (args : List String) : String :=
  open DDP.Duden in
  match args with
  | ["anfuegen", l, e] => showInts (anfuegen (parseInts l) (parseInts e).head!)
  | ["anfuegenListe", l, o] => showInts (anfuegenListe (parseInts l) (parseInts o))
  | ["voranstellen", l, e] => showInts (voranstellen (parseInts l) (parseInts e).head!)
  | ["einfuegen", l, i, e] => showOpt (einfuegen (parseInts l) i.toNat! (parseInts e).head!)
  | ["loesche", l, i] => showOpt (loesche (parseInts l) i.toNat!)
  | ["loescheBereich", l, a, b] => showOpt (loescheBereich (parseInts l) a.toNat! b.toNat!)
  | ["fuelle", l, e] => showInts (fuelle (parseInts l) (parseInts e).head!)
  | ["indexVon", l, e] => toString (indexVon (parseInts l) (parseInts e).head!)
  | ["enthaelt", l, e] => showBool (enthaelt (parseInts l) (parseInts e).head!)
  | ["leer", l] => showBool (parseInts l).isEmpty
  | ["ersteN", l, n] => showOpt (ersteN (parseInts l) n.toNat!)
  | ["letzteN", l, n] => showOpt (letzteN (parseInts l) n.toNat!)
  | ["gespiegelt", l] => showInts (gespiegelt (parseInts l))
  | ["summe", l] => toString (summe (parseInts l))
  | ["produkt", l] => toString (produkt (parseInts l))
  | ["elementweiseSumme", a, b] => showOpt (elementweise (· + ·) (parseInts a) (parseInts b))
  | ["elementweiseProdukt", a, b] => showOpt (elementweise (· * ·) (parseInts a) (parseInts b))
  | ["aufsteigend", a, b] => showInts (aufsteigend (parseInts a).head! (parseInts b).head!)
  | ["sortiert", l] => showInts (sortiert (parseInts l))
  | ["trimAnfang", t, c] => showNats (trimAnfang (parseNats t) c.toNat!)
  | ["trimEnde", t, c] => showNats (trimEnde (parseNats t) c.toNat!)
  | ["trim", t, c] => showNats (trim (parseNats t) c.toNat!)
  | ["anzahlBuchstabe", t, c] => toString (anzahlBuchstabe (parseNats t) c.toNat!)
  | ["enthaeltBuchstabe", t, c] => showBool ((parseNats t).contains c.toNat!)
  | ["beginntMit", t, u] => showBool (beginntMit (parseNats t) (parseNats u))
  | ["endetMit", t, u] => showBool (endetMit (parseNats t) (parseNats u))
  | ["anzahlText", t, u] => toString (anzahlText (parseNats t) (parseNats u))
  | ["enthaeltText", t, u] => showBool (enthaeltText (parseNats t) (parseNats u))
  | ["indexVonText", t, u] => toString (indexVonText (parseNats t) (parseNats u))
  | ["polsterLinks", t, c, n] => showNats (polsterLinks (parseNats t) c.toNat! n.toNat!)
  | ["polsterRechts", t, c, n] => showNats (polsterRechts (parseNats t) c.toNat! n.toNat!)
  | ["spalte", t, c] => "/".intercalate ((spalte (parseNats t) c.toNat!).map showNats) |> fun r => if r == "" then "leer" else r
  | ["verbinden", ts, c] => showNats (verbinden (if ts == "leer" then [] else (ts.splitOn "/").map parseNats) c.toNat!)
  | ["gross", t] => showNats ((parseNats t).map grossAscii)
  | ["klein", t] => showNats ((parseNats t).map kleinAscii)
  | ["hamming", a, b] => toString (hamming (parseNats a) (parseNats b))
  | ["loescheT", t, i] => (match loescheT (parseNats t) i.toNat! with | some r => showNats r | none => "domain")
  | ["loescheBereichT", t, a, b] => (match loescheBereichT (parseNats t) a.toNat! b.toNat! with | some r => showNats r | none => "domain")
  | ["einfuegenT", t, i, e] => (match einfuegenT (parseNats t) i.toNat! (parseNats e) with | some r => showNats r | none => "domain")
  | ["finde", t, u] => showInts ((finde (parseNats t) (parseNats u)).map fun (n : Nat) => (n : Int))
  | ["spalteText", t, u] => "/".intercalate ((spalteText (parseNats t) (parseNats u)).map showNats) |> fun r => if r == "" then "leer" else r
  | ["max2", a, b] => toString (max2 (parseInts a).head! (parseInts b).head!)
  | ["min2", a, b] => toString (min2 (parseInts a).head! (parseInts b).head!)
  | ["max3", a, b, c] => toString (max3 (parseInts a).head! (parseInts b).head! (parseInts c).head!)
  | ["min3", a, b, c] => toString (min3 (parseInts a).head! (parseInts b).head! (parseInts c).head!)
  | ["sign", a] => toString (sign (parseInts a).head!)
  | ["ggT", a, b] => toString (ggT a.toNat! b.toNat!)
  | ["kgV", a, b] => toString (kgV a.toNat! b.toNat!)
  | ["teilbar", a, b] => showBool (teilbar (parseInts a).head! b.toNat!)
  | ["primfaktoren", z] => showInts ((primfaktoren z.toNat!).map fun (n : Nat) => (n : Int))
  | ["vergleiche", a, b] =>
    let v := vergleiche (parseNats a) (parseNats b)
    if v == 0 then "0" else if v > 0 then "+" else "-"
  | _ => cmdDuden2 args

/-- `abi <name> <ret> <type:ref …>`: the C prototype of a foreign function (types Z K B W C T V N LZ LK LB LW LC LT S:<name>) -/
def abiTy (t : String) : DDP.Spec.Ty :=
  match t with
  | "Z" => .zahl | "K" => .komma | "B" => .byte | "W" => .wahr | "C" => .buchstabe | "T" => .text | "V" => .variable | "N" => .nichts
  | "LZ" => .liste .zahl | "LK" => .liste .komma | "LB" => .liste .byte | "LW" => .liste .wahr | "LC" => .liste .buchstabe | "LT" => .liste .text | "LV" => .liste .variable
  | t => if t.startsWith "S:" then .kombi (t.drop 2).toString else .nichts

def cmdAbi (args : List String) : String :=
  match args with
  | name :: ret :: ps =>
    let params := ps.map fun p => match p.splitOn ":" with
      | [t, r] => (abiTy t, r == "1")
      | [s, n, r] => (abiTy (s ++ ":" ++ n), r == "1")
      | _ => (DDP.Spec.Ty.nichts, false)
    (DDP.Abi.signature params (abiTy ret)).toC name
  | _ => "bad-request"

/-! ### ownership model of the code generator (C05) -/
namespace OwnP
open DDP.Own

/-- prefix encoding: Ex `L | V k | C a b | F f a`, Cond `O | Q a b | A c d`,
St `d e | a k e | x e | i c blk blk | w c blk | b | c | r e | k blk`, Blk `[ st* ]` -/
def pEx : Nat → List String → Option (Ex × List String)
  | 0, _ => none
  | _ + 1, "L" :: r => some (.lit, r)
  | _ + 1, "V" :: k :: r => k.toNat?.map fun n => (.var n, r)
  | n + 1, "C" :: r => do
    let (a, r) ← pEx n r
    let (b, r) ← pEx n r
    pure (.concat a b, r)
  | n + 1, "F" :: f :: r => do
    let fn ← f.toNat?
    let (a, r) ← pEx n r
    pure (.call fn a, r)
  | _, _ => none

def pCond : Nat → List String → Option (Cond × List String)
  | 0, _ => none
  | _ + 1, "O" :: r => some (.prim, r)
  | n + 1, "Q" :: r => do
    let (a, r) ← pEx n r
    let (b, r) ← pEx n r
    pure (.eq a b, r)
  | n + 1, "A" :: r => do
    let (c, r) ← pCond n r
    let (d, r) ← pCond n r
    pure (.and c d, r)
  | _, _ => none

mutual
  def pSt : Nat → List String → Option (St × List String)
    | 0, _ => none
    | n + 1, "d" :: r => do let (e, r) ← pEx n r; pure (.decl e, r)
    | n + 1, "a" :: k :: r => do let kn ← k.toNat?; let (e, r) ← pEx n r; pure (.assign kn e, r)
    | n + 1, "x" :: r => do let (e, r) ← pEx n r; pure (.expr e, r)
    | n + 1, "i" :: r => do
      let (c, r) ← pCond n r
      let (t, r) ← pBlk n r
      let (e, r) ← pBlk n r
      pure (.ite c t e, r)
    | n + 1, "w" :: r => do
      let (c, r) ← pCond n r
      let (b, r) ← pBlk n r
      pure (.while c b, r)
    | _ + 1, "b" :: r => some (.brk, r)
    | _ + 1, "c" :: r => some (.cont, r)
    | n + 1, "r" :: r => do let (e, r) ← pEx n r; pure (.ret e, r)
    | n + 1, "k" :: r => do let (b, r) ← pBlk n r; pure (.block b, r)
    | _, _ => none
  def pBlk : Nat → List String → Option (Blk × List String)
    | 0, _ => none
    | n + 1, "[" :: r => pStmts n r
    | _, _ => none
  def pStmts : Nat → List String → Option (Blk × List String)
    | 0, _ => none
    | _ + 1, "]" :: r => some (.nil, r)
    | n + 1, r => do
      let (s, r) ← pSt n r
      let (b, r) ← pStmts n r
      pure (.cons s b, r)
end

/-- all branch decision sequences of a length -/
def paths : Nat → List (List Bool)
  | 0 => [[]]
  | n + 1 => (paths n).flatMap fun p => [true :: p, false :: p]

def outClass : Out → String
  | .err _ => "err" | .normal _ _ => "normal" | .brk _ _ => "brk" | .cont _ _ => "cont"
  | .ret own => if own == [] then "ret-nothing" else if own == [retSlot] then "ret-value" else "ret-leak"
  | .timeout => "timeout"

end OwnP

/-- `own <depth> <body…>`: well-scoped? the calls the compiled body contains; the outcomes over all paths of `depth` decisions -/
def cmdOwn (args : List String) : String :=
  match args with
  | d :: body =>
    match OwnP.pBlk 200 body with
    | some (b, []) =>
      let code := DDP.Own.compileFn b
      let c := DDP.Own.callCounts code
      let outs := (OwnP.paths d.toNat!).map fun p => OwnP.outClass (DDP.Own.run 12 code p [DDP.Own.paramSlot])
      let cls := ["err", "normal", "brk", "cont", "ret-nothing", "ret-value", "ret-leak", "timeout"]
      let hist := cls.map fun k => s!"{k}={(outs.filter (· == k)).length}"
      s!"wf={b2s (DDP.Own.wfB b 1 false)} fromConst={c.fromConst} copy={c.copy} free={c.free} concat={c.concat} equal={c.equal} call={c.call} " ++ " ".intercalate hist
    | _ => "bad-request"
  | _ => "bad-request"

/-! ### the ladder of the expression parser: tokens in, tree out -/
namespace LadderP
open DDP.LadderParse

def tokOf (s : String) : Option Tok :=
  if s == "(" then some .lp else if s == ")" then some .rp
  else if s == "f" then some .falls else if s == "s" then some .sonst
  else if s == "x" then some .entw else if s == "y" then some .oderk
  else match s.toList with
    | 'a' :: r => (String.ofList r).toNat?.map .atom
    | 'o' :: r => (String.ofList r).toNat?.map .bop
    | 'u' :: r => (String.ofList r).toNat?.map .uop
    | 'c' :: r => (String.ofList r).toNat?.map .cls
    | _ => none

def render : E → String
  | .atom a => s!"(atom {a})"
  | .un u e => s!"(un {u} {render e})"
  | .bin o l r => s!"(bin {o} {render l} {render r})"
  | .ite a c b => s!"(ite {render a} {render c} {render b})"
  | .xor a b => s!"(xor {render a} {render b})"

end LadderP

def cmdLadder (args : List String) : String :=
  match args.mapM LadderP.tokOf with
  | none => "bad-request"
  | some ts =>
    match DDP.LadderParse.parseAll DDP.Ladder.ddpTbl ts with
    | some e => LadderP.render e
    | none => "none"

/-! ### the constant-parameter annotator: module in, flags out -/
namespace ConstP
open DDP.ConstParam

def argOf (s : String) : Option Arg :=
  if s == "n" then some .none else if s == "u" then some .unknown
  else match s.toList with
    | 'r' :: r => (String.ofList r).toNat?.map .root
    | _ => none

def stmtOf (s : String) : Option Stmt :=
  match s.splitOn "/" with
  | ["a", t] => (argOf t).map .assign
  | "c" :: g :: args => do
      let gn ← g.toNat?
      let as ← args.mapM argOf
      pure (.call gn as)
  | _ => none

/-- `nparams:refbits:extern:stmt,stmt,…` -/
def fnOf (s : String) : Option Fn :=
  match s.splitOn ":" with
  | [n, refs, ext, body] => do
      let np ← n.toNat?
      let stmts ← (if body == "" then some [] else (body.splitOn ",").mapM stmtOf)
      pure { nparams := np, isRef := refs.toList.map (· == '1'), extern := ext == "1", body := stmts }
  | _ => none

end ConstP

def cmdConstParam (args : List String) : String :=
  match args with
  | [m] =>
    match (m.splitOn ";").mapM ConstP.fnOf with
    | some p => ";".intercalate ((DDP.ConstParam.analyse p).map fun fl => "".intercalate (fl.map fun b => if b then "1" else "0"))
    | none => "bad-request"
  | _ => "bad-request"

def dispatch (line : String) : String :=
  match (line.splitOn " ").filter (· ≠ "") with
  | "scan" :: args => cmdScan args
  | "scanfile" :: args => cmdScan args      -- the scanner reads the same bytes from a file
  | "tokcmp" :: args => cmdTokcmp args
  | "trie" :: args => cmdTrie args
  | "types" :: args => cmdTypes args
  | "lit" :: args => cmdLit args
  | "eval" :: args => cmdEval args
  | "fmt" :: args => cmdFmt args
  | "optab" :: args => cmdOptab args
  | "idxcheck" :: args => cmdIdxCheck args
  | "slicecheck" :: args => cmdSliceCheck args
  | "show" :: args => cmdText "show" args
  | "len" :: args => cmdText "len" args
  | "idx" :: args => cmdText "idx" args
  | "eq" :: args => cmdText "eq" args
  | "iter" :: args => cmdText "iter" args
  | "abs" :: args => cmdText "abs" args
  | "flt" :: args => cmdFlt args
  | "typos" :: args => cmdTypos args
  | "unify" :: args => cmdUnify args
  | "modinit" :: args => cmdModinit args
  | "visible" :: args => cmdVisible args
  | "dirwalk" :: args => cmdDirWalk args
  | "sortaliases" :: args => cmdSortAliases args
  | "resolve" :: args => cmdResolve args
  | "aliasmatch" :: args => cmdAliasMatch args
  | "ledger" :: args => cmdLedger args
  | "static" :: args => cmdStatic args
  | "rangecheck" :: args => cmdRangeCheck args
  | "duden" :: args => cmdDuden args
  | "abi" :: args => cmdAbi args
  | "own" :: args => cmdOwn args
  | "ladder" :: args => cmdLadder args
  | "constparam" :: args => cmdConstParam args
  | _ => "bad-request"


partial def loop (h : IO.FS.Stream) (out : IO.FS.Stream) : IO Unit := do
  let line ← h.getLine
  if line.isEmpty then return ()
  let l := (line.dropEndWhile (· == '\n')).toString
  out.putStrLn (dispatch l)
  loop h out

end DDP.Drv

def main : IO Unit := do
  let out ← IO.getStdout
  DDP.Drv.loop (← IO.getStdin) out
  out.flush

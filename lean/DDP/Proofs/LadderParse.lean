import DDP.Impl.LadderParse

/-!
# `parse (pp e) = e` for the ladder of left-associative chains

Core Lean only. The induction is on the tree; the statement carried through it has two halves, because the left operand of
a chain is *not* parsed by one call of a rung but by the first call plus iterations of the loop:

* `S e`  — at every rung `k`, parsing `pp k e ++ rest` gives `(e, rest)` when `rest` does not start with an operator the
  rungs `k …` would take;
* `SI e` — where a whole expression stands (`ifExpression`), parsing `ppI e ++ rest` gives `(e, rest)` when `rest` starts with
  neither an operator word nor `, falls`;
* `SX e` — as the value operand of a conditional expression (`boolXOR`): `ppX e ++ rest`, `rest` not starting with an operator
  word (`, falls` may follow);
* `S' e` — at every chain rung `j`, "first operand from rung `j+1`, then the loop of rung `j`" applied to
  `pp j e ++ rest` ends where the loop of rung `j` started with running result `e` on `rest` ends — `rest` may start with
  an operator of rung `j` itself.
-/

namespace DDP.LadderParse

variable (T : Tbl)

/-! ### the defining equations, one per branch -/

theorem parse_zero (k ts) : parse T 0 k ts = none := by simp [parse]
theorem loop_zero (k l ts) : loop T 0 k l ts = none := by simp [loop]
theorem parseIf_zero (ts) : parseIf T 0 ts = none := by simp [parseIf]
theorem loopIf_zero (l ts) : loopIf T 0 l ts = none := by simp [loopIf]
theorem parse_chain {f k ts} (h : k < T.n) :
    parse T (f+1) k ts = (parse T f (k+1) ts).bind (fun p => loop T f k p.1 p.2) := by
  simp [parse, h]
theorem parse_atom {f k a rest} (h : ¬ k < T.n) : parse T (f+1) k (.atom a :: rest) = some (.atom a, rest) := by
  simp [parse, h]
theorem parse_uop {f k u rest} (h : ¬ k < T.n) :
    parse T (f+1) k (.uop u :: rest) = (parse T f k rest).bind (fun p => some (.un u p.1, p.2)) := by
  simp [parse, h]
theorem parse_lp {f k rest} (h : ¬ k < T.n) :
    parse T (f+1) k (.lp :: rest) = (parseIf T f rest).bind closeParen := by
  simp [parse, h]
theorem parse_nil {f k} (h : ¬ k < T.n) : parse T (f+1) k [] = none := by simp [parse, h]
theorem parse_bop {f k o rest} (h : ¬ k < T.n) : parse T (f+1) k (.bop o :: rest) = none := by simp [parse, h]
theorem parse_rp {f k rest} (h : ¬ k < T.n) : parse T (f+1) k (.rp :: rest) = none := by simp [parse, h]
theorem parse_falls {f k rest} (h : ¬ k < T.n) : parse T (f+1) k (.falls :: rest) = none := by simp [parse, h]
theorem parse_sonst {f k rest} (h : ¬ k < T.n) : parse T (f+1) k (.sonst :: rest) = none := by simp [parse, h]
theorem parse_entw {f k rest} (h : ¬ k < T.n) : parse T (f+1) k (.entw :: rest) = none := by simp [parse, h]
theorem parse_oderk {f k rest} (h : ¬ k < T.n) : parse T (f+1) k (.oderk :: rest) = none := by simp [parse, h]
theorem parse_cls {f k o rest} (h : ¬ k < T.n) : parse T (f+1) k (.cls o :: rest) = none := by simp [parse, h]
theorem parseX_zero (ts) : parseX T 0 ts = none := by simp [parseX]
theorem parseX_entw {f rest} :
    parseX T (f+1) (.entw :: rest) = ((parse T f 0 rest).bind expectOderk).bind (fun pa =>
      (parse T f 0 pa.2).bind (fun pb => some (.xor pa.1 pb.1, pb.2))) := by
  simp [parseX]
theorem parseX_other {f ts} (h : ∀ r, ts ≠ .entw :: r) : parseX T (f+1) ts = parse T f 0 ts := by
  cases ts with
  | nil => simp [parseX]
  | cons t r => cases t <;> simp_all [parseX]
theorem loop_bop_eq {f k l o rest} (h : T.lv o = k) :
    loop T (f+1) k l (.bop o :: rest) =
      ((parse T f (k+1) rest).bind (expectCl T o)).bind (fun p => loop T f k (.bin o l p.1) p.2) := by
  simp [loop, h]
theorem loop_bop_ne {f k l o rest} (h : T.lv o ≠ k) :
    loop T (f+1) k l (.bop o :: rest) = some (l, .bop o :: rest) := by
  simp [loop, h]
theorem loop_other {f k l ts} (h : ∀ o r, ts ≠ .bop o :: r) : loop T (f+1) k l ts = some (l, ts) := by
  cases ts with
  | nil => simp [loop]
  | cons t r => cases t <;> simp_all [loop]
theorem parseIf_succ {f ts} : parseIf T (f+1) ts = (parseX T f ts).bind (fun p => loopIf T f p.1 p.2) := by
  simp [parseIf]
theorem loopIf_falls {f l rest} :
    loopIf T (f+1) l (.falls :: rest) = ((parseIf T f rest).bind expectSonst).bind (fun pc =>
        (parseIf T f pc.2).bind (fun pb => loopIf T f (.ite l pc.1 pb.1) pb.2)) := by
  simp [loopIf]
theorem loopIf_other {f l ts} (h : ∀ r, ts ≠ .falls :: r) : loopIf T (f+1) l ts = some (l, ts) := by
  cases ts with
  | nil => simp [loopIf]
  | cons t r => cases t <;> simp_all [loopIf]

/-! ### more fuel never changes an answer -/

theorem mono_step : ∀ f,
    (∀ k ts x, parse T f k ts = some x → parse T (f+1) k ts = some x) ∧
    (∀ k l ts x, loop T f k l ts = some x → loop T (f+1) k l ts = some x) ∧
    (∀ ts x, parseIf T f ts = some x → parseIf T (f+1) ts = some x) ∧
    (∀ l ts x, loopIf T f l ts = some x → loopIf T (f+1) l ts = some x) ∧
    (∀ ts x, parseX T f ts = some x → parseX T (f+1) ts = some x) := by
  intro f
  induction f with
  | zero => refine ⟨?_, ?_, ?_, ?_, ?_⟩ <;> intros <;> simp_all [parse_zero, loop_zero, parseIf_zero, loopIf_zero, parseX_zero]
  | succ f ih =>
    obtain ⟨ihp, ihl, ihpI, ihlI, ihpX⟩ := ih
    refine ⟨?_, ?_, ?_, ?_, ?_⟩
    · intro k ts x h
      by_cases hk : k < T.n
      · rw [parse_chain T hk] at h ⊢
        cases hp : parse T f (k+1) ts with
        | none => simp [hp] at h
        | some p =>
          simp only [hp, Option.bind_some] at h
          simp only [ihp _ _ _ hp, Option.bind_some]
          exact ihl _ _ _ _ h
      · cases ts with
        | nil => simp [parse_nil T hk] at h
        | cons t rest =>
          cases t with
          | atom a => rw [parse_atom T hk] at h ⊢; exact h
          | bop o => simp [parse_bop T hk] at h
          | rp => simp [parse_rp T hk] at h
          | falls => simp [parse_falls T hk] at h
          | sonst => simp [parse_sonst T hk] at h
          | entw => simp [parse_entw T hk] at h
          | oderk => simp [parse_oderk T hk] at h
          | cls o => simp [parse_cls T hk] at h
          | uop u =>
            rw [parse_uop T hk] at h ⊢
            cases hp : parse T f k rest with
            | none => simp [hp] at h
            | some p =>
              simp only [hp, Option.bind_some] at h
              simp only [ihp _ _ _ hp, Option.bind_some]; exact h
          | lp =>
            rw [parse_lp T hk] at h ⊢
            cases hp : parseIf T f rest with
            | none => simp [hp] at h
            | some p =>
              simp only [hp, Option.bind_some] at h
              simp only [ihpI _ _ hp, Option.bind_some]; exact h
    · intro k l ts x h
      by_cases hb : ∃ o r, ts = .bop o :: r
      · obtain ⟨o, rest, rfl⟩ := hb
        by_cases ho : T.lv o = k
        · rw [loop_bop_eq T ho] at h ⊢
          cases hp : parse T f (k+1) rest with
          | none => simp [hp] at h
          | some p0 =>
            simp only [hp, Option.bind_some] at h
            cases he : expectCl T o p0 with
            | none => simp [he] at h
            | some p =>
              simp only [he, Option.bind_some] at h
              simp only [ihp _ _ _ hp, Option.bind_some, he]
              exact ihl _ _ _ _ h
        · rw [loop_bop_ne T ho] at h ⊢; exact h
      · have hb' : ∀ o r, ts ≠ .bop o :: r := fun o r hh => hb ⟨o, r, hh⟩
        rw [loop_other T hb'] at h ⊢; exact h
    · intro ts x h
      rw [parseIf_succ] at h ⊢
      cases hp : parseX T f ts with
      | none => simp [hp] at h
      | some p =>
        simp only [hp, Option.bind_some] at h
        simp only [ihpX _ _ hp, Option.bind_some]
        exact ihlI _ _ _ h
    · intro l ts x h
      by_cases hb : ∃ r, ts = .falls :: r
      · obtain ⟨rest, rfl⟩ := hb
        rw [loopIf_falls] at h ⊢
        cases hp : parseIf T f rest with
        | none => simp [hp] at h
        | some p1 =>
          simp only [hp, Option.bind_some] at h
          cases he : expectSonst p1 with
          | none => simp [he] at h
          | some pc =>
            simp only [he, Option.bind_some] at h
            cases hp2 : parseIf T f pc.2 with
            | none => simp [hp2] at h
            | some pb =>
              simp only [hp2, Option.bind_some] at h
              simp only [ihpI _ _ hp, Option.bind_some, he, ihpI _ _ hp2]
              exact ihlI _ _ _ h
      · have hb' : ∀ r, ts ≠ .falls :: r := fun r hh => hb ⟨r, hh⟩
        rw [loopIf_other T hb'] at h ⊢; exact h
    · intro ts x h
      by_cases hb : ∃ r, ts = .entw :: r
      · obtain ⟨rest, rfl⟩ := hb
        rw [parseX_entw] at h ⊢
        cases hp : parse T f 0 rest with
        | none => simp [hp] at h
        | some p1 =>
          simp only [hp, Option.bind_some] at h
          cases he : expectOderk p1 with
          | none => simp [he] at h
          | some pa =>
            simp only [he, Option.bind_some] at h
            cases hp2 : parse T f 0 pa.2 with
            | none => simp [hp2] at h
            | some pb =>
              simp only [hp2, Option.bind_some] at h
              simp only [ihp _ _ _ hp, Option.bind_some, he, ihp _ _ _ hp2]
              exact h
      · have hb' : ∀ r, ts ≠ .entw :: r := fun r hh => hb ⟨r, hh⟩
        rw [parseX_other T hb'] at h ⊢; exact ihp _ _ _ h

theorem parse_mono {f f' k ts x} (hle : f ≤ f') (h : parse T f k ts = some x) : parse T f' k ts = some x := by
  induction hle with
  | refl => exact h
  | step _ ih => exact (mono_step T _).1 _ _ _ ih

theorem loop_mono {f f' k l ts x} (hle : f ≤ f') (h : loop T f k l ts = some x) : loop T f' k l ts = some x := by
  induction hle with
  | refl => exact h
  | step _ ih => exact (mono_step T _).2.1 _ _ _ _ ih

theorem parseIf_mono {f f' ts x} (hle : f ≤ f') (h : parseIf T f ts = some x) : parseIf T f' ts = some x := by
  induction hle with
  | refl => exact h
  | step _ ih => exact (mono_step T _).2.2.1 _ _ ih

theorem loopIf_mono {f f' l ts x} (hle : f ≤ f') (h : loopIf T f l ts = some x) : loopIf T f' l ts = some x := by
  induction hle with
  | refl => exact h
  | step _ ih => exact (mono_step T _).2.2.2.1 _ _ _ ih

theorem parseX_mono {f f' ts x} (hle : f ≤ f') (h : parseX T f ts = some x) : parseX T f' ts = some x := by
  induction hle with
  | refl => exact h
  | step _ ih => exact (mono_step T _).2.2.2.2 _ _ ih

/-- the parser is a function: two runs that both finish agree, whatever fuel they had -/
theorem parse_det {f f' k ts x y} (h : parse T f k ts = some x) (h' : parse T f' k ts = some y) : x = y := by
  have a := parse_mono T (Nat.le_max_left f f') h
  have b := parse_mono T (Nat.le_max_right f f') h'
  rw [a] at b; exact Option.some.inj b

theorem parseIf_det {f f' ts x y} (h : parseIf T f ts = some x) (h' : parseIf T f' ts = some y) : x = y := by
  have a := parseIf_mono T (Nat.le_max_left f f') h
  have b := parseIf_mono T (Nat.le_max_right f f') h'
  rw [a] at b; exact Option.some.inj b

/-! ### loops that have nothing to take, and walking down the rungs -/

theorem loop_pass {f k e rest} (h : ∀ o r, rest = .bop o :: r → T.lv o ≠ k) :
    loop T (f+1) k e rest = some (e, rest) := by
  by_cases hb : ∃ o r, rest = .bop o :: r
  · obtain ⟨o, r, rfl⟩ := hb
    exact loop_bop_ne T (h o r rfl)
  · exact loop_other T (fun o r hh => hb ⟨o, r, hh⟩)

/-- a result obtained at rung `j` is the result at every looser rung `k`, provided no rung in between takes what follows -/
theorem descend : ∀ d k j ts e rest, k + d = j → j ≤ T.n →
    (∃ f, parse T f j ts = some (e, rest)) →
    (∀ o r, rest = .bop o :: r → T.lv o < k ∨ j ≤ T.lv o) →
    ∃ f, parse T f k ts = some (e, rest) := by
  intro d
  induction d with
  | zero => intro k j ts e rest hkj _ h _; have : k = j := by omega
            subst this; exact h
  | succ d ih =>
    intro k j ts e rest hkj hj h hrest
    have hk : k < T.n := by omega
    obtain ⟨f, hf⟩ := ih (k+1) j ts e rest (by omega) hj h
      (fun o r hr => by rcases hrest o r hr with h1 | h1 <;> omega)
    refine ⟨f+2, ?_⟩
    rw [parse_chain T hk, parse_mono T (Nat.le_succ f) hf]
    simp only [Option.bind_some]
    exact loop_pass T (fun o r hr => by rcases hrest o r hr with h1 | h1 <;> omega)

/-! ### the halves of the induction -/

def S (e : E) : Prop :=
  ∀ k, k ≤ T.n → ∀ rest, okRest T k rest → ∃ f, parse T f k (pp T k e ++ rest) = some (e, rest)

def S' (e : E) : Prop :=
  ∀ j, j < T.n → ∀ rest X, okRest T (j+1) rest → (∃ f, loop T f j e rest = some X) →
    ∃ f, (parse T f (j+1) (pp T j e ++ rest)).bind (fun p => loop T f j p.1 p.2) = some X

/-- where a whole `ifExpression` is expected -/
def SI (e : E) : Prop :=
  ∀ rest, okRestI rest → ∃ f, parseIf T f (ppI T e ++ rest) = some (e, rest)

/-- as the value operand of a conditional expression (`boolXOR`); `, falls` may follow -/
def SX (e : E) : Prop :=
  ∀ rest, (∀ o r, rest ≠ .bop o :: r) → ∃ f, parseX T f (ppX T e ++ rest) = some (e, rest)

/-- when the operand prints the same at rung `j` and `j+1`, the first call already delivers it -/
theorem S'_of_S {e : E} (hS : S T e) (j : Nat) (hpp : pp T j e = pp T (j+1) e) (hj : j < T.n) :
    ∀ rest X, okRest T (j+1) rest → (∃ f, loop T f j e rest = some X) →
    ∃ f, (parse T f (j+1) (pp T j e ++ rest)).bind (fun p => loop T f j p.1 p.2) = some X := by
  intro rest X hok ⟨f2, h2⟩
  obtain ⟨f1, h1⟩ := hS (j+1) (by omega) rest hok
  refine ⟨max f1 f2, ?_⟩
  rw [hpp, parse_mono T (Nat.le_max_left f1 f2) h1]
  simp only [Option.bind_some]
  exact loop_mono T (Nat.le_max_right f1 f2) h2

theorem okRest_mono {k k' rest} (h : okRest T k rest) (hle : k ≤ k') : okRest T k' rest :=
  fun o r hr => Nat.lt_of_lt_of_le (h o r hr) hle

theorem S_atom (a : Nat) : S T (.atom a) := by
  intro k hk rest hok
  apply descend T (T.n - k) k T.n _ _ _ (by omega) (Nat.le_refl _)
  · exact ⟨1, by simp [pp, parse_atom T (Nat.lt_irrefl _)]⟩
  · intro o r hr; exact Or.inl (hok o r hr)

theorem S_un (u : Nat) (e : E) (ih : S T e) : S T (.un u e) := by
  intro k hk rest hok
  apply descend T (T.n - k) k T.n _ _ _ (by omega) (Nat.le_refl _)
  · obtain ⟨f, hf⟩ := ih T.n (Nat.le_refl _) rest (okRest_mono T hok hk)
    refine ⟨f+1, ?_⟩
    simp only [pp, List.cons_append]
    rw [parse_uop T (Nat.lt_irrefl _), hf]; rfl
  · intro o r hr; exact Or.inl (hok o r hr)

theorem pp_bin_open {o l r k} (h : ¬ T.lv o < k) :
    pp T k (.bin o l r) = pp T (T.lv o) l ++ .bop o :: (pp T (T.lv o + 1) r ++ clTok T o) := by
  simp [pp, wrap, h]

theorem pp_bin_closed {o l r k} (h : T.lv o < k) :
    pp T k (.bin o l r) = .lp :: ((pp T (T.lv o) l ++ .bop o :: (pp T (T.lv o + 1) r ++ clTok T o)) ++ [.rp]) := by
  simp [pp, wrap, h]

theorem okRest_clTok {k o rest} (h : okRest T k rest) : okRest T k (clTok T o ++ rest) := by
  unfold clTok
  split
  · intro o' r' hr; cases hr
  · simpa using h

theorem expectCl_clTok (o : Nat) (e : E) (rest : List Tok) : expectCl T o (e, clTok T o ++ rest) = some (e, rest) := by
  unfold expectCl clTok
  split <;> simp

/-- `S'` of a chain node at its own rung, from its operands -/
theorem S'_bin_own (o : Nat) (l r : E) (ho : T.lv o < T.n) (ihl' : S' T l) (ihr : S T r) :
    ∀ rest X, okRest T (T.lv o + 1) rest → (∃ f, loop T f (T.lv o) (.bin o l r) rest = some X) →
    ∃ f, (parse T f (T.lv o + 1) (pp T (T.lv o) (.bin o l r) ++ rest)).bind
      (fun p => loop T f (T.lv o) p.1 p.2) = some X := by
  intro rest X hok ⟨f1, h1⟩
  rw [pp_bin_open T (Nat.lt_irrefl _), List.append_assoc, List.cons_append, List.append_assoc]
  apply ihl' (T.lv o) ho (.bop o :: (pp T (T.lv o + 1) r ++ (clTok T o ++ rest))) X
  · intro o' r' hr
    have : o = o' := by injection hr with h1 _; injection h1
    subst this; omega
  · obtain ⟨f2, h2⟩ := ihr (T.lv o + 1) (by omega) (clTok T o ++ rest) (okRest_clTok T hok)
    refine ⟨max f1 f2 + 1, ?_⟩
    rw [loop_bop_eq T rfl, parse_mono T (Nat.le_max_right f1 f2) h2]
    simp only [Option.bind_some, expectCl_clTok]
    exact loop_mono T (Nat.le_max_left f1 f2) h1

/-- what a chain rung prints never starts with `entweder` -/
theorem pp_no_entw : ∀ (e : E) (k : Nat) (rest r : List Tok), pp T k e ++ rest ≠ .entw :: r := by
  intro e
  induction e with
  | atom a => intro k rest r h; simp [pp] at h
  | un u e _ => intro k rest r h; simp [pp] at h
  | bin o l r' ihl _ =>
    intro k rest r h
    by_cases hlt : T.lv o < k
    · rw [pp_bin_closed T hlt] at h; simp at h
    · rw [pp_bin_open T hlt, List.append_assoc] at h
      exact ihl _ _ _ h
  | ite a c b _ _ _ => intro k rest r h; simp [pp] at h
  | xor a b _ _ => intro k rest r h; simp [pp] at h

/-- what prints at `boolXOR` like at chain rung 0 (everything but `entweder`) is read by chain rung 0 -/
theorem SX_of_S {e : E} (hpp : ppX T e = pp T 0 e) (hS : S T e) : SX T e := by
  intro rest hok
  obtain ⟨f, hf⟩ := hS 0 (Nat.zero_le _) rest (fun o r hr => absurd hr (hok o r))
  refine ⟨f + 1, ?_⟩
  rw [hpp, parseX_other T (fun r => pp_no_entw T e 0 rest r), hf]

/-- where a whole expression prints like a `boolXOR` operand (everything but a conditional expression) -/
theorem SI_of_SX {e : E} (hpp : ppI T e = ppX T e) (hSX : SX T e) : SI T e := by
  intro rest hok
  obtain ⟨f, hf⟩ := hSX rest hok.1
  refine ⟨f + 2, ?_⟩
  rw [parseIf_succ, hpp, parseX_mono T (Nat.le_succ f) hf]
  simp only [Option.bind_some]
  exact loopIf_other T hok.2

/-- the open cases of a chain node (rungs at or above its own: no parentheses) -/
theorem S_bin_open (o : Nat) (l r : E) (ho : T.lv o < T.n) (ihl' : S' T l) (ihr : S T r) :
    ∀ k, k ≤ T.lv o → ∀ rest, okRest T k rest →
      ∃ f, parse T f k (pp T k (.bin o l r) ++ rest) = some (.bin o l r, rest) := by
  intro k hk rest hok
  have hpp : pp T k (.bin o l r) = pp T (T.lv o) (.bin o l r) := by
    rw [pp_bin_open T (by omega), pp_bin_open T (Nat.lt_irrefl _)]
  rw [hpp]
  apply descend T (T.lv o - k) k (T.lv o) _ _ _ (by omega) (by omega)
  · obtain ⟨f, hf⟩ := S'_bin_own T o l r ho ihl' ihr rest (.bin o l r, rest)
      (okRest_mono T hok (by omega))
      ⟨1, loop_pass T (fun o' r' hr => by have := hok o' r' hr; omega)⟩
    exact ⟨f+1, by rw [parse_chain T ho]; exact hf⟩
  · intro o' r' hr; exact Or.inl (hok o' r' hr)

theorem ppX_bin {o l r} : ppX T (.bin o l r) = pp T 0 (.bin o l r) := by
  rw [pp_bin_open T (Nat.not_lt_zero _)]; simp [ppX]

theorem S_bin0 (o : Nat) (l r : E) (ho : T.lv o < T.n) (ihl' : S' T l) (ihr : S T r) :
    ∀ rest, (∀ o' r', rest ≠ .bop o' :: r') → ∃ f, parse T f 0 (pp T 0 (.bin o l r) ++ rest) = some (.bin o l r, rest) :=
  fun rest hok => S_bin_open T o l r ho ihl' ihr 0 (Nat.zero_le _) rest (fun o' r' hr => absurd hr (hok o' r'))

theorem SX_bin (o : Nat) (l r : E) (ho : T.lv o < T.n) (ihl' : S' T l) (ihr : S T r) : SX T (.bin o l r) := by
  intro rest hok
  obtain ⟨f, hf⟩ := S_bin0 T o l r ho ihl' ihr rest hok
  refine ⟨f + 1, ?_⟩
  rw [ppX_bin, parseX_other T (fun r' => pp_no_entw T _ 0 rest r'), hf]

theorem SI_bin (o : Nat) (l r : E) (ho : T.lv o < T.n) (ihl' : S' T l) (ihr : S T r) : SI T (.bin o l r) :=
  SI_of_SX T rfl (SX_bin T o l r ho ihl' ihr)

/-- an operand in parentheses: `primary` reads `(`, `ifExpression` reads the operand, `)` follows -/
theorem S_paren {e : E} (hSI : SI T e) (k : Nat) (hk : k ≤ T.n) (rest : List Tok) (hok : okRest T k rest) :
    ∃ f, parse T f k (.lp :: ((ppI T e) ++ [.rp]) ++ rest) = some (e, rest) := by
  apply descend T (T.n - k) k T.n _ _ _ (by omega) (Nat.le_refl _)
  · obtain ⟨f, hf⟩ := hSI (.rp :: rest) ⟨fun o r h => (by cases h), fun r h => (by cases h)⟩
    refine ⟨f+1, ?_⟩
    simp only [List.cons_append, List.append_assoc, List.nil_append] at hf ⊢
    rw [parse_lp T (Nat.lt_irrefl _), hf]
    rfl
  · intro o' r' hr; exact Or.inl (hok o' r' hr)

theorem S_bin (o : Nat) (l r : E) (ho : T.lv o < T.n) (ihl' : S' T l) (ihr : S T r) : S T (.bin o l r) := by
  intro k hk rest hok
  by_cases hlt : T.lv o < k
  · rw [pp_bin_closed T hlt]
    have := S_paren T (SI_bin T o l r ho ihl' ihr) k hk rest hok
    simpa [ppI] using this
  · exact S_bin_open T o l r ho ihl' ihr k (by omega) rest hok

theorem S'_bin (o : Nat) (l r : E) (ho : T.lv o < T.n) (ihl' : S' T l) (ihr : S T r) : S' T (.bin o l r) := by
  intro j hj rest X hok hloop
  by_cases hjo : j = T.lv o
  · subst hjo; exact S'_bin_own T o l r ho ihl' ihr rest X hok hloop
  · apply S'_of_S T (S_bin T o l r ho ihl' ihr) j _ hj rest X hok hloop
    by_cases hlt : T.lv o < j
    · rw [pp_bin_closed T hlt, pp_bin_closed T (by omega)]
    · rw [pp_bin_open T hlt, pp_bin_open T (by omega)]

/-- `a, falls c, ansonsten b` where a whole `ifExpression` is expected -/
theorem SI_ite (a c b : E) (iha : SX T a) (ihc : SI T c) (ihb : SI T b) : SI T (.ite a c b) := by
  intro rest hok
  obtain ⟨f3, h3⟩ := ihb rest hok
  obtain ⟨f2, h2⟩ := ihc (.sonst :: (ppI T b ++ rest)) ⟨fun o r h => (by cases h), fun r h => (by cases h)⟩
  obtain ⟨f1, h1⟩ := iha (.falls :: (ppI T c ++ .sonst :: (ppI T b ++ rest))) (fun o r h => by cases h)
  have hpp : ppI T (.ite a c b) ++ rest = ppX T a ++ .falls :: (ppI T c ++ .sonst :: (ppI T b ++ rest)) := by
    simp [ppI]
  let F' := max (max f2 f3) 1
  have hF'1 : 1 ≤ F' := Nat.le_max_right _ _
  have hF'2 : f2 ≤ F' := Nat.le_trans (Nat.le_max_left f2 f3) (Nat.le_max_left _ _)
  have hF'3 : f3 ≤ F' := Nat.le_trans (Nat.le_max_right f2 f3) (Nat.le_max_left _ _)
  let F := max f1 (F' + 1)
  refine ⟨F + 1, ?_⟩
  rw [hpp, parseIf_succ, parseX_mono T (Nat.le_max_left f1 (F'+1)) h1]
  simp only [Option.bind_some]
  apply loopIf_mono T (Nat.le_max_right f1 (F'+1))
  rw [loopIf_falls, parseIf_mono T hF'2 h2]
  simp only [Option.bind_some, expectSonst]
  rw [parseIf_mono T hF'3 h3]
  simp only [Option.bind_some]
  obtain ⟨g, hg⟩ : ∃ g, F' = g + 1 := ⟨F' - 1, by omega⟩
  rw [hg]
  exact loopIf_other T hok.2

/-- `entweder a, oder b` as a `boolXOR` operand -/
theorem SX_xor (a b : E) (iha : S T a) (ihb : S T b) : SX T (.xor a b) := by
  intro rest hok
  obtain ⟨f2, h2⟩ := ihb 0 (Nat.zero_le _) rest (fun o r hr => absurd hr (hok o r))
  obtain ⟨f1, h1⟩ := iha 0 (Nat.zero_le _) (.oderk :: (pp T 0 b ++ rest)) (fun o r h => by cases h)
  have hpp : ppX T (.xor a b) ++ rest = .entw :: (pp T 0 a ++ .oderk :: (pp T 0 b ++ rest)) := by simp [ppX]
  refine ⟨max f1 f2 + 1, ?_⟩
  rw [hpp, parseX_entw, parse_mono T (Nat.le_max_left f1 f2) h1]
  simp only [Option.bind_some, expectOderk]
  rw [parse_mono T (Nat.le_max_right f1 f2) h2]
  rfl

theorem S_xor (a b : E) (hSI : SI T (.xor a b)) : S T (.xor a b) := by
  intro k hk rest hok
  have := S_paren T hSI k hk rest hok
  simpa [pp, ppI] using this

theorem S_ite (a c b : E) (hSI : SI T (.ite a c b)) : S T (.ite a c b) := by
  intro k hk rest hok
  have := S_paren T hSI k hk rest hok
  simpa [pp, ppI] using this

theorem both : ∀ e, wf T e → S T e ∧ S' T e ∧ SI T e ∧ SX T e := by
  intro e
  induction e with
  | atom a =>
    intro _
    have hx := SX_of_S T rfl (S_atom T a)
    exact ⟨S_atom T a, fun j hj => S'_of_S T (S_atom T a) j rfl hj, SI_of_SX T rfl hx, hx⟩
  | un u e ih =>
    intro h
    have hs := S_un T u e (ih h).1
    have hx := SX_of_S T rfl hs
    exact ⟨hs, fun j hj => S'_of_S T hs j rfl hj, SI_of_SX T rfl hx, hx⟩
  | bin o l r ihl ihr =>
    intro h
    obtain ⟨ho, hl, hr⟩ := h
    exact ⟨S_bin T o l r ho (ihl hl).2.1 (ihr hr).1, S'_bin T o l r ho (ihl hl).2.1 (ihr hr).1,
           SI_bin T o l r ho (ihl hl).2.1 (ihr hr).1, SX_bin T o l r ho (ihl hl).2.1 (ihr hr).1⟩
  | ite a c b iha ihc ihb =>
    intro h
    obtain ⟨ha, hc, hb⟩ := h
    have hsi := SI_ite T a c b (iha ha).2.2.2 (ihc hc).2.2.1 (ihb hb).2.2.1
    have hs := S_ite T a c b hsi
    exact ⟨hs, fun j hj => S'_of_S T hs j rfl hj, hsi, SX_of_S T rfl hs⟩
  | xor a b iha ihb =>
    intro h
    obtain ⟨ha, hb⟩ := h
    have hx := SX_xor T a b (iha ha).1 (ihb hb).1
    have hsi := SI_of_SX T rfl hx
    have hs := S_xor T a b hsi
    exact ⟨hs, fun j hj => S'_of_S T hs j rfl hj, hsi, hx⟩

/-! ### the theorem -/

/-- **Parsing what the minimal-parentheses printer printed gives back the tree** — at every chain rung, with anything
behind it that the rung would not take as an operator of its own. -/
theorem parse_pp_at (e : E) (hwf : wf T e) (k : Nat) (hk : k ≤ T.n) (rest : List Tok) (hok : okRest T k rest) :
    ∃ f, parse T f k (pp T k e ++ rest) = some (e, rest) :=
  (both T e hwf).1 k hk rest hok

/-- the same where a whole expression is expected (`ifExpression`: top level, inside parentheses, condition and
alternative of a conditional expression) -/
theorem parseIf_pp_at (e : E) (hwf : wf T e) (rest : List Tok) (hok : okRestI rest) :
    ∃ f, parseIf T f (ppI T e ++ rest) = some (e, rest) :=
  (both T e hwf).2.2.1 rest hok

/-- the whole expression: nothing left over -/
theorem parse_pp (e : E) (hwf : wf T e) : ∃ f, parseIf T f (ppI T e) = some (e, []) := by
  have := parseIf_pp_at T e hwf [] ⟨fun o r h => (by cases h), fun r h => (by cases h)⟩
  simpa using this

/-- **Minimal parentheses lose nothing**: two trees that print alike are the same tree. -/
theorem pp_injective (e₁ e₂ : E) (h₁ : wf T e₁) (h₂ : wf T e₂) (h : ppI T e₁ = ppI T e₂) : e₁ = e₂ := by
  obtain ⟨f1, p1⟩ := parse_pp T e₁ h₁
  obtain ⟨f2, p2⟩ := parse_pp T e₂ h₂
  rw [h] at p1
  have := parseIf_det T p1 p2
  exact (Prod.mk.inj this).1

/-- the answer does not depend on the fuel once there is enough of it -/
theorem parse_pp_stable (e : E) (hwf : wf T e) : ∃ f₀, ∀ f, f₀ ≤ f → parseIf T f (ppI T e) = some (e, []) := by
  obtain ⟨f0, h⟩ := parse_pp T e hwf
  exact ⟨f0, fun f hle => parseIf_mono T hle h⟩


/-! ### progress: a rung that succeeds has consumed at least one token -/

theorem closeParen_len {p x} (h : closeParen p = some x) : x.2.length < p.2.length := by
  unfold closeParen at h
  split at h
  · next rest' hp => cases h; simp [hp]
  · cases h

theorem expectCl_len {o p x} (h : expectCl T o p = some x) : x.2.length ≤ p.2.length := by
  unfold expectCl at h
  split at h
  · split at h
    · next o' rest' hp =>
      split at h
      · cases h; simp [hp]
      · cases h
    · cases h
  · cases h; exact Nat.le_refl _

theorem expectOderk_len {p x} (h : expectOderk p = some x) : x.2.length < p.2.length := by
  unfold expectOderk at h
  split at h
  · next rest' hp => cases h; simp [hp]
  · cases h

theorem expectSonst_len {p x} (h : expectSonst p = some x) : x.2.length < p.2.length := by
  unfold expectSonst at h
  split at h
  · next rest' hp => cases h; simp [hp]
  · cases h

theorem progress : ∀ f,
    (∀ k ts x, parse T f k ts = some x → x.2.length < ts.length) ∧
    (∀ k l ts x, loop T f k l ts = some x → x.2.length ≤ ts.length) ∧
    (∀ ts x, parseIf T f ts = some x → x.2.length < ts.length) ∧
    (∀ l ts x, loopIf T f l ts = some x → x.2.length ≤ ts.length) ∧
    (∀ ts x, parseX T f ts = some x → x.2.length < ts.length) := by
  intro f
  induction f with
  | zero => refine ⟨?_, ?_, ?_, ?_, ?_⟩ <;> intros <;> simp_all [parse_zero, loop_zero, parseIf_zero, loopIf_zero, parseX_zero]
  | succ f ih =>
    obtain ⟨ihp, ihl, ihpI, ihlI, ihpX⟩ := ih
    refine ⟨?_, ?_, ?_, ?_, ?_⟩
    · intro k ts x h
      by_cases hk : k < T.n
      · rw [parse_chain T hk] at h
        cases hp : parse T f (k+1) ts with
        | none => simp [hp] at h
        | some p =>
          simp only [hp, Option.bind_some] at h
          have a := ihp _ _ _ hp
          have b := ihl _ _ _ _ h
          omega
      · cases ts with
        | nil => simp [parse_nil T hk] at h
        | cons t rest =>
          cases t with
          | atom a => rw [parse_atom T hk] at h; cases h; simp
          | bop o => simp [parse_bop T hk] at h
          | rp => simp [parse_rp T hk] at h
          | falls => simp [parse_falls T hk] at h
          | sonst => simp [parse_sonst T hk] at h
          | entw => simp [parse_entw T hk] at h
          | oderk => simp [parse_oderk T hk] at h
          | cls o => simp [parse_cls T hk] at h
          | uop u =>
            rw [parse_uop T hk] at h
            cases hp : parse T f k rest with
            | none => simp [hp] at h
            | some p =>
              simp only [hp, Option.bind_some] at h
              cases h
              have a := ihp _ _ _ hp
              simp only [List.length_cons]; omega
          | lp =>
            rw [parse_lp T hk] at h
            cases hp : parseIf T f rest with
            | none => simp [hp] at h
            | some p =>
              simp only [hp, Option.bind_some] at h
              have a := ihpI _ _ hp
              have b := closeParen_len h
              simp only [List.length_cons]; omega
    · intro k l ts x h
      by_cases hb : ∃ o r, ts = .bop o :: r
      · obtain ⟨o, rest, rfl⟩ := hb
        by_cases ho : T.lv o = k
        · rw [loop_bop_eq T ho] at h
          cases hp : parse T f (k+1) rest with
          | none => simp [hp] at h
          | some p0 =>
            simp only [hp, Option.bind_some] at h
            cases he : expectCl T o p0 with
            | none => simp [he] at h
            | some p =>
              simp only [he, Option.bind_some] at h
              have a := ihp _ _ _ hp
              have a' := expectCl_len T he
              have b := ihl _ _ _ _ h
              simp only [List.length_cons]; omega
        · rw [loop_bop_ne T ho] at h; cases h; simp
      · have hb' : ∀ o r, ts ≠ .bop o :: r := fun o r hh => hb ⟨o, r, hh⟩
        rw [loop_other T hb'] at h; cases h; simp
    · intro ts x h
      rw [parseIf_succ] at h
      cases hp : parseX T f ts with
      | none => simp [hp] at h
      | some p =>
        simp only [hp, Option.bind_some] at h
        have a := ihpX _ _ hp
        have b := ihlI _ _ _ h
        omega
    · intro l ts x h
      by_cases hb : ∃ r, ts = .falls :: r
      · obtain ⟨rest, rfl⟩ := hb
        rw [loopIf_falls] at h
        cases hp : parseIf T f rest with
        | none => simp [hp] at h
        | some p1 =>
          simp only [hp, Option.bind_some] at h
          cases he : expectSonst p1 with
          | none => simp [he] at h
          | some pc =>
            simp only [he, Option.bind_some] at h
            cases hp2 : parseIf T f pc.2 with
            | none => simp [hp2] at h
            | some pb =>
              simp only [hp2, Option.bind_some] at h
              have a := ihpI _ _ hp
              have b := expectSonst_len he
              have c := ihpI _ _ hp2
              have d := ihlI _ _ _ h
              simp only [List.length_cons]; omega
      · have hb' : ∀ r, ts ≠ .falls :: r := fun r hh => hb ⟨r, hh⟩
        rw [loopIf_other T hb'] at h; cases h; simp
    · intro ts x h
      by_cases hb : ∃ r, ts = .entw :: r
      · obtain ⟨rest, rfl⟩ := hb
        rw [parseX_entw] at h
        cases hp : parse T f 0 rest with
        | none => simp [hp] at h
        | some p1 =>
          simp only [hp, Option.bind_some] at h
          cases he : expectOderk p1 with
          | none => simp [he] at h
          | some pa =>
            simp only [he, Option.bind_some] at h
            cases hp2 : parse T f 0 pa.2 with
            | none => simp [hp2] at h
            | some pb =>
              simp only [hp2, Option.bind_some] at h
              cases h
              have a := ihp _ _ _ hp
              have b := expectOderk_len he
              have c := ihp _ _ _ hp2
              simp only [List.length_cons]; omega
      · have hb' : ∀ r, ts ≠ .entw :: r := fun r hh => hb ⟨r, hh⟩
        rw [parseX_other T hb'] at h
        exact ihp _ _ _ h

/-! ### the fuel that always suffices -/

/-- fuel for chain rung `k` (or `unary` / `primary`) on `ts` -/
def bound (k : Nat) (ts : List Tok) : Nat := ts.length * (T.n + 5) + (T.n + 1 - k)
/-- fuel for `ifExpression` on `ts` -/
def boundI (ts : List Tok) : Nat := ts.length * (T.n + 5) + (T.n + 3)
/-- fuel for `boolXOR` on `ts` -/
def boundX (ts : List Tok) : Nat := ts.length * (T.n + 5) + (T.n + 2)
/-- fuel for the loop of a rung on `ts` -/
def lbound (ts : List Tok) : Nat := ts.length * (T.n + 5) + 1

theorem mul_mono_len {a b : Nat} (c : Nat) (h : a < b) : a * c + c ≤ b * c := by
  have : (a + 1) * c ≤ b * c := Nat.mul_le_mul_right c h
  rw [Nat.add_mul, Nat.one_mul] at this; exact this

/-- **Whatever some amount of fuel achieves, the bound achieves** — the result of a rung does not depend on the fuel beyond
`bound`, so the ladder needs no fuel at all: it terminates because every call either moves to a tighter rung (of which there
are `n + 1`) or has consumed a token. -/
theorem fuel_suffices : ∀ f,
    (∀ k ts x, parse T f k ts = some x → parse T (bound T k ts) k ts = some x) ∧
    (∀ k l ts x, loop T f k l ts = some x → loop T (lbound T ts) k l ts = some x) ∧
    (∀ ts x, parseIf T f ts = some x → parseIf T (boundI T ts) ts = some x) ∧
    (∀ l ts x, loopIf T f l ts = some x → loopIf T (lbound T ts) l ts = some x) ∧
    (∀ ts x, parseX T f ts = some x → parseX T (boundX T ts) ts = some x) := by
  intro f
  induction f with
  | zero => refine ⟨?_, ?_, ?_, ?_, ?_⟩ <;> intros <;> simp_all [parse_zero, loop_zero, parseIf_zero, loopIf_zero, parseX_zero]
  | succ f ih =>
    obtain ⟨ihp, ihl, ihpI, ihlI, ihpX⟩ := ih
    refine ⟨?_, ?_, ?_, ?_, ?_⟩
    · intro k ts x h
      by_cases hk : k < T.n
      · rw [parse_chain T hk] at h
        cases hp : parse T f (k+1) ts with
        | none => simp [hp] at h
        | some p =>
          simp only [hp, Option.bind_some] at h
          have a := ihp _ _ _ hp
          have b := ihl _ _ _ _ h
          have len := (progress T f).1 _ _ _ hp
          have hb : bound T k ts = (bound T k ts - 1) + 1 := by unfold bound; omega
          rw [hb, parse_chain T hk]
          have h1 : bound T (k+1) ts ≤ bound T k ts - 1 := by unfold bound; omega
          rw [parse_mono T h1 a]
          simp only [Option.bind_some]
          apply loop_mono T _ b
          have := mul_mono_len (T.n + 5) len
          unfold lbound bound; omega
      · cases ts with
        | nil => simp [parse_nil T hk] at h
        | cons t rest =>
          have hb : bound T k (t :: rest) = (bound T k (t :: rest) - 1) + 1 := by
            unfold bound; simp only [List.length_cons]; rw [Nat.add_mul]; omega
          cases t with
          | atom a => rw [parse_atom T hk] at h; rw [hb, parse_atom T hk]; exact h
          | bop o => simp [parse_bop T hk] at h
          | rp => simp [parse_rp T hk] at h
          | falls => simp [parse_falls T hk] at h
          | sonst => simp [parse_sonst T hk] at h
          | entw => simp [parse_entw T hk] at h
          | oderk => simp [parse_oderk T hk] at h
          | cls o => simp [parse_cls T hk] at h
          | uop u =>
            rw [parse_uop T hk] at h
            cases hp : parse T f k rest with
            | none => simp [hp] at h
            | some p =>
              simp only [hp, Option.bind_some] at h
              have a := ihp _ _ _ hp
              rw [hb, parse_uop T hk]
              have h1 : bound T k rest ≤ bound T k (.uop u :: rest) - 1 := by
                unfold bound; simp only [List.length_cons]; rw [Nat.add_mul]; omega
              rw [parse_mono T h1 a]; exact h
          | lp =>
            rw [parse_lp T hk] at h
            cases hp : parseIf T f rest with
            | none => simp [hp] at h
            | some p =>
              simp only [hp, Option.bind_some] at h
              have a := ihpI _ _ hp
              rw [hb, parse_lp T hk]
              have h1 : boundI T rest ≤ bound T k (.lp :: rest) - 1 := by
                unfold bound boundI; simp only [List.length_cons]; rw [Nat.add_mul]; omega
              rw [parseIf_mono T h1 a]; exact h
    · intro k l ts x h
      by_cases hb : ∃ o r, ts = .bop o :: r
      · obtain ⟨o, rest, rfl⟩ := hb
        have hlb : lbound T (.bop o :: rest) = (lbound T (.bop o :: rest) - 1) + 1 := by
          unfold lbound; omega
        by_cases ho : T.lv o = k
        · rw [loop_bop_eq T ho] at h
          cases hp : parse T f (k+1) rest with
          | none => simp [hp] at h
          | some p0 =>
            simp only [hp, Option.bind_some] at h
            cases he : expectCl T o p0 with
            | none => simp [he] at h
            | some p =>
              simp only [he, Option.bind_some] at h
              have a := ihp _ _ _ hp
              have b := ihl _ _ _ _ h
              have len := (progress T f).1 _ _ _ hp
              have len' := expectCl_len T he
              rw [hlb, loop_bop_eq T ho]
              have h1 : bound T (k+1) rest ≤ lbound T (.bop o :: rest) - 1 := by
                unfold bound lbound; simp only [List.length_cons]; rw [Nat.add_mul]; omega
              rw [parse_mono T h1 a]
              simp only [Option.bind_some, he]
              apply loop_mono T _ b
              have := mul_mono_len (T.n + 5) (Nat.lt_of_le_of_lt len' len)
              unfold lbound; simp only [List.length_cons]; rw [Nat.add_mul]; omega
        · rw [loop_bop_ne T ho] at h; rw [hlb, loop_bop_ne T ho]; exact h
      · have hb' : ∀ o r, ts ≠ .bop o :: r := fun o r hh => hb ⟨o, r, hh⟩
        rw [loop_other T hb'] at h
        have hlb : lbound T ts = (lbound T ts - 1) + 1 := by unfold lbound; omega
        rw [hlb, loop_other T hb']; exact h
    · intro ts x h
      rw [parseIf_succ] at h
      cases hp : parseX T f ts with
      | none => simp [hp] at h
      | some p =>
        simp only [hp, Option.bind_some] at h
        have a := ihpX _ _ hp
        have b := ihlI _ _ _ h
        have len := (progress T f).2.2.2.2 _ _ hp
        have hb : boundI T ts = (boundI T ts - 1) + 1 := by unfold boundI; omega
        rw [hb, parseIf_succ]
        have h1 : boundX T ts ≤ boundI T ts - 1 := by unfold boundX boundI; omega
        rw [parseX_mono T h1 a]
        simp only [Option.bind_some]
        apply loopIf_mono T _ b
        have := mul_mono_len (T.n + 5) len
        unfold lbound boundI; omega
    · intro l ts x h
      by_cases hb : ∃ r, ts = .falls :: r
      · obtain ⟨rest, rfl⟩ := hb
        have hlb : lbound T (.falls :: rest) = (lbound T (.falls :: rest) - 1) + 1 := by unfold lbound; omega
        rw [loopIf_falls] at h
        cases hp : parseIf T f rest with
        | none => simp [hp] at h
        | some p1 =>
          simp only [hp, Option.bind_some] at h
          cases he : expectSonst p1 with
          | none => simp [he] at h
          | some pc =>
            simp only [he, Option.bind_some] at h
            cases hp2 : parseIf T f pc.2 with
            | none => simp [hp2] at h
            | some pb =>
              simp only [hp2, Option.bind_some] at h
              have a := ihpI _ _ hp
              have c := ihpI _ _ hp2
              have d := ihlI _ _ _ h
              have l1 := (progress T f).2.2.1 _ _ hp
              have l2 := expectSonst_len he
              have l3 := (progress T f).2.2.1 _ _ hp2
              rw [hlb, loopIf_falls]
              have h1 : boundI T rest ≤ lbound T (.falls :: rest) - 1 := by
                unfold boundI lbound; simp only [List.length_cons]; rw [Nat.add_mul]; omega
              rw [parseIf_mono T h1 a]
              simp only [Option.bind_some, he]
              have h2 : boundI T pc.2 ≤ lbound T (.falls :: rest) - 1 := by
                have := mul_mono_len (T.n + 5) (Nat.lt_trans l2 l1)
                unfold boundI lbound; simp only [List.length_cons]; rw [Nat.add_mul]; omega
              rw [parseIf_mono T h2 c]
              simp only [Option.bind_some]
              apply loopIf_mono T _ d
              have := mul_mono_len (T.n + 5) (Nat.lt_trans l3 (Nat.lt_trans l2 l1))
              unfold lbound; simp only [List.length_cons]; rw [Nat.add_mul]; omega
      · have hb' : ∀ r, ts ≠ .falls :: r := fun r hh => hb ⟨r, hh⟩
        rw [loopIf_other T hb'] at h
        have hlb : lbound T ts = (lbound T ts - 1) + 1 := by unfold lbound; omega
        rw [hlb, loopIf_other T hb']; exact h
    · intro ts x h
      by_cases hb : ∃ r, ts = .entw :: r
      · obtain ⟨rest, rfl⟩ := hb
        have hbx : boundX T (.entw :: rest) = (boundX T (.entw :: rest) - 1) + 1 := by unfold boundX; omega
        rw [parseX_entw] at h
        cases hp : parse T f 0 rest with
        | none => simp [hp] at h
        | some p1 =>
          simp only [hp, Option.bind_some] at h
          cases he : expectOderk p1 with
          | none => simp [he] at h
          | some pa =>
            simp only [he, Option.bind_some] at h
            cases hp2 : parse T f 0 pa.2 with
            | none => simp [hp2] at h
            | some pb =>
              simp only [hp2, Option.bind_some] at h
              have a := ihp _ _ _ hp
              have c := ihp _ _ _ hp2
              have l1 := (progress T f).1 _ _ _ hp
              have l2 := expectOderk_len he
              rw [hbx, parseX_entw]
              have h1 : bound T 0 rest ≤ boundX T (.entw :: rest) - 1 := by
                unfold bound boundX; simp only [List.length_cons]; rw [Nat.add_mul]; omega
              rw [parse_mono T h1 a]
              simp only [Option.bind_some, he]
              have h2 : bound T 0 pa.2 ≤ boundX T (.entw :: rest) - 1 := by
                have := mul_mono_len (T.n + 5) (Nat.lt_trans l2 l1)
                unfold bound boundX; simp only [List.length_cons]; rw [Nat.add_mul]; omega
              rw [parse_mono T h2 c]
              exact h
      · have hb' : ∀ r, ts ≠ .entw :: r := fun r hh => hb ⟨r, hh⟩
        rw [parseX_other T hb'] at h
        have a := ihp _ _ _ h
        have hbx : boundX T ts = (boundX T ts - 1) + 1 := by unfold boundX; omega
        rw [hbx, parseX_other T hb']
        exact parse_mono T (by unfold bound boundX; omega) a

/-- the fuel-free entry point is complete: it finds every tree any amount of fuel finds -/
theorem parseAll_complete {f ts e} (h : parseIf T f ts = some (e, [])) : parseAll T ts = some e := by
  have := (fuel_suffices T f).2.2.1 _ _ h
  unfold parseAll
  unfold boundI at this
  rw [this]

theorem parseAll_sound {ts e} (h : parseAll T ts = some e) : ∃ f, parseIf T f ts = some (e, []) := by
  unfold parseAll at h
  split at h
  · next e' he => cases h; exact ⟨_, he⟩
  · cases h

/-- **`parse ∘ pp = id`, without fuel**: the minimal-parentheses spelling of every tree is read back as that tree -/
theorem parseAll_pp (e : E) (hwf : wf T e) : parseAll T (ppI T e) = some e := by
  obtain ⟨f, h⟩ := parse_pp T e hwf
  exact parseAll_complete T h

/-- **The ladder terminates**: from `bound` on, the fuel has no influence on what a rung answers — on *every* token
sequence, accepted or not -/
theorem fuel_irrelevant (k : Nat) (ts : List Tok) (f : Nat) (hf : bound T k ts ≤ f) :
    parse T f k ts = parse T (bound T k ts) k ts := by
  cases hb : parse T (bound T k ts) k ts with
  | some x => exact parse_mono T hf hb
  | none =>
    cases hx : parse T f k ts with
    | none => rfl
    | some x => rw [(fuel_suffices T f).1 _ _ _ hx] at hb; cases hb

/-- the same for a whole expression -/
theorem fuel_irrelevantI (ts : List Tok) (f : Nat) (hf : boundI T ts ≤ f) :
    parseIf T f ts = parseIf T (boundI T ts) ts := by
  cases hb : parseIf T (boundI T ts) ts with
  | some x => exact parseIf_mono T hf hb
  | none =>
    cases hx : parseIf T f ts with
    | none => rfl
    | some x => rw [(fuel_suffices T f).2.2.1 _ _ hx] at hb; cases hb

/-! ### the ladder reads from the front -/

/-- `rest` is what is left of `ts` after a front part was taken -/
def Suffix (rest ts : List Tok) : Prop := ∃ pre, ts = pre ++ rest

theorem Suffix.refl (ts : List Tok) : Suffix ts ts := ⟨[], rfl⟩
theorem Suffix.cons {rest ts} (t : Tok) (h : Suffix rest ts) : Suffix rest (t :: ts) := by
  obtain ⟨pre, rfl⟩ := h; exact ⟨t :: pre, rfl⟩
theorem Suffix.trans {a b c} (h1 : Suffix a b) (h2 : Suffix b c) : Suffix a c := by
  obtain ⟨p1, rfl⟩ := h1; obtain ⟨p2, rfl⟩ := h2; exact ⟨p2 ++ p1, by simp⟩

theorem closeParen_suffix {p x} (h : closeParen p = some x) : Suffix x.2 p.2 := by
  unfold closeParen at h
  split at h
  · next rest' hp => cases h; rw [hp]; exact Suffix.cons _ (Suffix.refl _)
  · cases h
theorem expectSonst_suffix {p x} (h : expectSonst p = some x) : Suffix x.2 p.2 := by
  unfold expectSonst at h
  split at h
  · next rest' hp => cases h; rw [hp]; exact Suffix.cons _ (Suffix.refl _)
  · cases h
theorem expectOderk_suffix {p x} (h : expectOderk p = some x) : Suffix x.2 p.2 := by
  unfold expectOderk at h
  split at h
  · next rest' hp => cases h; rw [hp]; exact Suffix.cons _ (Suffix.refl _)
  · cases h
theorem expectCl_suffix {o p x} (h : expectCl T o p = some x) : Suffix x.2 p.2 := by
  unfold expectCl at h
  split at h
  · split at h
    · next o' rest' hp =>
      split at h
      · cases h; rw [hp]; exact Suffix.cons _ (Suffix.refl _)
      · cases h
    · cases h
  · cases h; exact Suffix.refl _

/-- **The ladder reads from the front and leaves the rest alone**: whatever a rung returns as remaining tokens is a suffix of
what it was given — no token is dropped from the middle, reordered or invented. -/
theorem consumes_prefix : ∀ f,
    (∀ k ts x, parse T f k ts = some x → Suffix x.2 ts) ∧
    (∀ k l ts x, loop T f k l ts = some x → Suffix x.2 ts) ∧
    (∀ ts x, parseIf T f ts = some x → Suffix x.2 ts) ∧
    (∀ l ts x, loopIf T f l ts = some x → Suffix x.2 ts) ∧
    (∀ ts x, parseX T f ts = some x → Suffix x.2 ts) := by
  intro f
  induction f with
  | zero => refine ⟨?_, ?_, ?_, ?_, ?_⟩ <;> intros <;> simp_all [parse_zero, loop_zero, parseIf_zero, loopIf_zero, parseX_zero]
  | succ f ih =>
    obtain ⟨ihp, ihl, ihpI, ihlI, ihpX⟩ := ih
    refine ⟨?_, ?_, ?_, ?_, ?_⟩
    · intro k ts x h
      by_cases hk : k < T.n
      · rw [parse_chain T hk] at h
        cases hp : parse T f (k+1) ts with
        | none => simp [hp] at h
        | some p =>
          simp only [hp, Option.bind_some] at h
          exact (ihl _ _ _ _ h).trans (ihp _ _ _ hp)
      · cases ts with
        | nil => simp [parse_nil T hk] at h
        | cons t rest =>
          cases t with
          | atom a => rw [parse_atom T hk] at h; cases h; exact Suffix.cons _ (Suffix.refl _)
          | bop o => simp [parse_bop T hk] at h
          | rp => simp [parse_rp T hk] at h
          | falls => simp [parse_falls T hk] at h
          | sonst => simp [parse_sonst T hk] at h
          | entw => simp [parse_entw T hk] at h
          | oderk => simp [parse_oderk T hk] at h
          | cls o => simp [parse_cls T hk] at h
          | uop u =>
            rw [parse_uop T hk] at h
            cases hp : parse T f k rest with
            | none => simp [hp] at h
            | some p =>
              simp only [hp, Option.bind_some] at h
              cases h
              exact Suffix.cons _ (ihp k rest p hp)
          | lp =>
            rw [parse_lp T hk] at h
            cases hp : parseIf T f rest with
            | none => simp [hp] at h
            | some p =>
              simp only [hp, Option.bind_some] at h
              exact Suffix.cons _ ((closeParen_suffix h).trans (ihpI _ _ hp))
    · intro k l ts x h
      by_cases hb : ∃ o r, ts = .bop o :: r
      · obtain ⟨o, rest, rfl⟩ := hb
        by_cases ho : T.lv o = k
        · rw [loop_bop_eq T ho] at h
          cases hp : parse T f (k+1) rest with
          | none => simp [hp] at h
          | some p0 =>
            simp only [hp, Option.bind_some] at h
            cases he : expectCl T o p0 with
            | none => simp [he] at h
            | some p =>
              simp only [he, Option.bind_some] at h
              exact Suffix.cons _ ((ihl _ _ _ _ h).trans ((expectCl_suffix T he).trans (ihp _ _ _ hp)))
        · rw [loop_bop_ne T ho] at h; cases h; exact Suffix.refl _
      · have hb' : ∀ o r, ts ≠ .bop o :: r := fun o r hh => hb ⟨o, r, hh⟩
        rw [loop_other T hb'] at h; cases h; exact Suffix.refl _
    · intro ts x h
      rw [parseIf_succ] at h
      cases hp : parseX T f ts with
      | none => simp [hp] at h
      | some p =>
        simp only [hp, Option.bind_some] at h
        exact (ihlI _ _ _ h).trans (ihpX _ _ hp)
    · intro l ts x h
      by_cases hb : ∃ r, ts = .falls :: r
      · obtain ⟨rest, rfl⟩ := hb
        rw [loopIf_falls] at h
        cases hp : parseIf T f rest with
        | none => simp [hp] at h
        | some p1 =>
          simp only [hp, Option.bind_some] at h
          cases he : expectSonst p1 with
          | none => simp [he] at h
          | some pc =>
            simp only [he, Option.bind_some] at h
            cases hp2 : parseIf T f pc.2 with
            | none => simp [hp2] at h
            | some pb =>
              simp only [hp2, Option.bind_some] at h
              exact Suffix.cons _ ((ihlI _ _ _ h).trans ((ihpI _ _ hp2).trans ((expectSonst_suffix he).trans (ihpI _ _ hp))))
      · have hb' : ∀ r, ts ≠ .falls :: r := fun r hh => hb ⟨r, hh⟩
        rw [loopIf_other T hb'] at h; cases h; exact Suffix.refl _
    · intro ts x h
      by_cases hb : ∃ r, ts = .entw :: r
      · obtain ⟨rest, rfl⟩ := hb
        rw [parseX_entw] at h
        cases hp : parse T f 0 rest with
        | none => simp [hp] at h
        | some p1 =>
          simp only [hp, Option.bind_some] at h
          cases he : expectOderk p1 with
          | none => simp [he] at h
          | some pa =>
            simp only [he, Option.bind_some] at h
            cases hp2 : parse T f 0 pa.2 with
            | none => simp [hp2] at h
            | some pb =>
              simp only [hp2, Option.bind_some] at h
              cases h
              exact Suffix.cons _ ((ihp 0 pa.2 pb hp2).trans ((expectOderk_suffix he).trans (ihp 0 rest p1 hp)))
      · have hb' : ∀ r, ts ≠ .entw :: r := fun r hh => hb ⟨r, hh⟩
        rw [parseX_other T hb'] at h
        exact ihp _ _ _ h

end DDP.LadderParse

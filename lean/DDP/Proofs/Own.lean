import DDP.Impl.Own

/-! Helper lemmas for `Props/C05.lean`: the abstract code compiled from any well-scoped function body runs without
ownership errors and ends owning nothing but the returned value. -/

namespace DDP.Own

def flatS (scs : List Scope) : List Slot := scs.flatMap (fun s => s.vars ++ s.temps)

@[simp] theorem flatS_nil : flatS [] = [] := rfl
@[simp] theorem flatS_cons (s : Scope) (r : List Scope) : flatS (s :: r) = (s.vars ++ s.temps) ++ flatS r := by
  simp [flatS]
theorem flatS_append (a b : List Scope) : flatS (a ++ b) = flatS a ++ flatS b := by
  simp [flatS]

/-- the abstract heap is exactly what the compile-time scopes say is owned -/
structure InvT (scs : List Scope) (own : List Slot) : Prop where
  nd : own.Nodup
  fnd : (flatS scs).Nodup
  mem : ∀ x, x ∈ own ↔ x ∈ flatS scs

/-- every registered slot was allocated, and none is the out-pointer -/
def Bound (scs : List Scope) (next : Nat) : Prop := ∀ x : Nat, x ∈ flatS scs → 0 < x ∧ x < next

theorem Bound.mono {scs : List Scope} {n m : Nat} (h : Bound scs n) (hnm : n ≤ m) : Bound scs m :=
  fun x hx => ⟨(h x hx).1, Nat.lt_of_lt_of_le (h x hx).2 hnm⟩

def runIns : List Ins → List Slot → Option (List Slot)
  | [], own => some own
  | i :: is, own => (step i own).bind (runIns is)

@[simp] theorem runIns_nil (own : List Slot) : runIns [] own = some own := rfl
@[simp] theorem runIns_cons (i : Ins) (is : List Ins) (own : List Slot) : runIns (i :: is) own = (step i own).bind (runIns is) := rfl

theorem runIns_append (a b : List Ins) (own : List Slot) : runIns (a ++ b) own = (runIns a own).bind (runIns b) := by
  induction a generalizing own with
  | nil => simp
  | cons i is ih =>
    simp only [List.cons_append, runIns_cons]
    cases step i own with
    | none => simp
    | some o => simp [ih]

theorem run_ofList (fuel : Nat) (is : List Ins) (path : List Bool) (own o : List Slot) (h : runIns is own = some o) :
    run fuel (Code.ofList is) path own = .normal o path := by
  induction is generalizing own with
  | nil => simp at h; subst h; simp [Code.ofList, run]
  | cons i is ih =>
    simp only [runIns_cons] at h
    cases hs : step i own with
    | none => simp [hs] at h
    | some o1 =>
      simp only [hs, Option.bind_some] at h
      simp only [Code.ofList, run, hs]
      exact ih o1 h

/-! ### single instructions -/

theorem step_fromConst {own : List Slot} {d : Slot} (h : d ∉ own) : step (.fromConst d) own = some (d :: own) := by
  simp [step, h]

theorem step_copy {own : List Slot} {d s : Slot} (hs : s ∈ own) (h : d ∉ own) : step (.copy d s) own = some (d :: own) := by
  simp [step, h, hs]

theorem step_free {own : List Slot} {s : Slot} (hs : s ∈ own) : step (.free s) own = some (own.erase s) := by
  simp [step, hs]

theorem step_move {own : List Slot} {d s : Slot} (hs : s ∈ own) (h : d ∉ own.erase s) : step (.move d s) own = some (d :: own.erase s) := by
  simp [step, h, hs]

theorem step_concatT {own : List Slot} {d a b : Slot} (ha : a ∈ own) (hb : b ∈ own) (h : d ∉ own) :
    step (.concatT d a b) own = some (d :: own) := by
  simp [step, h, ha, hb]

theorem step_concatC {own : List Slot} {d a b : Slot} (ha : a ∈ own) (hb : b ∈ own) (h : d ∉ own.erase a) :
    step (.concatC d a b) own = some (d :: own.erase a) := by
  simp [step, h, ha, hb]

theorem step_equal {own : List Slot} {a b : Slot} (ha : a ∈ own) (hb : b ∈ own) : step (.equal a b) own = some own := by
  simp [step, ha, hb]

theorem step_call {own : List Slot} {f : Nat} {r a : Slot} (ha : a ∈ own) (h : r ∉ own.erase a) :
    step (.call f r a) own = some (r :: own.erase a) := by
  simp [step, h, ha]

/-- releasing a list of distinct owned slots -/
theorem runIns_frees (l : List Slot) (own : List Slot) (hnd : own.Nodup) (hl : l.Nodup) (hsub : ∀ x ∈ l, x ∈ own) :
    ∃ o, runIns (l.map .free) own = some o ∧ o.Nodup ∧ ∀ x, x ∈ o ↔ x ∈ own ∧ x ∉ l := by
  induction l generalizing own with
  | nil => exact ⟨own, by simp, hnd, by simp⟩
  | cons a l ih =>
    have ha : a ∈ own := hsub a (by simp)
    have hl' := List.nodup_cons.mp hl
    have hsub' : ∀ x ∈ l, x ∈ own.erase a := by
      intro x hx
      have hne : x ≠ a := fun e => hl'.1 (e ▸ hx)
      exact (List.mem_erase_of_ne hne).mpr (hsub x (by simp [hx]))
    obtain ⟨o, ho, hond, hom⟩ := ih (own.erase a) (hnd.erase a) hl'.2 hsub'
    refine ⟨o, ?_, hond, ?_⟩
    · simp [step_free ha, ho]
    · intro x
      rw [hom x, hnd.mem_erase_iff]
      simp only [List.mem_cons, not_or]
      constructor
      · rintro ⟨⟨h1, h2⟩, h3⟩; exact ⟨h2, h1, h3⟩
      · rintro ⟨h2, h1, h3⟩; exact ⟨⟨h1, h2⟩, h3⟩


theorem frees_flat (scs : List Scope) : scs.flatMap Scope.frees = (flatS scs).map Ins.free := by
  induction scs with
  | nil => rfl
  | cons s r ih => simp [Scope.frees, ih, List.map_append]

/-- leaving the scopes `a` (in front of `b`): their slots are released, what `b` registers stays -/
theorem exit_scopes (a b : List Scope) (own : List Slot) (h : InvT (a ++ b) own) :
    ∃ o, runIns (a.flatMap Scope.frees) own = some o ∧ InvT b o := by
  have hf : (flatS a ++ flatS b).Nodup := by rw [← flatS_append]; exact h.fnd
  have hfa := (List.nodup_append.mp hf)
  obtain ⟨o, ho, hond, hom⟩ := runIns_frees (flatS a) own h.nd hfa.1
    (fun x hx => (h.mem x).mpr (by rw [flatS_append]; exact List.mem_append_left _ hx))
  refine ⟨o, by rw [frees_flat]; exact ho, ⟨hond, hfa.2.1, ?_⟩⟩
  intro x
  rw [hom x, h.mem x, flatS_append, List.mem_append]
  constructor
  · rintro ⟨h1 | h1, h2⟩
    · exact absurd h1 h2
    · exact h1
  · intro hb
    exact ⟨Or.inr hb, fun ha => hfa.2.2 x ha x hb rfl⟩

/-! ### the compile-time state -/

def Inv (cs : CS) (own : List Slot) : Prop := InvT cs.all own ∧ Bound cs.all cs.next ∧ 0 < cs.next

theorem Inv.fresh_not_mem {cs : CS} {own : List Slot} (h : Inv cs own) : cs.next ∉ own := by
  intro hm
  have := (h.2.1 _ ((h.1.mem _).mp hm)).2
  exact Nat.lt_irrefl _ this

theorem Inv.mem_lt {cs : CS} {own : List Slot} (h : Inv cs own) {x : Nat} (hx : x ∈ own) : 0 < x ∧ x < cs.next :=
  h.2.1 _ ((h.1.mem _).mp hx)

theorem Inv.setNext {cs : CS} {own : List Slot} (h : Inv cs own) {n : Nat} (hn : cs.next ≤ n) : Inv { cs with next := n } own :=
  ⟨h.1, h.2.1.mono hn, Nat.lt_of_lt_of_le h.2.2 hn⟩

theorem Inv.congr {cs : CS} {own own' : List Slot} (h : Inv cs own) (hnd : own'.Nodup) (hm : ∀ x, x ∈ own' ↔ x ∈ own) : Inv cs own' :=
  ⟨⟨hnd, h.1.fnd, fun x => (hm x).trans (h.1.mem x)⟩, h.2⟩

/-- registering a new owner `d` that the heap just got, as a temporary of the current scope -/
theorem Inv.addTemp {cs : CS} {own : List Slot} {d : Slot} (h : Inv cs own) (hd : d ∉ own) (hd0 : 0 < d) (hdn : d < cs.next) :
    Inv (cs.addTemp d) (d :: own) := by
  obtain ⟨⟨nd, fnd, mem⟩, bnd, pos⟩ := h
  have hdf : d ∉ flatS cs.all := fun hm => hd ((mem d).mpr hm)
  simp only [CS.all, flatS_cons] at fnd mem bnd hdf
  refine ⟨⟨List.nodup_cons.mpr ⟨hd, nd⟩, ?_, ?_⟩, ?_, pos⟩
  · simp only [CS.all, CS.addTemp, flatS_cons]
    simp only [List.nodup_append, List.mem_append, List.nodup_cons, List.mem_cons] at fnd hdf ⊢
    grind
  · intro x
    simp only [CS.all, CS.addTemp, flatS_cons, List.mem_cons, List.mem_append]
    have := mem x
    simp only [List.mem_append] at this
    rw [this]; grind
  · intro x hx
    show 0 < x ∧ x < cs.next
    simp only [CS.all, CS.addTemp, flatS_cons, List.mem_append, List.mem_singleton] at hx
    have hb := bnd x
    simp only [flatS_cons, List.mem_append] at hb
    grind

/-- the same as a variable of the current scope -/
theorem Inv.addVar {cs : CS} {own : List Slot} {d : Slot} (h : Inv cs own) (hd : d ∉ own) (hd0 : 0 < d) (hdn : d < cs.next) :
    Inv (cs.addVar d) (d :: own) := by
  obtain ⟨⟨nd, fnd, mem⟩, bnd, pos⟩ := h
  have hdf : d ∉ flatS cs.all := fun hm => hd ((mem d).mpr hm)
  simp only [CS.all, flatS_cons] at fnd mem bnd hdf
  refine ⟨⟨List.nodup_cons.mpr ⟨hd, nd⟩, ?_, ?_⟩, ?_, pos⟩
  · simp only [CS.all, CS.addVar, flatS_cons]
    simp only [List.nodup_append, List.mem_append, List.nodup_cons, List.mem_cons, List.cons_append] at fnd hdf ⊢
    grind
  · intro x
    simp only [CS.all, CS.addVar, flatS_cons, List.mem_cons, List.mem_append, List.cons_append]
    have := mem x
    simp only [List.mem_append] at this
    rw [this]
  · intro x hx
    show 0 < x ∧ x < cs.next
    simp only [CS.all, CS.addVar, flatS_cons, List.mem_append, List.mem_cons, List.cons_append] at hx
    have hb := bnd x
    simp only [flatS_cons, List.mem_append] at hb
    grind

/-- `claimTemporary`: the temporary's block goes to somebody else -/
theorem Inv.claimTemp {cs : CS} {own : List Slot} {s : Slot} (h : Inv cs own) (hs : s ∈ cs.cur.temps) :
    Inv (cs.claimTemp s) (own.erase s) := by
  obtain ⟨⟨nd, fnd, mem⟩, bnd, pos⟩ := h
  simp only [CS.all, flatS_cons] at fnd mem bnd
  have hte : ∀ x, x ∈ cs.cur.temps.erase s ↔ x ≠ s ∧ x ∈ cs.cur.temps := by
    intro x
    have : cs.cur.temps.Nodup := by
      simp only [List.nodup_append] at fnd; exact fnd.1.2.1
    exact this.mem_erase_iff
  refine ⟨⟨nd.erase s, ?_, ?_⟩, ?_, pos⟩
  · simp only [CS.all, CS.claimTemp, flatS_cons]
    simp only [List.nodup_append, List.mem_append] at fnd ⊢
    refine ⟨⟨fnd.1.1, fnd.1.2.1.erase s, ?_⟩, fnd.2.1, ?_⟩
    · intro a ha b hb; exact fnd.1.2.2 a ha b ((hte b).mp hb).2
    · intro a ha b hb
      rcases ha with ha | ha
      · exact fnd.2.2 a (Or.inl ha) b hb
      · exact fnd.2.2 a (Or.inr ((hte a).mp ha).2) b hb
  · intro x
    rw [nd.mem_erase_iff, mem x]
    simp only [CS.all, CS.claimTemp, flatS_cons, List.mem_append, hte]
    simp only [List.nodup_append, List.mem_append] at fnd
    constructor
    · rintro ⟨hne, (h1 | h1) | h1⟩
      · exact Or.inl (Or.inl h1)
      · exact Or.inl (Or.inr ⟨hne, h1⟩)
      · exact Or.inr h1
    · rintro ((h1 | ⟨hne, h1⟩) | h1)
      · exact ⟨fun e => fnd.1.2.2 x h1 s hs e, Or.inl (Or.inl h1)⟩
      · exact ⟨hne, Or.inl (Or.inr h1)⟩
      · exact ⟨fun e => fnd.2.2 s (Or.inr hs) x h1 e.symm, Or.inr h1⟩
  · intro x hx
    show 0 < x ∧ x < cs.next
    simp only [CS.all, CS.claimTemp, flatS_cons, List.mem_append, hte] at hx
    have hb := bnd x
    simp only [flatS_cons, List.mem_append] at hb
    grind

theorem Inv.push {cs : CS} {own : List Slot} (h : Inv cs own) : Inv cs.push own := by
  obtain ⟨⟨nd, fnd, mem⟩, bnd, pos⟩ := h
  refine ⟨⟨nd, ?_, ?_⟩, ?_, pos⟩
  · simpa [CS.all, CS.push] using fnd
  · intro x; simpa [CS.all, CS.push] using mem x
  · intro x hx; exact bnd x (by simpa [CS.all, CS.push] using hx)


/-! ### expressions -/

structure EOk (cs : CS) (own : List Slot) (r : ERes) (own' : List Slot) : Prop where
  run : runIns r.code own = some own'
  inv : Inv r.cs own'
  slot : r.slot ∈ own'
  temp : r.isTemp = true → r.slot ∈ r.cs.cur.temps ∧ cs.next ≤ r.slot
  vars : r.cs.cur.vars = cs.cur.vars
  outer : r.cs.outer = cs.outer
  loops : r.cs.loops = cs.loops
  next : cs.next ≤ r.cs.next
  keep : ∀ x, x ∈ own → x ∈ own'
  fresh : ∀ x, x ∈ own' → x ∈ own ∨ cs.next ≤ x

theorem visible_eq {cs cs' : CS} (hv : cs'.cur.vars = cs.cur.vars) (ho : cs'.outer = cs.outer) : cs'.visible = cs.visible := by
  simp [CS.visible, CS.all, hv, ho]

theorem visible_sub_flat (cs : CS) : ∀ x, x ∈ cs.visible → x ∈ flatS cs.all := by
  intro x hx
  simp only [CS.visible, List.mem_flatMap] at hx
  obtain ⟨sc, hsc, hx⟩ := hx
  simp only [flatS, List.mem_flatMap]
  exact ⟨sc, hsc, List.mem_append_left _ hx⟩

theorem lookup_mem {cs : CS} {own : List Slot} (h : Inv cs own) {k : Nat} (hk : k < cs.visible.length) : cs.lookup k ∈ own := by
  apply (h.1.mem _).mpr
  apply visible_sub_flat
  simp only [CS.lookup, List.getD_eq_getElem?_getD, List.getElem?_eq_getElem hk, Option.getD_some]
  exact List.getElem_mem hk

theorem compileE_ok (e : Ex) : ∀ (cs : CS) (own : List Slot), Inv cs own → wfE e cs.visible.length = true →
    ∃ own', EOk cs own (compileE e cs) own' := by
  induction e with
  | lit =>
    intro cs own h _
    refine ⟨cs.next :: own, ?_⟩
    have hd := h.fresh_not_mem
    exact { run := by simp [compileE, CS.fresh, step_fromConst hd]
            inv := by
              simp only [compileE, CS.fresh]
              exact (h.setNext (Nat.le_succ _)).addTemp hd h.2.2 (Nat.lt_succ_self _)
            slot := by simp [compileE, CS.fresh]
            temp := by intro _; simp [compileE, CS.fresh, CS.addTemp]
            vars := by simp [compileE, CS.fresh, CS.addTemp]
            outer := by simp [compileE, CS.fresh, CS.addTemp]
            loops := by simp [compileE, CS.fresh, CS.addTemp]
            next := by simp [compileE, CS.fresh, CS.addTemp]
            keep := by intro x hx; simp [hx]
            fresh := by
              intro x hx
              simp only [List.mem_cons] at hx
              rcases hx with rfl | hx
              · exact Or.inr (Nat.le_refl _)
              · exact Or.inl hx }
  | var k =>
    intro cs own h hw
    simp only [wfE, decide_eq_true_eq] at hw
    refine ⟨own, ?_⟩
    exact { run := by simp [compileE]
            inv := by simpa [compileE] using h
            slot := by simpa [compileE] using lookup_mem h hw
            temp := by simp [compileE]
            vars := rfl, outer := rfl, loops := rfl
            next := Nat.le_refl _
            keep := fun _ hx => hx
            fresh := fun _ hx => Or.inl hx }
  | concat a b iha ihb =>
    intro cs own h hw
    simp only [wfE, Bool.and_eq_true] at hw
    obtain ⟨own1, ha⟩ := iha cs own h hw.1
    have hvis : (compileE a cs).cs.visible = cs.visible := visible_eq ha.vars ha.outer
    obtain ⟨own2, hb⟩ := ihb (compileE a cs).cs own1 ha.inv (by rw [hvis]; exact hw.2)
    have hra2 : (compileE a cs).slot ∈ own2 := hb.keep _ ha.slot
    have hr := hb.inv.fresh_not_mem
    have hpos := hb.inv.2.2
    by_cases ht : (compileE a cs).isTemp = true
    · refine ⟨(compileE b (compileE a cs).cs).cs.next :: own2, ?_⟩
      exact { run := by
                simp only [compileE, CS.fresh, ht, if_true]
                rw [runIns_append, runIns_append, ha.run, Option.bind_some, hb.run, Option.bind_some]
                simp [step_concatT hra2 hb.slot hr]
              inv := by
                simp only [compileE, CS.fresh, ht, if_true]
                exact (hb.inv.setNext (Nat.le_succ _)).addTemp hr hpos (Nat.lt_succ_self _)
              slot := by simp [compileE, CS.fresh, ht]
              temp := by
                intro _
                simp only [compileE, CS.fresh, ht, if_true, CS.addTemp, List.mem_append, List.mem_singleton, or_true, true_and]
                exact Nat.le_trans ha.next hb.next
              vars := by simp [compileE, CS.fresh, ht, CS.addTemp, hb.vars, ha.vars]
              outer := by simp [compileE, CS.fresh, ht, CS.addTemp, hb.outer, ha.outer]
              loops := by simp [compileE, CS.fresh, ht, CS.addTemp, hb.loops, ha.loops]
              next := by
                simp only [compileE, CS.fresh, ht, if_true, CS.addTemp]
                exact Nat.le_trans (Nat.le_trans ha.next hb.next) (Nat.le_succ _)
              keep := fun x hx => List.mem_cons_of_mem _ (hb.keep _ (ha.keep _ hx))
              fresh := by
                intro x hx
                simp only [List.mem_cons] at hx
                rcases hx with rfl | hx
                · exact Or.inr (Nat.le_trans ha.next hb.next)
                · rcases hb.fresh x hx with h1 | h1
                  · exact ha.fresh x h1
                  · exact Or.inr (Nat.le_trans ha.next h1) }
    · simp only [Bool.not_eq_true] at ht
      refine ⟨(compileE b (compileE a cs).cs).cs.next :: own2, ?_⟩
      have hd : (compileE b (compileE a cs).cs).cs.next + 1 ∉ own2 := by
        intro hm
        have := (hb.inv.mem_lt hm).2
        omega
      exact { run := by
                simp only [compileE, CS.fresh, ht, Bool.false_eq_true, if_false]
                rw [runIns_append, runIns_append, ha.run, Option.bind_some, hb.run, Option.bind_some]
                simp only [runIns_cons, step_copy hra2 hd, Option.bind_some]
                rw [step_concatC (List.mem_cons_self) (List.mem_cons_of_mem _ hb.slot) (by simpa using hr)]
                simp
              inv := by
                simp only [compileE, CS.fresh, ht, Bool.false_eq_true, if_false]
                exact (hb.inv.setNext (Nat.le_add_right _ 2)).addTemp hr hpos (Nat.lt_succ_of_le (Nat.le_succ _))
              slot := by simp [compileE, CS.fresh, ht]
              temp := by
                intro _
                simp only [compileE, CS.fresh, ht, Bool.false_eq_true, if_false, CS.addTemp, List.mem_append, List.mem_singleton, or_true, true_and]
                exact Nat.le_trans ha.next hb.next
              vars := by simp [compileE, CS.fresh, ht, CS.addTemp, hb.vars, ha.vars]
              outer := by simp [compileE, CS.fresh, ht, CS.addTemp, hb.outer, ha.outer]
              loops := by simp [compileE, CS.fresh, ht, CS.addTemp, hb.loops, ha.loops]
              next := by
                simp only [compileE, CS.fresh, ht, Bool.false_eq_true, if_false, CS.addTemp]
                have := Nat.le_trans ha.next hb.next
                show cs.next ≤ (compileE b (compileE a cs).cs).cs.next + 1 + 1
                omega
              keep := fun x hx => List.mem_cons_of_mem _ (hb.keep _ (ha.keep _ hx))
              fresh := by
                intro x hx
                simp only [List.mem_cons] at hx
                rcases hx with rfl | hx
                · exact Or.inr (Nat.le_trans ha.next hb.next)
                · rcases hb.fresh x hx with h1 | h1
                  · exact ha.fresh x h1
                  · exact Or.inr (Nat.le_trans ha.next h1) }
  | call f a iha =>
    intro cs own h hw
    simp only [wfE] at hw
    have h1 : Inv { cs with next := cs.next + 1 } own := h.setNext (Nat.le_succ _)
    obtain ⟨own1, ha⟩ := iha { cs with next := cs.next + 1 } own h1 (by simpa [CS.visible, CS.all] using hw)
    have hret : cs.next ∉ own1 := by
      intro hm
      rcases ha.fresh _ hm with h2 | h2
      · exact h.fresh_not_mem h2
      · have h3 : cs.next + 1 ≤ cs.next := h2
        omega
    have hdest := ha.inv.fresh_not_mem
    have hpos := ha.inv.2.2
    have hcpos := h.2.2
    generalize hra : compileE a { cs with next := cs.next + 1 } = ra at ha hdest hpos
    by_cases ht : ra.isTemp = true
    · refine ⟨cs.next :: own1.erase ra.slot, ?_⟩
      have htm := ha.temp ht
      have hinv : Inv (({ ra.cs with next := ra.cs.next + 1 } : CS).claimTemp ra.slot) (own1.erase ra.slot) :=
        (ha.inv.setNext (Nat.le_succ _)).claimTemp htm.1
      have hret' : cs.next ∉ own1.erase ra.slot := fun hm => hret (List.mem_of_mem_erase hm)
      have hlt : cs.next < ra.cs.next + 1 := by have := ha.next; simp at this; omega
      exact { run := by
                simp only [compileE, CS.fresh, hra, claimOrCopy, ht, if_true]
                have e1 := step_move ha.slot (fun hm => hdest (List.mem_of_mem_erase hm))
                have e2 : step (.call f cs.next ra.cs.next) (ra.cs.next :: own1.erase ra.slot) = some (cs.next :: own1.erase ra.slot) := by
                  rw [step_call (List.mem_cons_self) (by simpa using hret')]; simp
                simp only [runIns_append, ha.run, Option.bind_some, runIns_cons, runIns_nil, e1, e2]
              inv := by
                simp only [compileE, CS.fresh, hra, claimOrCopy, ht, if_true]
                exact hinv.addTemp hret' hcpos hlt
              slot := by simp [compileE, CS.fresh, hra, claimOrCopy, ht]
              temp := by
                intro _
                simp [compileE, CS.fresh, hra, claimOrCopy, ht, CS.addTemp, CS.claimTemp]
              vars := by simpa [compileE, CS.fresh, hra, claimOrCopy, ht, CS.addTemp, CS.claimTemp] using ha.vars
              outer := by simpa [compileE, CS.fresh, hra, claimOrCopy, ht, CS.addTemp, CS.claimTemp] using ha.outer
              loops := by simpa [compileE, CS.fresh, hra, claimOrCopy, ht, CS.addTemp, CS.claimTemp] using ha.loops
              next := by
                simp only [compileE, CS.fresh, hra, claimOrCopy, ht, if_true, CS.addTemp, CS.claimTemp]
                omega
              keep := by
                intro x hx
                refine List.mem_cons_of_mem _ ((List.mem_erase_of_ne ?_).mpr (ha.keep _ hx))
                intro e
                have h3 : (x : Nat) < cs.next := (h.mem_lt hx).2
                have h4 : cs.next + 1 ≤ (ra.slot : Nat) := htm.2
                subst e
                exact Nat.lt_irrefl _ (Nat.lt_of_lt_of_le h3 (Nat.le_of_succ_le h4))
              fresh := by
                intro x hx
                simp only [List.mem_cons] at hx
                rcases hx with rfl | hx
                · exact Or.inr (Nat.le_refl _)
                · rcases ha.fresh x (List.mem_of_mem_erase hx) with h2 | h2
                  · exact Or.inl h2
                  · have h3 : cs.next + 1 ≤ x := h2
                    exact Or.inr (by omega) }
    · simp only [Bool.not_eq_true] at ht
      refine ⟨cs.next :: own1, ?_⟩
      have hlt : cs.next < ra.cs.next + 1 := by have := ha.next; simp at this; omega
      exact { run := by
                simp only [compileE, CS.fresh, hra, claimOrCopy, ht, Bool.false_eq_true, if_false]
                have e1 := step_copy ha.slot hdest
                have e2 : step (.call f cs.next ra.cs.next) (ra.cs.next :: own1) = some (cs.next :: own1) := by
                  rw [step_call (List.mem_cons_self) (by simpa using hret)]; simp
                simp only [runIns_append, ha.run, Option.bind_some, runIns_cons, runIns_nil, e1, e2]
              inv := by
                simp only [compileE, CS.fresh, hra, claimOrCopy, ht, Bool.false_eq_true, if_false]
                exact (ha.inv.setNext (Nat.le_succ _)).addTemp hret hcpos hlt
              slot := by simp [compileE, CS.fresh, hra, claimOrCopy, ht]
              temp := by
                intro _
                simp [compileE, CS.fresh, hra, claimOrCopy, ht, CS.addTemp]
              vars := by simpa [compileE, CS.fresh, hra, claimOrCopy, ht, CS.addTemp] using ha.vars
              outer := by simpa [compileE, CS.fresh, hra, claimOrCopy, ht, CS.addTemp] using ha.outer
              loops := by simpa [compileE, CS.fresh, hra, claimOrCopy, ht, CS.addTemp] using ha.loops
              next := by
                simp only [compileE, CS.fresh, hra, claimOrCopy, ht, Bool.false_eq_true, if_false, CS.addTemp]
                omega
              keep := fun x hx => List.mem_cons_of_mem _ (ha.keep _ hx)
              fresh := by
                intro x hx
                simp only [List.mem_cons] at hx
                rcases hx with rfl | hx
                · exact Or.inr (Nat.le_refl _)
                · rcases ha.fresh x hx with h2 | h2
                  · exact Or.inl h2
                  · have h3 : cs.next + 1 ≤ x := h2
                    exact Or.inr (by omega) }


/-! ### scopes, conditions -/

@[simp] theorem unbump_bump (l : List Nat) : unbump (bump l) = l := by
  cases l <;> simp [bump, unbump]

theorem Inv.of_all {cs cs2 : CS} {own : List Slot} (h : Inv cs own) (ha : cs2.all = cs.all) (hn : cs.next ≤ cs2.next) : Inv cs2 own := by
  refine ⟨?_, ?_, Nat.lt_of_lt_of_le h.2.2 hn⟩
  · rw [ha]; exact h.1
  · rw [ha]; exact h.2.1.mono hn

/-- leaving the current scope: its slots are released (`exitScope`) -/
theorem Inv.exit {cs : CS} {own : List Slot} (h : Inv cs own) {sc : Scope} {rest : List Scope} (ho : cs.outer = sc :: rest) :
    ∃ o, runIns cs.cur.frees own = some o ∧ Inv cs.pop o := by
  have h1 : InvT ([cs.cur] ++ cs.outer) own := h.1
  obtain ⟨o, ho1, ho2⟩ := exit_scopes [cs.cur] cs.outer own h1
  refine ⟨o, by simpa using ho1, ?_, ?_, h.2.2⟩
  · simpa [CS.all, CS.pop, ho] using ho2
  · intro x hx
    apply h.2.1 x
    simp only [CS.all, CS.pop, ho, List.headD_cons, List.tail_cons, flatS_cons] at hx
    simp only [CS.all, ho, flatS_cons]
    exact List.mem_append_right _ hx

structure Frame (cs cs' : CS) : Prop where
  vars : cs'.cur.vars = cs.cur.vars
  outer : cs'.outer = cs.outer
  loops : cs'.loops = cs.loops
  next : cs.next ≤ cs'.next

theorem compileE_frame (e : Ex) : ∀ cs : CS, Frame cs (compileE e cs).cs := by
  induction e with
  | lit => intro cs; exact ⟨by simp [compileE, CS.fresh, CS.addTemp], by simp [compileE, CS.fresh, CS.addTemp], by simp [compileE, CS.fresh, CS.addTemp], by simp [compileE, CS.fresh, CS.addTemp]⟩
  | var k => intro cs; exact ⟨rfl, rfl, rfl, Nat.le_refl _⟩
  | concat a b iha ihb =>
    intro cs
    have fa := iha cs
    have fb := ihb (compileE a cs).cs
    by_cases ht : (compileE a cs).isTemp = true
    · refine ⟨?_, ?_, ?_, ?_⟩ <;> simp only [compileE, CS.fresh, ht, if_true, CS.addTemp]
      · rw [fb.vars, fa.vars]
      · rw [fb.outer, fa.outer]
      · rw [fb.loops, fa.loops]
      · exact Nat.le_trans (Nat.le_trans fa.next fb.next) (Nat.le_succ _)
    · simp only [Bool.not_eq_true] at ht
      refine ⟨?_, ?_, ?_, ?_⟩ <;> simp only [compileE, CS.fresh, ht, Bool.false_eq_true, if_false, CS.addTemp]
      · rw [fb.vars, fa.vars]
      · rw [fb.outer, fa.outer]
      · rw [fb.loops, fa.loops]
      · exact Nat.le_trans (Nat.le_trans fa.next fb.next) (Nat.le_add_right _ 2)
  | call f a iha =>
    intro cs
    have fa := iha { cs with next := cs.next + 1 }
    have hn : cs.next ≤ (compileE a { cs with next := cs.next + 1 }).cs.next := Nat.le_trans (Nat.le_succ _) fa.next
    by_cases ht : (compileE a { cs with next := cs.next + 1 }).isTemp = true
    · refine ⟨?_, ?_, ?_, ?_⟩ <;> simp only [compileE, CS.fresh, claimOrCopy, ht, if_true, CS.addTemp, CS.claimTemp]
      · exact fa.vars
      · exact fa.outer
      · exact fa.loops
      · exact Nat.le_trans hn (Nat.le_succ _)
    · simp only [Bool.not_eq_true] at ht
      refine ⟨?_, ?_, ?_, ?_⟩ <;> simp only [compileE, CS.fresh, claimOrCopy, ht, Bool.false_eq_true, if_false, CS.addTemp]
      · exact fa.vars
      · exact fa.outer
      · exact fa.loops
      · exact Nat.le_trans hn (Nat.le_succ _)

theorem Frame.trans {a b c : CS} (h1 : Frame a b) (h2 : Frame b c) : Frame a c :=
  ⟨h2.vars.trans h1.vars, h2.outer.trans h1.outer, h2.loops.trans h1.loops, Nat.le_trans h1.next h2.next⟩

theorem Frame.visible {a b : CS} (h : Frame a b) : b.visible = a.visible := visible_eq h.vars h.outer

/-- a scope opened and left again -/
theorem Frame.push_pop {cs cs2 : CS} (h : Frame cs.push cs2) : Frame cs cs2.pop :=
  ⟨by simp [CS.pop, h.outer, CS.push], by simp [CS.pop, h.outer, CS.push], by simp [CS.pop, h.loops, CS.push],
   by simpa [CS.pop, CS.push] using h.next⟩

theorem compileC_frame (c : Cond) : ∀ cs : CS, Frame cs (compileC c cs).2 := by
  induction c with
  | prim => intro cs; exact ⟨rfl, rfl, rfl, Nat.le_refl _⟩
  | eq a b => intro cs; simpa [compileC] using (compileE_frame a cs).trans (compileE_frame b _)
  | and c d ihc ihd =>
    intro cs
    have fc := ihc cs
    have fd := ihd (compileC c cs).2.push
    simpa [compileC] using fc.trans fd.push_pop

/-- outcome of code that cannot jump: it runs to its end with the invariant, or the branch decisions ran out -/
def GoodC (cs' : CS) (o : Out) : Prop :=
  match o with
  | .normal own _ => Inv cs' own
  | .timeout => True
  | _ => False

theorem compileC_ok (c : Cond) : ∀ (cs : CS) (own : List Slot) (fuel : Nat) (path : List Bool), Inv cs own → wfC c cs.visible.length = true →
    GoodC (compileC c cs).2 (run fuel (compileC c cs).1 path own) := by
  induction c with
  | prim =>
    intro cs own fuel path h _
    simpa [compileC, run, GoodC] using h
  | eq a b =>
    intro cs own fuel path h hw
    simp only [wfC, Bool.and_eq_true] at hw
    obtain ⟨own1, ha⟩ := compileE_ok a cs own h hw.1
    have hvis : (compileE a cs).cs.visible = cs.visible := visible_eq ha.vars ha.outer
    obtain ⟨own2, hb⟩ := compileE_ok b (compileE a cs).cs own1 ha.inv (by rw [hvis]; exact hw.2)
    have hrun : runIns ((compileE a cs).code ++ (compileE b (compileE a cs).cs).code ++
        [.equal (compileE a cs).slot (compileE b (compileE a cs).cs).slot]) own = some own2 := by
      rw [runIns_append, runIns_append, ha.run, Option.bind_some, hb.run, Option.bind_some]
      simp [step_equal (hb.keep _ ha.slot) hb.slot]
    simp only [compileC, run_ofList fuel _ path own own2 hrun, GoodC]
    exact hb.inv
  | and c d ihc ihd =>
    intro cs own fuel path h hw
    simp only [wfC, Bool.and_eq_true] at hw
    have gc := ihc cs own fuel path h hw.1
    have fc := compileC_frame c cs
    have fd := compileC_frame d (compileC c cs).2.push
    generalize hrc : compileC c cs = rc at fc fd gc
    obtain ⟨cc, cs1⟩ := rc
    simp only at fc fd gc
    have hvis1 : cs1.push.visible = cs.visible := by
      simp [CS.visible, CS.all, CS.push, fc.vars, fc.outer]
    have gd := fun own1 (h1 : Inv cs1 own1) fuel' path' => ihd cs1.push own1 fuel' path' h1.push (by rw [hvis1]; exact hw.2)
    generalize hrd : compileC d cs1.push = rd at fd gd
    obtain ⟨cd, cs2⟩ := rd
    simp only at fd gd
    simp only [compileC, hrc, hrd, run]
    cases hr1 : run fuel cc path own with
    | normal own1 path1 =>
      rw [hr1] at gc
      simp only [GoodC] at gc
      simp only
      cases path1 with
      | nil => simp [run, GoodC]
      | cons bit path2 =>
        cases bit with
        | false =>
          simp only [run, GoodC]
          refine gc.of_all ?_ fd.next
          simp [CS.all, CS.pop, fd.outer, CS.push]
        | true =>
          simp only [run]
          have gd' := gd own1 gc fuel path2
          cases hr2 : run fuel cd path2 own1 with
          | normal own2 path3 =>
            rw [hr2] at gd'
            simp only [GoodC] at gd'
            obtain ⟨o, ho, hinv⟩ := gd'.exit (sc := cs1.cur) (rest := cs1.outer) (by simp [fd.outer, CS.push])
            simp only [run_ofList fuel _ path3 own2 o ho, GoodC]
            exact hinv
          | timeout => simp [GoodC]
          | err w => rw [hr2] at gd'; simp [GoodC] at gd'
          | brk o p => rw [hr2] at gd'; simp [GoodC] at gd'
          | cont o p => rw [hr2] at gd'; simp [GoodC] at gd'
          | ret o => rw [hr2] at gd'; simp [GoodC] at gd'
    | timeout => simp [GoodC]
    | err w => rw [hr1] at gc; simp [GoodC] at gc
    | brk o p => rw [hr1] at gc; simp [GoodC] at gc
    | cont o p => rw [hr1] at gc; simp [GoodC] at gc
    | ret o => rw [hr1] at gc; simp [GoodC] at gc


/-! ### statements: what is static -/

structure FrameS (cs cs' : CS) : Prop where
  outer : cs'.outer = cs.outer
  loops : cs'.loops = cs.loops
  next : cs.next ≤ cs'.next

theorem Frame.toS {a b : CS} (h : Frame a b) : FrameS a b := ⟨h.outer, h.loops, h.next⟩
theorem FrameS.trans {a b c : CS} (h1 : FrameS a b) (h2 : FrameS b c) : FrameS a c :=
  ⟨h2.outer.trans h1.outer, h2.loops.trans h1.loops, Nat.le_trans h1.next h2.next⟩

def declCount : St → Nat
  | .decl _ => 1
  | _ => 0

theorem claimOrCopy_frame (cs : CS) (d v : Slot) (t : Bool) : Frame cs (claimOrCopy cs d v t).2 := by
  cases t <;> simp [claimOrCopy, CS.claimTemp] <;> exact ⟨rfl, rfl, rfl, Nat.le_refl _⟩

theorem FrameS.push_pop {cs cs2 : CS} (h : FrameS cs.push cs2) : Frame cs cs2.pop :=
  ⟨by simp [CS.pop, h.outer, CS.push], by simp [CS.pop, h.outer, CS.push], by simp [CS.pop, h.loops, CS.push],
   by simpa [CS.pop, CS.push] using h.next⟩

/-- a block leaves the compile-time state as it found it (but for the slot counter) -/
theorem block_frame_of (b : Blk) (cs : CS) (h : FrameS cs.push (compileStmts b cs.push).2.1) : Frame cs (compileBlock b cs).2 := by
  unfold compileBlock
  generalize compileStmts b cs.push = r at h
  obtain ⟨c, cs', ret⟩ := r
  have hp := h.push_pop
  cases ret <;> simpa using hp

mutual
  theorem compileS_frame : (s : St) → (cs : CS) →
      FrameS cs (compileS s cs).2 ∧ (compileS s cs).2.visible.length = cs.visible.length + declCount s
    | .decl e, cs => by
      have fe := compileE_frame e { cs with next := cs.next + 1 }
      have fc := claimOrCopy_frame (compileE e { cs with next := cs.next + 1 }).cs cs.next
        (compileE e { cs with next := cs.next + 1 }).slot (compileE e { cs with next := cs.next + 1 }).isTemp
      have f := fe.trans fc
      refine ⟨⟨?_, ?_, ?_⟩, ?_⟩
      · simpa [compileS, CS.fresh, CS.addVar] using f.outer
      · simpa [compileS, CS.fresh, CS.addVar] using f.loops
      · simpa [compileS, CS.fresh, CS.addVar] using Nat.le_trans (Nat.le_succ _) f.next
      · have hv : (claimOrCopy (compileE e { cs with next := cs.next + 1 }).cs cs.next
            (compileE e { cs with next := cs.next + 1 }).slot (compileE e { cs with next := cs.next + 1 }).isTemp).2.cur.vars = cs.cur.vars := f.vars
        have ho : (claimOrCopy (compileE e { cs with next := cs.next + 1 }).cs cs.next
            (compileE e { cs with next := cs.next + 1 }).slot (compileE e { cs with next := cs.next + 1 }).isTemp).2.outer = cs.outer := f.outer
        simp only [compileS, CS.fresh, CS.addVar, CS.visible, CS.all, List.flatMap_cons, List.length_append, List.length_cons, declCount]
        rw [hv, ho]; omega
    | .assign k e, cs => by
      have fe := compileE_frame e cs
      by_cases ht : (compileE e cs).isTemp = true
      · refine ⟨⟨?_, ?_, ?_⟩, ?_⟩ <;> simp only [compileS, ht, if_true, CS.claimTemp, declCount, Nat.add_zero]
        · exact fe.outer
        · exact fe.loops
        · exact fe.next
        · simp [CS.visible, CS.all, fe.vars, fe.outer]
      · simp only [Bool.not_eq_true] at ht
        refine ⟨⟨?_, ?_, ?_⟩, ?_⟩ <;> simp only [compileS, ht, Bool.false_eq_true, if_false, CS.fresh, declCount, Nat.add_zero]
        · exact fe.outer
        · exact fe.loops
        · exact Nat.le_trans fe.next (Nat.le_succ _)
        · simp [CS.visible, CS.all, fe.vars, fe.outer]
    | .expr e, cs => by
      have fe := compileE_frame e cs
      exact ⟨by simpa [compileS] using fe.toS, by simp [compileS, declCount, fe.visible]⟩
    | .ite c t e, cs => by
      have fc := compileC_frame c cs
      have ft := block_frame_of t (compileC c cs).2.push (compileStmts_frame t _)
      have fe := block_frame_of e (compileBlock t (compileC c cs).2.push).2.pop.push (compileStmts_frame e _)
      have f := (fc.trans ft.push_pop).trans fe.push_pop
      exact ⟨by simpa [compileS] using f.toS, by simp [compileS, declCount, f.visible]⟩
    | .while c b, cs => by
      have fc := (compileC_frame c cs.push).push_pop
      have hres : (compileS (.while c b) cs).2 =
          { (compileBlock b { (compileC c cs.push).2.pop.push with loops := 1 :: (compileC c cs.push).2.pop.push.loops }).2.pop with
            loops := (compileC c cs.push).2.pop.loops } := by simp [compileS]
      rw [hres]
      generalize (compileC c cs.push).2.pop = cs2 at fc
      have fb := block_frame_of b { cs2.push with loops := 1 :: cs2.push.loops } (compileStmts_frame b _)
      generalize (compileBlock b { cs2.push with loops := 1 :: cs2.push.loops }).2 = cs3 at fb
      have f2 : Frame cs2 { cs3.pop with loops := cs2.loops } :=
        ⟨by simp [CS.pop, fb.outer, CS.push], by simp [CS.pop, fb.outer, CS.push], rfl, by simpa [CS.pop, CS.push] using fb.next⟩
      have f := fc.trans f2
      exact ⟨f.toS, by simp [declCount, f.visible]⟩
    | .brk, cs => by simp only [compileS]; exact ⟨⟨rfl, rfl, Nat.le_refl _⟩, by simp [declCount]⟩
    | .cont, cs => by simp only [compileS]; exact ⟨⟨rfl, rfl, Nat.le_refl _⟩, by simp [declCount]⟩
    | .ret e, cs => by
      have fe := compileE_frame e cs
      have fc := claimOrCopy_frame (compileE e cs).cs retSlot (compileE e cs).slot (compileE e cs).isTemp
      have f := fe.trans fc
      exact ⟨by simpa [compileS] using f.toS, by simp [compileS, declCount, f.visible]⟩
    | .block b, cs => by
      have f := block_frame_of b cs (compileStmts_frame b _)
      exact ⟨by simpa [compileS] using f.toS, by simp [compileS, declCount, f.visible]⟩
  theorem compileStmts_frame : (b : Blk) → (cs : CS) → FrameS cs (compileStmts b cs).2.1
    | .nil, cs => by simp [compileStmts]; exact ⟨rfl, rfl, Nat.le_refl _⟩
    | .cons s rest, cs => by
      have fs := (compileS_frame s cs).1
      have fr := compileStmts_frame rest (compileS s cs).2
      unfold compileStmts
      generalize compileS s cs = r1 at fs fr
      obtain ⟨c1, cs1⟩ := r1
      cases isRet s
      · simp only [Bool.false_eq_true, if_false]
        generalize compileStmts rest cs1 = r2 at fr
        obtain ⟨c2, cs2, b2⟩ := r2
        exact fs.trans fr
      · simpa using fs
end


/-! ### statements: what happens at run time -/

/-- the scopes that stay open when the innermost loop is left (or continued) -/
def LTail (cs : CS) : Option (List Scope) :=
  match cs.loops with
  | [] => none
  | d :: _ => some (cs.outer.drop (d - 1))

/-- inside a loop the current scope belongs to the loop body -/
def HW (cs : CS) : Prop := ∀ d r, cs.loops = d :: r → 1 ≤ d

def Post (cs' : CS) (lt : Option (List Scope)) (o : Out) : Prop :=
  match o with
  | .err _ => False
  | .normal own _ => Inv cs' own
  | .brk own _ => ∃ scs, lt = some scs ∧ InvT scs own
  | .cont own _ => ∃ scs, lt = some scs ∧ InvT scs own
  | .ret own => own = [retSlot]
  | .timeout => True

theorem eq_singleton_of_mem_iff {l : List Slot} {a : Slot} (hnd : l.Nodup) (h : ∀ x, x ∈ l ↔ x = a) : l = [a] := by
  match l, hnd, h with
  | [], _, h => exact absurd ((h a).mpr rfl) (by simp)
  | [b], _, h => have := (h b).mp (by simp); simp [this]
  | b :: c :: r, hnd, h =>
    have hb := (h b).mp (by simp)
    have hc := (h c).mp (by simp)
    simp only [List.nodup_cons, List.mem_cons] at hnd
    exact absurd (hb.trans hc.symm) (fun e => hnd.1 (Or.inl e))

/-- `Gib … zurück`: with the value in the out-pointer, everything the function owns is released -/
theorem ret_frees {cs : CS} {o : List Slot} (h : Inv cs o) : runIns cs.returnFrees (retSlot :: o) = some [retSlot] := by
  have hr : retSlot ∉ o := fun hm => by have := (h.mem_lt hm).1; simp [retSlot] at this
  obtain ⟨o', ho, hnd, hm⟩ := runIns_frees (flatS cs.all) (retSlot :: o) (List.nodup_cons.mpr ⟨hr, h.1.nd⟩) h.1.fnd
    (fun x hx => List.mem_cons_of_mem _ ((h.1.mem x).mpr hx))
  have : o' = [retSlot] := by
    apply eq_singleton_of_mem_iff hnd
    intro x
    rw [hm x, List.mem_cons, ← h.1.mem x]
    constructor
    · rintro ⟨h1 | h1, h2⟩
      · exact h1
      · exact absurd h1 h2
    · intro e; subst e; exact ⟨Or.inl rfl, hr⟩
  rw [CS.returnFrees, frees_flat, ho, this]

/-- `Verlasse die Schleife` / `Fahre mit der Schleife fort`: the scopes of the loop body are released -/
theorem loop_frees {cs : CS} {own : List Slot} (h : Inv cs own) {d : Nat} {r : List Nat} (hl : cs.loops = d :: r) (hd : 1 ≤ d) :
    ∃ o, runIns cs.loopFrees own = some o ∧ InvT (cs.outer.drop (d - 1)) o := by
  have hsplit : cs.all = cs.all.take d ++ cs.outer.drop (d - 1) := by
    obtain ⟨k, rfl⟩ : ∃ k, d = k + 1 := ⟨d - 1, by omega⟩
    simp [CS.all]
  have h1 : InvT (cs.all.take d ++ cs.outer.drop (d - 1)) own := by rw [← hsplit]; exact h.1
  obtain ⟨o, ho, hinv⟩ := exit_scopes _ _ own h1
  exact ⟨o, by simpa [CS.loopFrees, hl] using ho, hinv⟩

/-- what a loop does, given what its condition and its body do (`A`: the scopes open around the loop) -/
def GoodL (A : List Scope) (o : Out) : Prop :=
  match o with
  | .normal own _ => InvT A own
  | .ret own => own = [retSlot]
  | .timeout => True
  | _ => False

def GoodB (A : List Scope) (o : Out) : Prop :=
  match o with
  | .normal own _ => InvT A own
  | .brk own _ => InvT A own
  | .cont own _ => InvT A own
  | .ret own => own = [retSlot]
  | .timeout => True
  | .err _ => False

theorem loop_ok (A : List Scope) (c b : Code)
    (hc : ∀ fuel own path, InvT A own → GoodL A (run fuel c path own) ∧ ∀ o, run fuel c path own ≠ .ret o)
    (hb : ∀ fuel own path, InvT A own → GoodB A (run fuel b path own)) :
    ∀ fuel own path, InvT A own → GoodL A (run fuel (.loop c b) path own) := by
  intro fuel
  induction fuel with
  | zero => intro own path _; simp [run, GoodL]
  | succ n ih =>
    intro own path h
    simp only [run]
    have hc' := hc n own path h
    cases hr : run n c path own with
    | normal own1 path1 =>
      rw [hr] at hc'
      simp only [GoodL] at hc'
      cases path1 with
      | nil => simp [GoodL]
      | cons bit path2 =>
        cases bit with
        | false => simpa [GoodL] using hc'.1
        | true =>
          simp only
          have hb' := hb n own1 path2 hc'.1
          cases hr2 : run n b path2 own1 with
          | normal o p => rw [hr2] at hb'; exact ih o p hb'
          | cont o p => rw [hr2] at hb'; exact ih o p hb'
          | brk o p => rw [hr2] at hb'; simpa [GoodL, GoodB] using hb'
          | ret o => rw [hr2] at hb'; simpa [GoodL, GoodB] using hb'
          | timeout => simp [GoodL]
          | err w => rw [hr2] at hb'; simp [GoodB] at hb'
    | timeout => simp [GoodL]
    | ret o => exact absurd hr (hc'.2 o)
    | err w => rw [hr] at hc'; simp [GoodL] at hc'
    | brk o p => rw [hr] at hc'; simp [GoodL] at hc'
    | cont o p => rw [hr] at hc'; simp [GoodL] at hc'


theorem InvT.of_flat {A B : List Scope} {own : List Slot} (h : InvT A own) (hf : flatS B = flatS A) : InvT B own :=
  ⟨h.nd, by rw [hf]; exact h.fnd, by intro x; rw [hf]; exact h.mem x⟩

theorem Inv.of_flat {cs cs2 : CS} {own : List Slot} (h : Inv cs own) (hf : flatS cs2.all = flatS cs.all) (hn : cs.next ≤ cs2.next) : Inv cs2 own :=
  ⟨h.1.of_flat hf, fun x hx => by have := h.2.1 x (by rw [← hf]; exact hx); exact ⟨this.1, Nat.lt_of_lt_of_le this.2 hn⟩,
   Nat.lt_of_lt_of_le h.2.2 hn⟩

theorem all_pop {cs cs2 : CS} (h : cs2.outer = cs.cur :: cs.outer) : cs2.pop.all = cs.all := by
  simp [CS.all, CS.pop, h]

theorem block_all_of (b : Blk) (cs : CS) (h : FrameS cs.push (compileStmts b cs.push).2.1) : (compileBlock b cs).2.all = cs.all := by
  unfold compileBlock
  generalize compileStmts b cs.push = r at h
  obtain ⟨c, cs', ret⟩ := r
  have : cs'.pop.all = cs.all := all_pop (by simpa [CS.push] using h.outer)
  cases ret <;> simpa using this

theorem LTail_push {cs : CS} (h : HW cs) : LTail cs.push = LTail cs := by
  unfold LTail CS.push
  cases hl : cs.loops with
  | nil => simp [bump]
  | cons d r =>
    have := h d r hl
    obtain ⟨k, rfl⟩ : ∃ k, d = k + 1 := ⟨d - 1, by omega⟩
    simp [bump]

theorem HW_push (cs : CS) : HW cs.push := by
  intro d r h
  unfold CS.push at h
  cases hl : cs.loops with
  | nil => simp [hl, bump] at h
  | cons d' r' => simp [hl, bump] at h; omega

theorem LTail_frame {cs cs' : CS} (h : FrameS cs cs') : LTail cs' = LTail cs := by
  simp [LTail, h.outer, h.loops]

theorem HW_frame {cs cs' : CS} (h : FrameS cs cs') (hw : HW cs) : HW cs' := by
  intro d r hl; rw [h.loops] at hl; exact hw d r hl

theorem Post.mono {a b : CS} {lt : Option (List Scope)} {o : Out} (h : Post a lt o) (hi : ∀ own, Inv a own → Inv b own) : Post b lt o := by
  cases o <;> simp only [Post] at h ⊢ <;> first | exact hi _ h | exact h

theorem run_ofList_cases (fuel : Nat) (is : List Ins) (path : List Bool) (own : List Slot) :
    (∃ o, run fuel (Code.ofList is) path own = .normal o path) ∨ (∃ w, run fuel (Code.ofList is) path own = .err w) := by
  induction is generalizing own with
  | nil => exact Or.inl ⟨own, by simp [Code.ofList, run]⟩
  | cons i is ih =>
    simp only [Code.ofList, run]
    cases step i own with
    | none => exact Or.inr ⟨_, rfl⟩
    | some o => simpa using ih o

def NotNormal (o : Out) : Prop := ∀ own p, o ≠ .normal own p

def StmtsPost (returned : Bool) (cs' : CS) (lt : Option (List Scope)) (o : Out) : Prop :=
  Post cs' lt o ∧ (returned = true → NotNormal o)

/-- a block, given what its statements do -/
theorem block_ok (b : Blk) (cs : CS) (own : List Slot) (fuel : Nat) (path : List Bool) (hhw : HW cs)
    (hf : FrameS cs.push (compileStmts b cs.push).2.1)
    (hs : StmtsPost (compileStmts b cs.push).2.2 (compileStmts b cs.push).2.1 (LTail cs.push) (run fuel (compileStmts b cs.push).1 path own)) :
    Post (compileBlock b cs).2 (LTail cs) (run fuel (compileBlock b cs).1 path own) := by
  rw [LTail_push hhw] at hs
  unfold compileBlock
  generalize compileStmts b cs.push = r at hf hs
  obtain ⟨c, cs', ret⟩ := r
  simp only at hf hs
  have hout : cs'.outer = cs.cur :: cs.outer := by simpa [CS.push] using hf.outer
  cases ret with
  | true =>
    simp only [if_true]
    have hn := hs.2 rfl
    cases hr : run fuel c path own with
    | normal o p => exact absurd hr (hn o p)
    | err w => have := hs.1; rw [hr] at this; simpa [Post] using this
    | brk o p => have := hs.1; rw [hr] at this; simpa [Post] using this
    | cont o p => have := hs.1; rw [hr] at this; simpa [Post] using this
    | ret o => have := hs.1; rw [hr] at this; simpa [Post] using this
    | timeout => simp [Post]
  | false =>
    simp only [Bool.false_eq_true, if_false, run]
    have hp := hs.1
    cases hr : run fuel c path own with
    | normal o p =>
      rw [hr] at hp
      simp only [Post] at hp
      obtain ⟨o2, ho2, hinv⟩ := hp.exit hout
      simp only [run_ofList fuel _ p o o2 ho2, Post]
      exact hinv
    | err w => rw [hr] at hp; simpa [Post] using hp
    | brk o p => rw [hr] at hp; simpa [Post] using hp
    | cont o p => rw [hr] at hp; simpa [Post] using hp
    | ret o => rw [hr] at hp; simpa [Post] using hp
    | timeout => simp [Post]


/-! ### the statements without sub-blocks -/

theorem decl_ok (e : Ex) (cs : CS) (own : List Slot) (fuel : Nat) (path : List Bool) (h : Inv cs own)
    (hw : wfE e cs.visible.length = true) :
    Post (compileS (.decl e) cs).2 (LTail cs) (run fuel (compileS (.decl e) cs).1 path own) := by
  have h1 : Inv { cs with next := cs.next + 1 } own := h.setNext (Nat.le_succ _)
  obtain ⟨own1, ha⟩ := compileE_ok e { cs with next := cs.next + 1 } own h1 (by simpa [CS.visible, CS.all] using hw)
  have hv : cs.next ∉ own1 := by
    intro hm
    rcases ha.fresh _ hm with h2 | h2
    · exact h.fresh_not_mem h2
    · have h3 : cs.next + 1 ≤ cs.next := h2
      omega
  have hpos := h.2.2
  generalize hra : compileE e { cs with next := cs.next + 1 } = ra at ha
  have hlt : cs.next < ra.cs.next := by have : cs.next + 1 ≤ ra.cs.next := ha.next; omega
  by_cases ht : ra.isTemp = true
  · have htm := ha.temp ht
    have hv' : cs.next ∉ own1.erase ra.slot := fun hm => hv (List.mem_of_mem_erase hm)
    have hrun : runIns (ra.code ++ [.move cs.next ra.slot]) own = some (cs.next :: own1.erase ra.slot) := by
      simp only [runIns_append, ha.run, Option.bind_some, runIns_cons, runIns_nil, step_move ha.slot hv']
    simp only [compileS, CS.fresh, hra, claimOrCopy, ht, if_true, run_ofList fuel _ path own _ hrun, Post]
    exact (ha.inv.claimTemp htm.1).addVar hv' hpos hlt
  · simp only [Bool.not_eq_true] at ht
    have hrun : runIns (ra.code ++ [.copy cs.next ra.slot]) own = some (cs.next :: own1) := by
      simp only [runIns_append, ha.run, Option.bind_some, runIns_cons, runIns_nil, step_copy ha.slot hv]
    simp only [compileS, CS.fresh, hra, claimOrCopy, ht, Bool.false_eq_true, if_false, run_ofList fuel _ path own _ hrun, Post]
    exact ha.inv.addVar hv hpos hlt

theorem expr_ok (e : Ex) (cs : CS) (own : List Slot) (fuel : Nat) (path : List Bool) (h : Inv cs own)
    (hw : wfE e cs.visible.length = true) :
    Post (compileS (.expr e) cs).2 (LTail cs) (run fuel (compileS (.expr e) cs).1 path own) := by
  obtain ⟨own1, ha⟩ := compileE_ok e cs own h hw
  simp only [compileS, run_ofList fuel _ path own _ ha.run, Post]
  exact ha.inv

theorem assign_ok (k : Nat) (e : Ex) (cs : CS) (own : List Slot) (fuel : Nat) (path : List Bool) (h : Inv cs own)
    (hk : k < cs.visible.length) (hw : wfE e cs.visible.length = true) :
    Post (compileS (.assign k e) cs).2 (LTail cs) (run fuel (compileS (.assign k e) cs).1 path own) := by
  obtain ⟨own1, ha⟩ := compileE_ok e cs own h hw
  have hvis : (compileE e cs).cs.visible = cs.visible := visible_eq ha.vars ha.outer
  have hlhs : (compileE e cs).cs.lookup k ∈ own1 := lookup_mem ha.inv (by rw [hvis]; exact hk)
  -- the variable existed before the value was computed
  have hold : (compileE e cs).cs.lookup k ∈ own := by
    have : (compileE e cs).cs.lookup k = cs.lookup k := by simp [CS.lookup, hvis]
    rw [this]; exact lookup_mem h hk
  have holdlt : ((compileE e cs).cs.lookup k : Nat) < cs.next := (h.mem_lt hold).2
  generalize hra : compileE e cs = ra at ha hlhs hold holdlt
  generalize hl : ra.cs.lookup k = lhs at hlhs hold holdlt
  have hnd := ha.inv.1.nd
  by_cases ht : ra.isTemp = true
  · have htm := ha.temp ht
    have hne : ra.slot ≠ lhs := by
      intro e'
      have : cs.next ≤ (ra.slot : Nat) := htm.2
      rw [e'] at this
      exact Nat.lt_irrefl _ (Nat.lt_of_lt_of_le holdlt this)
    have hs1 : ra.slot ∈ own1.erase lhs := (List.mem_erase_of_ne hne).mpr ha.slot
    have hl1 : lhs ∉ (own1.erase lhs).erase ra.slot := fun hm => (hnd.mem_erase_iff.mp (List.mem_of_mem_erase hm)).1 rfl
    have hrun : runIns (ra.code ++ [.free lhs, .move lhs ra.slot]) own = some (lhs :: (own1.erase lhs).erase ra.slot) := by
      simp only [runIns_append, ha.run, Option.bind_some, runIns_cons, runIns_nil, step_free hlhs, step_move hs1 hl1]
    simp only [compileS, hra, hl, ht, if_true, run_ofList fuel _ path own _ hrun, Post]
    refine (ha.inv.claimTemp htm.1).congr ?_ ?_
    · exact List.nodup_cons.mpr ⟨hl1, (hnd.erase _).erase _⟩
    · intro x
      rw [List.mem_cons, (hnd.erase lhs).mem_erase_iff, hnd.mem_erase_iff, hnd.mem_erase_iff]
      constructor
      · rintro (rfl | ⟨h1, -, h3⟩)
        · exact ⟨fun e' => hne e'.symm, hlhs⟩
        · exact ⟨h1, h3⟩
      · rintro ⟨h1, h2⟩
        by_cases hx : x = lhs
        · exact Or.inl hx
        · exact Or.inr ⟨h1, hx, h2⟩
  · simp only [Bool.not_eq_true] at ht
    have hc := ha.inv.fresh_not_mem
    have hcl : ra.cs.next ≠ lhs := fun e' => hc (e' ▸ hlhs)
    have h1 : lhs ∈ ra.cs.next :: own1 := List.mem_cons_of_mem _ hlhs
    have e2 : (ra.cs.next :: own1).erase lhs = ra.cs.next :: own1.erase lhs := by
      rw [List.erase_cons_tail]; simpa using hcl
    have hl1 : lhs ∉ (ra.cs.next :: own1.erase lhs).erase ra.cs.next := by
      simp only [List.erase_cons_head]
      exact fun hm => (hnd.mem_erase_iff.mp hm).1 rfl
    have hrun : runIns (ra.code ++ [.copy ra.cs.next ra.slot, .free lhs, .move lhs ra.cs.next]) own = some (lhs :: own1.erase lhs) := by
      simp only [runIns_append, ha.run, Option.bind_some, runIns_cons, runIns_nil, step_copy ha.slot hc, step_free h1, e2,
        step_move (List.mem_cons_self) hl1, List.erase_cons_head]
    simp only [compileS, hra, hl, ht, Bool.false_eq_true, if_false, CS.fresh, run_ofList fuel _ path own _ hrun, Post]
    refine (ha.inv.setNext (Nat.le_succ _)).congr ?_ ?_
    · exact List.nodup_cons.mpr ⟨fun hm => (hnd.mem_erase_iff.mp hm).1 rfl, hnd.erase _⟩
    · intro x
      rw [List.mem_cons, hnd.mem_erase_iff]
      constructor
      · rintro (rfl | ⟨-, h3⟩)
        · exact hlhs
        · exact h3
      · intro h2
        by_cases hx : x = lhs
        · exact Or.inl hx
        · exact Or.inr ⟨hx, h2⟩

theorem ret_ok (e : Ex) (cs : CS) (own : List Slot) (fuel : Nat) (path : List Bool) (h : Inv cs own)
    (hw : wfE e cs.visible.length = true) :
    run fuel (compileS (.ret e) cs).1 path own = .ret [retSlot] := by
  obtain ⟨own1, ha⟩ := compileE_ok e cs own h hw
  have hr : retSlot ∉ own1 := fun hm => by have := (ha.inv.mem_lt hm).1; simp [retSlot] at this
  generalize hra : compileE e cs = ra at ha
  by_cases ht : ra.isTemp = true
  · have htm := ha.temp ht
    have hr' : retSlot ∉ own1.erase ra.slot := fun hm => hr (List.mem_of_mem_erase hm)
    have hinv := ha.inv.claimTemp htm.1
    have hrun : runIns (ra.code ++ [.move retSlot ra.slot] ++ (ra.cs.claimTemp ra.slot).returnFrees) own = some [retSlot] := by
      simp only [runIns_append, ha.run, Option.bind_some, runIns_cons, runIns_nil, step_move ha.slot hr', ret_frees hinv]
    simp only [compileS, hra, claimOrCopy, ht, if_true, run, run_ofList fuel _ path own _ hrun]
  · simp only [Bool.not_eq_true] at ht
    have hrun : runIns (ra.code ++ [.copy retSlot ra.slot] ++ ra.cs.returnFrees) own = some [retSlot] := by
      simp only [runIns_append, ha.run, Option.bind_some, runIns_cons, runIns_nil, step_copy ha.slot hr, ret_frees ha.inv]
    simp only [compileS, hra, claimOrCopy, ht, Bool.false_eq_true, if_false, run, run_ofList fuel _ path own _ hrun]

theorem jump_ok (cs : CS) (own : List Slot) (h : Inv cs own) (hl : cs.loops ≠ []) (hhw : HW cs) :
    ∃ o scs, runIns cs.loopFrees own = some o ∧ LTail cs = some scs ∧ InvT scs o := by
  cases hc : cs.loops with
  | nil => exact absurd hc hl
  | cons d r =>
    obtain ⟨o, ho, hinv⟩ := loop_frees h hc (hhw d r hc)
    exact ⟨o, _, ho, by simp [LTail, hc], hinv⟩


/-! ### all statements -/

@[simp] theorem visible_push (cs : CS) : cs.push.visible = cs.visible := by simp [CS.visible, CS.all, CS.push]

theorem Post.of_eq {cs' : CS} {lt : Option (List Scope)} {o o' : Out} (h : Post cs' lt o) (e : o' = o) : Post cs' lt o' := e ▸ h

theorem seq_ret_notNormal (fuel : Nat) (is : List Ins) (path : List Bool) (own : List Slot) :
    NotNormal (run fuel (.seq (Code.ofList is) .ret) path own) := by
  intro o p
  simp only [run]
  rcases run_ofList_cases fuel is path own with ⟨o1, h1⟩ | ⟨w, h1⟩ <;> simp [h1, run]

mutual
  theorem compileS_ok : (s : St) → (cs : CS) → (own : List Slot) → (fuel : Nat) → (path : List Bool) → (l : Bool) →
      Inv cs own → wfS s cs.visible.length l = true → (l = true → cs.loops ≠ []) → HW cs →
      Post (compileS s cs).2 (LTail cs) (run fuel (compileS s cs).1 path own)
    | .decl e, cs, own, fuel, path, l, h, hw, _, _ => decl_ok e cs own fuel path h (by simpa [wfS] using hw)
    | .assign k e, cs, own, fuel, path, l, h, hw, _, _ => by
      simp only [wfS, Bool.and_eq_true, decide_eq_true_eq] at hw
      exact assign_ok k e cs own fuel path h hw.1 hw.2
    | .expr e, cs, own, fuel, path, l, h, hw, _, _ => expr_ok e cs own fuel path h (by simpa [wfS] using hw)
    | .ret e, cs, own, fuel, path, l, h, hw, _, _ => by
      rw [ret_ok e cs own fuel path h (by simpa [wfS] using hw)]
      simp [Post]
    | .brk, cs, own, fuel, path, l, h, hw, hl, hhw => by
      simp only [wfS] at hw
      obtain ⟨o, scs, ho, hlt, hinv⟩ := jump_ok cs own h (hl hw) hhw
      simp only [compileS, run, run_ofList fuel _ path own o ho, Post]
      exact ⟨scs, hlt, hinv⟩
    | .cont, cs, own, fuel, path, l, h, hw, hl, hhw => by
      simp only [wfS] at hw
      obtain ⟨o, scs, ho, hlt, hinv⟩ := jump_ok cs own h (hl hw) hhw
      simp only [compileS, run, run_ofList fuel _ path own o ho, Post]
      exact ⟨scs, hlt, hinv⟩
    | .block b, cs, own, fuel, path, l, h, hw, hl, hhw => by
      simp only [wfS] at hw
      have hs := compileStmts_ok b cs.push own fuel path l h.push (by rw [visible_push]; exact hw)
        (fun e => by have := hl e; cases hc : cs.loops <;> simp_all [CS.push, bump]) (HW_push cs)
      simpa [compileS] using block_ok b cs own fuel path hhw (compileStmts_frame b _) hs
    | .ite c t e, cs, own, fuel, path, l, h, hw, hl, hhw => by
      simp only [wfS, Bool.and_eq_true] at hw
      have fc := compileC_frame c cs
      have gc := compileC_ok c cs own fuel path h hw.1.1
      have hres : compileS (.ite c t e) cs = (.seq (compileC c cs).1 (.choice (compileBlock t (compileC c cs).2.push).1
          (compileBlock e (compileBlock t (compileC c cs).2.push).2.pop.push).1),
          (compileBlock e (compileBlock t (compileC c cs).2.push).2.pop.push).2.pop) := by simp [compileS]
      rw [hres]
      generalize hrc : compileC c cs = rc at fc gc
      obtain ⟨cc, cs1⟩ := rc
      simp only at fc gc ⊢
      have hlt1 : LTail cs1 = LTail cs := LTail_frame fc.toS
      have hhw1 : HW cs1 := HW_frame fc.toS hhw
      have hl1 : l = true → cs1.loops ≠ [] := fun e' => by rw [fc.loops]; exact hl e'
      have hvis1 : cs1.visible = cs.visible := fc.visible
      have hpl : ∀ cs' : CS, (l = true → cs'.loops ≠ []) → (l = true → cs'.push.loops ≠ []) := by
        intro cs' hh e'; have := hh e'; cases hc : cs'.loops <;> simp_all [CS.push, bump]
      -- then-block
      have ftS := compileStmts_frame t cs1.push.push
      have ft := block_frame_of t cs1.push ftS
      have hallT : (compileBlock t cs1.push).2.all = cs1.push.all := block_all_of t cs1.push ftS
      generalize hrt : compileBlock t cs1.push = rt at ft hallT
      obtain ⟨ct, csT⟩ := rt
      simp only at ft hallT ⊢
      have hTpop : csT.pop.all = cs1.all := all_pop (by simpa [CS.push] using ft.outer)
      have fTp : Frame cs1 csT.pop := ft.push_pop
      -- else-block
      have feS := compileStmts_frame e csT.pop.push.push
      have fe := block_frame_of e csT.pop.push feS
      have hallE : (compileBlock e csT.pop.push).2.all = csT.pop.push.all := block_all_of e csT.pop.push feS
      generalize hre : compileBlock e csT.pop.push = re at fe hallE
      obtain ⟨ce, csE⟩ := re
      simp only at fe hallE ⊢
      have hEpop : csE.pop.all = csT.pop.all := all_pop (by simpa [CS.push] using fe.outer)
      have fEp : Frame csT.pop csE.pop := fe.push_pop
      simp only [run]
      cases hr1 : run fuel cc path own with
      | normal own1 path1 =>
        rw [hr1] at gc
        simp only [GoodC] at gc
        simp only
        cases path1 with
        | nil => simp [run, Post]
        | cons bit path2 =>
          cases bit with
          | true =>
            simp only [run]
            have hs := compileStmts_ok t cs1.push.push own1 fuel path2 l gc.push.push
              (by rw [visible_push, visible_push, hvis1]; exact hw.1.2) (hpl _ (hpl _ hl1)) (HW_push _)
            have hb := block_ok t cs1.push own1 fuel path2 (HW_push _) ftS hs
            rw [hrt] at hb
            simp only at hb
            rw [LTail_push hhw1, hlt1] at hb
            refine hb.mono ?_
            intro o ho
            refine ho.of_flat ?_ (Nat.le_trans (by simpa [CS.pop] using (Nat.le_refl csT.next)) fEp.next)
            rw [hEpop, hTpop, hallT]; simp [CS.all, CS.push]
          | false =>
            simp only [run]
            have hinv : Inv csT.pop.push.push own1 := by
              refine gc.of_flat ?_ (by simpa [CS.push] using fTp.next)
              have : csT.pop.push.push.all = {} :: {} :: csT.pop.all := by simp [CS.all, CS.push]
              rw [this, hTpop]; simp
            have hs := compileStmts_ok e csT.pop.push.push own1 fuel path2 l hinv
              (by rw [visible_push, visible_push, fTp.visible, hvis1]; exact hw.2)
              (hpl _ (hpl _ (fun e' => by rw [fTp.loops]; exact hl1 e'))) (HW_push _)
            have hhwT : HW csT.pop := HW_frame fTp.toS hhw1
            have hb := block_ok e csT.pop.push own1 fuel path2 (HW_push _) feS hs
            rw [hre] at hb
            simp only at hb
            rw [LTail_push hhwT, LTail_frame fTp.toS, hlt1] at hb
            refine hb.mono ?_
            intro o ho
            refine ho.of_flat ?_ (by simp [CS.pop])
            rw [hEpop, hallE]; simp [CS.all, CS.push]
      | timeout => simp [Post]
      | err w => rw [hr1] at gc; simp [GoodC] at gc
      | brk o p => rw [hr1] at gc; simp [GoodC] at gc
      | cont o p => rw [hr1] at gc; simp [GoodC] at gc
      | ret o => rw [hr1] at gc; simp [GoodC] at gc
    | .while c b, cs, own, fuel, path, l, h, hw, hl, hhw => by
      simp only [wfS, Bool.and_eq_true] at hw
      have fcS := compileC_frame c cs.push
      have hres : compileS (.while c b) cs =
          (.loop (.seq (compileC c cs.push).1 (Code.ofList (compileC c cs.push).2.cur.frees))
             (compileBlock b { (compileC c cs.push).2.pop.push with loops := 1 :: (compileC c cs.push).2.pop.push.loops }).1,
           { (compileBlock b { (compileC c cs.push).2.pop.push with loops := 1 :: (compileC c cs.push).2.pop.push.loops }).2.pop with
              loops := (compileC c cs.push).2.pop.loops }) := by simp [compileS]
      rw [hres]
      have gcAll := fun own' (hI : Inv cs own') fuel' path' =>
        compileC_ok c cs.push own' fuel' path' hI.push (by rw [visible_push]; exact hw.1)
      generalize hrc : compileC c cs.push = rc at fcS gcAll
      obtain ⟨cc, cs1⟩ := rc
      simp only at fcS gcAll ⊢
      have hout1 : cs1.outer = cs.cur :: cs.outer := by simpa [CS.push] using fcS.outer
      have f2 : Frame cs cs1.pop := fcS.push_pop
      have hall2 : cs1.pop.all = cs.all := all_pop hout1
      have fbS := compileStmts_frame b ({ cs1.pop.push with loops := 1 :: cs1.pop.push.loops } : CS).push
      have hallB := block_all_of b { cs1.pop.push with loops := 1 :: cs1.pop.push.loops } fbS
      have fb := block_frame_of b { cs1.pop.push with loops := 1 :: cs1.pop.push.loops } fbS
      have hbAll := fun own' fuel' path' (hinv : Inv ({ cs1.pop.push with loops := 1 :: cs1.pop.push.loops } : CS).push own') =>
        block_ok b { cs1.pop.push with loops := 1 :: cs1.pop.push.loops } own' fuel' path'
          (by intro d r hl'; simp at hl'; omega) fbS
          (compileStmts_ok b ({ cs1.pop.push with loops := 1 :: cs1.pop.push.loops } : CS).push own' fuel' path' true hinv
            (by
              have : (({ cs1.pop.push with loops := 1 :: cs1.pop.push.loops } : CS).push).visible = cs.visible := by
                rw [visible_push]
                have : ({ cs1.pop.push with loops := 1 :: cs1.pop.push.loops } : CS).visible = cs1.pop.push.visible := by
                  simp [CS.visible, CS.all]
                rw [this, visible_push, f2.visible]
              rw [this]; exact hw.2)
            (fun _ => by simp [CS.push, bump]) (HW_push _))
      have hco : cs1.pop.cur = cs.cur ∧ cs1.pop.outer = cs.outer := by simpa [CS.all] using hall2
      have hlt : LTail ({ cs1.pop.push with loops := 1 :: cs1.pop.push.loops } : CS) = some cs.all := by
        simp [LTail, CS.push, CS.all, hco.1, hco.2]
      rw [hlt] at hbAll
      generalize hrb : compileBlock b { cs1.pop.push with loops := 1 :: cs1.pop.push.loops } = rb at hallB fb hbAll
      obtain ⟨cb, cs3⟩ := rb
      simp only at hallB fb hbAll ⊢
      have hflat3 : flatS cs3.all = flatS cs.all := by
        rw [hallB]; simp [CS.all, CS.push, hco.1, hco.2]
      have hfin_all : ({ cs3.pop with loops := cs1.pop.loops } : CS).all = cs.all := by
        have : cs3.pop.all = cs1.pop.all := all_pop (by simpa [CS.push] using fb.outer)
        rw [← hall2, ← this]; simp [CS.all]
      have hfin_next : cs.next ≤ cs3.next := Nat.le_trans f2.next (by simpa [CS.push] using fb.next)
      have hc : ∀ fuel' own' path', InvT cs.all own' →
          GoodL cs.all (run fuel' (.seq cc (Code.ofList cs1.cur.frees)) path' own') ∧
            ∀ o, run fuel' (.seq cc (Code.ofList cs1.cur.frees)) path' own' ≠ .ret o := by
        intro fuel' own' path' hT
        have gc := gcAll own' ⟨hT, h.2.1, h.2.2⟩ fuel' path'
        simp only [run]
        cases hr : run fuel' cc path' own' with
        | normal o1 p1 =>
          rw [hr] at gc
          simp only [GoodC] at gc
          obtain ⟨o2, ho2, hinv2⟩ := gc.exit hout1
          simp only [run_ofList fuel' _ p1 o1 o2 ho2, GoodL]
          exact ⟨by rw [← hall2]; exact hinv2.1, by simp⟩
        | timeout => exact ⟨by simp [GoodL], by simp⟩
        | err w => rw [hr] at gc; simp [GoodC] at gc
        | brk o p => rw [hr] at gc; simp [GoodC] at gc
        | cont o p => rw [hr] at gc; simp [GoodC] at gc
        | ret o => rw [hr] at gc; simp [GoodC] at gc
      have hb : ∀ fuel' own' path', InvT cs.all own' → GoodB cs.all (run fuel' cb path' own') := by
        intro fuel' own' path' hT
        have hI : Inv cs own' := ⟨hT, h.2.1, h.2.2⟩
        have hinv : Inv ({ cs1.pop.push with loops := 1 :: cs1.pop.push.loops } : CS).push own' := by
          refine hI.of_flat ?_ (by simpa [CS.push] using f2.next)
          simp [CS.all, CS.push, hco.1, hco.2]
        have hp := hbAll own' fuel' path' hinv
        cases hr : run fuel' cb path' own' with
        | normal o p =>
          rw [hr] at hp
          simp only [Post] at hp
          simp only [GoodB]
          exact hp.1.of_flat hflat3.symm
        | brk o p =>
          rw [hr] at hp
          simp only [Post] at hp
          obtain ⟨scs, e1, hi⟩ := hp
          simp only [Option.some.injEq] at e1
          simpa [GoodB, e1] using hi
        | cont o p =>
          rw [hr] at hp
          simp only [Post] at hp
          obtain ⟨scs, e1, hi⟩ := hp
          simp only [Option.some.injEq] at e1
          simpa [GoodB, e1] using hi
        | ret o => rw [hr] at hp; simpa [GoodB, Post] using hp
        | timeout => simp [GoodB]
        | err w => rw [hr] at hp; simp [Post] at hp
      have key := loop_ok cs.all _ cb hc hb fuel own path h.1
      cases hr : run fuel (.loop (.seq cc (Code.ofList cs1.cur.frees)) cb) path own with
      | normal o p =>
        rw [hr] at key
        simp only [GoodL] at key
        simp only [Post]
        refine ⟨by rw [hfin_all]; exact key, ?_, Nat.lt_of_lt_of_le h.2.2 (by simpa [CS.pop] using hfin_next)⟩
        rw [hfin_all]
        exact h.2.1.mono (by simpa [CS.pop] using hfin_next)
      | ret o => rw [hr] at key; simpa [GoodL, Post] using key
      | timeout => simp [Post]
      | err w => rw [hr] at key; simp [GoodL] at key
      | brk o p => rw [hr] at key; simp [GoodL] at key
      | cont o p => rw [hr] at key; simp [GoodL] at key
  theorem compileStmts_ok : (b : Blk) → (cs : CS) → (own : List Slot) → (fuel : Nat) → (path : List Bool) → (l : Bool) →
      Inv cs own → wfB b cs.visible.length l = true → (l = true → cs.loops ≠ []) → HW cs →
      StmtsPost (compileStmts b cs).2.2 (compileStmts b cs).2.1 (LTail cs) (run fuel (compileStmts b cs).1 path own)
    | .nil, cs, own, fuel, path, l, h, _, _, _ => by
      simp only [compileStmts, run, StmtsPost, Post]
      exact ⟨h, by simp⟩
    | .cons s rest, cs, own, fuel, path, l, h, hw, hl, hhw => by
      simp only [wfB, Bool.and_eq_true] at hw
      have hs := compileS_ok s cs own fuel path l h hw.1 hl hhw
      have fs := compileS_frame s cs
      by_cases hret : isRet s = true
      · have hnn : NotNormal (run fuel (compileS s cs).1 path own) := by
          cases s <;> simp [isRet] at hret
          simp only [compileS]
          exact seq_ret_notNormal fuel _ path own
        have : compileStmts (.cons s rest) cs = ((compileS s cs).1, (compileS s cs).2, true) := by
          simp [compileStmts, hret]
        rw [this]
        exact ⟨hs, fun _ => hnn⟩
      · simp only [Bool.not_eq_true] at hret
        have hexp : compileStmts (.cons s rest) cs = (.seq (compileS s cs).1 (compileStmts rest (compileS s cs).2).1,
            (compileStmts rest (compileS s cs).2).2.1, (compileStmts rest (compileS s cs).2).2.2) := by
          simp [compileStmts, hret]
        rw [hexp]
        simp only [run]
        have hwrest : wfB rest (compileS s cs).2.visible.length l = true := by
          rw [fs.2]
          cases s <;> simpa [declCount] using hw.2
        cases hr : run fuel (compileS s cs).1 path own with
        | normal own1 path1 =>
          rw [hr] at hs
          simp only [Post] at hs
          have := compileStmts_ok rest (compileS s cs).2 own1 fuel path1 l hs hwrest
            (fun e' => by rw [fs.1.loops]; exact hl e') (HW_frame fs.1 hhw)
          rw [LTail_frame fs.1] at this
          exact this
        | timeout => exact ⟨by simp [Post], fun _ => by intro o p; simp⟩
        | err w => rw [hr] at hs; simp [Post] at hs
        | brk o p => rw [hr] at hs; exact ⟨by simpa [Post] using hs, fun _ => by intro o p; simp⟩
        | cont o p => rw [hr] at hs; exact ⟨by simpa [Post] using hs, fun _ => by intro o p; simp⟩
        | ret o => rw [hr] at hs; exact ⟨by simpa [Post] using hs, fun _ => by intro o p; simp⟩
end

end DDP.Own

import DDP.Proofs.OrderedMap

/-! helper lemmas for `Props/C20.lean`: the alias trie on top of the sorted-slice map -/

namespace DDP.OMap
variable {K V : Type}

theorem bsearch_found_lt (eq less : K → K → Bool) (m : List (K × V)) (key : K) :
    ∀ (fuel lo hi i : Nat), bsearch eq less m key fuel lo hi = (i, true) → i < m.length
  | 0, lo, hi, i, h => by simp [bsearch] at h
  | fuel + 1, lo, hi, i, h => by
    unfold bsearch at h
    by_cases hlt : lo < hi
    · rw [if_pos hlt] at h
      dsimp only at h
      cases hm : m[(lo + hi) / 2]? with
      | none => rw [hm] at h; simp at h
      | some e =>
        obtain ⟨k, w⟩ := e
        rw [hm] at h
        simp only at h
        by_cases heq : eq k key = true
        · rw [if_pos heq] at h
          simp only [Prod.mk.injEq, and_true] at h
          subst h
          exact (List.getElem?_eq_some_iff.mp hm).1
        · rw [if_neg heq] at h
          by_cases hl : less k key = true
          · rw [if_pos hl] at h; exact bsearch_found_lt eq less m key fuel _ _ i h
          · rw [if_neg hl] at h; exact bsearch_found_lt eq less m key fuel _ _ i h
    · rw [if_neg hlt] at h; simp at h

theorem find_found_lt (eq less : K → K → Bool) (m : List (K × V)) (key : K) (i : Nat)
    (h : find eq less m key = (i, true)) : i < m.length :=
  bsearch_found_lt eq less m key _ _ _ i h

end DDP.OMap

namespace DDP.Trie
open DDP.OMap
variable {K V : Type}

/-- `Insert` expressed through the map operations `Get`/`Set` (pure definitional
unfolding; no assumption on the predicates) -/
theorem insert_cons (eq less : K → K → Bool) (k : K) (ks : List K) (v : V)
    (ch : List (K × Node K V)) (val : Option V) :
    insert eq less (k :: ks) v (.mk ch val) =
      .mk (OMap.set eq less ch k (insert eq less ks v ((OMap.get eq less ch k).getD Node.empty))) val := by
  conv => lhs; unfold insert
  unfold OMap.set OMap.get
  cases hf : find eq less ch k with
  | mk i b =>
    cases b with
    | false => simp
    | true =>
      have hi := find_found_lt eq less ch k i hf
      simp only [List.getElem?_eq_getElem hi, Option.map_some, Option.getD_some]
      congr 1
      apply List.ext_getElem
      · simp
      · intro j h1 h2
        simp only [List.getElem_set, List.getElem_modify]
        split
        · next hij => subst hij; rfl
        · rfl

/-- all children maps are sorted, recursively -/
inductive WF (less : K → K → Bool) : Node K V → Prop where
  | mk (ch : List (K × Node K V)) (val : Option V) :
      Sorted less ch → (∀ e ∈ ch, WF less e.2) → WF less (.mk ch val)

theorem WF.empty (less : K → K → Bool) : WF less (Node.empty : Node K V) :=
  .mk [] none (by simp [Sorted]) (by simp)

/-- pointwise `eq` of two key sequences of the same length -/
def keysEq (eq : K → K → Bool) : List K → List K → Bool
  | [], [] => true
  | a :: as, b :: bs => eq a b && keysEq eq as bs
  | _, _ => false

theorem aliasExists_nil (eq less : K → K → Bool) (ch : List (K × Node K V)) (val : Option V) :
    aliasExists eq less [] (.mk ch val) = val := by
  unfold aliasExists contains
  cases val <;> rfl

theorem aliasExists_cons (eq less : K → K → Bool) (k : K) (ks : List K)
    (ch : List (K × Node K V)) (val : Option V) :
    aliasExists eq less (k :: ks) (.mk ch val) =
      match OMap.get eq less ch k with
      | some c => aliasExists eq less ks c
      | none => none := by
  unfold aliasExists
  rw [contains]
  cases OMap.get eq less ch k <;> rfl

theorem aliasExists_empty (eq less : K → K → Bool) (ks : List K) :
    aliasExists eq less ks (Node.empty : Node K V) = none := by
  cases ks with
  | nil => exact aliasExists_nil eq less [] none
  | cons k ks =>
    unfold Node.empty
    rw [aliasExists_cons]
    simp [OMap.get, OMap.find, OMap.bsearch]

section
variable {eq less : K → K → Bool} (hc : Compat eq less)
include hc

/-- two `eq` keys find the same entry -/
theorem get_congr (m : List (K × V)) (hs : Sorted less m) (k k' : K) (he : eq k k' = true) :
    OMap.get eq less m k = OMap.get eq less m k' := by
  apply Option.ext
  intro u
  rw [get_some_iff hc m hs, get_some_iff hc m hs]
  constructor
  · rintro ⟨e, hem, hee, hev⟩; exact ⟨e, hem, hc.eq_trans _ _ _ hee he, hev⟩
  · rintro ⟨e, hem, hee, hev⟩
    have he' : eq k' k = true := by rw [hc.eq_symm]; exact he
    exact ⟨e, hem, hc.eq_trans _ _ _ hee he', hev⟩

theorem insert_wf : ∀ (ks : List K) (v : V) (n : Node K V), WF less n → WF less (insert eq less ks v n)
  | [], v, .mk ch val, h => by
    cases h with
    | mk _ _ hs hch => unfold insert; exact .mk ch (some v) hs hch
  | k :: ks, v, .mk ch val, h => by
    cases h with
    | mk _ _ hs hch =>
      rw [insert_cons]
      have hchild : WF less ((OMap.get eq less ch k).getD Node.empty) := by
        cases hg : OMap.get eq less ch k with
        | none => exact WF.empty less
        | some c =>
          obtain ⟨e, hem, _, rfl⟩ := (get_some_iff hc ch hs k c).mp hg
          exact hch e hem
      have hnew := insert_wf ks v _ hchild
      refine .mk _ val (set_sorted hc ch hs k _) ?_
      intro e hem
      -- every entry of the updated map is an old entry or carries the new child
      by_cases hek : eq e.1 k = true
      · have h1 : OMap.get eq less (OMap.set eq less ch k (insert eq less ks v ((OMap.get eq less ch k).getD Node.empty))) e.1
            = some (insert eq less ks v ((OMap.get eq less ch k).getD Node.empty)) := by
          rw [get_set hc ch hs]
          have : eq k e.1 = true := by rw [hc.eq_symm]; exact hek
          simp [this]
        have h2 := (get_some_iff hc _ (set_sorted hc ch hs k _) e.1 e.2).mpr ⟨e, hem, hc.eq_refl _, rfl⟩
        rw [h1] at h2
        have h3 := Option.some.inj h2
        rw [← h3]; exact hnew
      · have hek' : eq k e.1 = false := by
          rw [hc.eq_symm]; simpa using hek
        have h1 := get_set hc ch hs k (insert eq less ks v ((OMap.get eq less ch k).getD Node.empty)) e.1
        rw [hek'] at h1
        simp only [Bool.false_eq_true, if_false] at h1
        have h2 := (get_some_iff hc _ (set_sorted hc ch hs k _) e.1 e.2).mpr ⟨e, hem, hc.eq_refl _, rfl⟩
        rw [h1] at h2
        obtain ⟨e', hem', _, he2⟩ := (get_some_iff hc ch hs e.1 e.2).mp h2
        rw [← he2]; exact hch e' hem'

/-- the alias store behaves like an association list keyed by `eq`-classes of patterns -/
theorem aliasExists_insert : ∀ (ks ks' : List K) (v : V) (n : Node K V), WF less n →
    aliasExists eq less ks' (insert eq less ks v n) =
      if keysEq eq ks ks' then some v else aliasExists eq less ks' n
  | [], [], v, .mk ch val, _ => by
    unfold insert; rw [aliasExists_nil]; simp [keysEq]
  | [], k' :: r', v, .mk ch val, _ => by
    unfold insert; rw [aliasExists_cons, aliasExists_cons]; simp [keysEq]
  | k :: r, [], v, .mk ch val, _ => by
    rw [insert_cons, aliasExists_nil, aliasExists_nil]; simp [keysEq]
  | k :: r, k' :: r', v, .mk ch val, h => by
    cases h with
    | mk _ _ hs hch =>
      rw [insert_cons, aliasExists_cons, aliasExists_cons, get_set hc ch hs]
      have hchild : WF less ((OMap.get eq less ch k).getD Node.empty) := by
        cases hg : OMap.get eq less ch k with
        | none => exact WF.empty less
        | some c =>
          obtain ⟨e, hem, _, rfl⟩ := (get_some_iff hc ch hs k c).mp hg
          exact hch e hem
      cases hk : eq k k' with
      | true =>
        simp only [if_true, keysEq, hk, Bool.true_and]
        rw [aliasExists_insert r r' v _ hchild, ← get_congr hc ch hs k k' hk]
        cases hg : OMap.get eq less ch k with
        | none => simp [aliasExists_empty]
        | some c => simp
      | false =>
        simp [keysEq, hk]

end

end DDP.Trie

import DDP.Impl.OrderedMap

/-! helper lemmas for `Props/C20.lean`: correctness of the sorted-slice map under `Compat` -/

namespace DDP.OMap

variable {K V : Type}

/-- the contract between the two independently written predicates: `less` is a strict weak
order and `eq` is exactly its incomparability relation -/
structure Compat (eq less : K → K → Bool) : Prop where
  irrefl : ∀ a, less a a = false
  trans : ∀ a b c, less a b = true → less b c = true → less a c = true
  eq_iff : ∀ a b, eq a b = (!less a b && !less b a)
  eq_trans : ∀ a b c, eq a b = true → eq b c = true → eq a c = true

namespace Compat
variable {eq less : K → K → Bool} (h : Compat eq less)
include h

theorem eq_symm (a b : K) : eq a b = eq b a := by
  rw [h.eq_iff, h.eq_iff, Bool.and_comm]

theorem eq_refl (a : K) : eq a a = true := by simp [h.eq_iff, h.irrefl]

theorem less_not_eq (a b : K) (hl : less a b = true) : eq a b = false := by simp [h.eq_iff, hl]

theorem less_not_eq' (a b : K) (hl : less a b = true) : eq b a = false := by simp [h.eq_iff, hl]

theorem asymm (a b : K) (hl : less a b = true) : less b a = false := by
  cases hb : less b a with
  | false => rfl
  | true => have := h.trans a b a hl hb; rw [h.irrefl] at this; exact Bool.noConfusion this

theorem trichotomy (a b : K) (hne : eq a b = false) (hnl : less a b = false) : less b a = true := by
  rw [h.eq_iff, hnl] at hne; simpa using hne

/-- `less` respects `eq` on the right -/
theorem less_eq_right (a b c : K) (hl : less a b = true) (he : eq b c = true) : less a c = true := by
  cases hac : less a c with
  | true => rfl
  | false =>
    -- either c < a (then c < b, contradiction with eq b c) or a ~ c (then a ~ b by eq_trans, contradiction)
    cases hca : less c a with
    | true =>
      have := h.trans c a b hca hl
      have := h.less_not_eq' c b this
      rw [he] at this; exact Bool.noConfusion this
    | false =>
      have hec : eq a c = true := by simp [h.eq_iff, hac, hca]
      have hcb : eq c b = true := by rw [h.eq_symm]; exact he
      have := h.eq_trans a c b hec hcb
      rw [h.less_not_eq a b hl] at this; exact Bool.noConfusion this

theorem less_eq_left (a b c : K) (he : eq a b = true) (hl : less b c = true) : less a c = true := by
  cases hac : less a c with
  | true => rfl
  | false =>
    cases hca : less c a with
    | true =>
      have := h.trans b c a hl hca
      have := h.less_not_eq' b a this
      rw [he] at this; exact Bool.noConfusion this
    | false =>
      have hec : eq a c = true := by simp [h.eq_iff, hac, hca]
      have hba : eq b a = true := by rw [h.eq_symm]; exact he
      have := h.eq_trans b a c hba hec
      rw [h.less_not_eq b c hl] at this; exact Bool.noConfusion this

end Compat

/-- keys strictly increasing -/
def Sorted (less : K → K → Bool) (m : List (K × V)) : Prop :=
  m.Pairwise (fun x y => less x.1 y.1 = true)

theorem Sorted.get_lt {less : K → K → Bool} {m : List (K × V)} (hs : Sorted less m) {i j : Nat}
    (hi : i < j) (hj : j < m.length) : less (m[i]'(Nat.lt_trans hi hj)).1 (m[j]).1 = true :=
  List.pairwise_iff_getElem.mp hs i j (Nat.lt_trans hi hj) hj hi

section bsearch
variable {eq less : K → K → Bool} (hc : Compat eq less)
include hc

/-- what `binarySearch` promises -/
def FindPost (eq : K → K → Bool) (m : List (K × V)) (key : K) (r : Nat × Bool) : Prop :=
  (r.2 = true → ∃ (hi' : r.1 < m.length), eq (m[r.1]).1 key = true) ∧
  (r.2 = false → ∀ e ∈ m, eq e.1 key = false)

/-- specification of the binary search on a sorted map -/
theorem bsearch_spec (m : List (K × V)) (hs : Sorted less m) (key : K) :
    ∀ (fuel lo hi : Nat), hi - lo < fuel → lo ≤ hi → hi ≤ m.length →
      (∀ i (hi' : i < m.length), i < lo → less (m[i]).1 key = true) →
      (∀ i (hi' : i < m.length), hi ≤ i → less key (m[i]).1 = true) →
      FindPost eq m key (bsearch eq less m key fuel lo hi)
  | 0, lo, hi, hf, _, _, _, _ => absurd hf (Nat.not_lt_zero _)
  | fuel + 1, lo, hi, hf, hle, hlen, hlo, hhi => by
    unfold bsearch
    by_cases hlt : lo < hi
    · rw [if_pos hlt]
      have hmid : (lo + hi) / 2 < m.length := by omega
      simp only [List.getElem?_eq_getElem hmid]
      by_cases heq : eq (m[(lo + hi) / 2]).1 key = true
      · rw [if_pos heq]; exact ⟨fun _ => ⟨hmid, heq⟩, fun h => by cases h⟩
      · rw [if_neg heq]
        by_cases hl : less (m[(lo + hi) / 2]).1 key = true
        · rw [if_pos hl]
          refine bsearch_spec m hs key fuel ((lo + hi) / 2 + 1) hi (by omega) (by omega) hlen ?_ hhi
          intro i hi' hilt
          by_cases hie : i = (lo + hi) / 2
          · subst hie; exact hl
          · have : i < (lo + hi) / 2 := by omega
            exact hc.trans _ _ _ (hs.get_lt this hmid) hl
        · rw [if_neg hl]
          have hgt : less key (m[(lo + hi) / 2]).1 = true := by
            have hne' : eq (m[(lo + hi) / 2]).1 key = false := by simpa using heq
            have hnl' : less (m[(lo + hi) / 2]).1 key = false := by simpa using hl
            exact hc.trichotomy _ _ hne' hnl'
          refine bsearch_spec m hs key fuel lo ((lo + hi) / 2) (by omega) (by omega) (by omega) hlo ?_
          intro i hi' hige
          by_cases hie : i = (lo + hi) / 2
          · subst hie; exact hgt
          · have : (lo + hi) / 2 < i := by omega
            exact hc.trans _ _ _ hgt (hs.get_lt this hi')
    · rw [if_neg hlt]
      have : lo = hi := by omega
      subst this
      refine ⟨fun h => (by cases h), fun _ e he => ?_⟩
      obtain ⟨i, hi', rfl⟩ := List.getElem_of_mem he
      by_cases hil : i < lo
      · exact hc.less_not_eq _ _ (hlo i hi' hil)
      · exact hc.less_not_eq' _ _ (hhi i hi' (by omega))

theorem find_spec' (m : List (K × V)) (hs : Sorted less m) (key : K) :
    FindPost eq m key (find eq less m key) :=
  bsearch_spec hc m hs key (m.length + 1) 0 m.length (by omega) (by omega) (Nat.le_refl _)
    (fun i _ h => absurd h (Nat.not_lt_zero _)) (fun i hi' h => absurd hi' (by omega))

theorem find_spec (m : List (K × V)) (hs : Sorted less m) (key : K) :
    match find eq less m key with
    | (i, true) => ∃ (hi' : i < m.length), eq (m[i]).1 key = true
    | (_, false) => ∀ e ∈ m, eq e.1 key = false := by
  have h := find_spec' hc m hs key
  generalize find eq less m key = r at *
  obtain ⟨i, b⟩ := r
  cases b with
  | true => exact h.1 rfl
  | false => exact h.2 rfl

/-- at most one entry is `eq` to a key -/
theorem unique_eq (m : List (K × V)) (hs : Sorted less m) (key : K) (i j : Nat)
    (hi : i < m.length) (hj : j < m.length) (ei : eq (m[i]).1 key = true) (ej : eq (m[j]).1 key = true) :
    i = j := by
  have hsym : eq key (m[j]).1 = true := by rw [hc.eq_symm]; exact ej
  have hij : eq (m[i]).1 (m[j]).1 = true := hc.eq_trans _ _ _ ei hsym
  by_cases h1 : i < j
  · have := hc.less_not_eq _ _ (hs.get_lt h1 hj); rw [hij] at this; exact Bool.noConfusion this
  · by_cases h2 : j < i
    · have := hc.less_not_eq' _ _ (hs.get_lt h2 hi); rw [hij] at this; exact Bool.noConfusion this
    · omega

/-- `Get` returns the value of the unique entry whose key is `eq` to the requested one -/
theorem get_some_iff (m : List (K × V)) (hs : Sorted less m) (key : K) (v : V) :
    get eq less m key = some v ↔ ∃ e ∈ m, eq e.1 key = true ∧ e.2 = v := by
  have hf := find_spec hc m hs key
  unfold get
  generalize find eq less m key = r at *
  obtain ⟨i, b⟩ := r
  cases b with
  | true =>
    obtain ⟨hi', he⟩ := hf
    simp only [List.getElem?_eq_getElem hi', Option.map_some, Option.some.injEq]
    constructor
    · intro hv; exact ⟨m[i], List.getElem_mem hi', he, hv⟩
    · rintro ⟨e, hem, hee, hev⟩
      obtain ⟨j, hj, rfl⟩ := List.getElem_of_mem hem
      have := unique_eq hc m hs key i j hi' hj he hee
      subst this; exact hev
  | false =>
    simp only
    constructor
    · intro h; cases h
    · rintro ⟨e, hem, hee, _⟩
      have := hf e hem; rw [hee] at this; exact Bool.noConfusion this

theorem get_none_iff (m : List (K × V)) (hs : Sorted less m) (key : K) :
    get eq less m key = none ↔ ∀ e ∈ m, eq e.1 key = false := by
  constructor
  · intro hn e hem
    cases hee : eq e.1 key with
    | false => rfl
    | true =>
      have := (get_some_iff hc m hs key e.2).mpr ⟨e, hem, hee, rfl⟩
      rw [hn] at this; cases this
  · intro hall
    cases hg : get eq less m key with
    | none => rfl
    | some v =>
      obtain ⟨e, hem, hee, _⟩ := (get_some_iff hc m hs key v).mp hg
      rw [hall e hem] at hee; cases hee

end bsearch

section setlemmas
variable {eq less : K → K → Bool} (hc : Compat eq less)
include hc

omit hc in
theorem insertSorted_mem' (key : K) (v : V) (m : List (K × V)) (e : K × V) :
    e ∈ insertSorted less key v m ↔ e = (key, v) ∨ e ∈ m := by
  induction m with
  | nil => simp [insertSorted]
  | cons x rest ih =>
    obtain ⟨k, w⟩ := x
    unfold insertSorted
    split
    · simp
    · simp only [List.mem_cons, ih]
      constructor
      · rintro (h | h | h) <;> simp [h]
      · rintro (h | h | h) <;> simp [h]

theorem insertSorted_sorted (key : K) (v : V) (m : List (K × V)) (hs : Sorted less m)
    (hno : ∀ e ∈ m, eq e.1 key = false) : Sorted less (insertSorted less key v m) := by
  induction m with
  | nil => simp [insertSorted, Sorted]
  | cons x rest ih =>
    obtain ⟨k, w⟩ := x
    have hs' : Sorted less rest := (List.pairwise_cons.mp hs).2
    have hhead : ∀ y ∈ rest, less k y.1 = true := (List.pairwise_cons.mp hs).1
    unfold insertSorted
    split
    · next hl =>
      refine List.pairwise_cons.mpr ⟨?_, hs⟩
      intro y hy
      simp only [List.mem_cons] at hy
      rcases hy with rfl | hy
      · exact hl
      · exact hc.trans _ _ _ hl (hhead y hy)
    · next hnl =>
      have hkk : less k key = true := by
        have h1 : eq k key = false := hno (k, w) (List.mem_cons_self)
        have h2 : less key k = false := by simpa using hnl
        have h1' : eq key k = false := by rw [hc.eq_symm]; exact h1
        exact hc.trichotomy key k h1' h2
      refine List.pairwise_cons.mpr ⟨?_, ih hs' (fun e he => hno e (List.mem_cons_of_mem _ he))⟩
      intro y hy
      rcases (insertSorted_mem' key v rest y).mp hy with rfl | hy
      · exact hkk
      · exact hhead y hy

omit hc in
theorem modify_sorted (m : List (K × V)) (hs : Sorted less m) (i : Nat) (v : V) :
    Sorted less (m.modify i (fun e => (e.1, v))) := by
  unfold Sorted at *
  rw [List.pairwise_iff_getElem] at *
  intro a b ha hb hab
  simp only [List.length_modify] at ha hb
  have := hs a b ha hb hab
  simp only [List.getElem_modify]
  split <;> split <;> simpa using this

theorem set_sorted (m : List (K × V)) (hs : Sorted less m) (key : K) (v : V) :
    Sorted less (set eq less m key v) := by
  have hf := find_spec hc m hs key
  unfold set
  generalize find eq less m key = r at *
  obtain ⟨i, b⟩ := r
  cases b with
  | true => exact modify_sorted m hs i v
  | false => exact insertSorted_sorted hc key v m hs hf

omit hc in
theorem mem_modify_iff (m : List (K × V)) (i : Nat) (f : K × V → K × V) (e : K × V) :
    e ∈ m.modify i f ↔ (∃ h : i < m.length, e = f m[i]) ∨ (∃ j, ∃ h : j < m.length, j ≠ i ∧ e = m[j]) := by
  constructor
  · intro hm
    obtain ⟨j, hj, rfl⟩ := List.getElem_of_mem hm
    simp only [List.length_modify] at hj
    simp only [List.getElem_modify]
    split
    · next hij => subst hij; exact Or.inl ⟨hj, rfl⟩
    · next hij => exact Or.inr ⟨j, hj, fun e => hij e.symm, rfl⟩
  · rintro (⟨h, rfl⟩ | ⟨j, h, hne, rfl⟩)
    · exact List.mem_iff_getElem.mpr ⟨i, by simpa using h, by simp [List.getElem_modify]⟩
    · refine List.mem_iff_getElem.mpr ⟨j, by simpa using h, ?_⟩
      simp only [List.getElem_modify]
      split
      · next hij => exact absurd hij.symm hne
      · rfl

/-- read-your-writes and frame: after `Set key v`, a lookup of `k'` finds `v` if `k'` is
`eq` to `key`, and otherwise what it found before -/
theorem get_set (m : List (K × V)) (hs : Sorted less m) (key : K) (v : V) (k' : K) :
    get eq less (set eq less m key v) k' =
      if eq key k' then some v else get eq less m k' := by
  have hs2 := set_sorted hc m hs key v
  have hf := find_spec hc m hs key
  apply Option.ext
  intro u
  rw [get_some_iff hc _ hs2]
  unfold set
  generalize find eq less m key = r at *
  obtain ⟨i, b⟩ := r
  cases b with
  | false =>
    simp only
    cases hk : eq key k' with
    | true =>
      simp only [if_true, Option.some.injEq]
      constructor
      · rintro ⟨e, hem, hee, hev⟩
        rcases (insertSorted_mem' key v m e).mp hem with rfl | hem'
        · exact hev
        · have h1 : eq k' key = true := by rw [hc.eq_symm]; exact hk
          have := hc.eq_trans _ _ _ hee h1
          rw [hf e hem'] at this; cases this
      · rintro rfl
        exact ⟨(key, v), (insertSorted_mem' key v m _).mpr (Or.inl rfl), hk, rfl⟩
    | false =>
      simp only [Bool.false_eq_true, if_false]
      rw [get_some_iff hc _ hs]
      constructor
      · rintro ⟨e, hem, hee, hev⟩
        rcases (insertSorted_mem' key v m e).mp hem with rfl | hem'
        · simp only at hee; rw [hk] at hee; cases hee
        · exact ⟨e, hem', hee, hev⟩
      · rintro ⟨e, hem, hee, hev⟩
        exact ⟨e, (insertSorted_mem' key v m e).mpr (Or.inr hem), hee, hev⟩
  | true =>
    obtain ⟨hi', he⟩ := hf
    simp only
    cases hk : eq key k' with
    | true =>
      simp only [if_true, Option.some.injEq]
      have hik : eq (m[i]).1 k' = true := hc.eq_trans _ _ _ he hk
      constructor
      · rintro ⟨e, hem, hee, hev⟩
        rcases (mem_modify_iff m i _ e).mp hem with ⟨_, rfl⟩ | ⟨j, hj, hne, rfl⟩
        · exact hev
        · have h1 : eq k' key = true := by rw [hc.eq_symm]; exact hk
          have := hc.eq_trans _ _ _ hee h1
          exact absurd (unique_eq hc m hs key i j hi' hj he this) (fun e => hne e.symm)
      · rintro rfl
        exact ⟨((m[i]).1, v), (mem_modify_iff m i _ _).mpr (Or.inl ⟨hi', rfl⟩), hik, rfl⟩
    | false =>
      simp only [Bool.false_eq_true, if_false]
      rw [get_some_iff hc _ hs]
      constructor
      · rintro ⟨e, hem, hee, hev⟩
        rcases (mem_modify_iff m i _ e).mp hem with ⟨_, rfl⟩ | ⟨j, hj, hne, rfl⟩
        · simp only at hee
          have h1 : eq key (m[i]).1 = true := by rw [hc.eq_symm]; exact he
          have := hc.eq_trans _ _ _ h1 hee
          rw [hk] at this; cases this
        · exact ⟨m[j], List.getElem_mem hj, hee, hev⟩
      · rintro ⟨e, hem, hee, hev⟩
        obtain ⟨j, hj, rfl⟩ := List.getElem_of_mem hem
        have hne : j ≠ i := by
          intro hji; subst hji
          have h1 : eq key (m[j]).1 = true := by rw [hc.eq_symm]; exact he
          have := hc.eq_trans _ _ _ h1 hee
          rw [hk] at this; cases this
        exact ⟨m[j], (mem_modify_iff m i _ _).mpr (Or.inr ⟨j, hj, hne, rfl⟩), hee, hev⟩

end setlemmas

end DDP.OMap

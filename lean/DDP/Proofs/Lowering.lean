import DDP.Impl.Lowering

/-! helper lemmas for `Props/C02.lean` -/

namespace DDP.Lowering
open DDP.Types DDP.Checker

theorem tu_of_gu (t : Ty) : trueUnderlying t = trueUnderlying (getUnderlying t) := by
  induction t with
  | alias u ih => simpa [trueUnderlying, getUnderlying] using ih
  | list e ih =>
    simp only [trueUnderlying, getUnderlying]
    congr 1
    -- getUnderlying is idempotent
    have : ∀ x : Ty, getUnderlying (getUnderlying x) = getUnderlying x := by
      intro x; induction x with
      | alias u ih => simpa [getUnderlying] using ih
      | list e ih => simp [getUnderlying, ih]
      | _ => simp [getUnderlying]
    exact (this e).symm
  | _ => simp [getUnderlying]

/-- the IR type depends on a type only through `GetUnderlying` -/
theorem toIr_congr (a b : Ty) (h : getUnderlying a = getUnderlying b) : toIr a = toIr b := by
  unfold toIr; rw [tu_of_gu a, tu_of_gu b, h]

theorem toIr_of_equal (a b : Ty) (h : equal a b = true) : toIr a = toIr b :=
  toIr_congr a b (by simpa [equal] using h)

theorem gu_of_equal_prim (t : Ty) (p : Prim) (h : equal t (.prim p) = true) : getUnderlying t = .prim p := by
  simpa [equal, getUnderlying] using h

theorem toIr_prim (t : Ty) (p : Prim) (h : equal t (.prim p) = true) : toIr t = elemIr (.prim p) := by
  rw [toIr_of_equal t (.prim p) h]; cases p <;> rfl

/-- the three numeric classes -/
inductive NumKind | z | k | b
  deriving DecidableEq

def NumKind.ty : NumKind → Ty | .z => zahl | .k => komma | .b => byte
def NumKind.ir : NumKind → IrTy | .z => .int | .k => .float | .b => .byte

/-- a type accepted by `validate(ZAHL, KOMMAZAHL, BYTE)` is equivalent to exactly one of them -/
theorem numKind_of (t : Ty) (h : isOneOf t [zahl, komma, byte] = true) :
    ∃ n : NumKind, getUnderlying t = n.ty ∧ toIr t = some n.ir := by
  simp only [isOneOf, List.any_cons, List.any_nil, Bool.or_false, Bool.or_eq_true] at h
  rcases h with h | h | h
  · exact ⟨.z, gu_of_equal_prim t _ h, toIr_prim t _ h⟩
  · exact ⟨.k, gu_of_equal_prim t _ h, toIr_prim t _ h⟩
  · exact ⟨.b, gu_of_equal_prim t _ h, toIr_prim t _ h⟩

theorem zbKind_of (t : Ty) (h : isOneOf t [zahl, byte] = true) :
    ∃ n : NumKind, n ≠ .k ∧ getUnderlying t = n.ty ∧ toIr t = some n.ir := by
  simp only [isOneOf, List.any_cons, List.any_nil, Bool.or_false, Bool.or_eq_true] at h
  rcases h with h | h
  · exact ⟨.z, by decide, gu_of_equal_prim t _ h, toIr_prim t _ h⟩
  · exact ⟨.b, by decide, gu_of_equal_prim t _ h, toIr_prim t _ h⟩

/-- `equal t p` for a type whose `GetUnderlying` is known -/
theorem equal_of_gu (t u : Ty) (p : Ty) (h : getUnderlying t = u) : equal t p = (u == getUnderlying p) := by
  simp [equal, h]

end DDP.Lowering

namespace DDP.Lowering
open DDP.Types DDP.Checker

theorem equal_kind (t : Ty) (n m : NumKind) (hg : getUnderlying t = n.ty) :
    equal t m.ty = decide (n = m) := by
  rw [equal_of_gu t _ _ hg]
  cases n <;> cases m <;> rfl

theorem equal_kind_z (t : Ty) (n : NumKind) (hg : getUnderlying t = n.ty) : equal t zahl = decide (n = .z) :=
  equal_kind t n .z hg
theorem equal_kind_k (t : Ty) (n : NumKind) (hg : getUnderlying t = n.ty) : equal t komma = decide (n = .k) :=
  equal_kind t n .k hg
theorem equal_kind_b (t : Ty) (n : NumKind) (hg : getUnderlying t = n.ty) : equal t byte = decide (n = .b) :=
  equal_kind t n .b hg

theorem isNumeric_iff (t : Ty) : isNumeric t = isOneOf t [zahl, komma, byte] := by
  simp only [isNumeric, isOneOf, List.any_cons, List.any_nil, Bool.or_false, equal, zahl, komma, byte, getUnderlying]
  cases h : getUnderlying t with
  | prim p => cases p <;> simp
  | _ => simp

theorem toIr_zahl : toIr zahl = some .int := rfl
theorem toIr_komma : toIr komma = some .float := rfl
theorem toIr_byte : toIr byte = some .byte := rfl
theorem toIr_wahr : toIr wahr = some .bool := rfl
theorem toIr_text : toIr text = some .string := rfl
theorem toIr_buchstabe : toIr buchstabe = some .char := rfl

/-- a type whose `GetUnderlying` is a list: its IR type is the list of the element's -/
theorem toIr_list (t e : Ty) (h : getUnderlying t = .list e) :
    toIr t = (elemIr (trueUnderlying e)).map .list := by
  unfold toIr; rw [tu_of_gu t, h]
  simp only [trueUnderlying]
  have : ∀ x : Ty, getUnderlying (getUnderlying x) = getUnderlying x := by
    intro x; induction x with
    | alias u ih => simpa [getUnderlying] using ih
    | list e ih => simp [getUnderlying, ih]
    | _ => simp [getUnderlying]
  -- e is already a getUnderlying image, but in general only trueUnderlying matters
  rw [← tu_of_gu e]

theorem isList_iff (t : Ty) : isList t = true ↔ ∃ e, getUnderlying t = .list e := by
  unfold isList
  cases h : getUnderlying t <;> simp

/-- a type the checker does not see through: a definition whose base is (an alias of) Text
or a list.  For such operands the checker's view (opaque scalar) and the IR view differ. -/
def OpaqueTextOrList (t : Ty) : Prop :=
  ∃ j u, getUnderlying t = .typedef j u ∧ (toIr t = some .string ∨ ∃ e, toIr t = some (.list e))

theorem gu_not_alias (x : Ty) : ∀ u, getUnderlying x ≠ .alias u := by
  induction x with
  | alias v ih => intro u; simpa [getUnderlying] using ih u
  | list e _ => intro u; simp [getUnderlying]
  | _ => intro u; simp [getUnderlying]

/-- for a transparent operand the checker's `IsList` and the IR type agree -/
theorem isList_agrees (t : Ty) (i : IrTy) (ho : ¬ OpaqueTextOrList t) (hi : toIr t = some i) :
    isList t = isListIr i := by
  have hi' := hi
  unfold toIr at hi
  rw [tu_of_gu t] at hi
  unfold isList
  cases h : getUnderlying t with
  | list e =>
    rw [h] at hi; simp only [trueUnderlying] at hi
    cases he : elemIr (trueUnderlying (getUnderlying e)) with
    | none => rw [he] at hi; cases hi
    | some x => rw [he] at hi; cases hi; rfl
  | alias u => exact absurd h (gu_not_alias t u)
  | typedef j u =>
    cases i with
    | list e => exact absurd ⟨j, u, h, Or.inr ⟨e, hi'⟩⟩ ho
    | _ => rfl
  | prim p => rw [h] at hi; cases p <;> (simp [trueUnderlying, elemIr] at hi; subst hi; rfl)
  | void => rw [h] at hi; simp [trueUnderlying] at hi; subst hi; rfl
  | «variable» => rw [h] at hi; simp [trueUnderlying, elemIr] at hi; subst hi; rfl
  | struct k => rw [h] at hi; simp [trueUnderlying, elemIr] at hi; subst hi; rfl

/-- for a transparent operand the checker's `Equal(t, TEXT)` and the IR type agree -/
theorem isText_agrees (t : Ty) (i : IrTy) (ho : ¬ OpaqueTextOrList t) (hi : toIr t = some i) :
    equal t text = decide (i = .string) := by
  have hi' := hi
  unfold toIr at hi
  rw [tu_of_gu t] at hi
  rw [equal_of_gu t _ text rfl]
  cases h : getUnderlying t with
  | list e =>
    rw [h] at hi; simp only [trueUnderlying] at hi
    cases he : elemIr (trueUnderlying (getUnderlying e)) with
    | none => rw [he] at hi; cases hi
    | some x => rw [he] at hi; cases hi; simp [text, getUnderlying]
  | alias u => exact absurd h (gu_not_alias t u)
  | typedef j u =>
    by_cases hs : i = .string
    · subst hs; exact absurd ⟨j, u, h, Or.inl hi'⟩ ho
    · simp [text, getUnderlying, hs]
  | prim p => rw [h] at hi; cases p <;> (simp [trueUnderlying, elemIr] at hi; subst hi; simp [text, getUnderlying])
  | void => rw [h] at hi; simp [trueUnderlying] at hi; subst hi; simp [text, getUnderlying]
  | «variable» => rw [h] at hi; simp [trueUnderlying, elemIr] at hi; subst hi; simp [text, getUnderlying]
  | struct k => rw [h] at hi; simp [trueUnderlying, elemIr] at hi; subst hi; simp [text, getUnderlying]

end DDP.Lowering

namespace DDP.Lowering
open DDP.Types DDP.Checker

theorem elemIr_not_list (u : Ty) (x : IrTy) (h : elemIr u = some x) : isListIr x = false := by
  cases u with
  | prim p => cases p <;> (simp [elemIr] at h; subst h; rfl)
  | «variable» => simp [elemIr] at h; subst h; rfl
  | struct k => simp [elemIr] at h; subst h; rfl
  | _ => simp [elemIr] at h

theorem toIr_of_elemIr (e : Ty) (x : IrTy) (h : elemIr (trueUnderlying e) = some x) : toIr e = some x := by
  unfold toIr
  cases hu : trueUnderlying e with
  | list e' => rw [hu] at h; simp [elemIr] at h
  | void => rw [hu] at h; simp [elemIr] at h
  | prim p => rw [hu] at h; simpa using h
  | «variable» => rw [hu] at h; simpa using h
  | struct k => rw [hu] at h; simpa using h
  | alias u => rw [hu] at h; simp [elemIr] at h
  | typedef j u => rw [hu] at h; simp [elemIr] at h

/-- a list operand: its IR type is the list of its element's IR type -/
theorem toIr_elem (l e : Ty) (li : IrTy) (hg : getUnderlying l = .list e) (hi : toIr l = some li) :
    ∃ x, li = .list x ∧ toIr e = some x ∧ isListIr x = false := by
  rw [toIr_list l e hg] at hi
  cases hx : elemIr (trueUnderlying e) with
  | none => rw [hx] at hi; cases hi
  | some x =>
    rw [hx] at hi
    simp only [Option.map_some, Option.some.injEq] at hi
    exact ⟨x, hi.symm, toIr_of_elemIr e x hx, elemIr_not_list _ x hx⟩

theorem toIr_list_eq (e : Ty) : toIr (.list e) = (elemIr (trueUnderlying e)).map .list := by
  have := toIr_list (.list e) (getUnderlying e) (by simp [getUnderlying])
  rw [this, ← tu_of_gu e]

/-- IR type of `list e`, when defined, is the list of `e`'s IR type -/
theorem toIr_list_of (e : Ty) (r : IrTy) (hr : toIr (.list e) = some r) :
    ∃ x, r = .list x ∧ toIr e = some x ∧ isListIr x = false := by
  rw [toIr_list_eq] at hr
  cases hx : elemIr (trueUnderlying e) with
  | none => rw [hx] at hr; cases hr
  | some x =>
    rw [hx] at hr
    simp only [Option.map_some, Option.some.injEq] at hr
    exact ⟨x, hr.symm, toIr_of_elemIr e x hx, elemIr_not_list _ x hx⟩

end DDP.Lowering

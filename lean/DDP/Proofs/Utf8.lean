import DDP.Impl.Utf8

/-! lemmas about the UTF-8 model, for all scalar values (no enumeration) -/

namespace DDP.Utf8

theorem isScalar_iff (c : Nat) : isScalar c = true ↔ c < 0xD800 ∨ (0xE000 ≤ c ∧ c < 0x110000) := by
  simp [isScalar]

theorem bne0 (a : Nat) (h : a ≠ 0) : (a != 0) = true := by simpa using h

theorem len1 (a : Nat) (r : List Nat) (ha : a ≠ 0) : 1 ≤ (cstr ((a :: r).take 4)).length := by
  simp [cstr, List.take, List.takeWhile, bne0 a ha]

theorem len2 (a b : Nat) (r : List Nat) (ha : a ≠ 0) (hb : b ≠ 0) :
    2 ≤ (cstr ((a :: b :: r).take 4)).length := by
  simp [cstr, List.take, List.takeWhile, bne0 a ha, bne0 b hb]

theorem len3 (a b c : Nat) (r : List Nat) (ha : a ≠ 0) (hb : b ≠ 0) (hc : c ≠ 0) :
    3 ≤ (cstr ((a :: b :: c :: r).take 4)).length := by
  simp [cstr, List.take, List.takeWhile, bne0 a ha, bne0 b hb, bne0 c hc]

theorem len4 (a b c d : Nat) (r : List Nat) (ha : a ≠ 0) (hb : b ≠ 0) (hc : c ≠ 0) (hd : d ≠ 0) :
    4 ≤ (cstr ((a :: b :: c :: d :: r).take 4)).length := by
  simp [cstr, List.take, List.takeWhile, bne0 a ha, bne0 b hb, bne0 c hc, bne0 d hd]

/-- `utf8_num_bytes` on the encoding of a non-NUL scalar value, whatever follows -/
theorem numBytes_encode (c : Nat) (hs : isScalar c = true) (h0 : c ≠ 0) (rest : List Nat) :
    numBytes (encode c ++ rest) = (encode c).length := by
  rw [isScalar_iff] at hs
  unfold encode
  by_cases h1 : c < 0x80
  · simp only [h1, if_true, List.cons_append, List.nil_append, List.length_cons, List.length_nil]
    unfold numBytes
    have : 1 ≤ (cstr ((c :: rest).take 4)).length := len1 c rest h0
    have hd : c / 128 = 0 := by omega
    generalize (cstr (List.take 4 (c :: rest))).length = L at this ⊢
    have hL : (decide (L ≥ 1)) = true := by simpa using this
    simp [hL, hd]
  · rw [if_neg h1]
    by_cases h2 : c < 0x800
    · simp only [h2, if_true, List.cons_append, List.nil_append, List.length_cons, List.length_nil]
      unfold numBytes
      have hlen : 2 ≤ (cstr (((0xC0 + c / 64) :: (0x80 + c % 64) :: rest).take 4)).length := len2 _ _ rest (by omega) (by omega)
      have e1 : (0xC0 + c / 64) / 128 = 1 := by omega
      have e2 : (0xC0 + c / 64) / 32 = 6 := by omega
      have e3 : isContinuation (0x80 + c % 64) = true := by simp [isContinuation]; omega
      generalize (cstr (List.take 4 ((0xC0 + c / 64) :: (0x80 + c % 64) :: rest))).length = L at hlen ⊢
      have hL : (decide (L ≥ 2)) = true := by simpa using hlen
      simp [hL, e1, e2, e3]
    · rw [if_neg h2]
      by_cases h3 : c < 0x10000
      · simp only [h3, if_true, List.cons_append, List.nil_append, List.length_cons, List.length_nil]
        unfold numBytes
        have hlen : 3 ≤ (cstr (((0xE0 + c / 4096) :: (0x80 + c / 64 % 64) :: (0x80 + c % 64) :: rest).take 4)).length := len3 _ _ _ rest (by omega) (by omega) (by omega)
        have e1 : (0xE0 + c / 4096) / 128 = 1 := by omega
        have e2 : (0xE0 + c / 4096) / 32 = 7 := by omega
        have e3 : (0xE0 + c / 4096) / 16 = 14 := by omega
        have e4 : isContinuation (0x80 + c / 64 % 64) = true := by simp [isContinuation]; omega
        have e5 : isContinuation (0x80 + c % 64) = true := by simp [isContinuation]; omega
        generalize (cstr (List.take 4 ((0xE0 + c / 4096) :: (0x80 + c / 64 % 64) :: (0x80 + c % 64) :: rest))).length = L at hlen ⊢
        have hL : (decide (L ≥ 3)) = true := by simpa using hlen
        have e2' : (0xE0 + c / 4096) / 32 ≠ 6 := by omega
        simp [hL, e1, e2', e3, e4, e5]
      · rw [if_neg h3]
        simp only [List.cons_append, List.nil_append, List.length_cons, List.length_nil]
        unfold numBytes
        have hlen : 4 ≤ (cstr (((0xF0 + c / 262144) :: (0x80 + c / 4096 % 64) :: (0x80 + c / 64 % 64) :: (0x80 + c % 64) :: rest).take 4)).length := len4 _ _ _ _ rest (by omega) (by omega) (by omega) (by omega)
        have e1 : (0xF0 + c / 262144) / 128 = 1 := by omega
        have e2 : (0xF0 + c / 262144) / 32 = 7 := by omega
        have e3 : (0xF0 + c / 262144) / 16 = 15 := by omega
        have e3' : (0xF0 + c / 262144) / 8 = 30 := by omega
        have e4 : isContinuation (0x80 + c / 4096 % 64) = true := by simp [isContinuation]; omega
        have e5 : isContinuation (0x80 + c / 64 % 64) = true := by simp [isContinuation]; omega
        have e6 : isContinuation (0x80 + c % 64) = true := by simp [isContinuation]; omega
        generalize (cstr (List.take 4 ((0xF0 + c / 262144) :: (0x80 + c / 4096 % 64) :: (0x80 + c / 64 % 64) :: (0x80 + c % 64) :: rest))).length = L at hlen ⊢
        have hL : (decide (L ≥ 4)) = true := by simpa using hlen
        have e2' : (0xF0 + c / 262144) / 32 ≠ 6 := by omega
        have e3'' : (0xF0 + c / 262144) / 16 ≠ 14 := by omega
        simp [hL, e1, e2', e3'', e3', e4, e5, e6]

/-- `mbrtoc32 ∘ c32rtomb = id` on non-NUL scalar values, whatever follows in memory -/
theorem decode1_encode (c : Nat) (hs : isScalar c = true) (h0 : c ≠ 0) (rest : List Nat) :
    decode1 (encode c ++ rest) = c := by
  unfold decode1
  rw [numBytes_encode c hs h0 rest]
  rw [isScalar_iff] at hs
  unfold encode
  by_cases h1 : c < 0x80
  · simp [h1]
  · rw [if_neg h1]
    by_cases h2 : c < 0x800
    · simp only [h2, if_true, List.cons_append, List.nil_append, List.length_cons, List.length_nil]
      omega
    · rw [if_neg h2]
      by_cases h3 : c < 0x10000
      · simp only [h3, if_true, List.cons_append, List.nil_append, List.length_cons, List.length_nil]
        omega
      · rw [if_neg h3]
        simp only [List.cons_append, List.nil_append, List.length_cons, List.length_nil]
        omega

/-- the lead byte alone announces the length (`utf8_indicated_num_bytes`) -/
theorem indicated_encode (c : Nat) (hs : isScalar c = true) (rest : List Nat) :
    indicatedNumBytes ((encode c ++ rest).headD 0) = (encode c).length := by
  rw [isScalar_iff] at hs
  unfold encode indicatedNumBytes
  by_cases h1 : c < 0x80
  · have : c / 128 = 0 := by omega
    simp [h1, this]
  · rw [if_neg h1]
    by_cases h2 : c < 0x800
    · have e1 : (0xC0 + c / 64) / 128 = 1 := by omega
      have e2 : (0xC0 + c / 64) / 16 ≠ 15 := by omega
      have e3 : (0xC0 + c / 64) / 32 = 6 := by omega
      have e4 : (0xC0 + c / 64) / 64 = 3 := by omega
      simp [h2, e1, e2, e3, e4]
    · rw [if_neg h2]
      by_cases h3 : c < 0x10000
      · have e1 : (0xE0 + c / 4096) / 128 = 1 := by omega
        have e2 : (0xE0 + c / 4096) / 16 = 14 := by omega
        have e3 : (0xE0 + c / 4096) / 32 = 7 := by omega
        simp [h3, e1, e2, e3]
      · have e1 : (0xF0 + c / 262144) / 128 = 1 := by omega
        have e2 : (0xF0 + c / 262144) / 16 = 15 := by omega
        simp [h3, e1, e2]

/-- `utf8_num_bytes_char`: exactly the scalar values have a size, and it is the encoding's -/
theorem numBytesChar_spec (c : Nat) :
    numBytesChar c = if isScalar c then some (encode c).length else none := by
  unfold numBytesChar isScalar encode
  by_cases h1 : c ≤ 0x7F
  · have : c < 0x80 := by omega
    have h' : c < 0xD800 := by omega
    simp [h1, this, h']
  · rw [if_neg h1]
    by_cases h2 : c ≤ 0x7FF
    · have a1 : ¬ c < 0x80 := by omega
      have a2 : c < 0x800 := by omega
      have h' : c < 0xD800 := by omega
      simp [h2, a1, a2, h']
    · rw [if_neg h2]
      by_cases h3 : 0xD800 ≤ c ∧ c ≤ 0xDFFF
      · have a1 : ¬ c < 0xD800 := by omega
        have a2 : ¬ 0xE000 ≤ c := by omega
        simp [h3.1, h3.2, a1, a2]
      · by_cases h4 : c ≤ 0xFFFF
        · have a1 : ¬ c < 0x80 := by omega
          have a2 : ¬ c < 0x800 := by omega
          have a3 : c < 0x10000 := by omega
          have hsc : (c < 0xD800 ∨ (0xE000 ≤ c ∧ c < 0x110000)) := by omega
          have hn : ¬ (0xD800 ≤ c ∧ c ≤ 0xDFFF) := h3
          simp only [Bool.and_eq_true, decide_eq_true_eq, hn, if_false, h4, if_true, Bool.or_eq_true, hsc, a1, a2, a3,
            List.length_cons, List.length_nil]
        · by_cases h5 : c ≤ 0x10FFFF
          · have a1 : ¬ c < 0x80 := by omega
            have a2 : ¬ c < 0x800 := by omega
            have a3 : ¬ c < 0x10000 := by omega
            have hsc : (c < 0xD800 ∨ (0xE000 ≤ c ∧ c < 0x110000)) := by omega
            have hn : ¬ (0xD800 ≤ c ∧ c ≤ 0xDFFF) := h3
            simp only [Bool.and_eq_true, decide_eq_true_eq, hn, if_false, h4, h5, if_true, Bool.or_eq_true, hsc, a1, a2, a3,
              List.length_cons, List.length_nil]
          · have hsc : ¬ (c < 0xD800 ∨ (0xE000 ≤ c ∧ c < 0x110000)) := by omega
            have hn : ¬ (0xD800 ≤ c ∧ c ≤ 0xDFFF) := h3
            simp only [Bool.and_eq_true, decide_eq_true_eq, hn, if_false, h4, h5, Bool.or_eq_true, hsc]

theorem encode_ne_nil (c : Nat) : encode c ≠ [] := by
  unfold encode; split; · simp
  split; · simp
  split <;> simp

/-- every byte of an encoding is a byte, and non-zero unless the scalar is NUL -/
theorem encode_bytes (c : Nat) (hs : isScalar c = true) (h0 : c ≠ 0) :
    ∀ b ∈ encode c, 0 < b ∧ b < 256 := by
  rw [isScalar_iff] at hs
  unfold encode
  intro b hb
  by_cases h1 : c < 0x80
  · simp [h1] at hb; omega
  · rw [if_neg h1] at hb
    by_cases h2 : c < 0x800
    · simp [h2] at hb; omega
    · rw [if_neg h2] at hb
      by_cases h3 : c < 0x10000
      · simp [h3] at hb; omega
      · simp [h3] at hb; omega

/-- exactly the first byte of an encoding is not a continuation byte -/
theorem encode_continuations (c : Nat) (hs : isScalar c = true) :
    ((encode c).filter (fun b => !isContinuation b)).length = 1 := by
  rw [isScalar_iff] at hs
  unfold encode
  by_cases h1 : c < 0x80
  · have : c / 64 ≠ 2 := by omega
    simp [h1, isContinuation, this]
  · rw [if_neg h1]
    by_cases h2 : c < 0x800
    · have e1 : (0xC0 + c / 64) / 64 ≠ 2 := by omega
      have e2 : (0x80 + c % 64) / 64 = 2 := by omega
      simp [h2, isContinuation, e1, e2]
    · rw [if_neg h2]
      by_cases h3 : c < 0x10000
      · have e1 : (0xE0 + c / 4096) / 64 ≠ 2 := by omega
        have e2 : (0x80 + c % 64) / 64 = 2 := by omega
        have e3 : (0x80 + c / 64 % 64) / 64 = 2 := by omega
        simp [h3, isContinuation, e1, e2, e3]
      · have e1 : (0xF0 + c / 262144) / 64 ≠ 2 := by omega
        have e2 : (0x80 + c % 64) / 64 = 2 := by omega
        have e3 : (0x80 + c / 64 % 64) / 64 = 2 := by omega
        have e4 : (0x80 + c / 4096 % 64) / 64 = 2 := by omega
        simp [h3, isContinuation, e1, e2, e3, e4]

end DDP.Utf8

import DDP.Impl.TextRT
import DDP.Proofs.Utf8

/-! helper lemmas for `Props/C12.lean`: the byte-level text runtime refines code-point lists -/

namespace DDP.TextRT
open DDP.Utf8

/-- code points a Text can hold: scalar values other than NUL -/
def WfCps (cps : List Nat) : Prop := ∀ c ∈ cps, isScalar c = true ∧ c ≠ 0

/-- the canonical representation of a code-point sequence: UTF-8 bytes, one NUL,
`cap = strlen + 1 = block size`; the empty text is `(NULL, 0)` -/
def repr (cps : List Nat) : Text :=
  if cps.isEmpty then emptyText else ⟨encodeAll cps ++ [0], (encodeAll cps).length + 1⟩

def Inv (t : Text) : Prop := ∃ cps, WfCps cps ∧ t = repr cps

theorem WfCps.tail {c : Nat} {cs : List Nat} (h : WfCps (c :: cs)) : WfCps cs :=
  fun x hx => h x (List.mem_cons_of_mem _ hx)

theorem WfCps.head {c : Nat} {cs : List Nat} (h : WfCps (c :: cs)) : isScalar c = true ∧ c ≠ 0 :=
  h c List.mem_cons_self

theorem WfCps.append {a b : List Nat} (ha : WfCps a) (hb : WfCps b) : WfCps (a ++ b) := by
  intro x hx; rcases List.mem_append.mp hx with h | h
  · exact ha x h
  · exact hb x h

theorem encodeAll_nil : encodeAll [] = [] := rfl
theorem encodeAll_cons (c : Nat) (cs : List Nat) : encodeAll (c :: cs) = encode c ++ encodeAll cs := by
  simp [encodeAll]
theorem encodeAll_append (a b : List Nat) : encodeAll (a ++ b) = encodeAll a ++ encodeAll b := by
  simp [encodeAll]

theorem encodeAll_bytes (cps : List Nat) (h : WfCps cps) : ∀ b ∈ encodeAll cps, 0 < b ∧ b < 256 := by
  induction cps with
  | nil => intro b hb; simp [encodeAll] at hb
  | cons c cs ih =>
    intro b hb
    rw [encodeAll_cons] at hb
    rcases List.mem_append.mp hb with hb | hb
    · exact encode_bytes c h.head.1 h.head.2 b hb
    · exact ih h.tail b hb

theorem encodeAll_ne_nil (c : Nat) (cs : List Nat) : encodeAll (c :: cs) ≠ [] := by
  rw [encodeAll_cons]; intro h
  exact encode_ne_nil c (List.append_eq_nil_iff.mp h).1

theorem takeWhile_all {α} (p : α → Bool) (l r : List α) (x : α) (hl : ∀ y ∈ l, p y = true) (hx : p x = false) :
    (l ++ x :: r).takeWhile p = l := by
  induction l with
  | nil => simp [List.takeWhile, hx]
  | cons y ys ih =>
    simp only [List.cons_append, List.takeWhile, hl y List.mem_cons_self]
    rw [ih (fun z hz => hl z (List.mem_cons_of_mem _ hz))]

/-- the C string inside the block is exactly the encoding -/
theorem cstr_encodeAll (cps : List Nat) (h : WfCps cps) (rest : List Nat) :
    cstr (encodeAll cps ++ 0 :: rest) = encodeAll cps := by
  unfold cstr
  apply takeWhile_all
  · intro y hy; have := (encodeAll_bytes cps h y hy).1; simp; omega
  · rfl

theorem strlenCp_encodeAll (cps : List Nat) (h : WfCps cps) (rest : List Nat) :
    strlenCp (encodeAll cps ++ 0 :: rest) = cps.length := by
  unfold strlenCp
  rw [cstr_encodeAll cps h]
  induction cps with
  | nil => rfl
  | cons c cs ih =>
    rw [encodeAll_cons, List.filter_append, List.length_append, encode_continuations c h.head.1, ih h.tail]
    simp; omega

theorem repr_nil : repr [] = emptyText := rfl

theorem repr_cons (c : Nat) (cs : List Nat) :
    repr (c :: cs) = ⟨encodeAll (c :: cs) ++ [0], (encodeAll (c :: cs)).length + 1⟩ := rfl

theorem head_encodeAll_ne_zero (c : Nat) (cs : List Nat) (h : WfCps (c :: cs)) (rest : List Nat) :
    (encodeAll (c :: cs) ++ rest).headD 0 ≠ 0 := by
  have hne := encodeAll_ne_nil c cs
  cases he : encodeAll (c :: cs) with
  | nil => exact absurd he hne
  | cons b bs =>
    have := (encodeAll_bytes (c :: cs) h b (by rw [he]; exact List.mem_cons_self)).1
    simp; omega

theorem isEmpty_repr (cps : List Nat) (h : WfCps cps) : isEmpty (repr cps) = cps.isEmpty := by
  cases cps with
  | nil => rfl
  | cons c cs =>
    rw [repr_cons]
    have hne := encodeAll_ne_nil c cs
    have hh := head_encodeAll_ne_zero c cs h [0]
    simp only [isEmpty, List.isEmpty_cons]
    cases he : encodeAll (c :: cs) with
    | nil => exact absurd he hne
    | cons b bs =>
      rw [he] at hh
      simp at hh
      simp [hh]

/-- `ddp_string_length` counts code points -/
theorem length_repr (cps : List Nat) (h : WfCps cps) : length (repr cps) = cps.length := by
  unfold length
  rw [isEmpty_repr cps h]
  cases cps with
  | nil => rfl
  | cons c cs =>
    simp only [List.isEmpty_cons, Bool.false_eq_true, if_false, repr_cons]
    exact strlenCp_encodeAll (c :: cs) h []

theorem strlen_repr (cps : List Nat) (h : WfCps cps) : strlen (repr cps) = (encodeAll cps).length := by
  cases cps with
  | nil => rfl
  | cons c cs => unfold strlen; rw [repr_cons]; simp only; rw [cstr_encodeAll (c :: cs) h []]

theorem fromConstant_encodeAll (cps : List Nat) (h : WfCps cps) (rest : List Nat) :
    fromConstant (encodeAll cps ++ 0 :: rest) = repr cps := by
  unfold fromConstant
  rw [cstr_encodeAll cps h]
  cases cps with
  | nil => rfl
  | cons c cs =>
    have hne := encodeAll_ne_nil c cs
    simp [repr_cons, hne]

theorem deepCopy_repr (cps : List Nat) : deepCopy (repr cps) = repr cps := by
  cases cps with
  | nil => rfl
  | cons c cs =>
    unfold deepCopy
    rw [repr_cons]
    have hne := encodeAll_ne_nil c cs
    have ht : (encodeAll (c :: cs) ++ [0]).take ((encodeAll (c :: cs)).length + 1) = encodeAll (c :: cs) ++ [0] := by
      apply List.take_of_length_le; simp
    simp [hne, ht]

theorem charBytes_scalar (c : Nat) (hs : isScalar c = true) : charBytes (c : Int) = some (encode c) := by
  unfold charBytes
  have : ¬ ((c : Int) < 0) := by omega
  simp [this, hs]

/-- `Buchstabe als Text` -/
theorem charToString_repr (c : Nat) (hs : isScalar c = true) : charToString (c : Int) = repr [c] := by
  unfold charToString
  rw [charBytes_scalar c hs]
  simp [repr, encodeAll]

theorem take_append_len {α} (a b : List α) : (a ++ b).take a.length = a := by simp

/-- `Text verkettet mit Text` -/
theorem concatSS_repr (a b : List Nat) (ha : WfCps a) (hb : WfCps b) :
    concatSS (repr a) (repr b) = repr (a ++ b) := by
  unfold concatSS
  rw [isEmpty_repr a ha, isEmpty_repr b hb]
  cases a with
  | nil =>
    cases b with
    | nil => rfl
    | cons d ds => simp [deepCopy_repr]
  | cons c cs =>
    cases b with
    | nil => simp
    | cons d ds =>
      simp only [List.isEmpty_cons, Bool.false_and, Bool.false_eq_true, if_false, repr_cons, List.cons_append]
      rw [← List.cons_append, encodeAll_append]
      simp only [Nat.add_sub_cancel, List.length_append]
      congr 1
      · rw [take_append_len]
        have : (encodeAll (d :: ds) ++ [0]).take ((encodeAll (d :: ds)).length + 1) = encodeAll (d :: ds) ++ [0] := by
          apply List.take_of_length_le; simp
        rw [this]; simp

/-- `Buchstabe verkettet mit Text` -/
theorem concatCS_repr (c : Nat) (a : List Nat) (hs : isScalar c = true) (h0 : c ≠ 0) (ha : WfCps a) :
    concatCS (c : Int) (repr a) = repr (c :: a) := by
  unfold concatCS
  rw [charBytes_scalar c hs, isEmpty_repr a ha]
  cases a with
  | nil =>
    simp only [List.isEmpty_nil, if_true, Option.getD_some]
    have := fromConstant_encodeAll [c] (by intro x hx; simp at hx; subst hx; exact ⟨hs, h0⟩) []
    simp only [encodeAll, List.map_cons, List.map_nil, List.flatten_cons, List.flatten_nil, List.append_nil] at this
    -- fromConstant (encode c) : the temp buffer holds the encoding followed by NUL
    unfold fromConstant at this ⊢
    have hc : cstr (encode c) = encode c := by
      unfold cstr
      have : ∀ (l : List Nat), (∀ b ∈ l, 0 < b) → l.takeWhile (· != 0) = l := by
        intro l; induction l with
        | nil => intro _; rfl
        | cons x xs ih =>
          intro hl
          have hx : (x != 0) = true := by have := hl x List.mem_cons_self; simp; omega
          simp only [List.takeWhile, hx]
          rw [ih (fun b hb => hl b (List.mem_cons_of_mem _ hb))]
      exact this _ (fun b hb => (encode_bytes c hs h0 b hb).1)
    have hc2 : cstr (encode c ++ [0]) = encode c := by
      have := cstr_encodeAll [c] (by intro x hx; simp at hx; subst hx; exact ⟨hs, h0⟩) []
      simpa [encodeAll] using this
    rw [hc]
    rw [hc2] at this
    exact this
  | cons d ds =>
    simp only [List.isEmpty_cons, Bool.false_eq_true, if_false, Option.getD_some, repr_cons]
    rw [encodeAll_cons c (d :: ds)]
    have : (encodeAll (d :: ds) ++ [0]).take ((encodeAll (d :: ds)).length + 1) = encodeAll (d :: ds) ++ [0] := by
      apply List.take_of_length_le; simp
    rw [this]
    simp only [List.append_assoc, List.length_append]
    congr 1
    omega

/-- `Text verkettet mit Buchstabe` -/
theorem concatSC_repr (a : List Nat) (c : Nat) (hs : isScalar c = true) (h0 : c ≠ 0) (ha : WfCps a) :
    concatSC (repr a) (c : Int) = repr (a ++ [c]) := by
  unfold concatSC
  rw [charBytes_scalar c hs, isEmpty_repr a ha]
  cases a with
  | nil =>
    have h := concatCS_repr c [] hs h0 (by intro x hx; simp at hx)
    unfold concatCS at h
    rw [charBytes_scalar c hs] at h
    simpa [repr_nil, isEmpty, emptyText] using h
  | cons d ds =>
    simp only [List.isEmpty_cons, Bool.false_eq_true, if_false, Option.getD_some, repr_cons, List.cons_append]
    rw [← List.cons_append, encodeAll_append]
    simp only [Nat.add_sub_cancel, take_append_len, List.length_append]
    congr 1
    · simp [encodeAll]
    · simp [encodeAll]; omega

/-! ### decoding, equality -/

theorem drop_append_len {α} (a b : List α) : (a ++ b).drop a.length = b := by simp

theorem headD_encode_ne_zero (c : Nat) (hs : isScalar c = true) (h0 : c ≠ 0) (rest : List Nat) :
    (encode c ++ rest).headD 0 ≠ 0 := by
  have := head_encodeAll_ne_zero c [] (by intro x hx; simp at hx; subst hx; exact ⟨hs, h0⟩) rest
  simpa [encodeAll] using this

theorem decodeAll_encodeAll (cps : List Nat) (h : WfCps cps) (rest : List Nat) :
    ∀ fuel, cps.length < fuel → decodeAll fuel (encodeAll cps ++ 0 :: rest) = cps := by
  induction cps with
  | nil => intro fuel hf; cases fuel with
    | zero => omega
    | succ f => simp [decodeAll, encodeAll]
  | cons c cs ih =>
    intro fuel hf
    cases fuel with
    | zero => omega
    | succ f =>
      rw [encodeAll_cons, List.append_assoc]
      have hn := numBytes_encode c h.head.1 h.head.2 (encodeAll cs ++ 0 :: rest)
      have hd := decode1_encode c h.head.1 h.head.2 (encodeAll cs ++ 0 :: rest)
      have hh := headD_encode_ne_zero c h.head.1 h.head.2 (encodeAll cs ++ 0 :: rest)
      have hne := encode_ne_nil c
      unfold decodeAll
      cases he : encode c ++ (encodeAll cs ++ 0 :: rest) with
      | nil => simp at he
      | cons b bs =>
        rw [he] at hh hn hd
        simp only [List.headD_cons] at hh
        have hb : (b == 0) = false := by simpa using hh
        simp only [hb, Bool.false_eq_true, if_false, hn, hd]
        have hlen : (encode c).length ≠ 0 := by
          intro e; exact hne (List.length_eq_zero_iff.mp e)
        simp only [beq_iff_eq, hlen, if_false]
        rw [← he, drop_append_len]
        rw [ih h.tail f (by simp at hf; omega)]

/-- the abstraction of the canonical representation is the code-point sequence -/
theorem abs_repr (cps : List Nat) (h : WfCps cps) : abs (repr cps) = cps := by
  unfold abs
  rw [isEmpty_repr cps h]
  cases cps with
  | nil => rfl
  | cons c cs =>
    simp only [List.isEmpty_cons, Bool.false_eq_true, if_false, repr_cons]
    apply decodeAll_encodeAll (c :: cs) h []
    have : ∀ l : List Nat, WfCps l → l.length ≤ (encodeAll l).length := by
      intro l; induction l with
      | nil => intro _; simp [encodeAll]
      | cons x xs ih =>
        intro hl
        rw [encodeAll_cons, List.length_append, List.length_cons]
        have := List.length_pos_iff.mpr (encode_ne_nil x)
        have := ih hl.tail
        omega
    have := this (c :: cs) h
    simp only [List.length_append, List.length_cons, List.length_nil] at *
    omega

/-- different code-point sequences have different encodings -/
theorem encodeAll_injective (a b : List Nat) (ha : WfCps a) (hb : WfCps b)
    (h : encodeAll a = encodeAll b) : a = b := by
  have h1 := decodeAll_encodeAll a ha [] (a.length + b.length + 1) (by omega)
  have h2 := decodeAll_encodeAll b hb [] (a.length + b.length + 1) (by omega)
  rw [h] at h1; rw [h1] at h2; exact h2

/-- `Text gleich Text`: never reads outside a block and decides equality of the code-point
sequences -/
theorem equal_repr (a b : List Nat) (ha : WfCps a) (hb : WfCps b) :
    equal (repr a) (repr b) = .ok (decide (a = b)) := by
  unfold equal
  rw [strlen_repr a ha, strlen_repr b hb]
  by_cases hl : (encodeAll a).length = (encodeAll b).length
  · have hl' : ((encodeAll a).length != (encodeAll b).length) = false := by simp [hl]
    rw [hl']
    simp only [Bool.false_eq_true, if_false]
    cases a with
    | nil =>
      cases b with
      | nil => simp [repr_nil, emptyText]
      | cons d ds =>
        exfalso
        have := encodeAll_ne_nil d ds
        simp [encodeAll_nil] at hl
        exact this (List.length_eq_zero_iff.mp hl.symm)
    | cons c cs =>
      cases b with
      | nil =>
        exfalso
        have := encodeAll_ne_nil c cs
        simp [encodeAll_nil] at hl
        exact this hl
      | cons d ds =>
        simp only [repr_cons, List.length_append, List.length_cons, List.length_nil]
        have c1 : ¬ ((encodeAll (c :: cs)).length + 1 > (encodeAll (c :: cs)).length + 0 + 1) := by omega
        have c2 : ¬ ((encodeAll (c :: cs)).length + 1 > (encodeAll (d :: ds)).length + 0 + 1) := by omega
        simp only [gt_iff_lt, Nat.add_zero, decide_eq_true_eq, Bool.or_eq_true] at *
        have t1 : (encodeAll (c :: cs) ++ [0]).take ((encodeAll (c :: cs)).length + 1) = encodeAll (c :: cs) ++ [0] := by
          apply List.take_of_length_le; simp
        have t2 : (encodeAll (d :: ds) ++ [0]).take ((encodeAll (c :: cs)).length + 1) = encodeAll (d :: ds) ++ [0] := by
          apply List.take_of_length_le; simp; omega
        have c3 : ¬ ((encodeAll (c :: cs)).length + 1 < (encodeAll (c :: cs)).length + 1 ∨
            (encodeAll (d :: ds)).length + 1 < (encodeAll (c :: cs)).length + 1) := by omega
        rw [if_neg (by simpa using c3), t1, t2]
        congr 1
        by_cases hab : c :: cs = d :: ds
        · rw [hab]; simp
        · have : encodeAll (c :: cs) ≠ encodeAll (d :: ds) := fun e => hab (encodeAll_injective _ _ ha hb e)
          simp [hab, this]
  · have hl' : ((encodeAll a).length != (encodeAll b).length) = true := by simp [hl]
    rw [hl']
    simp only [if_true]
    congr 1
    have : a ≠ b := by intro e; subst e; exact hl rfl
    simp [this]

/-! ### walking by code points: indexing -/

theorem getD_append_right {α} (a b : List α) (d : α) : (a ++ b).getD a.length d = b.headD d := by
  induction a with
  | nil => cases b <;> rfl
  | cons x xs ih => simpa using ih

/-- the walk of `ddp_string_index`/`ddp_replace_char_in_string`: after `k` steps it stands
at the first byte of code point `k` (or on the NUL if there are fewer) -/
theorem walk_encodeAll (k : Nat) : ∀ (pre cs rest : List Nat), WfCps cs →
    walk (pre ++ (encodeAll cs ++ 0 :: rest)) pre.length (k + 1) =
      pre.length + (encodeAll (cs.take k)).length := by
  induction k with
  | zero => intro pre cs rest _; simp [walk, encodeAll]
  | succ k ih =>
    intro pre cs rest h
    unfold walk
    have hk1 : ¬ (k + 1 = 0) := by omega
    rw [if_neg hk1, getD_append_right]
    cases cs with
    | nil => simp [encodeAll]
    | cons c cs' =>
      have hh := head_encodeAll_ne_zero c cs' h (0 :: rest)
      have hb : ((encodeAll (c :: cs') ++ 0 :: rest).headD 0 != 0) = true := by simpa using hh
      rw [hb]
      simp only [if_true, drop_append_len]
      rw [encodeAll_cons, List.append_assoc,
        numBytes_encode c h.head.1 h.head.2 (encodeAll cs' ++ 0 :: rest)]
      have := ih (pre ++ encode c) cs' rest h.tail
      simp only [List.length_append, List.append_assoc] at this
      rw [this]
      simp only [List.take_succ_cons, encodeAll_cons, List.length_append]
      omega

theorem encodeAll_take_lt (cs : List Nat) (h : WfCps cs) (k : Nat) (hk : k < cs.length) :
    ∃ c rest', cs.drop k = c :: rest' ∧ cs[k]? = some c ∧
      encodeAll cs = encodeAll (cs.take k) ++ (encode c ++ encodeAll rest') := by
  have hd : cs.drop k = cs[k] :: cs.drop (k + 1) := by
    rw [List.drop_eq_getElem_cons hk]
  refine ⟨cs[k], cs.drop (k + 1), hd, by simp [hk], ?_⟩
  conv => lhs; rw [← List.take_append_drop k cs]
  rw [encodeAll_append, hd, encodeAll_cons]

theorem cps_le_bytes (l : List Nat) (h : WfCps l) : l.length ≤ (encodeAll l).length := by
  induction l with
  | nil => simp [encodeAll]
  | cons x xs ih =>
    rw [encodeAll_cons, List.length_append, List.length_cons]
    have := List.length_pos_iff.mpr (encode_ne_nil x)
    have := ih h.tail
    omega

/-- `Text an der Stelle i`: the i-th code point for `1 ≤ i ≤ length`, Laufzeitfehler otherwise -/
theorem index_repr (cps : List Nat) (h : WfCps cps) (i : Int) :
    index (repr cps) i =
      if 1 ≤ i ∧ i ≤ cps.length then (match cps[(i - 1).toNat]? with | some c => .ok c | none => .err)
      else .err := by
  unfold index
  by_cases h1 : i < 1
  · have : ¬ (1 ≤ i ∧ i ≤ (cps.length : Int)) := by omega
    simp [h1, this]
  rw [if_neg h1]
  cases cps with
  | nil =>
    have : ¬ (1 ≤ i ∧ i ≤ ((([] : List Nat).length : Nat) : Int)) := by simp; omega
    simp [repr_nil, emptyText, this]
  | cons c0 cs0 =>
    rw [repr_cons]
    simp only
    generalize hcps : c0 :: cs0 = cps at *
    have hbytes := cps_le_bytes cps h
    by_cases h2 : i > ((encodeAll cps).length + 1 : Nat)
    · have : ¬ (1 ≤ i ∧ i ≤ (cps.length : Int)) := by omega
      have hc : (decide (i > ((encodeAll cps).length + 1 : Nat)) || decide ((encodeAll cps).length + 1 ≤ 1)) = true := by
        simp only [Bool.or_eq_true, decide_eq_true_eq]; exact Or.inl h2
      rw [if_pos hc, if_neg this]
    · have hcap : ¬ ((encodeAll cps).length + 1 ≤ 1) := by
        have := encodeAll_ne_nil c0 cs0
        rw [hcps] at this
        have := List.length_pos_iff.mpr this
        omega
      have h2' : ¬ ((decide (i > ((encodeAll cps).length + 1 : Nat)) || decide ((encodeAll cps).length + 1 ≤ 1)) = true) := by
        simp only [Bool.or_eq_true, decide_eq_true_eq]; omega
      rw [if_neg h2']
      -- the walk
      obtain ⟨k, hk⟩ : ∃ k : Nat, i.toNat = k + 1 := ⟨i.toNat - 1, by omega⟩
      have hw := walk_encodeAll k [] cps [] h
      simp only [List.nil_append, List.length_nil, Nat.zero_add] at hw
      rw [hk, hw]
      by_cases hin : k < cps.length
      · obtain ⟨c, rest', hdrop, hget, hsplit⟩ := encodeAll_take_lt cps h k hin
        have hwf : WfCps (c :: rest') := by
          intro x hx; rw [← hdrop] at hx; exact h x (List.mem_of_mem_drop hx)
        have hbuf : encodeAll cps ++ [0] = encodeAll (cps.take k) ++ (encode c ++ (encodeAll rest' ++ [0])) := by
          rw [hsplit]; simp
        rw [hbuf, getD_append_right, drop_append_len]
        have hh := headD_encode_ne_zero c hwf.head.1 hwf.head.2 (encodeAll rest' ++ [0])
        have hb : ((encode c ++ (encodeAll rest' ++ [0])).headD 0 == 0) = false := by simpa using hh
        rw [hb]
        simp only [Bool.false_eq_true, if_false]
        rw [decode1_encode c hwf.head.1 hwf.head.2]
        have hi : 1 ≤ i ∧ i ≤ (cps.length : Int) := by omega
        have hidx : (i - 1).toNat = k := by omega
        simp [hi, hidx, hget]
      · have htake : cps.take k = cps := List.take_of_length_le (by omega)
        rw [htake, getD_append_right]
        have : ¬ (1 ≤ i ∧ i ≤ (cps.length : Int)) := by omega
        simp [this]

/-! ### iteration -/

/-- the compiler's for-each over a text visits exactly the code points, in order -/
theorem iterate_from (c0 : Nat) (cs0 : List Nat) (h : WfCps (c0 :: cs0)) :
    ∀ (todo done : List Nat), done ++ todo = c0 :: cs0 → ∀ fuel, todo.length < fuel →
      iterate (repr (c0 :: cs0)) fuel (encodeAll done).length = .ok todo := by
  intro todo
  induction todo with
  | nil =>
    intro done hd fuel hf
    cases fuel with
    | zero => omega
    | succ f =>
      simp only [List.append_nil] at hd
      subst hd
      unfold iterate
      rw [repr_cons]
      simp
  | cons c r ih =>
    intro done hd fuel hf
    cases fuel with
    | zero => omega
    | succ f =>
      have hwf : WfCps (c :: r) := fun x hx => h x (by rw [← hd]; exact List.mem_append_right _ hx)
      have hall : encodeAll (c0 :: cs0) = encodeAll done ++ (encode c ++ encodeAll r) := by
        rw [← hd, encodeAll_append, encodeAll_cons]
      have hpos := List.length_pos_iff.mpr (encode_ne_nil c)
      unfold iterate
      rw [repr_cons]
      simp only [Nat.add_sub_cancel]
      have c1 : ¬ ((decide ((encodeAll (c0 :: cs0)).length + 1 ≤ 1) || decide ((encodeAll done).length ≥ (encodeAll (c0 :: cs0)).length)) = true) := by
        simp only [Bool.or_eq_true, decide_eq_true_eq]
        rw [hall]; simp only [List.length_append]; omega
      rw [if_neg c1]
      have c2 : ¬ ((encodeAll done).length ≥ (encodeAll (c0 :: cs0) ++ [0]).length) := by
        rw [hall]; simp only [List.length_append]; omega
      rw [if_neg c2]
      have hbuf : encodeAll (c0 :: cs0) ++ [0] = encodeAll done ++ (encode c ++ (encodeAll r ++ [0])) := by
        rw [hall]; simp
      rw [hbuf, drop_append_len, numBytes_encode c hwf.head.1 hwf.head.2, decode1_encode c hwf.head.1 hwf.head.2]
      have hn : ¬ (((encode c).length == 0) = true) := by rw [beq_iff_eq]; omega
      simp only [hn, Bool.false_eq_true, if_false]
      have := ih (done ++ [c]) (by simp [hd]) f (by simp at hf; omega)
      rw [encodeAll_append, List.length_append] at this
      simp only [encodeAll, List.map_cons, List.map_nil, List.flatten_cons, List.flatten_nil, List.append_nil] at this
      rw [repr_cons, hbuf] at this
      simp only [encodeAll] at *
      rw [this]

theorem iterate_repr (cps : List Nat) (h : WfCps cps) : iterateAll (repr cps) = .ok cps := by
  cases cps with
  | nil => simp [iterateAll, repr_nil, emptyText, iterate]
  | cons c cs =>
    unfold iterateAll
    have := iterate_from c cs h (c :: cs) [] rfl ((repr (c :: cs)).cap + 1) (by
      rw [repr_cons]; simp only
      have := cps_le_bytes (c :: cs) h
      omega)
    simpa [encodeAll] using this

/-! ### replacing a code point -/

/-- where the common prologue of index/replace ends up, for a non-empty text -/
theorem locate (cps : List Nat) (hne : cps ≠ []) (h : WfCps cps) (i : Int) (h1 : ¬ i < 1) :
    (¬ (i ≤ (cps.length : Int)) ∧
      ((decide (i > ((encodeAll cps).length + 1 : Nat)) || decide ((encodeAll cps).length + 1 ≤ 1)) = true ∨
        (¬ ((decide (i > ((encodeAll cps).length + 1 : Nat)) || decide ((encodeAll cps).length + 1 ≤ 1)) = true) ∧
          (encodeAll cps ++ [0]).getD (walk (encodeAll cps ++ [0]) 0 i.toNat) 0 = 0))) ∨
    (i ≤ (cps.length : Int) ∧
      ¬ ((decide (i > ((encodeAll cps).length + 1 : Nat)) || decide ((encodeAll cps).length + 1 ≤ 1)) = true) ∧
      ∃ k c rest', (i - 1).toNat = k ∧ k < cps.length ∧ cps[k]? = some c ∧ cps.drop k = c :: rest' ∧
        walk (encodeAll cps ++ [0]) 0 i.toNat = (encodeAll (cps.take k)).length ∧
        encodeAll cps ++ [0] = encodeAll (cps.take k) ++ (encode c ++ (encodeAll rest' ++ [0])) ∧
        WfCps (c :: rest')) := by
  have hbytes := cps_le_bytes cps h
  have hpos : 0 < (encodeAll cps).length := by
    cases cps with
    | nil => exact absurd rfl hne
    | cons c0 cs0 => exact List.length_pos_iff.mpr (encodeAll_ne_nil c0 cs0)
  by_cases h2 : i > ((encodeAll cps).length + 1 : Nat)
  · left
    refine ⟨by omega, Or.inl ?_⟩
    simp only [Bool.or_eq_true, decide_eq_true_eq]; exact Or.inl h2
  · have h2' : ¬ ((decide (i > ((encodeAll cps).length + 1 : Nat)) || decide ((encodeAll cps).length + 1 ≤ 1)) = true) := by
      simp only [Bool.or_eq_true, decide_eq_true_eq]; omega
    obtain ⟨k, hk⟩ : ∃ k : Nat, i.toNat = k + 1 := ⟨i.toNat - 1, by omega⟩
    have hw := walk_encodeAll k [] cps [] h
    simp only [List.nil_append, List.length_nil, Nat.zero_add] at hw
    by_cases hin : k < cps.length
    · right
      obtain ⟨c, rest', hdrop, hget, hsplit⟩ := encodeAll_take_lt cps h k hin
      have hwf : WfCps (c :: rest') := by
        intro x hx; rw [← hdrop] at hx; exact h x (List.mem_of_mem_drop hx)
      refine ⟨by omega, h2', k, c, rest', by omega, hin, hget, hdrop, by rw [hk, hw], ?_, hwf⟩
      rw [hsplit]; simp
    · left
      refine ⟨by omega, Or.inr ⟨h2', ?_⟩⟩
      rw [hk, hw, List.take_of_length_le (by omega), getD_append_right]; rfl

theorem encodeAll_set (cps : List Nat) (k : Nat) (c cn : Nat) (rest' : List Nat)
    (hdrop : cps.drop k = c :: rest') :
    encodeAll (cps.set k cn) = encodeAll (cps.take k) ++ (encode cn ++ encodeAll rest') := by
  have hk : k < cps.length := by
    apply Nat.lt_of_not_ge
    intro hge
    have : cps.drop k = [] := List.drop_of_length_le hge
    rw [this] at hdrop; cases hdrop
  have : cps.set k cn = cps.take k ++ cn :: rest' := by
    have h1 : cps = cps.take k ++ c :: rest' := by rw [← hdrop, List.take_append_drop]
    conv => lhs; rw [h1]
    rw [List.set_append_right _ _ (by simp; omega)]
    simp [List.length_take, Nat.min_eq_left (Nat.le_of_lt hk)]
  rw [this, encodeAll_append, encodeAll_cons]

/-- `Speichere c in t an der Stelle i`: the i-th code point is replaced, the others are
unchanged, the representation stays canonical — whether the new character is encoded
shorter, equally long or longer; Laufzeitfehler outside `1 … length` -/
theorem replace_repr (cps : List Nat) (h : WfCps cps) (cn : Nat) (hs : isScalar cn = true) (h0 : cn ≠ 0)
    (i : Int) :
    replaceChar (repr cps) (cn : Int) i =
      if 1 ≤ i ∧ i ≤ cps.length then .ok (repr (cps.set (i - 1).toNat cn)) else .err := by
  unfold replaceChar
  by_cases h1 : i < 1
  · have : ¬ (1 ≤ i ∧ i ≤ (cps.length : Int)) := by omega
    simp [h1, this]
  rw [if_neg h1]
  cases cps with
  | nil =>
    have : ¬ (1 ≤ i ∧ i ≤ ((([] : List Nat).length : Nat) : Int)) := by simp; omega
    rw [if_neg this]
    simp [repr_nil, emptyText]
  | cons c0 cs0 =>
    rw [repr_cons]
    simp only
    generalize hcps : c0 :: cs0 = cps at *
    have hne : cps ≠ [] := by rw [← hcps]; simp
    rcases locate cps hne h i h1 with ⟨hout, hc | ⟨hc, hz⟩⟩ | ⟨hin, hc, k, c, rest', hk, hklt, hget, hdrop, hw, hbuf, hwf⟩
    · have : ¬ (1 ≤ i ∧ i ≤ (cps.length : Int)) := by omega
      rw [if_pos hc, if_neg this]
    · have : ¬ (1 ≤ i ∧ i ≤ (cps.length : Int)) := by omega
      have hz' : ((encodeAll cps ++ [0]).getD (walk (encodeAll cps ++ [0]) 0 i.toNat) 0 == 0) = true := by
        rw [hz]; rfl
      rw [if_neg hc, if_neg this, if_pos hz']
    · have hir : 1 ≤ i ∧ i ≤ (cps.length : Int) := by omega
      rw [if_neg hc, if_pos hir, hw, hbuf, getD_append_right]
      have hh := headD_encode_ne_zero c hwf.head.1 hwf.head.2 (encodeAll rest' ++ [0])
      have hb : ((encode c ++ (encodeAll rest' ++ [0])).headD 0 == 0) = false := by simpa using hh
      rw [hb]
      simp only [Bool.false_eq_true, if_false, drop_append_len]
      rw [numBytes_encode c hwf.head.1 hwf.head.2, charBytes_scalar cn hs]
      simp only
      have hset := encodeAll_set cps k c cn rest' hdrop
      have hcapeq : (encodeAll cps).length + 1 =
          (encodeAll (cps.take k)).length + ((encode c).length + ((encodeAll rest').length + 1)) := by
        have hlen := congrArg List.length hbuf
        rw [List.length_append, List.length_append, List.length_append, List.length_append] at hlen
        simp only [List.length_cons, List.length_nil] at hlen
        omega
      have hres : repr (cps.set (i - 1).toNat cn) =
          ⟨encodeAll (cps.take k) ++ (encode cn ++ (encodeAll rest' ++ [0])),
            (encodeAll (cps.take k)).length + ((encode cn).length + ((encodeAll rest').length + 1))⟩ := by
        rw [hk]
        have hne2 : (cps.set k cn).isEmpty = false := by
          cases hcs : cps.set k cn with
          | nil =>
            have h' : (cps.set k cn).length = cps.length := List.length_set ..
            rw [hcs, List.length_nil] at h'; omega
          | cons _ _ => rfl
        unfold repr
        rw [hne2, hset]
        simp only [Bool.false_eq_true, if_false, List.append_assoc, List.length_append, Text.mk.injEq, true_and]
        omega
      rw [hres]
      have hTlen0 : (encodeAll rest' ++ [0]).length = (encodeAll rest').length + 1 := by simp
      generalize encodeAll (cps.take k) = P at *
      generalize hT : encodeAll rest' ++ [0] = T at *
      have hTlen : T.length = (encodeAll rest').length + 1 := hTlen0
      have e1 : (P ++ (encode c ++ T)).take P.length = P := by simp
      by_cases heq : (encode c).length = (encode cn).length
      · have hb1 : ((encode c).length == (encode cn).length) = true := by simp [heq]
        rw [hb1]
        simp only [if_true, e1]
        have hd : (P ++ (encode c ++ T)).drop (P.length + (encode cn).length) = T := by
          rw [← heq, ← List.append_assoc, ← List.length_append, drop_append_len]
        rw [hd]
        simp only [Res.ok.injEq, Text.mk.injEq]
        refine ⟨by simp, ?_⟩
        rw [hcapeq, heq]
      · have hb1 : ((encode c).length == (encode cn).length) = false := by simp [heq]
        rw [hb1]
        simp only [Bool.false_eq_true, if_false, e1]
        have dropT : (P ++ (encode c ++ T)).drop (P.length + (encode c).length) = T := by
          rw [← List.append_assoc, ← List.length_append, drop_append_len]
        have tk : T.take ((encodeAll cps).length + 1 - P.length - (encode c).length) = T := by
          apply List.take_of_length_le; rw [hcapeq, hTlen]; omega
        by_cases hgt : (encode c).length > (encode cn).length
        · simp only [hgt, decide_true, if_true, dropT, tk]
          simp only [Res.ok.injEq, Text.mk.injEq]
          refine ⟨?_, by rw [hcapeq]; omega⟩
          rw [List.append_assoc]
          apply List.take_of_length_le
          simp only [List.length_append, hTlen]; rw [hcapeq]; omega
        · simp only [hgt, decide_false, Bool.false_eq_true, if_false, dropT, tk]
          simp only [Res.ok.injEq, Text.mk.injEq]
          refine ⟨by simp, by rw [hcapeq]; omega⟩

/-! ### slicing -/

/-- the scanning loops of `ddp_string_slice`: `m` further code points are skipped -/
theorem sliceWalk_encodeAll (m : Nat) : ∀ (pre cs rest : List Nat) (l fuel : Nat), WfCps cs →
    m ≤ cs.length → m < fuel →
    sliceWalk (pre ++ (encodeAll cs ++ 0 :: rest)) fuel pre.length l (l + m) =
      (pre.length + (encodeAll (cs.take m)).length, l + m) := by
  induction m with
  | zero =>
    intro pre cs rest l fuel _ _ hf
    cases fuel with
    | zero => omega
    | succ f => unfold sliceWalk; simp [encodeAll]
  | succ m ih =>
    intro pre cs rest l fuel h hm hf
    cases fuel with
    | zero => omega
    | succ f =>
      cases cs with
      | nil => simp at hm
      | cons c cs' =>
        unfold sliceWalk
        rw [getD_append_right]
        have hh := head_encodeAll_ne_zero c cs' h (0 :: rest)
        have hb : ((encodeAll (c :: cs') ++ 0 :: rest).headD 0 != 0) = true := by simpa using hh
        have hl : (l != l + (m + 1)) = true := by simp
        rw [hb, hl]
        simp only [Bool.and_self, if_true]
        have hind : indicatedNumBytes ((encodeAll (c :: cs') ++ 0 :: rest).headD 0) = (encode c).length := by
          rw [encodeAll_cons, List.append_assoc]; exact indicated_encode c h.head.1 _
        rw [hind]
        have := ih (pre ++ encode c) cs' rest (l + 1) f h.tail (by simp at hm; omega) (by omega)
        simp only [List.length_append, List.append_assoc] at this
        rw [encodeAll_cons, List.append_assoc]
        have e : l + 1 + m = l + (m + 1) := by omega
        rw [e] at this
        rw [this]
        simp only [List.take_succ_cons, encodeAll_cons, List.length_append]
        congr 1
        omega

theorem encodeAll_take_succ (cps : List Nat) (k : Nat) (hk : k < cps.length) :
    encodeAll (cps.take (k + 1)) = encodeAll (cps.take k) ++ encode cps[k] := by
  rw [List.take_succ_eq_append_getElem hk, encodeAll_append]
  simp [encodeAll]

theorem clampI_range (i : Int) (n : Nat) (hn : 0 < n) : 1 ≤ clampI i 1 n ∧ clampI i 1 n ≤ n := by
  unfold clampI
  simp only
  split <;> split <;> omega

/-- `Text im Bereich von i bis j`: both bounds are clamped into `1 … length`; crossed bounds
are a Laufzeitfehler; otherwise the code points `i … j` (inclusive), canonically represented -/
theorem slice_repr (cps : List Nat) (h : WfCps cps) (i1 i2 : Int) :
    slice (repr cps) i1 i2 =
      if cps.isEmpty then .ok (repr [])
      else
        let a := clampI i1 1 cps.length
        let b := clampI i2 1 cps.length
        if b < a then .err
        else .ok (repr ((cps.drop (a - 1).toNat).take ((b - a).toNat + 1))) := by
  unfold slice
  rw [isEmpty_repr cps h]
  cases cps with
  | nil => rfl
  | cons c0 cs0 =>
    simp only [List.isEmpty_cons, Bool.false_eq_true, if_false]
    rw [repr_cons]
    simp only
    generalize hcps : c0 :: cs0 = cps at *
    have hnpos : 0 < cps.length := by rw [← hcps]; simp
    rw [strlenCp_encodeAll cps h []]
    obtain ⟨ha1, ha2⟩ := clampI_range i1 cps.length hnpos
    obtain ⟨hb1, hb2⟩ := clampI_range i2 cps.length hnpos
    generalize clampI i1 1 cps.length = a at *
    generalize clampI i2 1 cps.length = b at *
    by_cases hba : b < a
    · simp [hba]
    · simp only [hba, if_false]
      obtain ⟨ka, hka⟩ : ∃ ka : Nat, (a - 1).toNat = ka := ⟨_, rfl⟩
      obtain ⟨d, hd⟩ : ∃ d : Nat, (b - a).toNat = d := ⟨_, rfl⟩
      have hkb : (b - 1).toNat = ka + d := by omega
      have hkalt : ka + d < cps.length := by omega
      rw [hka, hkb, hd]
      -- first loop: skip ka code points from the start
      have w1 := sliceWalk_encodeAll ka [] cps [] 0 ((encodeAll cps ++ [0]).length + 1) h (by omega)
        (by have := cps_le_bytes cps h; simp only [List.length_append, List.length_cons, List.length_nil]; omega)
      simp only [List.nil_append, List.length_nil, Nat.zero_add] at w1
      rw [w1]
      simp only
      -- second loop: d more code points, starting inside the buffer
      have hsplit : encodeAll cps = encodeAll (cps.take ka) ++ encodeAll (cps.drop ka) := by
        conv => lhs; rw [← List.take_append_drop ka cps]
        rw [encodeAll_append]
      have hwfd : WfCps (cps.drop ka) := fun x hx => h x (List.mem_of_mem_drop hx)
      have hbuf : encodeAll cps ++ [0] = encodeAll (cps.take ka) ++ (encodeAll (cps.drop ka) ++ 0 :: []) := by
        rw [hsplit]; simp
      have w2 := sliceWalk_encodeAll d (encodeAll (cps.take ka)) (cps.drop ka) [] ka
        ((encodeAll cps ++ [0]).length + 1) hwfd (by simp; omega)
        (by have := cps_le_bytes cps h; simp only [List.length_append, List.length_cons, List.length_nil]; omega)
      rw [← hbuf] at w2
      rw [w2]
      simp only
      -- the byte at the end position starts code point ka + d
      have hdl : d < (cps.drop ka).length := by simp; omega
      obtain ⟨c, rest', hdrop2, hget2, hsplit2⟩ := encodeAll_take_lt (cps.drop ka) hwfd d hdl
      have hwf2 : WfCps (c :: rest') := by
        intro x hx; rw [← hdrop2] at hx; exact hwfd x (List.mem_of_mem_drop hx)
      have hbuf2 : encodeAll cps ++ [0] =
          (encodeAll (cps.take ka) ++ encodeAll ((cps.drop ka).take d)) ++ (encode c ++ (encodeAll rest' ++ [0])) := by
        rw [hbuf, hsplit2]; simp
      have hnb : numBytes ((encodeAll cps ++ [0]).drop ((encodeAll (cps.take ka)).length + (encodeAll ((cps.drop ka).take d)).length)) =
          (encode c).length := by
        rw [hbuf2, ← List.length_append, drop_append_len]
        exact numBytes_encode c hwf2.head.1 hwf2.head.2 _
      rw [hnb]
      -- the result
      have htake : (cps.drop ka).take (d + 1) = (cps.drop ka).take d ++ [c] := by
        rw [List.take_succ_eq_append_getElem hdl]
        congr 2
        have := hget2
        rw [List.getElem?_eq_getElem hdl] at this
        exact Option.some.inj this
      have hres : repr ((cps.drop ka).take (d + 1)) =
          ⟨encodeAll ((cps.drop ka).take d) ++ encode c ++ [0],
            (encodeAll ((cps.drop ka).take d)).length + (encode c).length + 1⟩ := by
        rw [htake]
        have hne2 : ((cps.drop ka).take d ++ [c]).isEmpty = false := by
          cases hx : (cps.drop ka).take d ++ [c] with
          | nil => simp at hx
          | cons _ _ => rfl
        unfold repr
        rw [hne2, encodeAll_append]
        simp [encodeAll]
      rw [hres]
      simp only [Res.ok.injEq, Text.mk.injEq]
      refine ⟨?_, by omega⟩
      congr 1
      rw [hbuf2]
      have e1 : (encodeAll (cps.take ka)).length + (encodeAll ((cps.drop ka).take d)).length - (encodeAll (cps.take ka)).length + 1 +
          (encode c).length - 1 = (encodeAll ((cps.drop ka).take d) ++ encode c).length := by
        simp only [List.length_append]; omega
      rw [e1, List.append_assoc, drop_append_len, ← List.append_assoc, take_append_len]

end DDP.TextRT

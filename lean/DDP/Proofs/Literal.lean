import DDP.Impl.Literal
import DDP.Spec.Literal
import DDP.Proofs.Scanner

/-! helper lemmas for `Props/C19.lean` -/

namespace DDP.Literal
open DDP.Generated DDP.LiteralSpec DDP.Scanner

/-- the generated parser table for text literals is the specification's escape map -/
theorem lookup_string_eq_spec (l : Char) : lookup parseStringEscapes l = escapeImage '"' l := by
  by_cases h1 : l = 'a'; · subst h1; decide
  by_cases h2 : l = 'b'; · subst h2; decide
  by_cases h3 : l = 'n'; · subst h3; decide
  by_cases h4 : l = 'r'; · subst h4; decide
  by_cases h5 : l = 't'; · subst h5; decide
  by_cases h6 : l = '\\'; · subst h6; decide
  by_cases h7 : l = '"'; · subst h7; decide
  have e1 : (Char.ofNat 97 == l) = false := by rw [beq_eq_false_iff_ne]; exact fun e => h1 (by rw [← e])
  have e2 : (Char.ofNat 98 == l) = false := by rw [beq_eq_false_iff_ne]; exact fun e => h2 (by rw [← e])
  have e3 : (Char.ofNat 110 == l) = false := by rw [beq_eq_false_iff_ne]; exact fun e => h3 (by rw [← e])
  have e4 : (Char.ofNat 114 == l) = false := by rw [beq_eq_false_iff_ne]; exact fun e => h4 (by rw [← e])
  have e5 : (Char.ofNat 116 == l) = false := by rw [beq_eq_false_iff_ne]; exact fun e => h5 (by rw [← e])
  have e6 : (Char.ofNat 92 == l) = false := by rw [beq_eq_false_iff_ne]; exact fun e => h6 (by rw [← e])
  have e7 : (Char.ofNat 34 == l) = false := by rw [beq_eq_false_iff_ne]; exact fun e => h7 (by rw [← e])
  simp [lookup, parseStringEscapes, escapeImage, List.find?, *]

/-- the generated parser table for character literals is the specification's escape map -/
theorem lookup_char_eq_spec (l : Char) : lookup parseCharEscapes l = escapeImage '\'' l := by
  by_cases h1 : l = 'a'; · subst h1; decide
  by_cases h2 : l = 'b'; · subst h2; decide
  by_cases h3 : l = 'n'; · subst h3; decide
  by_cases h4 : l = 'r'; · subst h4; decide
  by_cases h5 : l = 't'; · subst h5; decide
  by_cases h6 : l = '\\'; · subst h6; decide
  by_cases h7 : l = '\''; · subst h7; decide
  have e1 : (Char.ofNat 97 == l) = false := by rw [beq_eq_false_iff_ne]; exact fun e => h1 (by rw [← e])
  have e2 : (Char.ofNat 98 == l) = false := by rw [beq_eq_false_iff_ne]; exact fun e => h2 (by rw [← e])
  have e3 : (Char.ofNat 110 == l) = false := by rw [beq_eq_false_iff_ne]; exact fun e => h3 (by rw [← e])
  have e4 : (Char.ofNat 114 == l) = false := by rw [beq_eq_false_iff_ne]; exact fun e => h4 (by rw [← e])
  have e5 : (Char.ofNat 116 == l) = false := by rw [beq_eq_false_iff_ne]; exact fun e => h5 (by rw [← e])
  have e6 : (Char.ofNat 92 == l) = false := by rw [beq_eq_false_iff_ne]; exact fun e => h6 (by rw [← e])
  have e7 : (Char.ofNat 39 == l) = false := by rw [beq_eq_false_iff_ne]; exact fun e => h7 (by rw [← e])
  simp [lookup, parseCharEscapes, escapeImage, List.find?, *]

/-- the scanner's acceptance test (hand-transcribed `isEscape`) is the generated case list -/
theorem isEscape_eq_generated (q d : Char) :
    isEscape q d = (scannerEscapeLetters.contains d || (scannerEscapeQuote && d == q)) := by
  simp [isEscape, scannerEscapeLetters, scannerEscapeQuote, List.contains, List.elem]
  by_cases h1 : d = 'a'; · subst h1; simp
  by_cases h2 : d = 'b'; · subst h2; simp
  by_cases h3 : d = 'n'; · subst h3; simp
  by_cases h4 : d = 'r'; · subst h4; simp
  by_cases h5 : d = 't'; · subst h5; simp
  by_cases h6 : d = '\\'; · subst h6; simp
  have e1 : (d == Char.ofNat 97) = false := by rw [beq_eq_false_iff_ne]; exact fun e => h1 (by rw [e])
  have e2 : (d == Char.ofNat 98) = false := by rw [beq_eq_false_iff_ne]; exact fun e => h2 (by rw [e])
  have e3 : (d == Char.ofNat 110) = false := by rw [beq_eq_false_iff_ne]; exact fun e => h3 (by rw [e])
  have e4 : (d == Char.ofNat 114) = false := by rw [beq_eq_false_iff_ne]; exact fun e => h4 (by rw [e])
  have e5 : (d == Char.ofNat 116) = false := by rw [beq_eq_false_iff_ne]; exact fun e => h5 (by rw [e])
  have e6 : (d == Char.ofNat 92) = false := by rw [beq_eq_false_iff_ne]; exact fun e => h6 (by rw [e])
  simp [*]

/-- scanner and specification agree on which letters may follow a backslash -/
theorem isEscape_iff_spec (q d : Char) : isEscape q d = (escapeImage q d).isSome := by
  unfold isEscape escapeImage
  by_cases h1 : d = 'a'; · subst h1; simp
  by_cases h2 : d = 'b'; · subst h2; simp
  by_cases h3 : d = 'n'; · subst h3; simp
  by_cases h4 : d = 'r'; · subst h4; simp
  by_cases h5 : d = 't'; · subst h5; simp
  by_cases h6 : d = '\\'; · subst h6; simp
  by_cases h7 : d = q; · subst h7; simp [*]
  simp [*]

/-- the parser model computes the specification: no diagnostic iff the content is a
literal, and then the value is what it denotes -/
theorem parseStringImpl_spec (tbl : List (Char × Char)) (q : Char)
    (htbl : ∀ l, lookup tbl l = escapeImage q l) :
    ∀ (n : Nat) (cs : List Char), cs.length ≤ n →
      ((parseStringImpl tbl cs).2 = 0 → unescape q cs = some (parseStringImpl tbl cs).1) ∧
      (unescape q cs ≠ none → (parseStringImpl tbl cs).2 = 0)
  | 0, cs, h => by
    have : cs = [] := List.length_eq_zero_iff.mp (Nat.le_zero.mp h)
    subst this; simp [parseStringImpl, unescape]
  | n + 1, cs, h => by
    cases cs with
    | nil => simp [parseStringImpl, unescape]
    | cons c rest =>
      have hlen : rest.length ≤ n := by simpa using h
      unfold parseStringImpl unescape
      by_cases hc : c = '\\'
      · simp only [hc, if_true]
        cases rest with
        | nil => simp
        | cons d rest' =>
          have hl2 : rest'.length ≤ n := by simp at hlen; omega
          simp only [htbl]
          cases hi : escapeImage q d with
          | none =>
            simp
          | some img =>
            obtain ⟨ih1, ih2⟩ := parseStringImpl_spec tbl q htbl n rest' hl2
            simp only
            constructor
            · intro h0; rw [ih1 h0]; rfl
            · intro hne
              apply ih2
              intro hnone; rw [hnone] at hne; exact hne rfl
      · simp only [hc, if_false]
        obtain ⟨ih1, ih2⟩ := parseStringImpl_spec tbl q htbl n rest hlen
        constructor
        · intro h0; rw [ih1 h0]; rfl
        · intro hne
          apply ih2
          intro hnone; rw [hnone] at hne; exact hne rfl

end DDP.Literal

import DDP.Impl.ConstParam

/-!
# The flags of the constant-parameter annotator are sound (core Lean only)
-/

namespace DDP.ConstParam

/-- parameter `i` is not (or no longer) considered constant -/
def isFalse (fl : Flags) (i : Nat) : Prop := fl[i]? ≠ some true

theorem isFalse_set {fl : Flags} {k i : Nat} (h : isFalse fl i) : isFalse (fl.set k false) i := by
  unfold isFalse at *
  rw [List.getElem?_set]
  split
  · split <;> simp
  · exact h

theorem isFalse_set_self (fl : Flags) (q : Nat) : isFalse (fl.set q false) q := by
  unfold isFalse
  rw [List.getElem?_set]
  simp only [if_true]
  split <;> simp

theorem isFalse_map (fl : Flags) (i : Nat) : isFalse (fl.map (fun _ => false)) i := by
  unfold isFalse
  rw [List.getElem?_map]
  cases fl[i]? <;> simp

/-- flags only ever go from constant to not constant -/
theorem mark_keeps {fl : Flags} {i : Nat} (a : Arg) (h : isFalse fl i) : isFalse (mark fl a) i := by
  cases a with
  | none => exact h
  | root k => exact isFalse_set h
  | unknown => exact isFalse_map fl i

theorem mark_hits (fl : Flags) (q : Nat) (a : Arg) (ha : a = .root q ∨ a = .unknown) : isFalse (mark fl a) q := by
  rcases ha with rfl | rfl
  · exact isFalse_set_self fl q
  · exact isFalse_map fl q

theorem markArgs_keeps (info : Option Flags) : ∀ (args : List Arg) (s : Nat) (fl : Flags) (i : Nat),
    isFalse fl i → isFalse (markArgs info s args fl) i := by
  intro args
  induction args with
  | nil => intro s fl i h; exact h
  | cons a as ih =>
    intro s fl i h
    simp only [markArgs]
    apply ih
    split
    · exact h
    · exact mark_keeps a h

theorem markArgs_hits (info : Option Flags) : ∀ (args : List Arg) (s j : Nat) (fl : Flags) (a : Arg) (q : Nat),
    args[j]? = some a → (a = .root q ∨ a = .unknown) → calleeConst info (s + j) = false →
    isFalse (markArgs info s args fl) q := by
  intro args
  induction args with
  | nil => intro s j fl a q h; simp at h
  | cons a0 as ih =>
    intro s j fl a q h ha hc
    cases j with
    | zero =>
      simp only [List.getElem?_cons_zero, Option.some.injEq] at h
      subst h
      simp only [markArgs]
      apply markArgs_keeps
      simp only [Nat.add_zero] at hc
      simp only [hc]
      exact mark_hits fl q a0 ha
    | succ j =>
      simp only [List.getElem?_cons_succ] at h
      simp only [markArgs]
      exact ih (s+1) j _ a q h ha (by rw [Nat.add_assoc, Nat.add_comm 1 j]; exact hc)

theorem step_keeps (known : Nat → Option Flags) (self : Nat) (fl : Flags) (s : Stmt) (i : Nat) (h : isFalse fl i) :
    isFalse (step known self fl s) i := by
  cases s with
  | assign t => exact mark_keeps t h
  | call g args => exact markArgs_keeps _ args 0 fl i h

theorem foldl_keeps (known : Nat → Option Flags) (self : Nat) : ∀ (body : List Stmt) (fl : Flags) (i : Nat),
    isFalse fl i → isFalse (body.foldl (step known self) fl) i := by
  intro body
  induction body with
  | nil => intro fl i h; exact h
  | cons s rest ih => intro fl i h; exact ih _ i (step_keeps known self fl s i h)

/-- a statement that marks `q` whatever the flags are, anywhere in the body, leaves `q` marked at the end -/
theorem foldl_hits (known : Nat → Option Flags) (self : Nat) (s : Stmt) (q : Nat)
    (hs : ∀ fl, isFalse (step known self fl s) q) : ∀ (body : List Stmt) (fl : Flags), s ∈ body →
    isFalse (body.foldl (step known self) fl) q := by
  intro body
  induction body with
  | nil => intro fl h; cases h
  | cons s0 rest ih =>
    intro fl h
    simp only [List.foldl_cons]
    rcases List.mem_cons.mp h with rfl | h'
    · exact foldl_keeps known self rest _ q (hs fl)
    · exact ih _ h'

/-! ### the table the module-wide pass builds -/

theorem analyseFrom_prefix : ∀ (rest : List Fn) (i : Nat) (done : List Flags), done.length = i →
    ∀ g, g < i → (analyseFrom i rest done)[g]? = done[g]? := by
  intro rest
  induction rest with
  | nil => intro i done _ g _; rfl
  | cons fn rest ih =>
    intro i done hlen g hg
    simp only [analyseFrom]
    rw [ih (i+1) _ (by simp [hlen]) g (by omega)]
    rw [List.getElem?_append_left (by omega)]

/-- every function's entry is the analysis of that function with the *final* entries of the functions before it, and nothing
about itself or the functions after it -/
theorem analyseFrom_entry : ∀ (rest : List Fn) (i : Nat) (done : List Flags), done.length = i →
    ∀ k fn, rest[k]? = some fn →
      (analyseFrom i rest done)[i + k]? =
        some (analyseFn (fun g => if g < i + k then (analyseFrom i rest done)[g]? else none) (i + k) fn) := by
  intro rest
  induction rest with
  | nil => intro i done _ k fn h; simp at h
  | cons fn0 rest ih =>
    intro i done hlen k fn h
    cases k with
    | zero =>
      simp only [List.getElem?_cons_zero, Option.some.injEq] at h
      subst h
      simp only [analyseFrom, Nat.add_zero]
      rw [analyseFrom_prefix rest (i+1) _ (by simp [hlen]) i (by omega)]
      rw [List.getElem?_append_right (by omega)]
      simp only [hlen, Nat.sub_self, List.getElem?_cons_zero, Option.some.injEq]
      congr 1
      funext g
      by_cases hg : g < i
      · simp only [hg, if_true]
        rw [analyseFrom_prefix rest (i+1) _ (by simp [hlen]) g (by omega)]
        rw [List.getElem?_append_left (by omega)]
      · simp only [hg, if_false]
        exact List.getElem?_eq_none (by omega)
    | succ k =>
      simp only [List.getElem?_cons_succ] at h
      simp only [analyseFrom]
      have := ih (i+1) (done ++ [analyseFn (fun g => done[g]?) i fn0]) (by simp [hlen]) k fn h
      have e : i + 1 + k = i + (k + 1) := by omega
      rw [e] at this
      exact this

theorem analyse_entry (p : Prog) (f : Nat) (fn : Fn) (h : p[f]? = some fn) :
    (analyse p)[f]? = some (analyseFn (fun g => if g < f then (analyse p)[g]? else none) f fn) := by
  have := analyseFrom_entry p 0 [] rfl f fn h
  simpa [analyse] using this

/-! ### soundness -/

/-- **The flags are sound.** A parameter the annotator leaves flagged constant is not changed by running the function —
not directly, not through a Referenz parameter of a callee (also not of the function itself, called recursively, or of a
function looked at later), not through another value parameter that is itself handed over without a copy. -/
theorem sound (p : Prog) (f q : Nat) (h : Mut p (analyse p) f q) : (analyse p)[f]?.bind (·[q]?) ≠ some true := by
  induction h with
  | @assign f q fn hf hext hmem =>
    rw [analyse_entry p f fn hf]
    simp only [Option.bind_some, analyseFn, hext]
    exact foldl_hits _ f (.assign (.root q)) q (fun fl => mark_hits fl q _ (Or.inl rfl)) fn.body _ hmem
  | @assignUnknown f q fn hf hext hmem =>
    rw [analyse_entry p f fn hf]
    simp only [Option.bind_some, analyseFn, hext]
    exact foldl_hits _ f (.assign .unknown) q (fun fl => mark_hits fl q _ (Or.inr rfl)) fn.body _ hmem
  | @extern f q fn hf hext =>
    rw [analyse_entry p f fn hf]
    simp only [Option.bind_some, analyseFn, hext, if_true]
    intro hc
    rw [List.getElem?_replicate] at hc
    split at hc <;> simp at hc
  | @viaRef f q fn g gn args j a hf hext hmem harg ha hg href _ ih =>
    rw [analyse_entry p f fn hf]
    simp only [Option.bind_some, analyseFn, hext]
    refine foldl_hits _ f (.call g args) q (fun fl => ?_) fn.body _ hmem
    simp only [step]
    apply markArgs_hits _ args 0 j fl a q harg ha
    simp only [Nat.zero_add]
    by_cases hgf : g = f
    · simp [hgf, calleeConst]
    · simp only [hgf, if_false]
      by_cases hlt : g < f
      · simp only [hlt, if_true]
        unfold calleeConst
        cases hA : (analyse p)[g]? with
        | none => rfl
        | some fl =>
          simp only
          cases hj : fl[j]? with
          | none => rfl
          | some b =>
            cases b with
            | false => rfl
            | true => exact absurd (by simp [hA, hj]) ih
      · simp [hlt, calleeConst]
  | @viaBorrow f q fn g args j a hf hext hmem harg ha hborrow _ ih =>
    exact absurd hborrow ih

end DDP.ConstParam

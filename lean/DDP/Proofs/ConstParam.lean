import DDP.Impl.ConstParam

/-!
# The flags of the constant-parameter annotator are sound (core Lean only)
-/

namespace DDP.ConstParam

/-- parameter `i` is not (or no longer) considered constant -/
def isFalse (fl : Flags) (i : Nat) : Prop := fl[i]? ≠ some true

theorem isFalse_set {fl : Flags} {k i : Nat} (h : isFalse fl i) : isFalse (fl.set k false) i := by
  unfold isFalse at *
  rw [List.getElem?_set]
  split
  · split <;> simp
  · exact h

theorem isFalse_set_self (fl : Flags) (q : Nat) : isFalse (fl.set q false) q := by
  unfold isFalse
  rw [List.getElem?_set]
  simp only [if_true]
  split <;> simp

theorem isFalse_map (fl : Flags) (i : Nat) : isFalse (fl.map (fun _ => false)) i := by
  unfold isFalse
  rw [List.getElem?_map]
  cases fl[i]? <;> simp

/-- flags only ever go from constant to not constant -/
theorem mark_keeps {fl : Flags} {i : Nat} (a : Arg) (h : isFalse fl i) : isFalse (mark fl a) i := by
  cases a with
  | none => exact h
  | root k => exact isFalse_set h
  | unknown => exact isFalse_map fl i

theorem mark_hits (fl : Flags) (q : Nat) (a : Arg) (ha : a = .root q ∨ a = .unknown) : isFalse (mark fl a) q := by
  rcases ha with rfl | rfl
  · exact isFalse_set_self fl q
  · exact isFalse_map fl q

theorem markArgs_keeps (info : Option Flags) : ∀ (args : List Arg) (s : Nat) (fl : Flags) (i : Nat),
    isFalse fl i → isFalse (markArgs info s args fl) i := by
  intro args
  induction args with
  | nil => intro s fl i h; exact h
  | cons a as ih =>
    intro s fl i h
    simp only [markArgs]
    apply ih
    split
    · exact h
    · exact mark_keeps a h

theorem markArgs_hits (info : Option Flags) : ∀ (args : List Arg) (s j : Nat) (fl : Flags) (a : Arg) (q : Nat),
    args[j]? = some a → (a = .root q ∨ a = .unknown) → calleeConst info (s + j) = false →
    isFalse (markArgs info s args fl) q := by
  intro args
  induction args with
  | nil => intro s j fl a q h; simp at h
  | cons a0 as ih =>
    intro s j fl a q h ha hc
    cases j with
    | zero =>
      simp only [List.getElem?_cons_zero, Option.some.injEq] at h
      subst h
      simp only [markArgs]
      apply markArgs_keeps
      simp only [Nat.add_zero] at hc
      simp only [hc]
      exact mark_hits fl q a0 ha
    | succ j =>
      simp only [List.getElem?_cons_succ] at h
      simp only [markArgs]
      exact ih (s+1) j _ a q h ha (by rw [Nat.add_assoc, Nat.add_comm 1 j]; exact hc)

theorem step_keeps (known : Nat → Option Flags) (self : Nat) (fl : Flags) (s : Stmt) (i : Nat) (h : isFalse fl i) :
    isFalse (step known self fl s) i := by
  cases s with
  | assign t => exact mark_keeps t h
  | call g args => exact markArgs_keeps _ args 0 fl i h

theorem foldl_keeps (known : Nat → Option Flags) (self : Nat) : ∀ (body : List Stmt) (fl : Flags) (i : Nat),
    isFalse fl i → isFalse (body.foldl (step known self) fl) i := by
  intro body
  induction body with
  | nil => intro fl i h; exact h
  | cons s rest ih => intro fl i h; exact ih _ i (step_keeps known self fl s i h)

/-- a statement that marks `q` whatever the flags are, anywhere in the body, leaves `q` marked at the end -/
theorem foldl_hits (known : Nat → Option Flags) (self : Nat) (s : Stmt) (q : Nat)
    (hs : ∀ fl, isFalse (step known self fl s) q) : ∀ (body : List Stmt) (fl : Flags), s ∈ body →
    isFalse (body.foldl (step known self) fl) q := by
  intro body
  induction body with
  | nil => intro fl h; cases h
  | cons s0 rest ih =>
    intro fl h
    simp only [List.foldl_cons]
    rcases List.mem_cons.mp h with rfl | h'
    · exact foldl_keeps known self rest _ q (hs fl)
    · exact ih _ h'

/-! ### the table the module-wide pass builds -/

theorem analyseFrom_prefix : ∀ (rest : List Fn) (i : Nat) (done : List Flags), done.length = i →
    ∀ g, g < i → (analyseFrom i rest done)[g]? = done[g]? := by
  intro rest
  induction rest with
  | nil => intro i done _ g _; rfl
  | cons fn rest ih =>
    intro i done hlen g hg
    simp only [analyseFrom]
    rw [ih (i+1) _ (by simp [hlen]) g (by omega)]
    rw [List.getElem?_append_left (by omega)]

/-- every function's entry is the analysis of that function with the *final* entries of the functions before it, and nothing
about itself or the functions after it -/
theorem analyseFrom_entry : ∀ (rest : List Fn) (i : Nat) (done : List Flags), done.length = i →
    ∀ k fn, rest[k]? = some fn →
      (analyseFrom i rest done)[i + k]? =
        some (analyseFn (fun g => if g < i + k then (analyseFrom i rest done)[g]? else none) (i + k) fn) := by
  intro rest
  induction rest with
  | nil => intro i done _ k fn h; simp at h
  | cons fn0 rest ih =>
    intro i done hlen k fn h
    cases k with
    | zero =>
      simp only [List.getElem?_cons_zero, Option.some.injEq] at h
      subst h
      simp only [analyseFrom, Nat.add_zero]
      rw [analyseFrom_prefix rest (i+1) _ (by simp [hlen]) i (by omega)]
      rw [List.getElem?_append_right (by omega)]
      simp only [hlen, Nat.sub_self, List.getElem?_cons_zero, Option.some.injEq]
      congr 1
      funext g
      by_cases hg : g < i
      · simp only [hg, if_true]
        rw [analyseFrom_prefix rest (i+1) _ (by simp [hlen]) g (by omega)]
        rw [List.getElem?_append_left (by omega)]
      · simp only [hg, if_false]
        exact List.getElem?_eq_none (by omega)
    | succ k =>
      simp only [List.getElem?_cons_succ] at h
      simp only [analyseFrom]
      have := ih (i+1) (done ++ [analyseFn (fun g => done[g]?) i fn0]) (by simp [hlen]) k fn h
      have e : i + 1 + k = i + (k + 1) := by omega
      rw [e] at this
      exact this

theorem analyse_entry (p : Prog) (f : Nat) (fn : Fn) (h : p[f]? = some fn) :
    (analyse p)[f]? = some (analyseFn (fun g => if g < f then (analyse p)[g]? else none) f fn) := by
  have := analyseFrom_entry p 0 [] rfl f fn h
  simpa [analyse] using this

/-! ### soundness -/

/-- **The flags are sound.** A parameter the annotator leaves flagged constant is not changed by running the function —
not directly, not through a Referenz parameter of a callee (also not of the function itself, called recursively, or of a
function looked at later), not through another value parameter that is itself handed over without a copy. -/
theorem sound (p : Prog) (f q : Nat) (h : Mut p (analyse p) f q) : (analyse p)[f]?.bind (·[q]?) ≠ some true := by
  induction h with
  | @assign f q fn hf hext hmem =>
    rw [analyse_entry p f fn hf]
    simp only [Option.bind_some, analyseFn, hext]
    exact foldl_hits _ f (.assign (.root q)) q (fun fl => mark_hits fl q _ (Or.inl rfl)) fn.body _ hmem
  | @assignUnknown f q fn hf hext hmem =>
    rw [analyse_entry p f fn hf]
    simp only [Option.bind_some, analyseFn, hext]
    exact foldl_hits _ f (.assign .unknown) q (fun fl => mark_hits fl q _ (Or.inr rfl)) fn.body _ hmem
  | @extern f q fn hf hext =>
    rw [analyse_entry p f fn hf]
    simp only [Option.bind_some, analyseFn, hext, if_true]
    intro hc
    rw [List.getElem?_replicate] at hc
    split at hc <;> simp at hc
  | @viaRef f q fn g gn args j a hf hext hmem harg ha hg href _ ih =>
    rw [analyse_entry p f fn hf]
    simp only [Option.bind_some, analyseFn, hext]
    refine foldl_hits _ f (.call g args) q (fun fl => ?_) fn.body _ hmem
    simp only [step]
    apply markArgs_hits _ args 0 j fl a q harg ha
    simp only [Nat.zero_add]
    by_cases hgf : g = f
    · simp [hgf, calleeConst]
    · simp only [hgf, if_false]
      by_cases hlt : g < f
      · simp only [hlt, if_true]
        unfold calleeConst
        cases hA : (analyse p)[g]? with
        | none => rfl
        | some fl =>
          simp only
          cases hj : fl[j]? with
          | none => rfl
          | some b =>
            cases b with
            | false => rfl
            | true => exact absurd (by simp [hA, hj]) ih
      · simp [hlt, calleeConst]
  | @viaBorrow f q fn g args j a hf hext hmem harg ha hborrow _ ih =>
    exact absurd hborrow ih

/-! ### the pass, said declaratively -/

/-- does the argument / target name parameter `q` (or everything)? -/
def names (a : Arg) (q : Nat) : Bool :=
  match a with
  | .none => false
  | .root i => i == q
  | .unknown => true

/-- statement `s` clears the flag of parameter `q` -/
def marksArgs (info : Option Flags) (q : Nat) : Nat → List Arg → Bool
  | _, [] => false
  | j, a :: as => (!calleeConst info j && names a q) || marksArgs info q (j+1) as

def marks (known : Nat → Option Flags) (self : Nat) (q : Nat) : Stmt → Bool
  | .assign t => names t q
  | .call g args => marksArgs (if g = self then none else known g) q 0 args

theorem mark_get (fl : Flags) (a : Arg) (q : Nat) :
    (mark fl a)[q]? = if names a q then fl[q]?.map (fun _ => false) else fl[q]? := by
  cases a with
  | none => simp [mark, names]
  | root i =>
    simp only [mark, names, List.getElem?_set]
    by_cases h : i = q
    · subst h
      simp only [beq_self_eq_true, if_true]
      by_cases hl : i < fl.length
      · simp [hl]
      · simp [hl]
    · simp [h]
  | unknown => simp [mark, names, List.getElem?_map]

theorem markArgs_get (info : Option Flags) (q : Nat) : ∀ (args : List Arg) (j : Nat) (fl : Flags),
    (markArgs info j args fl)[q]? = if marksArgs info q j args then fl[q]?.map (fun _ => false) else fl[q]? := by
  intro args
  induction args with
  | nil => intro j fl; simp [markArgs, marksArgs]
  | cons a as ih =>
    intro j fl
    simp only [markArgs, marksArgs]
    rw [ih]
    by_cases hc : calleeConst info j
    · simp [hc]
    · simp only [hc, Bool.false_eq_true, if_false, Bool.not_false, Bool.true_and]
      rw [mark_get]
      by_cases hn : names a q <;> by_cases hm : marksArgs info q (j+1) as <;> simp [hn, hm, Option.map_map]

theorem step_get (known : Nat → Option Flags) (self : Nat) (fl : Flags) (s : Stmt) (q : Nat) :
    (step known self fl s)[q]? = if marks known self q s then fl[q]?.map (fun _ => false) else fl[q]? := by
  cases s with
  | assign t => simp only [step, marks]; exact mark_get fl t q
  | call g args => simp only [step, marks]; exact markArgs_get _ q args 0 fl

theorem foldl_get (known : Nat → Option Flags) (self : Nat) (q : Nat) : ∀ (body : List Stmt) (fl : Flags),
    (body.foldl (step known self) fl)[q]? =
      if body.any (marks known self q) then fl[q]?.map (fun _ => false) else fl[q]? := by
  intro body
  induction body with
  | nil => intro fl; simp
  | cons s rest ih =>
    intro fl
    simp only [List.foldl_cons, List.any_cons]
    rw [ih, step_get]
    by_cases hs : marks known self q s <;> by_cases hr : rest.any (marks known self q) <;> simp [hs, hr, Option.map_map]

/-- **The pass, said declaratively.** Parameter `q` of a function keeps its flag exactly when it is a parameter of a function
defined in DDP and *no* statement of the body names it as (part of) an assignment target or hands it to a parameter that is
not known to be constant. So the flags do not depend on the order of the statements (the pass is flow-insensitive), a flag is
cleared only for a reason that can be pointed at, and `sound` says the reasons suffice. -/
theorem flag_iff (known : Nat → Option Flags) (self : Nat) (fn : Fn) (q : Nat) :
    (analyseFn known self fn)[q]? = some true ↔
      (q < fn.nparams ∧ fn.extern = false ∧ ∀ s ∈ fn.body, marks known self q s = false) := by
  unfold analyseFn
  by_cases hext : fn.extern
  · simp only [hext, if_true]
    constructor
    · intro h
      rw [List.getElem?_replicate] at h
      split at h <;> simp at h
    · intro ⟨_, h, _⟩; cases h
  · have hE : fn.extern = false := by simpa using hext
    rw [if_neg hext, foldl_get, List.getElem?_replicate]
    by_cases hq : q < fn.nparams
    · by_cases hany : fn.body.any (marks known self q) = true
      · rw [if_pos hany, if_pos hq]
        constructor
        · intro h; simp at h
        · rintro ⟨_, _, h⟩
          obtain ⟨s, hs, hm⟩ := List.any_eq_true.mp hany
          rw [h s hs] at hm; cases hm
      · rw [if_neg hany, if_pos hq]
        constructor
        · intro _
          refine ⟨hq, hE, fun s hs => ?_⟩
          cases hm : marks known self q s with
          | false => rfl
          | true => exact absurd (List.any_eq_true.mpr ⟨s, hs, hm⟩) hany
        · intro _; rfl
    · rw [if_neg hq]
      constructor
      · intro h; split at h <;> simp at h
      · rintro ⟨h, _⟩; exact absurd h hq

/-- the flags of a function do not depend on the order of its statements -/
theorem analyseFn_perm (known : Nat → Option Flags) (self : Nat) (fn fn' : Fn)
    (hn : fn.nparams = fn'.nparams) (he : fn.extern = fn'.extern) (hp : fn.body.Perm fn'.body) (q : Nat) :
    ((analyseFn known self fn)[q]? = some true) ↔ ((analyseFn known self fn')[q]? = some true) := by
  rw [flag_iff, flag_iff, hn, he]
  constructor
  · intro ⟨a, b, c⟩; exact ⟨a, b, fun s hs => c s (hp.symm.subset hs)⟩
  · intro ⟨a, b, c⟩; exact ⟨a, b, fun s hs => c s (hp.subset hs)⟩

end DDP.ConstParam

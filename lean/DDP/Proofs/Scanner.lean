import DDP.Impl.Scanner
import DDP.Spec.Lexical

/-! helper lemmas for `Props/C13.lean` (and C03: scanner totality) -/

namespace DDP.Scanner
open DDP.Generated

/-! ### position tracking -/

theorem adv_pos_of_ne (s : St) (c : Char) (h : c ≠ '\n') : (s.adv c).pos = s.pos.step c := by
  simp [St.adv, Pos.step, h]

theorem advNl_pos (s : St) (c : Char) : (s.advNl c).pos = s.pos.step c := by
  unfold St.advNl Pos.step
  split <;> simp [St.adv, St.incLine]

theorem incLine_adv_pos (s : St) : (s.incLine.adv '\n').pos = s.pos.step '\n' := by
  simp [St.adv, St.incLine, Pos.step]

@[simp] theorem posAfter_nil (p : Pos) : posAfter p [] = p := rfl
@[simp] theorem posAfter_cons (p : Pos) (c : Char) (cs : List Char) :
    posAfter p (c :: cs) = posAfter (p.step c) cs := rfl
theorem posAfter_append (p : Pos) (a b : List Char) :
    posAfter p (a ++ b) = posAfter (posAfter p a) b := by
  simp [posAfter, List.foldl_append]

/-- what every sub-scanner guarantees: it splits its input and tracks the position -/
structure Sub.Good (s : St) (cs : List Char) (r : Sub) : Prop where
  split : r.consumed ++ r.rest = cs
  pos : r.st.pos = posAfter s.pos r.consumed

theorem Sub.Good.cons {s s' : St} {c : Char} {cs : List Char} {r : Sub}
    (h : Sub.Good s' cs r) (hp : s'.pos = s.pos.step c) : Sub.Good s (c :: cs) (r.cons c) := by
  constructor
  · simp [Sub.cons, h.split]
  · simp [Sub.cons, h.pos, hp]

theorem Sub.Good.cons2 {s s' : St} {c d : Char} {cs : List Char} {r : Sub}
    (h : Sub.Good s' cs r) (hp : s'.pos = (s.pos.step c).step d) :
    Sub.Good s (c :: d :: cs) (r.cons2 c d) := by
  constructor
  · simp [Sub.cons2, h.split]
  · simp [Sub.cons2, h.pos, hp]

theorem Sub.Good.addDiag {s : St} {cs : List Char} {r : Sub} (d : Diag)
    (h : Sub.Good s cs r) : Sub.Good s cs (r.addDiag d) := ⟨h.split, h.pos⟩

theorem Sub.Good.setBackslash {s : St} {cs : List Char} {r : Sub}
    (h : Sub.Good s cs r) : Sub.Good s cs r.setBackslash := ⟨h.split, h.pos⟩

theorem space_ne_nl : ' ' ≠ '\n' := by decide
theorem cr_ne_nl : '\r' ≠ '\n' := by decide
theorem tab_ne_nl : '\t' ≠ '\n' := by decide

/-! ### skipWhitespace -/

theorem skipWs_good (s : St) (n : Nat) (cs : List Char) : Sub.Good s cs (skipWs s n cs) := by
  induction cs generalizing s n with
  | nil => exact ⟨rfl, rfl⟩
  | cons c cs ih =>
    unfold skipWs
    split
    · next h =>
      subst h
      split
      · exact (ih _ _).cons (by rw [adv_pos_of_ne _ _ space_ne_nl])
      · exact (ih _ _).cons (by rw [adv_pos_of_ne _ _ space_ne_nl])
    · split
      · next h => subst h; exact (ih _ _).cons (by rw [adv_pos_of_ne _ _ cr_ne_nl])
      · split
        · next h =>
          subst h
          refine (ih _ _).cons ?_
          rw [adv_pos_of_ne _ _ tab_ne_nl]; split <;> rfl
        · split
          · next h => subst h; exact (ih _ _).cons (incLine_adv_pos s)
          · exact ⟨rfl, rfl⟩

theorem skipWs_blank (s : St) (n : Nat) (cs : List Char) : Blank (skipWs s n cs).consumed := by
  induction cs generalizing s n with
  | nil => intro c h; simp [skipWs] at h
  | cons c cs ih =>
    unfold skipWs
    split
    · next h =>
      subst h
      split <;> (intro d hd; simp only [Sub.cons, List.mem_cons] at hd; rcases hd with rfl | hd
                 · decide
                 · exact ih _ _ d hd)
    · split
      · next h =>
        subst h; intro d hd; simp only [Sub.cons, List.mem_cons] at hd; rcases hd with rfl | hd
        · decide
        · exact ih _ _ d hd
      · split
        · next h =>
          subst h; intro d hd; simp only [Sub.cons, List.mem_cons] at hd; rcases hd with rfl | hd
          · decide
          · exact ih _ _ d hd
        · split
          · next h =>
            subst h; intro d hd; simp only [Sub.cons, List.mem_cons] at hd; rcases hd with rfl | hd
            · decide
            · exact ih _ _ d hd
          · intro d hd; simp at hd

/-- after `skipWhitespace` the next rune (if any) is not a blank -/
theorem skipWs_rest_head (s : St) (n : Nat) (cs : List Char) :
    ∀ c rest, (skipWs s n cs).rest = c :: rest → isSpace c = false := by
  induction cs generalizing s n with
  | nil => intro c rest h; simp [skipWs] at h
  | cons c cs ih =>
    unfold skipWs
    split
    · split <;> (intro d rest h; exact ih _ _ d rest (by simpa [Sub.cons] using h))
    · split
      · intro d rest h; exact ih _ _ d rest (by simpa [Sub.cons] using h)
      · split
        · intro d rest h; exact ih _ _ d rest (by simpa [Sub.cons] using h)
        · split
          · intro d rest h; exact ih _ _ d rest (by simpa [Sub.cons] using h)
          · next h1 h2 h3 h4 =>
            intro d rest h
            simp only [List.cons.injEq] at h
            obtain ⟨rfl, _⟩ := h
            simp [isSpace, h1, h2, h3, h4]

/-! ### quoted literals, comments, runs -/

theorem isEscape_ne_nl (q d : Char) (hq : q ≠ '\n') (h : isEscape q d = true) : d ≠ '\n' := by
  intro hd; subst hd
  simp [isEscape] at h
  first | exact hq h | exact hq h.symm

theorem backslash_ne_nl : '\\' ≠ '\n' := by decide

theorem scanQuoted_good (q : Char) (hq : q ≠ '\n') (s : St) (cs : List Char) :
    Sub.Good s cs (scanQuoted q s cs) :=
  scanQuoted_good_aux q hq cs.length s cs (Nat.le_refl _)
where
  scanQuoted_good_aux (q : Char) (hq : q ≠ '\n') : ∀ (n : Nat) (s : St) (cs : List Char), cs.length ≤ n →
      Sub.Good s cs (scanQuoted q s cs)
    | 0, s, cs, h => by
      have : cs = [] := List.length_eq_zero_iff.mp (Nat.le_zero.mp h)
      subst this; unfold scanQuoted; exact ⟨rfl, rfl⟩
    | n + 1, s, cs, h => by
      cases cs with
      | nil => unfold scanQuoted; exact ⟨rfl, rfl⟩
      | cons c cs =>
        have hlen : cs.length ≤ n := by simpa using h
        unfold scanQuoted
        split
        · next hc =>
          subst hc
          exact ⟨rfl, by simp [adv_pos_of_ne _ _ hq]⟩
        · split
          · next hc =>
            subst hc
            exact (scanQuoted_good_aux q hq n _ cs hlen).cons (incLine_adv_pos s)
          · next hnq hnl =>
            split
            · next hb =>
              subst hb
              split
              · next d ds =>
                split
                · next hesc =>
                  have hd : d ≠ '\n' := isEscape_ne_nl q d hq hesc
                  have hl2 : ds.length ≤ n := by simp at hlen; omega
                  refine ((scanQuoted_good_aux q hq n _ ds hl2).cons2 ?_).setBackslash
                  rw [adv_pos_of_ne _ _ hd, adv_pos_of_ne _ _ backslash_ne_nl]
                · exact (((scanQuoted_good_aux q hq n _ (d :: ds) hlen).cons
                    (adv_pos_of_ne _ _ backslash_ne_nl)).setBackslash).addDiag _
              · refine ((Sub.Good.cons (s := s) (s' := s.adv '\\') (c := '\\') (cs := [])
                    ⟨rfl, rfl⟩ (adv_pos_of_ne _ _ backslash_ne_nl)).setBackslash).addDiag _
            · exact (scanQuoted_good_aux q hq n _ cs hlen).cons (adv_pos_of_ne _ _ hnl)

theorem scanComment_good (s : St) (d : Nat) (cs : List Char) : Sub.Good s cs (scanComment s d cs) := by
  induction cs generalizing s d with
  | nil => unfold scanComment; exact ⟨rfl, rfl⟩
  | cons c cs ih =>
    cases d with
    | zero => unfold scanComment; exact ⟨rfl, rfl⟩
    | succ d => unfold scanComment; exact (ih _ _).cons (advNl_pos s c)

theorem takeWhileSt_good (p : Char → Bool) (hp : ∀ c, p c = true → c ≠ '\n') (s : St) (cs : List Char) :
    Sub.Good s cs (takeWhileSt p s cs) := by
  induction cs generalizing s with
  | nil => exact ⟨rfl, rfl⟩
  | cons c cs ih =>
    unfold takeWhileSt
    split
    · next h => exact (ih _).cons (adv_pos_of_ne _ _ (hp c h))
    · exact ⟨rfl, rfl⟩

theorem takeWhileSt_all (p : Char → Bool) (s : St) (cs : List Char) :
    ∀ c ∈ (takeWhileSt p s cs).consumed, p c = true := by
  induction cs generalizing s with
  | nil => intro c h; simp [takeWhileSt] at h
  | cons c cs ih =>
    unfold takeWhileSt
    split
    · next h =>
      intro d hd; simp only [Sub.cons, List.mem_cons] at hd
      rcases hd with rfl | hd
      · exact h
      · exact ih _ d hd
    · intro d hd; simp at hd

/-- maximal munch: the run stops only at a rune that does not satisfy `p` -/
theorem takeWhileSt_rest (p : Char → Bool) (s : St) (cs : List Char) :
    ∀ c rest, (takeWhileSt p s cs).rest = c :: rest → p c = false := by
  induction cs generalizing s with
  | nil => intro c rest h; simp [takeWhileSt] at h
  | cons c cs ih =>
    unfold takeWhileSt
    split
    · intro d rest h; exact ih _ d rest (by simpa [Sub.cons] using h)
    · next hp =>
      intro d rest h
      simp only [List.cons.injEq] at h
      obtain ⟨rfl, _⟩ := h
      simpa using hp

theorem isDigit_ne_nl (c : Char) (h : isDigit c = true) : c ≠ '\n' := by
  intro hc; subst hc; revert h; decide

theorem isAlphaNumeric_ne_nl (c : Char) (h : isAlphaNumeric c = true) : c ≠ '\n' := by
  intro hc; subst hc; revert h; decide

theorem comma_ne_nl : ',' ≠ '\n' := by decide

theorem scanNumber_good (s : St) (cs : List Char) : Sub.Good s cs (scanNumber s cs).1 := by
  unfold scanNumber
  have h1 := takeWhileSt_good isDigit isDigit_ne_nl s cs
  generalize takeWhileSt isDigit s cs = r at *
  obtain ⟨st, consumed, rest, diags, f1, f2⟩ := r
  simp only at *
  match rest with
  | [] => exact h1
  | [_] => exact h1
  | c :: d :: ds =>
    simp only
    split
    · next hc =>
      simp only [Bool.and_eq_true, decide_eq_true_eq] at hc
      obtain ⟨hc, _⟩ := hc
      subst hc
      have h2 := takeWhileSt_good isDigit isDigit_ne_nl (st.adv ',') (d :: ds)
      constructor
      · simp only [List.append_assoc, List.cons_append]
        rw [h2.split]; exact h1.split
      · simp only
        rw [h2.pos, posAfter_append, ← h1.pos, adv_pos_of_ne _ _ comma_ne_nl]; rfl
    · exact h1

/-! ### alias placeholders -/

theorem scanPlaceholderBody_cons (start : Pos) (s : St) (c : Char) (cs : List Char) (hc : c ≠ '>') :
    (scanPlaceholderBody start s (c :: cs)).consumed = c :: (scanPlaceholderBody start (s.adv c) cs).consumed ∧
    (scanPlaceholderBody start s (c :: cs)).rest = (scanPlaceholderBody start (s.adv c) cs).rest ∧
    (scanPlaceholderBody start s (c :: cs)).st = (scanPlaceholderBody start (s.adv c) cs).st := by
  rw [scanPlaceholderBody]
  simp only [hc, if_false]
  split <;> simp [Sub.cons, Sub.addDiag]

theorem scanPlaceholderBody_split (start : Pos) (s : St) (cs : List Char) :
    (scanPlaceholderBody start s cs).consumed ++ (scanPlaceholderBody start s cs).rest = cs := by
  induction cs generalizing s with
  | nil => rfl
  | cons c cs ih =>
    by_cases hc : c = '>'
    · subst hc; simp [scanPlaceholderBody]
    · obtain ⟨h1, h2, _⟩ := scanPlaceholderBody_cons start s c cs hc
      rw [h1, h2]; simp [ih]

theorem scanPlaceholderBody_pos (start : Pos) (s : St) (cs : List Char)
    (h : '\n' ∉ (scanPlaceholderBody start s cs).consumed) :
    (scanPlaceholderBody start s cs).st.pos = posAfter s.pos (scanPlaceholderBody start s cs).consumed := by
  induction cs generalizing s with
  | nil => rfl
  | cons c cs ih =>
    by_cases hc : c = '>'
    · subst hc; simp [scanPlaceholderBody]
    · obtain ⟨h1, _, h3⟩ := scanPlaceholderBody_cons start s c cs hc
      rw [h1] at h ⊢
      rw [h3]
      simp only [List.mem_cons, not_or] at h
      have hnl : c ≠ '\n' := fun e => h.1 e.symm
      rw [ih _ h.2, adv_pos_of_ne _ _ hnl]; rfl

theorem gt_ne_nl : '>' ≠ '\n' := by decide

theorem scanPlaceholderBody_rest (start : Pos) (s : St) (cs : List Char) :
    ∀ c rest, (scanPlaceholderBody start s cs).rest = c :: rest → c = '>' := by
  induction cs generalizing s with
  | nil => intro c rest h; simp [scanPlaceholderBody] at h
  | cons c cs ih =>
    by_cases hc : c = '>'
    · subst hc; intro d rest h; simp [scanPlaceholderBody] at h; exact h.1.symm
    · obtain ⟨_, h2, _⟩ := scanPlaceholderBody_cons start s c cs hc
      rw [h2]; exact ih _

theorem scanPlaceholder_split (start : Pos) (lt : Char) (s : St) (cs : List Char) :
    (scanPlaceholder start lt s cs).consumed ++ (scanPlaceholder start lt s cs).rest = cs := by
  unfold scanPlaceholder
  have h := scanPlaceholderBody_split start s cs
  generalize scanPlaceholderBody start s cs = r at *
  obtain ⟨st, consumed, rest, diags, f1, f2⟩ := r
  simp only at *
  cases rest with
  | nil => simpa using h
  | cons c cs' => simpa using h

theorem scanPlaceholder_pos (start : Pos) (lt : Char) (s : St) (cs : List Char)
    (hn : '\n' ∉ (scanPlaceholder start lt s cs).consumed) :
    (scanPlaceholder start lt s cs).st.pos = posAfter s.pos (scanPlaceholder start lt s cs).consumed := by
  unfold scanPlaceholder at hn ⊢
  have hr := scanPlaceholderBody_rest start s cs
  have hp := scanPlaceholderBody_pos start s cs
  generalize scanPlaceholderBody start s cs = r at *
  obtain ⟨st, consumed, rest, diags, f1, f2⟩ := r
  simp only at *
  cases rest with
  | nil => simp only at hn ⊢; exact hp hn
  | cons c cs' =>
    simp only at hn ⊢
    have hc : c = '>' := hr c cs' rfl
    subst hc
    have hn' : '\n' ∉ consumed := by
      intro hm; exact hn (List.mem_append_left _ hm)
    rw [posAfter_append, ← hp hn', adv_pos_of_ne _ _ gt_ne_nl]; rfl

end DDP.Scanner

namespace DDP.Scanner
open DDP.Generated

/-! ### one token -/

/-- no keyword maps to EOF or ILLEGAL (a fact about the regenerated table) -/
theorem keywordMap_no_eof : ∀ e ∈ keywordMap, e.2 ≠ TokenType.EOF ∧ e.2 ≠ TokenType.ILLEGAL := by decide +kernel

theorem lookupKw_mem (w : List Char) (t : TokenType) (h : lookupKw w = some t) :
    ∃ e ∈ keywordMap, e.2 = t := by
  unfold lookupKw at h
  cases hf : keywordMap.find? (fun e => e.1.toList == w) with
  | none => simp [hf] at h
  | some e =>
    simp [hf] at h
    exact ⟨e, List.mem_of_find?_eq_some hf, h⟩

theorem keywordToTokenType_ne (w : List Char) :
    keywordToTokenType w ≠ .EOF ∧ keywordToTokenType w ≠ .ILLEGAL := by
  unfold keywordToTokenType
  cases h : lookupKw w with
  | none => simp
  | some t =>
    obtain ⟨e, he, rfl⟩ := lookupKw_mem w t h
    simpa using keywordMap_no_eof e he

theorem identifierType_ne (w : List Char) :
    identifierType w ≠ .EOF ∧ identifierType w ≠ .ILLEGAL := by
  unfold identifierType
  simp only
  split
  · exact keywordToTokenType_ne _
  · exact keywordToTokenType_ne _

structure BodyOk (s0 : St) (c : Char) (cs : List Char) (out : Out) : Prop where
  split : out.2.2.1 ++ out.2.2.2.1 = c :: cs
  nonempty : out.2.2.1 ≠ []
  start : out.1.start = s0.pos
  stop : (out.1.type = .ALIAS_PARAMETER → '\n' ∉ out.2.2.1) → out.1.stop = posAfter s0.pos out.2.2.1
  stpos : out.2.1.pos = out.1.stop
  lit : out.1.type ≠ .ILLEGAL → out.1.literal = out.2.2.1
  noteof : out.1.type ≠ .EOF

/-- a token built by `newToken` after a well-behaved sub-scanner -/
theorem emit_ok (s0 : St) (c : Char) (cs : List Char) (hc : c ≠ '\n') (r : Sub)
    (h : Sub.Good (s0.adv c) cs r) (ty : TokenType) (hty : ty ≠ .EOF) (d : List Diag) :
    BodyOk s0 c cs (emit ty s0 c r d) := by
  refine ⟨by simp [emit, h.split], by simp [emit], rfl, fun _ => ?_, rfl, fun _ => rfl, hty⟩
  simp [emit, mkTok, h.pos, adv_pos_of_ne _ _ hc]

theorem emitSingle_ok (s0 : St) (c : Char) (cs : List Char) (hc : c ≠ '\n') (ty : TokenType)
    (hty : ty ≠ .EOF) : BodyOk s0 c cs (emitSingle ty s0 c cs) :=
  emit_ok s0 c cs hc _ ⟨rfl, rfl⟩ ty hty []

theorem emitIllegal_ok (s0 : St) (c : Char) (cs : List Char) (hc : c ≠ '\n') (r : Sub)
    (h : Sub.Good (s0.adv c) cs r) (msg : List Char) :
    BodyOk s0 c cs (emitIllegal msg s0 c r) := by
  refine ⟨by simp [emitIllegal, h.split], by simp [emitIllegal], rfl, fun _ => ?_, rfl,
    fun hne => absurd rfl hne, ?_⟩
  · simp [emitIllegal, h.pos, adv_pos_of_ne _ _ hc]
  · show TokenType.ILLEGAL ≠ TokenType.EOF; decide

theorem quote_ne_nl : '"' ≠ '\n' := by decide
theorem apos_ne_nl : '\'' ≠ '\n' := by decide
theorem dot_ne_nl : '.' ≠ '\n' := by decide

theorem scanDot_ok (s0 : St) (c : Char) (cs : List Char) (hc : c ≠ '\n') :
    BodyOk s0 c cs (scanDot s0 c cs) := by
  unfold scanDot
  split
  · next ds =>
    refine emit_ok s0 c ('.' :: '.' :: ds) hc _ ⟨rfl, ?_⟩ _ (by decide) []
    simp [adv_pos_of_ne _ _ dot_ne_nl]
  · exact emitSingle_ok s0 c cs hc _ (by decide)

theorem scanPlaceholderTok_ok (s0 : St) (c : Char) (cs : List Char) (hc : c ≠ '\n') :
    BodyOk s0 c cs (scanPlaceholderTok s0 c cs) := by
  unfold scanPlaceholderTok
  refine ⟨by simp [emit, scanPlaceholder_split], by simp [emit], rfl, fun hn => ?_, rfl, fun _ => rfl,
    by simp [emit, mkTok]⟩
  have hn' : '\n' ∉ (scanPlaceholder s0.pos c (s0.adv c) cs).consumed := by
    intro hm; exact hn rfl (List.mem_cons_of_mem _ hm)
  simp [emit, mkTok, scanPlaceholder_pos _ _ _ _ hn', adv_pos_of_ne _ _ hc]

theorem scanStringTok_ok (s0 : St) (c : Char) (cs : List Char) (hc : c ≠ '\n') :
    BodyOk s0 c cs (scanStringTok s0 c cs) := by
  unfold scanStringTok
  simp only
  split
  · exact emit_ok s0 c cs hc _ (scanQuoted_good '"' quote_ne_nl _ _) _ (by decide) _
  · exact emitIllegal_ok s0 c cs hc _ (scanQuoted_good '"' quote_ne_nl _ _) _

theorem scanCharTok_ok (s0 : St) (c : Char) (cs : List Char) (hc : c ≠ '\n') :
    BodyOk s0 c cs (scanCharTok s0 c cs) := by
  unfold scanCharTok
  simp only
  split
  · exact emit_ok s0 c cs hc _ (scanQuoted_good '\'' apos_ne_nl _ _) _ (by decide) _
  · exact emitIllegal_ok s0 c cs hc _ (scanQuoted_good '\'' apos_ne_nl _ _) _

theorem scanBody_ok (m : Mode) (s0 : St) (c : Char) (cs : List Char) (hc : c ≠ '\n') :
    BodyOk s0 c cs (scanBody m s0 c cs) := by
  unfold scanBody
  by_cases h1 : isAlpha c = true
  · rw [if_pos h1]
    exact emit_ok s0 c cs hc _ (takeWhileSt_good _ isAlphaNumeric_ne_nl _ _) _ (identifierType_ne _).1 _
  rw [if_neg h1]
  by_cases h2 : isDigit c = true
  · rw [if_pos h2]
    exact emit_ok s0 c cs hc _ (scanNumber_good _ _) _ (by split <;> decide) _
  rw [if_neg h2]
  by_cases h3 : c = '-'
  · rw [if_pos h3]; exact emitSingle_ok s0 c cs hc _ (by decide)
  rw [if_neg h3]
  by_cases h4 : c = '.'
  · rw [if_pos h4]; exact scanDot_ok s0 c cs hc
  rw [if_neg h4]
  by_cases h5 : c = ','
  · rw [if_pos h5]; exact emitSingle_ok s0 c cs hc _ (by decide)
  rw [if_neg h5]
  by_cases h6 : c = ':'
  · rw [if_pos h6]; exact emitSingle_ok s0 c cs hc _ (by decide)
  rw [if_neg h6]
  by_cases h7 : c = '('
  · rw [if_pos h7]; exact emitSingle_ok s0 c cs hc _ (by decide)
  rw [if_neg h7]
  by_cases h8 : c = ')'
  · rw [if_pos h8]; exact emitSingle_ok s0 c cs hc _ (by decide)
  rw [if_neg h8]
  by_cases h9 : c = '"'
  · rw [if_pos h9]; exact scanStringTok_ok s0 c cs hc
  rw [if_neg h9]
  by_cases h10 : c = '\''
  · rw [if_pos h10]; exact scanCharTok_ok s0 c cs hc
  rw [if_neg h10]
  by_cases h11 : c = '['
  · rw [if_pos h11]; exact emit_ok s0 c cs hc _ (scanComment_good _ _ _) _ (by decide) _
  rw [if_neg h11]
  by_cases h12 : (c = '<' && m.alias) = true
  · rw [if_pos h12]; exact scanPlaceholderTok_ok s0 c cs hc
  rw [if_neg h12]
  exact emitSingle_ok s0 c cs hc _ (by decide)

end DDP.Scanner

namespace DDP.Scanner
open DDP.Generated

/-! ### the whole stream -/

def NoNlInPlaceholders (segs : List Seg) : Prop :=
  ∀ sg ∈ segs, sg.tok.type = .ALIAS_PARAMETER → '\n' ∉ sg.body

structure SegOk (m : Mode) (sg : Seg) : Prop where
  /-- every token is the result of one `NextToken` dispatch (lifts per-token facts) -/
  fromBody : ∃ s0 c cs, sg.tok = (scanBody m s0 c cs).1 ∧ sg.body = (scanBody m s0 c cs).2.2.1 ∧
    isSpace c = false
  blank : Blank sg.gap
  nonempty : sg.body ≠ []
  lit : sg.tok.type ≠ .ILLEGAL → sg.tok.literal = sg.body
  noteof : sg.tok.type ≠ .EOF

structure ResultOk (m : Mode) (s : St) (src : List Char) (r : Result) : Prop where
  cover : coveredBy r.segs ++ r.trailing = src
  segs : ∀ sg ∈ r.segs, SegOk m sg
  trailing : Blank r.trailing
  eofType : r.eof.type = .EOF
  eofLit : r.eof.literal = []
  pos : NoNlInPlaceholders r.segs →
    PosOk s.pos r.segs ∧ r.eof.start = posAfter s.pos src ∧ r.eof.stop = r.eof.start

theorem nl_isSpace : isSpace '\n' = true := by decide

theorem scanAllFuel_spec (m : Mode) : ∀ (fuel : Nat) (s : St) (src : List Char), src.length < fuel →
    ∃ r, scanAllFuel m fuel s src = some r ∧ ResultOk m s src r
  | 0, _, _, h => absurd h (Nat.not_lt_zero _)
  | fuel + 1, s, src, hlen => by
    unfold scanAllFuel
    have hw := skipWs_good s 0 src
    have hb := skipWs_blank s 0 src
    have hh := skipWs_rest_head s 0 src
    generalize skipWs s 0 src = w at *
    obtain ⟨wst, wcons, wrest, wd, wf1, wf2⟩ := w
    simp only at *
    cases wrest with
    | nil =>
      refine ⟨_, rfl, ?_⟩
      have hsrc : wcons = src := by simpa using hw.split
      have hp : wst.pos = posAfter s.pos wcons := hw.pos
      refine ⟨by simp [coveredBy, hsrc], by simp, hb, rfl, rfl, fun _ => ⟨trivial, ?_, rfl⟩⟩
      simp [mkTok, hp, hsrc]
    | cons c cs =>
      have hc : c ≠ '\n' := by
        intro e; have := hh c cs rfl; rw [e, nl_isSpace] at this; exact Bool.noConfusion this
      have hbody := scanBody_ok m wst c cs hc
      dsimp only
      have hfrom : ∃ s0 c' cs', (scanBody m wst c cs).1 = (scanBody m s0 c' cs').1 ∧
          (scanBody m wst c cs).2.2.1 = (scanBody m s0 c' cs').2.2.1 ∧ isSpace c' = false :=
        ⟨wst, c, cs, rfl, rfl, hh c cs rfl⟩
      generalize scanBody m wst c cs = out at *
      obtain ⟨t, st, body, rest, d⟩ := out
      have hsplit : body ++ rest = c :: cs := hbody.split
      have hne : body ≠ [] := hbody.nonempty
      have hlen' : rest.length < fuel := by
        have h1 : (body ++ rest).length = (c :: cs).length := by rw [hsplit]
        have h2 : (wcons ++ c :: cs).length = src.length := by
          have : wcons ++ c :: cs = src := hw.split
          rw [this]
        have h3 : 0 < body.length := List.length_pos_iff.mpr hne
        simp only [List.length_append, List.length_cons] at h1 h2
        omega
      obtain ⟨r, hr, hok⟩ := scanAllFuel_spec m fuel st rest hlen'
      dsimp only
      rw [hr]
      refine ⟨_, rfl, ?_⟩
      have hpw : wst.pos = posAfter s.pos wcons := hw.pos
      have hsw : wcons ++ c :: cs = src := hw.split
      have hsegok : SegOk m ⟨wcons, body, t⟩ := ⟨hfrom, hb, hne, hbody.lit, hbody.noteof⟩
      refine ⟨?_, ?_, hok.trailing, hok.eofType, hok.eofLit, ?_⟩
      · simp only [coveredBy, List.append_assoc]
        rw [hok.cover, hsplit]; exact hsw
      · intro sg hsg
        simp only [List.mem_cons] at hsg
        rcases hsg with rfl | hsg
        · exact hsegok
        · exact hok.segs sg hsg
      · intro hno
        have hno1 : t.type = .ALIAS_PARAMETER → '\n' ∉ body := hno ⟨wcons, body, t⟩ (List.mem_cons_self)
        have hno2 : NoNlInPlaceholders r.segs := fun sg hsg => hno sg (List.mem_cons_of_mem _ hsg)
        have hstop : t.stop = posAfter wst.pos body := hbody.stop hno1
        have hstart : t.start = wst.pos := hbody.start
        have hstpos : st.pos = t.stop := hbody.stpos
        obtain ⟨hp, he1, he2⟩ := hok.pos hno2
        have hposbody : posAfter s.pos (wcons ++ body) = st.pos := by
          rw [posAfter_append, ← hpw, hstpos, hstop]
        refine ⟨⟨?_, ?_, ?_⟩, ?_, he2⟩
        · simp [hstart, hpw]
        · simp only; rw [hposbody, hstpos]
        · simp only; rw [hposbody]; exact hp
        · rw [he1, ← hposbody, ← posAfter_append, List.append_assoc, hsplit, hsw]

end DDP.Scanner

/-!
# L2: values of the core language and the primitive operations on them

The *reference meaning* of DDP's evaluation rules: Zahl = 64-bit two's complement integer
(kept as an `Int` in `[-2^63, 2^63)`), Kommazahl = IEEE-754 double, Byte = 0‥255,
Buchstabe = code point, Text = list of code points, lists and Kombinationen = immutable
values, Variable = a value tagged with its type.
-/

namespace DDP.Spec

inductive Ty
  | zahl | komma | byte | wahr | buchstabe | text | variable | nichts
  | liste (e : Ty)
  | kombi (name : String)
  deriving Repr, DecidableEq, Inhabited

partial def Ty.toStr : Ty → String
  | .zahl => "Z" | .komma => "K" | .byte => "B" | .wahr => "W" | .buchstabe => "C" | .text => "T"
  | .variable => "V" | .nichts => "N" | .liste e => "L(" ++ e.toStr ++ ")" | .kombi n => "S:" ++ n

inductive Val
  | int (v : Int)
  | float (f : Float)
  | byte (n : Nat)
  | bool (b : Bool)
  | char (cp : Int)                     -- 32-bit signed, like `ddpchar`
  | text (cps : List Nat)
  | list (elem : Ty) (vs : List Val)
  | struct (name : String) (fields : List (String × Val))
  | any (content : Option (Ty × Val))   -- `none` = the default (empty) Variable
  deriving Inhabited

/-- wrap an integer into the 64-bit two's complement range -/
def wrap64 (i : Int) : Int :=
  let m := i % 18446744073709551616
  if m ≥ 9223372036854775808 then m - 18446744073709551616 else m

def wrap32 (i : Int) : Int :=
  let m := i % 4294967296
  if m ≥ 2147483648 then m - 4294967296 else m

def wrap8 (i : Int) : Nat := (i % 256).toNat

/-- `fptosi double to i64` on values inside the range (outside: undefined, never generated) -/
def floatToInt (f : Float) : Int := f.toInt64.toInt

def intToFloat (i : Int) : Float := Float.ofInt i

/-! ### `%.16g` (printf of glibc, exact) -/

/-- exact value of a finite positive double as `num / 2^den2` -/
def floatParts (f : Float) : Nat × Nat :=
  let bits := f.toBits.toNat
  let e := bits / 2 ^ 52 % 2048
  let m := bits % 2 ^ 52
  if e == 0 then (m, 1074) else
  if e ≥ 1075 then ((2 ^ 52 + m) * 2 ^ (e - 1075), 0) else (2 ^ 52 + m, 1075 - e)

/-- round `n / d` to the nearest integer, ties to even -/
def roundDivEven (n d : Nat) : Nat :=
  let q := n / d
  let r := n % d
  if 2 * r > d then q + 1 else if 2 * r < d then q else (if q % 2 == 0 then q else q + 1)

def natDigits (n : Nat) : List Char := (toString n).toList

/-- `printf("%.16g", f)` for finite `f` -/
def fmtG16 (f : Float) : String := Id.run do
  let bits := f.toBits.toNat
  let neg := bits ≥ 2 ^ 63
  let fa := if neg then Float.ofBits (UInt64.ofNat (bits - 2 ^ 63)) else f
  let sign := if neg then "-" else ""
  let (num, den2) := floatParts fa
  if num == 0 then return sign ++ "0"
  let den := 2 ^ den2
  -- decimal exponent X with 10^X ≤ v < 10^(X+1)
  let ip := num / den
  let mut x : Int := 0
  if ip > 0 then
    x := (natDigits ip).length - 1
  else
    -- v < 1: find smallest k with v * 10^k ≥ 1
    let mut k : Nat := 1
    while num * 10 ^ k < den do
      k := k + 1
    x := - (k : Int)
  -- 16 significant digits: D = round(v / 10^(x-15))
  let p : Int := x - 15
  let mut d : Nat := if p ≥ 0 then roundDivEven num (den * 10 ^ p.toNat) else roundDivEven (num * 10 ^ (-p).toNat) den
  if d ≥ 10 ^ 16 then
    d := d / 10
    x := x + 1
  let digs := natDigits d          -- exactly 16 digits
  let strip (l : List Char) : List Char := (l.reverse.dropWhile (· == '0')).reverse
  if x < -4 || x ≥ 16 then
    -- exponential: d.ddddde±XX
    let frac := strip (digs.drop 1)
    let mant := String.ofList (digs.take 1) ++ (if frac.isEmpty then "" else "." ++ String.ofList frac)
    let ea := x.natAbs
    let es := (if ea < 10 then "0" else "") ++ toString ea
    return sign ++ mant ++ "e" ++ (if x < 0 then "-" else "+") ++ es
  else if x ≥ 0 then
    let intPart := digs.take (x.toNat + 1)
    let frac := strip (digs.drop (x.toNat + 1))
    return sign ++ String.ofList intPart ++ (if frac.isEmpty then "" else "." ++ String.ofList frac)
  else
    let zeros := List.replicate ((-x).toNat - 1) '0'
    let frac := strip (zeros ++ digs)
    return sign ++ "0" ++ (if frac.isEmpty then "" else "." ++ String.ofList frac)

def fmtFloat (f : Float) : String :=
  if f.isNaN then "Keine Zahl (NaN)"
  else if f.isInf then (if f > 0 then "Unendlich" else "-Unendlich")
  else fmtG16 f

/-- `ddp_float_to_string`: plain `%.16g` (inf/nan as printf prints them) -/
def fmtFloatText (f : Float) : String :=
  if f.isNaN then (if f.toBits.toNat ≥ 2 ^ 63 then "-nan" else "nan")
  else if f.isInf then (if f > 0 then "inf" else "-inf")
  else fmtG16 f

def utf8OfCp (cp : Int) : String :=
  if cp ≤ 0 || cp > 0x10FFFF || (0xD800 ≤ cp && cp ≤ 0xDFFF) then "" else String.singleton (Char.ofNat cp.toNat)

def textToString (cps : List Nat) : String := String.ofList (cps.map Char.ofNat)

end DDP.Spec

/-!
# L2: what the Duden list, text and sorting functions compute

The documented meaning of a selection of pure functions of `lib/stdlib/Duden` (Listen, Texte,
Sortierung) as ordinary sequence operations.  Lists are `List Int`, texts are lists of code points.
`none` = outside the documented domain.
-/

namespace DDP.Duden

/-! ### lists -/
def anfuegen (l : List Int) (e : Int) : List Int := l ++ [e]
def anfuegenListe (l o : List Int) : List Int := l ++ o
def voranstellen (l : List Int) (e : Int) : List Int := e :: l
/-- `Setze e an die Stelle i von l`: e stands at position i afterwards; there are |l|+1 insert positions (1 ≤ i ≤ |l|+1),
the last one appends -/
def einfuegen (l : List Int) (i : Nat) (e : Int) : Option (List Int) :=
  if 1 ≤ i ∧ i ≤ l.length + 1 then some (l.take (i - 1) ++ [e] ++ l.drop (i - 1)) else none
def loesche (l : List Int) (i : Nat) : Option (List Int) :=
  if 1 ≤ i ∧ i ≤ l.length then some (l.take (i - 1) ++ l.drop i) else none
def loescheBereich (l : List Int) (a b : Nat) : Option (List Int) :=
  if 1 ≤ a ∧ a ≤ b ∧ b ≤ l.length then some (l.take (a - 1) ++ l.drop b) else none
def fuelle (l : List Int) (e : Int) : List Int := l.map fun _ => e
/-- 1-based index of the first occurrence, -1 if there is none -/
def indexVon (l : List Int) (e : Int) : Int :=
  match l.findIdx? (· == e) with | some i => i + 1 | none => -1
def enthaelt (l : List Int) (e : Int) : Bool := l.contains e
def ersteN (l : List Int) (n : Nat) : Option (List Int) := if 1 ≤ n ∧ n ≤ l.length then some (l.take n) else none
def letzteN (l : List Int) (n : Nat) : Option (List Int) := if 1 ≤ n ∧ n ≤ l.length then some (l.drop (l.length - n)) else none
def gespiegelt (l : List Int) : List Int := l.reverse
def summe (l : List Int) : Int := l.foldl (· + ·) 0
/-- the documentation defines the product of the empty list as 0 -/
def produkt (l : List Int) : Int := if l.isEmpty then 0 else l.foldl (· * ·) 1
def elementweise (f : Int → Int → Int) (a b : List Int) : Option (List Int) :=
  if a.length = b.length then some (List.zipWith f a b) else none
def aufsteigend (a b : Int) : List Int := (List.range (b - a + 1).toNat).map fun (k : Nat) => a + (k : Int)

/-- insertion into a sorted list / insertion sort: the specification of `sortiert` -/
def einsortieren (x : Int) : List Int → List Int
  | [] => [x]
  | y :: r => if x ≤ y then x :: y :: r else y :: einsortieren x r
def sortiert (l : List Int) : List Int := l.foldr einsortieren []

/-! ### texts (lists of code points) -/
abbrev Text := List Nat

def trimAnfang (t : Text) (c : Nat) : Text := t.dropWhile (· == c)
def trimEnde (t : Text) (c : Nat) : Text := (t.reverse.dropWhile (· == c)).reverse
def trim (t : Text) (c : Nat) : Text := trimEnde (trimAnfang t c) c
def anzahlBuchstabe (t : Text) (c : Nat) : Nat := t.count c
def beginntMit (t s : Text) : Bool := s.isPrefixOf t
def endetMit (t s : Text) : Bool := s.reverse.isPrefixOf t.reverse
/-- number of positions at which `s` occurs in `t` (overlapping), for non-empty `s` and `t` -/
def anzahlText : Text → Text → Nat
  | [], _ => 0
  | c :: r, s => (if s.isPrefixOf (c :: r) then 1 else 0) + anzahlText r s
def enthaeltText (t s : Text) : Bool := anzahlText t s > 0 || s.isEmpty
/-- 1-based index of the first occurrence of `s` in `t`, -1 if none (non-empty `s`) -/
def indexVonText (t s : Text) : Int :=
  let rec go (t : Text) (i : Nat) : Int :=
    match t with
    | [] => -1
    | c :: r => if s.isPrefixOf (c :: r) then i else go r (i + 1)
  go t 1
def polsterLinks (t : Text) (c : Nat) (n : Nat) : Text := List.replicate (n - t.length) c ++ t
def polsterRechts (t : Text) (c : Nat) (n : Nat) : Text := t ++ List.replicate (n - t.length) c
/-- split at every occurrence of the separator character; the empty text splits into nothing -/
def spalteAux (c : Nat) : Text → Text → List Text
  | [], cur => [cur.reverse]
  | x :: r, cur => if x == c then cur.reverse :: spalteAux c r [] else spalteAux c r (x :: cur)
def spalte (t : Text) (c : Nat) : List Text := if t.isEmpty then [] else spalteAux c t []
def verbinden (l : List Text) (c : Nat) : Text :=
  match l with
  | [] => []
  | x :: r => r.foldl (fun acc y => acc ++ [c] ++ y) x
def grossAscii (c : Nat) : Nat := if 97 ≤ c ∧ c ≤ 122 then c - 32 else c
def kleinAscii (c : Nat) : Nat := if 65 ≤ c ∧ c ≤ 90 then c + 32 else c
def hamming (a b : Text) : Int := if a.length = b.length then ((List.zipWith (fun x y => if x == y then 0 else 1) a b).foldl (· + ·) 0 : Nat) else -1
/-- sign convention of `Vergleiche_Text`: 0 equal, difference of the first unequal code points, -1 / 1 for a proper prefix -/
def vergleiche : Text → Text → Int
  | [], [] => 0
  | [], _ :: _ => -1
  | _ :: _, [] => 1
  | x :: r, y :: s => if x == y then vergleiche r s else (x : Int) - y

/-! ### numbers (Duden/Mathe) -/
def max2 (a b : Int) : Int := if a ≥ b then a else b
def min2 (a b : Int) : Int := if a ≤ b then a else b
def max3 (a b c : Int) : Int := max2 (max2 a b) c
def min3 (a b c : Int) : Int := min2 (min2 a b) c
def clamp (wert lo hi : Int) : Int := if wert > hi then hi else if wert < lo then lo else wert
def sign (a : Int) : Int := if a < 0 then -1 else if a > 0 then 1 else 0
/-- greatest common divisor of two positive numbers -/
def ggT (a b : Nat) : Nat := Nat.gcd a b
/-- least common multiple -/
def kgV (a b : Nat) : Nat := a * b / Nat.gcd a b
def teilbar (a : Int) (b : Nat) : Bool := a % (b : Int) == 0
/-- prime factors in ascending order by trial division (`z ≥ 2`) -/
def primAux : Nat → Nat → Nat → List Nat
  | 0, n, _ => if n > 1 then [n] else []
  | fuel + 1, n, d =>
    if n ≤ 1 then []
    else if d * d > n then [n]
    else if n % d == 0 then d :: primAux fuel (n / d) d
    else primAux fuel n (d + 1)
def primfaktoren (z : Nat) : List Nat := primAux (2 * z) z 2

/-! ### more text functions -/
def loescheT (t : Text) (i : Nat) : Option Text := if 1 ≤ i ∧ i ≤ t.length then some (t.take (i - 1) ++ t.drop i) else none
def loescheBereichT (t : Text) (a b : Nat) : Option Text := if 1 ≤ a ∧ a ≤ b ∧ b ≤ t.length then some (t.take (a - 1) ++ t.drop b) else none
/-- `Setze e an die Stelle i von t`: e starts at position i afterwards -/
def einfuegenT (t : Text) (i : Nat) (e : Text) : Option Text := if 1 ≤ i ∧ i ≤ t.length then some (t.take (i - 1) ++ e ++ t.drop (i - 1)) else none
/-- the 1-based start positions of the occurrences of `u` found from left to right without overlap -/
def findeAux (u : Text) : Nat → Text → Nat → List Nat
  | 0, _, _ => []
  | _ + 1, [], _ => []
  | fuel + 1, c :: r, pos =>
    if u.isPrefixOf (c :: r) then pos :: findeAux u fuel ((c :: r).drop u.length) (pos + u.length)
    else findeAux u fuel r (pos + 1)
def finde (t u : Text) : List Nat := if u.isEmpty then [] else findeAux u (t.length + 1) t 1
/-- split at the occurrences of a separator text (found from left to right without overlap) -/
def spalteTextAux (u : Text) : Nat → Text → Text → List Text
  | 0, _, cur => [cur.reverse]
  | _ + 1, [], cur => [cur.reverse]
  | fuel + 1, c :: r, cur =>
    if u.isPrefixOf (c :: r) then cur.reverse :: spalteTextAux u fuel ((c :: r).drop u.length) []
    else spalteTextAux u fuel r (c :: cur)
def spalteText (t u : Text) : List Text := if t.isEmpty then [] else spalteTextAux u (t.length + 1) t []

/-! ## second part: the remaining functions of Listen, Texte, Zeichen, Zahlen, Mathe, Statistik

The list functions of `Duden/Listen` are generic: they only move, copy and compare elements.  Their
meaning for Text, Buchstaben, Kommazahlen and Wahrheitswert lists is the `List Int` meaning under
an injective (for Kommazahlen: order preserving) numbering of the elements, which is how the
correspondence check uses them.  Kommazahlen are rationals (`Rat`); the check only judges results
that are dyadic rationals with few digits, where floating point arithmetic is exact. -/

/-! ### lists -/
/-- `Leere l` -/
def leere (_ : List Int) : List Int := []
/-- `Setze die Elemente in r an die Stelle i von l`: r starts at position i afterwards (1 ≤ i ≤ |l|) -/
def einfuegenBereich (l : List Int) (i : Nat) (r : List Int) : Option (List Int) :=
  if 1 ≤ i ∧ i ≤ l.length + 1 then some (l.take (i - 1) ++ r ++ l.drop (i - 1)) else none
def voranstellenListe (l o : List Int) : List Int := o ++ l
/-- numbers from `a` down to `b`, both inclusive (`a ≥ b`) -/
def absteigend (a b : Int) : List Int := (List.range (a - b + 1).toNat).map fun (k : Nat) => a - (k : Int)
/-- every element of `a` divided by the element of `b` at the same position: a Kommazahlen list -/
def elementweiseQuotient (a b : List Int) : Option (List Rat) :=
  if a.length = b.length ∧ b.all (· != 0) then some (List.zipWith (fun (x y : Int) => (x : Rat) / (y : Rat)) a b) else none
def summeK (l : List Rat) : Rat := l.foldl (· + ·) 0
/-- the documentation defines the product of the empty list as 0 -/
def produktK (l : List Rat) : Rat := if l.isEmpty then 0 else l.foldl (· * ·) 1
/-- `n ≥ 2` evenly spaced numbers from `a` to `b`, both inclusive -/
def linspace (a b : Rat) (n : Nat) : Option (List Rat) :=
  if 2 ≤ n then some ((List.range n).map fun (i : Nat) => a + (b - a) * ((i : Rat) / ((n - 1 : Nat) : Rat))) else none
/-- `liste aneinandergehängt` (Buchstaben Liste): the text with these letters -/
def aneinandergehaengt (l : List Nat) : List Nat := l
/-- `alle Texte in liste aneinandergehängt` -/
def verketteTexte (l : List (List Nat)) : List Nat := l.flatten
def elementweiseVerketten (a b : List (List Nat)) : Option (List (List Nat)) :=
  if a.length = b.length then some (List.zipWith (· ++ ·) a b) else none
/-- `Tausche a und b` -/
def tausche (a b : Int) : Int × Int := (b, a)

/-! ### texts -/
def ersterBuchstabe (t : Text) : Option Nat := t.head?
def nterBuchstabe (n : Nat) (t : Text) : Option Nat := if 1 ≤ n then t[n - 1]? else none
def letzterBuchstabe (t : Text) : Option Nat := t.getLast?
/-- removes `n` letters at the front; everything if the text is shorter; `n < 0` counts as 0 -/
def entferneVorne (t : Text) (n : Int) : Text := t.drop n.toNat
def entferneHinten (t : Text) (n : Int) : Text := t.take (t.length - n.toNat)
/-- how often `u` (non-empty) occurs in `t` without overlap: the occurrences found from left to right -/
def anzahlNichtUeberlappend (t u : Text) : Nat := (finde t u).length
def beginntMitBuchstabe (t : Text) (c : Nat) : Bool := t.head? == some c
def endetMitBuchstabe (t : Text) (c : Nat) : Bool := t.getLast? == some c
def textAnfuegen (t e : Text) : Text := t ++ e
def textVoranstellen (t e : Text) : Text := e ++ t
def fuelleText (t : Text) (c : Nat) : Text := t.map fun _ => c
/-- `die Buchstaben in t`: the letters as a list -/
def buchstaben (t : Text) : List Nat := t
/-- `die Buchstaben in t als Text Liste`: one text per letter -/
def buchstabenTexte (t : Text) : List Text := t.map fun c => [c]
def indexVonBuchstabe (t : Text) (c : Nat) : Int :=
  match t.findIdx? (· == c) with | some i => i + 1 | none => -1
def istZiffer (c : Nat) : Bool := 48 ≤ c && c ≤ 57
/-- a text is a number: an optional sign and at least one digit, nothing else -/
def textIstZahl (t : Text) : Bool :=
  match t with
  | [] => false
  | c :: r => if istZiffer c then r.all istZiffer else (c == 43 || c == 45) && !r.isEmpty && r.all istZiffer
/-- case mapping of the German letters (a-z, A-Z, ä ö ü, Ä Ö Ü; ß has no counterpart and stays) -/
def grossBuchstabe (c : Nat) : Nat :=
  if 97 ≤ c ∧ c ≤ 122 then c - 32 else if c = 228 then 196 else if c = 246 then 214 else if c = 252 then 220 else c
def kleinBuchstabe (c : Nat) : Nat :=
  if 65 ≤ c ∧ c ≤ 90 then c + 32 else if c = 196 then 228 else if c = 214 then 246 else if c = 220 then 252 else c
/-- decimal digits of a natural number, most significant first -/
def ziffern (n : Nat) : Text := (Nat.toDigits 10 n).map Char.toNat
/-- `z als Text` -/
def zahlAlsText (z : Int) : Text := if z < 0 then 45 :: ziffern z.natAbs else ziffern z.natAbs
def wahrAlsText (b : Bool) : Text := if b then [119, 97, 104, 114] else [102, 97, 108, 115, 99, 104]
def verbindenZahl (l : List Int) (c : Nat) : Text := verbinden (l.map zahlAlsText) c
def verbindenBuchstabe (l : List Nat) (c : Nat) : Text := verbinden (l.map fun x => [x]) c
def verbindenWahr (l : List Bool) (c : Nat) : Text := verbinden (l.map wahrAlsText) c
/-- Levenshtein distance: the least number of insertions, deletions and substitutions -/
def levenshtein : Text → Text → Nat
  | [], b => b.length
  | a, [] => a.length
  | x :: a, y :: b =>
    min (levenshtein a (y :: b) + 1) (min (levenshtein (x :: a) b + 1) (levenshtein a b + (if x == y then 0 else 1)))
termination_by a b => a.length + b.length
/-- split at every letter of the set `m`, parts without letters are left out -/
def spalteMengeAux (m : List Nat) : Text → Text → List Text
  | [], cur => if cur.isEmpty then [] else [cur.reverse]
  | x :: r, cur =>
    if m.contains x then (if cur.isEmpty then spalteMengeAux m r [] else cur.reverse :: spalteMengeAux m r [])
    else spalteMengeAux m r (x :: cur)
def spalteMenge (t : Text) (m : List Nat) : List Text := spalteMengeAux m t []
/-- the documented blanks: ' ', '\n', '\t', '\r', 13, 14 -/
def leerzeichenMenge : List Nat := [32, 10, 9, 13, 13, 14]
def worte (t : Text) : List Text := spalteMenge t leerzeichenMenge
/-- UTF-8: `die Bytes von t` -/
def utf8 (c : Nat) : List Nat :=
  if c < 0x80 then [c]
  else if c < 0x800 then [0xC0 + c / 64, 0x80 + c % 64]
  else if c < 0x10000 then [0xE0 + c / 4096, 0x80 + c / 64 % 64, 0x80 + c % 64]
  else [0xF0 + c / 262144, 0x80 + c / 4096 % 64, 0x80 + c / 64 % 64, 0x80 + c % 64]
def bytes (t : Text) : List Nat := t.flatMap utf8
/-- `die Bytes b als Text` for a well formed UTF-8 sequence -/
def vonBytes : List Nat → Option Text
  | [] => some []
  | b0 :: r =>
    if b0 < 0x80 then (vonBytes r).map (b0 :: ·)
    else if b0 < 0xC0 then none
    else if b0 < 0xE0 then
      match r with
      | b1 :: r' => (vonBytes r').map (((b0 - 0xC0) * 64 + (b1 - 0x80)) :: ·)
      | _ => none
    else if b0 < 0xF0 then
      match r with
      | b1 :: b2 :: r' => (vonBytes r').map (((b0 - 0xE0) * 4096 + (b1 - 0x80) * 64 + (b2 - 0x80)) :: ·)
      | _ => none
    else
      match r with
      | b1 :: b2 :: b3 :: r' => (vonBytes r').map (((b0 - 0xF0) * 262144 + (b1 - 0x80) * 4096 + (b2 - 0x80) * 64 + (b3 - 0x80)) :: ·)
      | _ => none

/-! ### characters (Duden/Zeichen)

Documented domain of the letter classes: ASCII (0-127) and the seven German letters Ä Ö Ü ä ö ü ß. -/
def istLeerZ (c : Nat) : Bool := c == 32 || c == 10 || c == 9 || c == 13
def istGrossZ (c : Nat) : Bool := (65 ≤ c && c ≤ 90) || c == 196 || c == 214 || c == 220
def istKleinZ (c : Nat) : Bool := (97 ≤ c && c ≤ 122) || c == 228 || c == 246 || c == 252 || c == 223
def istLeerzeichenZ (c : Nat) : Bool := c == 32
def istKontrollZ (c : Nat) : Bool := c ≤ 31
def istLateinischZ (c : Nat) : Bool := (65 ≤ c && c ≤ 90) || (97 ≤ c && c ≤ 122)
def istLateinischOderZahlZ (c : Nat) : Bool := istLateinischZ c || istZiffer c
def istDeutschZ (c : Nat) : Bool := istLateinischZ c || c == 196 || c == 228 || c == 214 || c == 246 || c == 220 || c == 252 || c == 223
def istDeutschOderZahlZ (c : Nat) : Bool := istDeutschZ c || istZiffer c
def asciiGroesser (a b : Nat) : Bool := a > b
def asciiKleiner (a b : Nat) : Bool := a < b

/-! ### numbers (Duden/Zahlen, Duden/Mathe) -/
/-- documented: -9223372036854775807 -/
def minZahl : Int := -9223372036854775807
def maxZahl : Int := 9223372036854775807
def million (n : Int) : Int := n * 1000000
def dutzend (n : Int) : Int := n * 12
/-- `n Halbe`, `n Drittel`, … `n Zwölftel` -/
def bruch (n : Int) (d : Nat) : Rat := (n : Rat) / (d : Rat)
def hexWert (c : Nat) : Option Nat :=
  if 48 ≤ c ∧ c ≤ 57 then some (c - 48) else if 65 ≤ c ∧ c ≤ 70 then some (c - 55) else if 97 ≤ c ∧ c ≤ 102 then some (c - 87) else none
/-- `die Hexadezimalzahl t`: positional value of the hexadecimal digits (both cases) -/
def hexZuZahl (t : Text) : Option Nat :=
  t.foldl (fun acc c => match acc, hexWert c with | some a, some v => some (a * 16 + v) | _, _ => none) (some 0)
def hexZiffer (v : Nat) : Nat := if v < 10 then 48 + v else 55 + v
def hexZiffern : Nat → Nat → Text
  | 0, _ => []
  | fuel + 1, n => if n < 16 then [hexZiffer n] else hexZiffern fuel (n / 16) ++ [hexZiffer (n % 16)]
/-- `z in Hexadezimal`: upper case digits, a leading '-' for negative numbers -/
def zahlZuHex (z : Int) : Text := if z < 0 then 45 :: hexZiffern 64 z.natAbs else hexZiffern 64 z.natAbs
def maxK (a b : Rat) : Rat := if a ≥ b then a else b
def minK (a b : Rat) : Rat := if a ≤ b then a else b
def max3K (a b c : Rat) : Rat := maxK (maxK a b) c
def min3K (a b c : Rat) : Rat := minK (minK a b) c
def clampK (wert lo hi : Rat) : Rat := if wert > hi then hi else if wert < lo then lo else wert
def signK (a : Rat) : Int := if a < 0 then -1 else if a > 0 then 1 else 0
/-- `nach unten gerundet`: the greatest whole number ≤ x -/
def floorK (x : Rat) : Rat := (x.floor : Rat)
/-- `nach oben gerundet`: the least whole number ≥ x -/
def ceilK (x : Rat) : Rat := (x.ceil : Rat)
/-- `trunkiert`: the digits after the comma are cut off -/
def truncK (x : Rat) : Rat := if x ≥ 0 then (x.floor : Rat) else (x.ceil : Rat)
/-- rounding to `n` digits after the comma (nearest; the documentation does not say where ties go, they are not judged) -/
def rundenK (x : Rat) (n : Nat) : Rat :=
  let s : Rat := ((10 ^ n : Nat) : Rat)
  if x ≥ 0 then ((x * s + 1 / 2).floor : Rat) / s else ((x * s - 1 / 2).ceil : Rat) / s
def quadrat (x : Rat) : Rat := x * x
def ganzeZahl (x : Rat) : Bool := x.den == 1
def geradeZahl (x : Int) : Bool := x % 2 == 0
/-- documented as `(int)x mod 2 = 0` -/
def geradeKommazahl (x : Rat) : Bool := (if x ≥ 0 then x.floor else x.ceil) % 2 == 0
def fakultaet : Nat → Nat
  | 0 => 1
  | n + 1 => (n + 1) * fakultaet n
/-- all divisors of `z ≥ 1` (the documentation fixes no order: ascending here, the observation is sorted) -/
def teiler (z : Nat) : List Nat := (List.range (z + 1)).filter fun d => 0 < d && z % d == 0
/-- gcd / lcm for all whole numbers, not only positive ones (results compared up to sign) -/
def ggTZ (a b : Int) : Nat := Int.gcd a b
def kgVZ (a b : Int) : Nat := (a * b).natAbs / Int.gcd a b

/-! ### statistics (Duden/Statistik) -/
def hoechsteZ (l : List Int) : Option Int := l.max?
def kleinsteZ (l : List Int) : Option Int := l.min?
def hoechsteK (l : List Rat) : Option Rat := l.max?
def kleinsteK (l : List Rat) : Option Rat := l.min?
def anteil (p : Rat → Bool) (l : List Rat) : Option Rat :=
  if l.isEmpty then none else some (((l.filter p).length : Rat) / (l.length : Rat))
/-- the relative frequency of the numbers ≥ x -/
def mindestens (x : Rat) (l : List Rat) : Option Rat := anteil (fun z => z ≥ x) l
/-- the relative frequency of the numbers ≤ x -/
def hoechstens (x : Rat) (l : List Rat) : Option Rat := anteil (fun z => z ≤ x) l
def zwischen (x y : Rat) (l : List Rat) : Option Rat := anteil (fun z => x ≤ z && z ≤ y) l
def absoluteHaeufigkeit (l : List Rat) (x : Rat) : Nat := l.count x
def relativeHaeufigkeit (l : List Rat) (x : Rat) : Option Rat := anteil (fun z => z == x) l
def mittelwert (l : List Rat) : Option Rat := if l.isEmpty then none else some (summeK l / (l.length : Rat))
/-- median of a sorted list -/
def median (l : List Rat) : Option Rat :=
  let n := l.length
  if n = 0 then none
  else if n % 2 = 0 then (do let a ← l[n / 2 - 1]?; let b ← l[n / 2]?; pure ((a + b) / 2))
  else l[n / 2]?
/-- the most frequent values, each once, in the order of their first occurrence -/
def modalwert (l : List Rat) : List Rat :=
  let m := (l.map fun z => l.count z).foldl max 0
  (l.filter fun z => l.count z == m).eraseDups
/-- p-quantile of a sorted list (0 < p < 1): the mean of x_np and x_(np+1) if np is whole, else x_⌈np⌉ -/
def quantil (l : List Rat) (p : Rat) : Option Rat :=
  let np : Rat := (l.length : Rat) * p
  if np.den = 1 then
    (if 1 ≤ np.num then (do let a ← l[np.num.toNat - 1]?; let b ← l[np.num.toNat]?; pure ((a + b) / 2)) else none)
  else (if 1 ≤ np.ceil then l[np.ceil.toNat - 1]? else none)
/-- empirical variance (divisor n - 1), at least two values -/
def varianz (l : List Rat) : Option Rat :=
  match mittelwert l with
  | some m => if l.length < 2 then none else some (summeK (l.map fun z => (z - m) * (z - m)) / ((l.length - 1 : Nat) : Rat))
  | none => none
/-- the square root of a rational square, `none` if the root is irrational -/
def wurzel (q : Rat) : Option Rat :=
  if q < 0 then none
  else
    let a := Nat.sqrt q.num.toNat
    let b := Nat.sqrt q.den
    if a * a = q.num.toNat ∧ b * b = q.den then some ((a : Rat) / (b : Rat)) else none
def standardabweichung (l : List Rat) : Option Rat := (varianz l).bind wurzel
def spannweite (l : List Rat) : Option Rat := do let a ← l.max?; let b ← l.min?; pure (a - b)
def interquartilabstand (l : List Rat) : Option Rat := do let a ← quantil l (3 / 4); let b ← quantil l (1 / 4); pure (a - b)
def kovarianz (a b : List Rat) : Option Rat :=
  if a.length ≠ b.length ∨ a.length < 2 then none
  else do
    let m1 ← mittelwert a
    let m2 ← mittelwert b
    pure (summeK (List.zipWith (fun x y => (x - m1) * (y - m2)) a b) / ((a.length - 1 : Nat) : Rat))

/-- empirical correlation coefficient: the covariance over the product of the standard deviations -/
def korrelation (a b : List Rat) : Option Rat := do
  let c ← kovarianz a b
  let s1 ← standardabweichung a
  let s2 ← standardabweichung b
  if s1 * s2 = 0 then none else pure (c / (s1 * s2))
/-- the square of the correlation coefficient -/
def bestimmtheitsmass (a b : List Rat) : Option Rat := (korrelation a b).map fun r => r * r

/-! ### a few more: Kommazahlen lists and constants -/
def elementweiseK (f : Rat → Rat → Rat) (a b : List Rat) : Option (List Rat) :=
  if a.length = b.length then some (List.zipWith f a b) else none
/-- `n ≥ 2` numbers evenly spaced on a logarithmic scale from 10^a to 10^b (given where the exponents are natural numbers) -/
def logspace (a b : Rat) (n : Nat) : Option (List Rat) :=
  match linspace a b n with
  | some l => if l.all (fun x => x.den == 1 && 0 ≤ x.num) then some (l.map fun x => ((10 ^ x.num.toNat : Nat) : Rat)) else none
  | none => none
/-- documented: (2−2^−31) · 2^1023 and its negative, 2^-1022 and its negative -/
def maxKommazahl : Rat := (2 - 1 / ((2 ^ 31 : Nat) : Rat)) * ((2 ^ 1023 : Nat) : Rat)
def minKommazahl : Rat := -maxKommazahl
def epsilonPos : Rat := 1 / ((2 ^ 1022 : Nat) : Rat)
def epsilonNeg : Rat := -epsilonPos

/-! ### Duden/TextIterator

An iterator over a text that has handled `k` letters: its index is `k + 1`, its current letter the
`k+1`-st, the remaining letters include the current one. -/

structure IterView where
  index : Nat
  buchstabe : Int
  verbleibend : Nat
  behandelt : Nat
  rest : List Int
  bisher : List Int
  deriving Repr, DecidableEq

/-- what the functions of Duden/TextIterator answer after `k` calls of `Setzte … auf den nächsten Buchstaben` -/
def iterView (t : List Int) (k : Nat) : IterView :=
  ⟨k + 1, (t.drop k).headD 0, t.length - k, k, t.drop k, t.take k⟩

/-- the whole walk: one view per letter, the iterator is `zuende` after the last -/
def iterWalk (t : List Int) : List IterView := (List.range t.length).map (iterView t)

end DDP.Duden

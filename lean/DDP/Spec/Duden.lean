/-!
# L2: what the Duden list, text and sorting functions compute

The documented meaning of a selection of pure functions of `lib/stdlib/Duden` (Listen, Texte,
Sortierung) as ordinary sequence operations.  Lists are `List Int`, texts are lists of code points.
`none` = outside the documented domain.
-/

namespace DDP.Duden

/-! ### lists -/
def anfuegen (l : List Int) (e : Int) : List Int := l ++ [e]
def anfuegenListe (l o : List Int) : List Int := l ++ o
def voranstellen (l : List Int) (e : Int) : List Int := e :: l
/-- `Setze e an die Stelle i von l`: e stands at position i afterwards (1 ≤ i ≤ |l|) -/
def einfuegen (l : List Int) (i : Nat) (e : Int) : Option (List Int) :=
  if 1 ≤ i ∧ i ≤ l.length then some (l.take (i - 1) ++ [e] ++ l.drop (i - 1)) else none
def loesche (l : List Int) (i : Nat) : Option (List Int) :=
  if 1 ≤ i ∧ i ≤ l.length then some (l.take (i - 1) ++ l.drop i) else none
def loescheBereich (l : List Int) (a b : Nat) : Option (List Int) :=
  if 1 ≤ a ∧ a ≤ b ∧ b ≤ l.length then some (l.take (a - 1) ++ l.drop b) else none
def fuelle (l : List Int) (e : Int) : List Int := l.map fun _ => e
/-- 1-based index of the first occurrence, -1 if there is none -/
def indexVon (l : List Int) (e : Int) : Int :=
  match l.findIdx? (· == e) with | some i => i + 1 | none => -1
def enthaelt (l : List Int) (e : Int) : Bool := l.contains e
def ersteN (l : List Int) (n : Nat) : Option (List Int) := if 1 ≤ n ∧ n ≤ l.length then some (l.take n) else none
def letzteN (l : List Int) (n : Nat) : Option (List Int) := if 1 ≤ n ∧ n ≤ l.length then some (l.drop (l.length - n)) else none
def gespiegelt (l : List Int) : List Int := l.reverse
def summe (l : List Int) : Int := l.foldl (· + ·) 0
/-- the documentation defines the product of the empty list as 0 -/
def produkt (l : List Int) : Int := if l.isEmpty then 0 else l.foldl (· * ·) 1
def elementweise (f : Int → Int → Int) (a b : List Int) : Option (List Int) :=
  if a.length = b.length then some (List.zipWith f a b) else none
def aufsteigend (a b : Int) : List Int := (List.range (b - a + 1).toNat).map fun (k : Nat) => a + (k : Int)

/-- insertion into a sorted list / insertion sort: the specification of `sortiert` -/
def einsortieren (x : Int) : List Int → List Int
  | [] => [x]
  | y :: r => if x ≤ y then x :: y :: r else y :: einsortieren x r
def sortiert (l : List Int) : List Int := l.foldr einsortieren []

/-! ### texts (lists of code points) -/
abbrev Text := List Nat

def trimAnfang (t : Text) (c : Nat) : Text := t.dropWhile (· == c)
def trimEnde (t : Text) (c : Nat) : Text := (t.reverse.dropWhile (· == c)).reverse
def trim (t : Text) (c : Nat) : Text := trimEnde (trimAnfang t c) c
def anzahlBuchstabe (t : Text) (c : Nat) : Nat := t.count c
def beginntMit (t s : Text) : Bool := s.isPrefixOf t
def endetMit (t s : Text) : Bool := s.reverse.isPrefixOf t.reverse
/-- number of positions at which `s` occurs in `t` (overlapping), for non-empty `s` and `t` -/
def anzahlText : Text → Text → Nat
  | [], _ => 0
  | c :: r, s => (if s.isPrefixOf (c :: r) then 1 else 0) + anzahlText r s
def enthaeltText (t s : Text) : Bool := anzahlText t s > 0 || s.isEmpty
/-- 1-based index of the first occurrence of `s` in `t`, -1 if none (non-empty `s`) -/
def indexVonText (t s : Text) : Int :=
  let rec go (t : Text) (i : Nat) : Int :=
    match t with
    | [] => -1
    | c :: r => if s.isPrefixOf (c :: r) then i else go r (i + 1)
  go t 1
def polsterLinks (t : Text) (c : Nat) (n : Nat) : Text := List.replicate (n - t.length) c ++ t
def polsterRechts (t : Text) (c : Nat) (n : Nat) : Text := t ++ List.replicate (n - t.length) c
/-- split at every occurrence of the separator character; the empty text splits into nothing -/
def spalteAux (c : Nat) : Text → Text → List Text
  | [], cur => [cur.reverse]
  | x :: r, cur => if x == c then cur.reverse :: spalteAux c r [] else spalteAux c r (x :: cur)
def spalte (t : Text) (c : Nat) : List Text := if t.isEmpty then [] else spalteAux c t []
def verbinden (l : List Text) (c : Nat) : Text :=
  match l with
  | [] => []
  | x :: r => r.foldl (fun acc y => acc ++ [c] ++ y) x
def grossAscii (c : Nat) : Nat := if 97 ≤ c ∧ c ≤ 122 then c - 32 else c
def kleinAscii (c : Nat) : Nat := if 65 ≤ c ∧ c ≤ 90 then c + 32 else c
def hamming (a b : Text) : Int := if a.length = b.length then ((List.zipWith (fun x y => if x == y then 0 else 1) a b).foldl (· + ·) 0 : Nat) else -1
/-- sign convention of `Vergleiche_Text`: 0 equal, difference of the first unequal code points, -1 / 1 for a proper prefix -/
def vergleiche : Text → Text → Int
  | [], [] => 0
  | [], _ :: _ => -1
  | _ :: _, [] => 1
  | x :: r, y :: s => if x == y then vergleiche r s else (x : Int) - y

/-! ### numbers (Duden/Mathe) -/
def max2 (a b : Int) : Int := if a ≥ b then a else b
def min2 (a b : Int) : Int := if a ≤ b then a else b
def max3 (a b c : Int) : Int := max2 (max2 a b) c
def min3 (a b c : Int) : Int := min2 (min2 a b) c
def clamp (wert lo hi : Int) : Int := if wert > hi then hi else if wert < lo then lo else wert
def sign (a : Int) : Int := if a < 0 then -1 else if a > 0 then 1 else 0
/-- greatest common divisor of two positive numbers -/
def ggT (a b : Nat) : Nat := Nat.gcd a b
/-- least common multiple -/
def kgV (a b : Nat) : Nat := a * b / Nat.gcd a b
def teilbar (a : Int) (b : Nat) : Bool := a % (b : Int) == 0
/-- prime factors in ascending order by trial division (`z ≥ 2`) -/
def primAux : Nat → Nat → Nat → List Nat
  | 0, n, _ => if n > 1 then [n] else []
  | fuel + 1, n, d =>
    if n ≤ 1 then []
    else if d * d > n then [n]
    else if n % d == 0 then d :: primAux fuel (n / d) d
    else primAux fuel n (d + 1)
def primfaktoren (z : Nat) : List Nat := primAux (2 * z) z 2

/-! ### more text functions -/
def loescheT (t : Text) (i : Nat) : Option Text := if 1 ≤ i ∧ i ≤ t.length then some (t.take (i - 1) ++ t.drop i) else none
def loescheBereichT (t : Text) (a b : Nat) : Option Text := if 1 ≤ a ∧ a ≤ b ∧ b ≤ t.length then some (t.take (a - 1) ++ t.drop b) else none
/-- `Setze e an die Stelle i von t`: e starts at position i afterwards -/
def einfuegenT (t : Text) (i : Nat) (e : Text) : Option Text := if 1 ≤ i ∧ i ≤ t.length then some (t.take (i - 1) ++ e ++ t.drop (i - 1)) else none
/-- the 1-based start positions of the occurrences of `u` found from left to right without overlap -/
def findeAux (u : Text) : Nat → Text → Nat → List Nat
  | 0, _, _ => []
  | _ + 1, [], _ => []
  | fuel + 1, c :: r, pos =>
    if u.isPrefixOf (c :: r) then pos :: findeAux u fuel ((c :: r).drop u.length) (pos + u.length)
    else findeAux u fuel r (pos + 1)
def finde (t u : Text) : List Nat := if u.isEmpty then [] else findeAux u (t.length + 1) t 1
/-- split at the occurrences of a separator text (found from left to right without overlap) -/
def spalteTextAux (u : Text) : Nat → Text → Text → List Text
  | 0, _, cur => [cur.reverse]
  | _ + 1, [], cur => [cur.reverse]
  | fuel + 1, c :: r, cur =>
    if u.isPrefixOf (c :: r) then cur.reverse :: spalteTextAux u fuel ((c :: r).drop u.length) []
    else spalteTextAux u fuel r (c :: cur)
def spalteText (t u : Text) : List Text := if t.isEmpty then [] else spalteTextAux u (t.length + 1) t []

end DDP.Duden

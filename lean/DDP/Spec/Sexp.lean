import DDP.Spec.Eval

/-! decoding of programs from the s-expression exchange format written by `vlib/gen.py` -/

namespace DDP.Spec

inductive SExp | atom (s : String) | list (l : List SExp)
  deriving Inhabited

partial def parseSExps : List Char → List SExp → List SExp × List Char
  | [], acc => (acc.reverse, [])
  | ')' :: r, acc => (acc.reverse, r)
  | '(' :: r, acc =>
    let (inner, r') := parseSExps r []
    parseSExps r' (.list inner :: acc)
  | c :: r, acc =>
    if c == ' ' || c == '\n' || c == '\t' then parseSExps r acc
    else
      let tok := (c :: r).takeWhile (fun x => x != ' ' && x != '(' && x != ')' && x != '\n' && x != '\t')
      parseSExps ((c :: r).drop tok.length) (.atom (String.ofList tok) :: acc)

def parseSExp (s : String) : Option SExp :=
  match (parseSExps s.toList []).1 with | [x] => some x | _ => none

def atomInt (s : String) : Int := if s.startsWith "-" then -((s.drop 1).toString.toNat! : Int) else (s.toNat! : Int)

partial def decTy : SExp → Ty
  | .atom "Z" => .zahl | .atom "K" => .komma | .atom "B" => .byte | .atom "W" => .wahr | .atom "C" => .buchstabe
  | .atom "T" => .text | .atom "V" => .variable | .atom "N" => .nichts
  | .list [.atom "L", e] => .liste (decTy e)
  | .list [.atom "S", .atom n] => .kombi n
  | _ => .nichts

def decUn : String → UnOp
  | "abs" => .abs | "negate" => .negate | "not" => .not | "logicNot" => .logicNot | _ => .len

def decBin : String → BinOp
  | "and" => .and | "or" => .or | "xor" => .xor | "concat" => .concat | "plus" => .plus | "minus" => .minus
  | "mult" => .mult | "div" => .div | "index" => .index | "pow" => .pow | "log" => .log
  | "logicAnd" => .logicAnd | "logicOr" => .logicOr | "logicXor" => .logicXor | "mod" => .mod | "shl" => .shl
  | "shr" => .shr | "eq" => .eq | "ne" => .ne | "lt" => .lt | "gt" => .gt | "le" => .le | "ge" => .ge
  | "sliceTo" => .sliceTo | _ => .sliceFrom

def decTer : String → TerOp
  | "slice" => .slice | "between" => .between | _ => .falls

def cpsOfHex (h : String) : List Nat :=
  -- comma separated decimal code points (empty atom `-` = empty text)
  if h == "-" then [] else (h.splitOn ",").map String.toNat!

partial def decExpr : SExp → Expr
  | .list [.atom "int", .atom v] => .intLit (atomInt v)
  | .list [.atom "float", .atom b] => .floatLit b.toNat!
  | .list [.atom "bool", .atom b] => .boolLit (b == "1")
  | .list [.atom "char", .atom c] => .charLit c.toNat!
  | .list [.atom "text", .atom h] => .textLit (cpsOfHex h)
  | .list [.atom "var", .atom n] => .var n
  | .list [.atom "un", .atom op, e] => .un (decUn op) (decExpr e)
  | .list [.atom "bin", .atom op, a, b] => .bin (decBin op) (decExpr a) (decExpr b)
  | .list [.atom "ter", .atom op, a, b, c] => .ter (decTer op) (decExpr a) (decExpr b) (decExpr c)
  | .list [.atom "cast", e, t] => .cast (decExpr e) (decTy t)
  | .list [.atom "typecheck", e, t] => .typeCheck (decExpr e) (decTy t)
  | .list [.atom "default", t] => .default (decTy t)
  | .list (.atom "list" :: t :: es) => .listLit (decTy t) (es.map decExpr)
  | .list [.atom "listrep", t, c, v] => .listRep (decTy t) (decExpr c) (decExpr v)
  | .list (.atom "call" :: .atom f :: args) =>
    .call f (args.filterMap fun a => match a with | .list [.atom n, e] => some (n, decExpr e) | _ => none)
  | .list [.atom "field", .atom n, e] => .field n (decExpr e)
  | .list (.atom "struct" :: .atom n :: args) =>
    .structLit n (args.filterMap fun a => match a with | .list [.atom f, e] => some (f, decExpr e) | _ => none)
  | _ => .intLit 0

mutual
partial def decStmts : SExp → List Stmt
  | .list l => l.map decStmt
  | _ => []
partial def decStmt : SExp → Stmt
  | .list [.atom "decl", t, .atom n, e] => .decl (decTy t) n (decExpr e)
  | .list [.atom "assign", tg, e] => .assign (decExpr tg) (decExpr e)
  | .list [.atom "compound", .atom op, tg, e] => .compound (decBin op) (decExpr tg) (decExpr e)
  | .list [.atom "if", c, a, b] => .ifElse (decExpr c) (decStmts a) (decStmts b)
  | .list [.atom "while", c, b] => .while (decExpr c) (decStmts b)
  | .list [.atom "dowhile", b, c] => .doWhile (decStmts b) (decExpr c)
  | .list [.atom "repeat", c, b] => .repeat (decExpr c) (decStmts b)
  | .list [.atom "for", .atom n, t, f, to, .atom "-", b] => .forRange n (decTy t) (decExpr f) (decExpr to) none (decStmts b)
  | .list [.atom "for", .atom n, t, f, to, s, b] => .forRange n (decTy t) (decExpr f) (decExpr to) (some (decExpr s)) (decStmts b)
  | .list [.atom "foreach", t, .atom n, .atom i, e, b] => .forEach (decTy t) n (if i == "-" then none else some i) (decExpr e) (decStmts b)
  | .list [.atom "break"] => .break
  | .list [.atom "continue"] => .continue
  | .list [.atom "ret"] => .ret none
  | .list [.atom "ret", e] => .ret (some (decExpr e))
  | .list [.atom "expr", e] => .expr (decExpr e)
  | .list [.atom "print", e] => .print (decExpr e) false
  | .list [.atom "println", e] => .print (decExpr e) true
  | .list [.atom "todo"] => .todo
  | _ => .todo
end

def decProgram : SExp → Program
  | .list [.atom "prog", .list structs, .list funcs, main] =>
    { structs := structs.filterMap fun s => match s with
        | .list (.atom "structdecl" :: .atom n :: fs) =>
          some { name := n, fields := fs.filterMap fun f => match f with
            | .list [.atom fname, t, d] => some (fname, decTy t, decExpr d) | _ => none }
        | _ => none
      funcs := funcs.filterMap fun f => match f with
        | .list [.atom "func", .atom n, .list ps, rt, body] =>
          some { name := n
                 params := ps.filterMap fun p => match p with
                   | .list [.atom pn, t, .atom r] => some ⟨pn, decTy t, r == "1"⟩ | _ => none
                 ret := decTy rt, body := decStmts body }
        | _ => none
      main := decStmts main }
  | _ => default

end DDP.Spec

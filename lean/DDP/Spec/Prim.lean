import DDP.Spec.Syntax

/-!
# L2: the primitive operations (pure functions on values)

`none` = the operation is outside its domain and stops the program with a Laufzeitfehler
(index out of range, crossed slice bounds, Variable holding another type).  Operations the
type checker rejects are not given a meaning (`stuck`), they cannot occur in checked programs.
-/

namespace DDP.Spec

inductive R (α : Type) where
  | ok (a : α)
  | fehler                 -- Laufzeitfehler
  | stuck (why : String)   -- ill-typed: never reached by a program the front end accepts
  | undef (why : String)   -- LLVM-undefined (division by zero of `modulo`, shift ≥ width, …)
  deriving Inhabited

def Val.toFloat? : Val → Option Float
  | .int i => some (intToFloat i)
  | .float f => some f
  | .byte n => some (Float.ofNat n)
  | _ => none

/-- `floatOrByteAsInt` -/
def Val.toInt? : Val → Option Int
  | .int i => some i
  | .float f => some (floatToInt f)
  | .byte n => some n
  | _ => none

def isFloatV : Val → Bool | .float _ => true | _ => false
def isByteV : Val → Bool | .byte _ => true | _ => false

/-- plus / minus / mal -/
def arith (op : BinOp) (a b : Val) : R Val :=
  let fi (x y : Int) : Int := match op with | .plus => x + y | .minus => x - y | _ => x * y
  let ff (x y : Float) : Float := match op with | .plus => x + y | .minus => x - y | _ => x * y
  match a, b with
  | .byte x, .byte y => .ok (.byte (wrap8 (fi x y)))
  | _, _ =>
    if isFloatV a || isFloatV b then
      match a.toFloat?, b.toFloat? with
      | some x, some y => .ok (.float (ff x y))
      | _, _ => .stuck "arith"
    else
      match a.toInt?, b.toInt? with
      | some x, some y => .ok (.int (wrap64 (fi x y)))
      | _, _ => .stuck "arith"

def floatOp2 (f : Float → Float → Float) (a b : Val) : R Val :=
  match a.toFloat?, b.toFloat? with
  | some x, some y => .ok (.float (f x y))
  | _, _ => .stuck "float op"

def logOp (x y : Float) : Float := Float.log10 x / Float.log10 y

/-- comparison with the conversions of the code generator: a Kommazahl operand makes it a
floating comparison, two Bytes compare unsigned, otherwise signed 64-bit -/
def compareVals (op : BinOp) (a b : Val) : R Val :=
  let ci (x y : Int) : Bool := match op with | .lt => x < y | .gt => x > y | .le => x ≤ y | _ => x ≥ y
  let cf (x y : Float) : Bool := match op with | .lt => x < y | .gt => x > y | .le => x ≤ y | _ => x ≥ y
  if isFloatV a || isFloatV b then
    match a.toFloat?, b.toFloat? with
    | some x, some y => .ok (.bool (cf x y))
    | _, _ => .stuck "compare"
  else
    match a.toInt?, b.toInt? with
    | some x, some y => .ok (.bool (ci x y))
    | _, _ => .stuck "compare"

/-- bitwise and/or/xor on 64-bit two's complement (or on 8 bits for two Bytes) -/
def bitOp (op : BinOp) (x y : Int) : Int :=
  let ux := (x % 18446744073709551616).toNat
  let uy := (y % 18446744073709551616).toNat
  let r := match op with | .logicAnd => ux &&& uy | .logicOr => ux ||| uy | _ => ux ^^^ uy
  wrap64 r

def logic (op : BinOp) (a b : Val) : R Val :=
  match a, b with
  | .byte x, .byte y => .ok (.byte (wrap8 (bitOp op x y)))
  | _, _ =>
    match a.toInt?, b.toInt? with
    | some x, some y => if isFloatV a || isFloatV b then .stuck "logic" else .ok (.int (bitOp op x y))
    | _, _ => .stuck "logic"

def modulo (a b : Val) : R Val :=
  match a, b with
  | .byte x, .byte y => if y == 0 then .undef "modulo 0" else .ok (.byte (x % y))
  | _, _ =>
    match a.toInt?, b.toInt? with
    | some x, some y =>
      if y == 0 then .undef "modulo 0"
      else if x == -9223372036854775808 && y == -1 then .undef "min modulo -1"
      else .ok (.int (Int.tmod x y))          -- srem: sign of the dividend
    | _, _ => .stuck "modulo"

def shift (left : Bool) (a b : Val) : R Val :=
  match a, b.toInt? with
  | .int x, some s =>
    if s < 0 || s ≥ 64 then .undef "shift amount"
    else
      let ux := (x % 18446744073709551616).toNat
      .ok (.int (wrap64 (if left then ux <<< s.toNat else ux >>> s.toNat)))
  | .byte x, some s =>
    -- the amount is converted to 8 bits first
    let s8 := wrap8 s
    if s8 ≥ 8 then .undef "shift amount"
    else .ok (.byte (wrap8 (if left then x <<< s8 else x >>> s8)))
  | _, _ => .stuck "shift"

mutual
/-- structural equality (`gleich`) -/
def equalVals : Val → Val → Bool
  | .int x, .int y => x == y
  | .float x, .float y => x == y           -- IEEE: NaN ≠ NaN
  | .byte x, .byte y => x == y
  | .bool x, .bool y => x == y
  | .char x, .char y => x == y
  | .text x, .text y => x == y
  | .list _ xs, .list _ ys => equalList xs ys
  | .struct _ fx, .struct _ fy => equalFields fx fy
  | .any none, .any none => true
  | .any (some (tx, x)), .any (some (ty, y)) => tx == ty && equalVals x y
  | _, _ => false
def equalList : List Val → List Val → Bool
  | [], [] => true
  | x :: xs, y :: ys => equalVals x y && equalList xs ys
  | _, _ => false
def equalFields : List (String × Val) → List (String × Val) → Bool
  | [], [] => true
  | (_, x) :: xs, (_, y) :: ys => equalVals x y && equalFields xs ys
  | _, _ => false
end

/-- bit pattern of a primitive list element as the generated `memcmp` sees it -/
def clampI (i lo hi : Int) : Int := let t := if i < lo then lo else i; if t > hi then hi else t

/-- `an der Stelle` -/
def indexVal (a : Val) (i : Int) : R Val :=
  match a with
  | .text cps => if 1 ≤ i ∧ i ≤ cps.length then (match cps[(i - 1).toNat]? with | some c => .ok (.char c) | none => .fehler) else .fehler
  | .list _ vs => if 1 ≤ i ∧ i ≤ vs.length then (match vs[(i - 1).toNat]? with | some v => .ok v | none => .fehler) else .fehler
  | _ => .stuck "index"

/-- `im Bereich von … bis …` (both bounds clamped into 1‥length, crossed bounds are an error) -/
def sliceList {α} (l : List α) (i j : Int) : Option (List α) :=
  if l.isEmpty then some []
  else
    let a := clampI i 1 l.length
    let b := clampI j 1 l.length
    if b < a then none else some ((l.drop (a - 1).toNat).take ((b - a).toNat + 1))

def sliceVal (a : Val) (i j : Int) : R Val :=
  match a with
  | .text cps => (match sliceList cps i j with | some r => .ok (.text r) | none => .fehler)
  | .list t vs => (match sliceList vs i j with | some r => .ok (.list t r) | none => .fehler)
  | _ => .stuck "slice"

def lenVal : Val → R Val
  | .text cps => .ok (.int cps.length)
  | .list _ vs => .ok (.int vs.length)
  | _ => .stuck "len"

def tyOfVal : Val → Ty
  | .int _ => .zahl | .float _ => .komma | .byte _ => .byte | .bool _ => .wahr | .char _ => .buchstabe
  | .text _ => .text | .list t _ => .liste t | .struct n _ => .kombi n | .any _ => .variable

/-- `verkettet mit` -/
def concatVals (a b : Val) : R Val :=
  match a, b with
  | .text x, .text y => .ok (.text (x ++ y))
  | .text x, .char c =>
    if c < 0 || c > 0x10FFFF || (0xD800 ≤ c && c ≤ 0xDFFF) then .undef "Buchstabe outside Unicode" else .ok (.text (x ++ (if c > 0 then [c.toNat] else [])))
  | .char c, .text y =>
    if c < 0 || c > 0x10FFFF || (0xD800 ≤ c && c ≤ 0xDFFF) then .undef "Buchstabe outside Unicode" else .ok (.text ((if c > 0 then [c.toNat] else []) ++ y))
  | .list t xs, .list _ ys => .ok (.list t (xs ++ ys))
  | .list t xs, y => .ok (.list t (xs ++ [y]))
  | x, .list t ys => .ok (.list t (x :: ys))
  | x, y => .ok (.list (tyOfVal x) [x, y])

def defaultVal (structs : List StructDecl) (dflt : Expr → Val) : Ty → Val
  | .zahl => .int 0 | .komma => .float 0.0 | .byte => .byte 0 | .wahr => .bool false | .buchstabe => .char 0
  | .text => .text [] | .variable => .any none | .nichts => .any none
  | .liste e => .list e []
  | .kombi n =>
    match structs.find? (·.name == n) with
    | some sd => .struct n (sd.fields.map fun f => (f.1, dflt f.2.2))
    | none => .struct n []

/-- decimal prefix of a text as `strtoll(…, 10)` reads it (leading blanks, sign, digits; saturating) -/
def textToInt (cps : List Nat) : Int :=
  let cs := cps.dropWhile (fun c => c == 32 || (9 ≤ c && c ≤ 13))
  let (neg, cs) := match cs with | 45 :: r => (true, r) | 43 :: r => (false, r) | _ => (false, cs)
  let ds := cs.takeWhile (fun c => 48 ≤ c && c ≤ 57)
  let n : Nat := ds.foldl (fun acc d => acc * 10 + (d - 48)) 0
  let v : Int := if neg then -(n : Int) else n
  if v > 9223372036854775807 then 9223372036854775807 else if v < -9223372036854775808 then -9223372036854775808 else v

/-- numeric conversion of initialisers / assignments / casts (`numericCast`) -/
def numCast (t : Ty) (v : Val) : R Val :=
  match t with
  | .zahl =>
    (match v with
     | .float f =>
       -- fptosi is undefined outside the 64-bit range
       if f.isNaN || f ≥ 9223372036854775808.0 || f < -9223372036854775808.0 then .undef "Kommazahl outside the range of Zahl"
       else .ok (.int (floatToInt f))
     | _ => match v.toInt? with | some i => .ok (.int i) | none => .stuck "numCast")
  | .komma => (match v.toFloat? with | some f => .ok (.float f) | none => .stuck "numCast")
  | .byte =>
    (match v with
     | .float f =>
       -- fptoui is undefined unless the truncated value fits 8 bits
       if f.isNaN || f ≥ 256.0 || f ≤ -1.0 then .undef "Kommazahl outside the range of Byte"
       else .ok (.byte (wrap8 (floatToInt f)))
     | _ => match v.toInt? with | some i => .ok (.byte (wrap8 i)) | none => .stuck "numCast")
  | _ => .stuck "numCast"

def isNumTy : Ty → Bool | .zahl | .komma | .byte => true | _ => false
def isNumVal : Val → Bool | .int _ | .float _ | .byte _ => true | _ => false

/-- `e als T` -/
def castVal (v : Val) (t : Ty) : R Val :=
  match v, t with
  | .any c, .variable => .ok (.any c)
  | .any none, _ => .fehler
  | .any (some (ty, x)), t => if ty == t then .ok x else .fehler
  | v, .variable => .ok (.any (some (tyOfVal v, v)))
  | v, .zahl =>
    (match v with
     | .bool b => .ok (.int (if b then 1 else 0))
     | .char c => .ok (.int c)
     | .text cps => .ok (.int (textToInt cps))
     | _ => numCast .zahl v)
  | v, .komma => (match v with | .text _ => .stuck "text to float (strtod, not modelled)" | _ => numCast .komma v)
  | v, .byte =>
    (match v with
     | .bool b => .ok (.byte (if b then 1 else 0))
     | .char c => .ok (.byte (wrap8 c))
     | .text cps => .ok (.byte (wrap8 (textToInt cps)))
     | _ => numCast .byte v)
  | v, .wahr =>
    (match v with
     | .int i => .ok (.bool (i != 0)) | .byte n => .ok (.bool (n != 0)) | .bool b => .ok (.bool b)
     | _ => .stuck "cast wahr")
  | v, .buchstabe =>
    (match v with
     | .int i => .ok (.char (wrap32 i)) | .byte n => .ok (.char n) | .char c => .ok (.char c)
     | _ => .stuck "cast buchstabe")
  | v, .text =>
    (match v with
     | .int i => .ok (.text ((toString i).toList.map Char.toNat))
     | .float f => .ok (.text ((fmtFloatText f).toList.map Char.toNat))
     | .byte n => .ok (.text ((toString n).toList.map Char.toNat))
     | .bool b => .ok (.text ((if b then "wahr" else "falsch").toList.map Char.toNat))
     | .char c =>
       if c < 0 || c > 0x10FFFF || (0xD800 ≤ c && c ≤ 0xDFFF) then .undef "Buchstabe outside Unicode"
       else .ok (.text ((utf8OfCp c).toList.map Char.toNat))
     | .text cps => .ok (.text cps)
     | _ => .stuck "cast text")
  | .list te vs, .liste _ => .ok (.list te vs)
  | v, .liste e => .ok (.list e [v])                 -- a value as one-element list
  | v, _ => .ok v

/-- what `Schreibe` prints for a value -/
def showVal : Val → Option String
  | .int i => some (toString i)
  | .float f => some (fmtFloat f)
  | .byte n => some (toString n)
  | .bool b => some (if b then "wahr" else "falsch")
  | .char c => some (utf8OfCp c)
  | .text cps => some (textToString cps)
  | _ => none

end DDP.Spec

import DDP.Spec.Value

/-! # L2: abstract syntax of the core language (what the generator emits and `pp` prints) -/

namespace DDP.Spec

inductive UnOp | abs | negate | not | logicNot | len
  deriving Repr, BEq, Inhabited
inductive BinOp
  | and | or | xor | concat | plus | minus | mult | div | index | pow | log
  | logicAnd | logicOr | logicXor | mod | shl | shr | eq | ne | lt | gt | le | ge | sliceTo | sliceFrom
  deriving Repr, BEq, Inhabited
inductive TerOp | slice | between | falls
  deriving Repr, BEq, Inhabited

inductive Expr
  | intLit (v : Int)
  | floatLit (bits : Nat)
  | boolLit (b : Bool)
  | charLit (cp : Nat)
  | textLit (cps : List Nat)
  | var (name : String)
  | un (op : UnOp) (e : Expr)
  | bin (op : BinOp) (a b : Expr)
  | ter (op : TerOp) (a b c : Expr)
  | cast (e : Expr) (t : Ty)
  | typeCheck (e : Expr) (t : Ty)              -- `v eine Zahl ist`
  | default (t : Ty)                           -- `der Standardwert von …`
  | listLit (elem : Ty) (es : List Expr)
  | listRep (elem : Ty) (count value : Expr)   -- `n Mal v`
  | call (f : String) (args : List (String × Expr))
  | field (name : String) (e : Expr)           -- `name von e`
  | structLit (name : String) (args : List (String × Expr))
  deriving Inhabited

inductive Stmt
  | decl (t : Ty) (name : String) (init : Expr)
  | assign (target : Expr) (e : Expr)          -- target: var / index / field chain
  | compound (op : BinOp) (target : Expr) (e : Expr)   -- Erhöhe/Verringere/Vervielfache/Teile
  | ifElse (c : Expr) (thenB elseB : List Stmt)
  | while (c : Expr) (body : List Stmt)
  | doWhile (body : List Stmt) (c : Expr)
  | repeat (count : Expr) (body : List Stmt)
  | forRange (name : String) (t : Ty) (frm to : Expr) (step : Option Expr) (body : List Stmt)
  | forEach (t : Ty) (name : String) (idx : Option String) (e : Expr) (body : List Stmt)
  | break
  | continue
  | ret (e : Option Expr)
  | expr (e : Expr)
  | print (e : Expr) (newline : Bool)
  | todo                                       -- `...`
  deriving Inhabited

structure Param where
  name : String
  ty : Ty
  isRef : Bool
  deriving Inhabited

structure Func where
  name : String
  params : List Param
  ret : Ty
  body : List Stmt
  deriving Inhabited

structure StructDecl where
  name : String
  fields : List (String × Ty × Expr)           -- name, type, default value
  deriving Inhabited

structure Program where
  structs : List StructDecl
  funcs : List Func
  main : List Stmt
  deriving Inhabited

end DDP.Spec

import DDP.Impl.Scanner

/-! # L2: what positions, blanks and coverage *mean* (independent of the scanner) -/

namespace DDP.Scanner

/-- position of the character after `c`, counted in code points: a line break
starts a new line at column 1, any other code point advances the column -/
def Pos.step (p : Pos) (c : Char) : Pos :=
  if c = '\n' then ⟨p.line + 1, 1⟩ else ⟨p.line, p.col + 1⟩

/-- the position reached from `p` after the text `cs` -/
def posAfter (p : Pos) (cs : List Char) : Pos := cs.foldl Pos.step p

def Blank (cs : List Char) : Prop := ∀ c ∈ cs, isSpace c = true

/-- the part of the source covered by the segments (gap, then token text, …) -/
def coveredBy : List Seg → List Char
  | [] => []
  | s :: ss => s.gap ++ s.body ++ coveredBy ss

/-- every token starts where the text before it ends and ends after its own text -/
def PosOk (p : Pos) : List Seg → Prop
  | [] => True
  | s :: ss => s.tok.start = posAfter p s.gap ∧ s.tok.stop = posAfter p (s.gap ++ s.body) ∧
      PosOk (posAfter p (s.gap ++ s.body)) ss

/-- indentation depth of a line prefix consisting of blanks: tabs count one,
every full group of four consecutive spaces counts one (`n` = spaces pending) -/
def indentSpec : Nat → List Char → Nat
  | _, [] => 0
  | n, c :: cs =>
    if c = ' ' then (if n + 1 = 4 then 1 + indentSpec 0 cs else indentSpec (n + 1) cs)
    else if c = '\t' then 1 + indentSpec 0 cs
    else indentSpec 0 cs

end DDP.Scanner

import DDP.Spec.Syntax

/-!
# L2: the static rules of the core language

`checkProgram` decides whether a program of the core language (the syntax the generator emits)
respects DDP's static rules: names are declared and in scope, no redeclaration in one scope, every
operand / argument / initialiser / assigned value / condition / loop bound / returned value has an
admissible type, `Verlasse`/`Fahre fort` only inside loops, a value-returning function ends in a
return.  The typing rules are those of `typechecker.go` (Visit*Expr, VisitVarDecl, VisitAssignStmt,
VisitIfStmt, VisitWhileStmt, VisitForStmt, VisitForRangeStmt, VisitReturnStmt, VisitFuncCall,
VisitStructLiteral) and of the resolver (scopes, loop depth) / parser (final return).
`none` = ill-typed.
-/

namespace DDP.Spec

def Ty.isNum : Ty → Bool | .zahl | .komma | .byte => true | _ => false
def Ty.isInt : Ty → Bool | .zahl | .byte => true | _ => false
def Ty.isList : Ty → Bool | .liste _ => true | _ => false
def Ty.isPrim : Ty → Bool | .zahl | .komma | .byte | .wahr | .buchstabe | .text => true | _ => false
/-- `GetListElementType`: the element type of a list, the type itself otherwise -/
def Ty.elem : Ty → Ty | .liste e => e | t => t

/-- initialisers and assignments (`VisitVarDecl`, `VisitAssignStmt`) -/
def assignable (target value : Ty) : Bool :=
  target == value || (target == .variable && value != .nichts) || (target.isNum && value.isNum)

/-- return values (`VisitReturnStmt`): the declared type exactly, or anything into a Variable -/
def returnable (declared value : Ty) : Bool :=
  declared == value || (declared == .variable && value != .nichts)

def castOk (src target : Ty) : Bool :=
  if src == .variable || (target == .variable && src != .nichts) then true
  else match target with
    | .liste e => src == e
    | .zahl => src.isPrim
    | .komma => src == .text || src.isNum
    | .byte => src.isNum
    | .wahr => src == .zahl || src == .wahr || src == .byte
    | .buchstabe => src == .zahl || src == .buchstabe || src == .byte
    | .text => src.isPrim
    | _ => false

def unTy (op : UnOp) (a : Ty) : Option Ty :=
  match op with
  | .abs | .negate => if a.isNum then some (if a == .byte then .zahl else a) else none
  | .not => if a == .wahr then some .wahr else none
  | .logicNot => if a.isInt then some a else none
  | .len => if a.isList || a == .text then some .zahl else none

def binTy (op : BinOp) (a b : Ty) : Option Ty :=
  match op with
  | .and | .or | .xor => if a == .wahr && b == .wahr then some .wahr else none
  | .concat =>
    if !a.isList && !b.isList && (a == .text || b == .text) then
      (if (a == .text || a == .buchstabe) && (b == .text || b == .buchstabe) then some .text else none)
    else if a.elem == b.elem then some (.liste a.elem) else none
  | .plus | .minus | .mult =>
    if a.isNum && b.isNum then
      some (if a == .zahl && b == .zahl then .zahl else if a == .byte && b == .byte then .byte
            else if a == .komma || b == .komma then .komma else .zahl)
    else none
  | .index => if (a.isList || a == .text) && b.isInt then some (if a.isList then a.elem else .buchstabe) else none
  | .sliceTo | .sliceFrom => if (a.isList || a == .text) && b.isInt then some a else none
  | .div | .pow | .log => if a.isNum && b.isNum then some .komma else none
  | .mod | .logicAnd | .logicOr | .logicXor =>
    if a.isInt && b.isInt then some (if a == .zahl || b == .zahl then .zahl else .byte) else none
  | .shl | .shr => if a.isInt && b.isInt then some a else none
  | .eq | .ne => if a == b then some .wahr else none
  | .lt | .gt | .le | .ge => if a.isNum && b.isNum then some .wahr else none

def terTy (op : TerOp) (a b c : Ty) : Option Ty :=
  match op with
  | .slice => if (a.isList || a == .text) && b.isInt && c.isInt then some a else none
  | .between => if a.isNum && b.isNum && c.isNum then some .wahr else none
  | .falls => if a == c && b == .wahr then some a else none

abbrev TScope := List (String × Ty)

structure SEnv where
  scopes : List TScope          -- innermost first
  globals : TScope              -- visible in functions
  funcs : List Func
  structs : List StructDecl
  loopDepth : Nat
  ret : Option Ty               -- some t inside a function with return type t (`nichts` for none)

def SEnv.lookup (env : SEnv) (n : String) : Option Ty :=
  match env.scopes.findSome? (fun sc => (sc.find? (·.1 == n)).map (·.2)) with
  | some t => some t
  | none => (env.globals.find? (·.1 == n)).map (·.2)

def SEnv.push (env : SEnv) : SEnv := { env with scopes := [] :: env.scopes }

/-- declare in the innermost scope; `none` when the name is already declared there -/
def SEnv.declare (env : SEnv) (n : String) (t : Ty) : Option SEnv :=
  match env.scopes with
  | sc :: rest => if (sc.find? (·.1 == n)).isSome then none else some { env with scopes := ((n, t) :: sc) :: rest }
  | [] => some { env with scopes := [[(n, t)]] }

def fieldTy (env : SEnv) (sname fname : String) : Option Ty :=
  (env.structs.find? (·.name == sname)).bind fun sd => (sd.fields.find? (·.1 == fname)).map (·.2.1)

mutual
def typeOf (env : SEnv) : Expr → Option Ty
  | .intLit _ => some .zahl
  | .floatLit _ => some .komma
  | .boolLit _ => some .wahr
  | .charLit _ => some .buchstabe
  | .textLit _ => some .text
  | .var n => env.lookup n
  | .un op a => (typeOf env a).bind (unTy op)
  | .bin op a b => (typeOf env a).bind fun ta => (typeOf env b).bind fun tb => binTy op ta tb
  | .ter op a b c => (typeOf env a).bind fun ta => (typeOf env b).bind fun tb => (typeOf env c).bind fun tc => terTy op ta tb tc
  | .cast a t => (typeOf env a).bind fun ta => if castOk ta t then some t else none
  | .typeCheck a t => (typeOf env a).bind fun ta => if ta == .variable && t != .variable then some .wahr else none
  | .default t => some t
  | .listLit t es => if typeAll env es t then some (.liste t) else none
  | .listRep t cnt v =>
    (typeOf env cnt).bind fun tc => (typeOf env v).bind fun tv => if tc.isInt && tv == t then some (.liste t) else none
  | .call f args =>
    match env.funcs.find? (·.name == f) with
    | none => none
    | some fd =>
      if args.length == fd.params.length && typeArgs env fd.params args then some fd.ret else none
  | .field n a =>
    (typeOf env a).bind fun ta => match ta with | .kombi s => fieldTy env s n | _ => none
  | .structLit name args =>
    match env.structs.find? (·.name == name) with
    | none => none
    | some sd => if typeFields env sd.fields args then some (.kombi name) else none
def typeAll (env : SEnv) : List Expr → Ty → Bool
  | [], _ => true
  | e :: r, t => (match typeOf env e with | some te => te == t | none => false) && typeAll env r t
/-- every argument names a parameter and has exactly its type; a Referenz argument is an
assignable (and not a Buchstabe of a Text) -/
def typeArgs (env : SEnv) (params : List Param) : List (String × Expr) → Bool
  | [] => true
  | (pn, ae) :: r =>
    (match params.find? (·.name == pn) with
     | none => false
     | some p =>
       (match typeOf env ae with
        | some ta => ta == p.ty
        | none => false) &&
       (!p.isRef || (match ae with
                     | .var _ => true
                     | .bin .index (.var l) _ => (match env.lookup l with | some .text => false | _ => true)
                     | .bin .index _ _ => true
                     | .field _ _ => true
                     | _ => false))) && typeArgs env params r
def typeFields (env : SEnv) (fields : List (String × Ty × Expr)) : List (String × Expr) → Bool
  | [] => true
  | (fname, fe) :: r =>
    (match fields.find? (·.1 == fname) with
     | none => false
     | some (_, ft, _) => (match typeOf env fe with | some te => te == ft | none => false)) && typeFields env fields r
end

/-- an assignable: variable, list element, Buchstabe of a Text, field -/
def isTarget : Expr → Bool
  | .var _ => true
  | .bin .index a _ => isTarget a
  | .field _ a => isTarget a
  | _ => false

mutual
/-- one statement: the environment after it (declarations extend the innermost scope) -/
def checkStmt (env : SEnv) : Stmt → Option SEnv
  | .decl t n e =>
    (typeOf env e).bind fun te => if assignable t te then env.declare n t else none
  | .assign target e =>
    if !isTarget target then none else
    (typeOf env e).bind fun te => (typeOf env target).bind fun tt => if assignable tt te then some env else none
  | .compound op target e =>
    if !isTarget target then none else
    (typeOf env target).bind fun tt => (typeOf env e).bind fun te =>
      (binTy op tt te).bind fun tr => if assignable tt tr then some env else none
  | .ifElse c a b =>
    if typeOf env c == some .wahr && (checkBlock env.push a).isSome && (checkBlock env.push b).isSome then some env else none
  | .while c body =>
    if typeOf env c == some .wahr && (checkBlock { env.push with loopDepth := env.loopDepth + 1 } body).isSome then some env else none
  | .doWhile body c =>
    if typeOf env c == some .wahr && (checkBlock { env.push with loopDepth := env.loopDepth + 1 } body).isSome then some env else none
  | .repeat cnt body =>
    (typeOf env cnt).bind fun tc =>
      if tc.isInt && (checkBlock { env.push with loopDepth := env.loopDepth + 1 } body).isSome then some env else none
  | .forRange n t frm to step body =>
    (typeOf env frm).bind fun tf => (typeOf env to).bind fun tt =>
      let stepOk := match step with | none => true | some s => (match typeOf env s with | some ts => ts.isNum | none => false)
      if t.isNum && assignable t tf && tt.isNum && stepOk then
        (env.push.declare n t).bind fun env1 =>
          if (checkBlock { env1.push with loopDepth := env.loopDepth + 1 } body).isSome then some env else none
      else none
  | .forEach t n idx e body =>
    (typeOf env e).bind fun te =>
      let elemOk := match te with | .liste el => el == t | .text => t == .buchstabe | _ => false
      if !elemOk then none else
      (env.push.declare n t).bind fun env1 =>
        (match idx with | none => some env1 | some i => env1.declare i .zahl).bind fun env2 =>
          if (checkBlock { env2.push with loopDepth := env.loopDepth + 1 } body).isSome then some env else none
  | .break => if env.loopDepth > 0 then some env else none
  | .continue => if env.loopDepth > 0 then some env else none
  | .ret none => (match env.ret with | some .nichts => some env | _ => none)
  | .ret (some e) =>
    (match env.ret with
     | some rt => (typeOf env e).bind fun te => if rt != .nichts && returnable rt te then some env else none
     | none => none)
  | .expr e => (typeOf env e).map fun _ => env     -- any well-typed expression is a statement (`parser.expressionStatement`)
  | .print e _ => (typeOf env e).bind fun te => if te.isPrim || (te.isList && te.elem.isPrim) then some env else none
  | .todo => some env
def checkBlock (env : SEnv) : List Stmt → Option SEnv
  | [] => some env
  | s :: r => (checkStmt env s).bind fun env' => checkBlock env' r
end

/-- a value-returning function must end in a return (or `...`) -/
def endsInReturn (body : List Stmt) : Bool :=
  match body.getLast? with
  | some (.ret _) | some .todo => true
  | _ => false

def checkFunc (env : SEnv) (f : Func) : Bool :=
  let scope : TScope := f.params.map fun p => (p.name, p.ty)
  (f.ret == .nichts || endsInReturn f.body) &&
  (checkBlock { env with scopes := [scope], loopDepth := 0, ret := some f.ret } f.body).isSome

/-- functions see the functions declared before them and the first `nglobals` module variables -/
def checkFuncs (env : SEnv) : List Func → List Func → Bool
  | _, [] => true
  | before, f :: r => checkFunc { env with funcs := before } f && checkFuncs env (before ++ [f]) r

def checkStructs (structs : List StructDecl) : Bool :=
  structs.all fun sd =>
    sd.fields.all fun (_, ft, d) =>
      let env : SEnv := { scopes := [[]], globals := [], funcs := [], structs := structs, loopDepth := 0, ret := none }
      match typeOf env d with | some td => assignable ft td | none => false

def checkProgram (p : Program) (nglobals : Nat) : Bool :=
  let env0 : SEnv := { scopes := [[]], globals := [], funcs := p.funcs, structs := p.structs, loopDepth := 0, ret := none }
  checkStructs p.structs &&
  (match checkBlock { env0 with funcs := [] } (p.main.take nglobals) with
   | none => false
   | some envG =>
     let globals := match envG.scopes with | sc :: _ => sc | [] => []
     checkFuncs { env0 with globals := globals, scopes := [] } [] p.funcs &&
     (checkBlock { envG with funcs := p.funcs } (p.main.drop nglobals)).isSome)

end DDP.Spec

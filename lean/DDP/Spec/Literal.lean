/-!
# L2: what a text / character literal denotes

Reading left to right: a backslash followed by an escape letter denotes the letter's
image; any other character denotes itself; a backslash followed by anything else (or by
nothing) is not a literal.
-/

namespace DDP.LiteralSpec

/-- the escape sequences of DDP: letter ↦ denoted character (`q` is the literal's quote) -/
def escapeImage (q : Char) (l : Char) : Option Char :=
  if l = 'a' then some (Char.ofNat 7) else if l = 'b' then some (Char.ofNat 8)
  else if l = 'n' then some '\n' else if l = 'r' then some '\r' else if l = 't' then some '\t'
  else if l = '\\' then some '\\' else if l = q then some q else none

def unescape (q : Char) : List Char → Option (List Char)
  | [] => some []
  | c :: rest =>
    if c = '\\' then
      match rest with
      | [] => none
      | l :: rest' =>
        match escapeImage q l with
        | some img => (unescape q rest').map (img :: ·)
        | none => none
    else (unescape q rest).map (c :: ·)
termination_by cs => cs.length

/-- the canonical way to write a text: special characters by their escape sequence -/
def escapeChar (q : Char) (c : Char) : List Char :=
  if c = Char.ofNat 7 then ['\\', 'a'] else if c = Char.ofNat 8 then ['\\', 'b']
  else if c = '\n' then ['\\', 'n'] else if c = '\r' then ['\\', 'r'] else if c = '\t' then ['\\', 't']
  else if c = '\\' then ['\\', '\\'] else if c = q then ['\\', q] else [c]

def escape (q : Char) (cs : List Char) : List Char := (cs.map (escapeChar q)).flatten

/-! ### decimal-comma literals: the exact value and "correctly rounded" -/

def decValue (ds : List Char) : Nat := ds.foldl (fun n d => 10 * n + (d.toNat - 48)) 0

/-- a non-negative finite double, given by its bit pattern, as a multiple of 2^-1074 -/
def doubleUnits (bits : Nat) : Nat :=
  let e := bits / 2 ^ 52 % 2048
  let m := bits % 2 ^ 52
  if e = 0 then m else (2 ^ 52 + m) * 2 ^ (e - 1)

def absDiff (a b : Nat) : Nat := if a ≤ b then b - a else a - b

/-- `bits` is the IEEE-754 double nearest to the decimal `intDigits,fracDigits`
(ties to even mantissa) — decided with exact integer arithmetic -/
def isNearestDouble (intDigits fracDigits : List Char) (bits : Nat) : Bool :=
  let n := decValue (intDigits ++ fracDigits)
  let k := fracDigits.length
  let a := n * 2 ^ 1074
  let dist (b : Nat) : Nat := absDiff a (doubleUnits b * 10 ^ k)
  let better (nb : Nat) : Bool := dist bits < dist nb || (dist bits == dist nb && bits % 2 == 0)
  bits < 2047 * 2 ^ 52 && (bits == 0 || better (bits - 1)) && better (bits + 1)

end DDP.LiteralSpec

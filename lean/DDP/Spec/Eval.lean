import DDP.Spec.Prim

/-!
# L2: the reference evaluator of the core language

Values are immutable; variables live in a store of locations; a Referenz parameter is bound
to the caller's location plus a path (list element / field), everything else is copied.
`fuel` bounds the number of evaluation steps (`outOfFuel` is not a behaviour of the program).
-/

namespace DDP.Spec

inductive PathElem | idx (i : Nat) | fld (name : String)
  deriving Inhabited

structure Binding where
  loc : Nat
  path : List PathElem
  ty : Ty
  deriving Inhabited

structure State where
  store : Array Val
  out : Array String
  deriving Inhabited

abbrev Scope := List (String × Binding)

structure Env where
  scopes : List Scope
  globals : Scope                 -- module-level variables, visible in functions
  deriving Inhabited

inductive Outcome
  | normal | brk | cont
  | ret (v : Option Val)
  | fehler
  | stuck (why : String)
  | undef (why : String)
  | outOfFuel
  deriving Inhabited

def Env.lookup (env : Env) (n : String) : Option Binding :=
  match env.scopes.findSome? (fun sc => (sc.find? (·.1 == n)).map (·.2)) with
  | some b => some b
  | none => (env.globals.find? (·.1 == n)).map (·.2)

def Env.push (env : Env) : Env := { env with scopes := [] :: env.scopes }

def Env.bind (env : Env) (n : String) (b : Binding) : Env :=
  match env.scopes with
  | sc :: rest => { env with scopes := ((n, b) :: sc) :: rest }
  | [] => { env with scopes := [[(n, b)]] }

def getPath : Val → List PathElem → Option Val
  | v, [] => some v
  | .list _ vs, .idx i :: r => (vs[i]?).bind (fun x => getPath x r)
  | .struct _ fs, .fld n :: r => ((fs.find? (·.1 == n)).map (·.2)).bind (fun x => getPath x r)
  | .text cps, [.idx i] => (cps[i]?).map (fun c => Val.char c)
  | _, _ => none

def setPath : Val → List PathElem → Val → Option Val
  | _, [], nv => some nv
  | .list t vs, .idx i :: r, nv =>
    match vs[i]? with
    | some x => (setPath x r nv).map (fun x' => .list t (vs.set i x'))
    | none => none
  | .struct n fs, .fld f :: r, nv =>
    match fs.find? (·.1 == f) with
    | some (_, x) => (setPath x r nv).map (fun x' => .struct n (fs.map (fun p => if p.1 == f then (p.1, x') else p)))
    | none => none
  | .text cps, [.idx i], .char c => if i < cps.length && c ≥ 0 then some (.text (cps.set i c.toNat)) else none
  | _, _, _ => none

def State.read (st : State) (b : Binding) : Option Val := (st.store[b.loc]?).bind (fun v => getPath v b.path)

def State.write (st : State) (b : Binding) (nv : Val) : Option State :=
  match st.store[b.loc]? with
  | some v => (setPath v b.path nv).map (fun v' => { st with store := st.store.set! b.loc v' })
  | none => none

def State.alloc (st : State) (v : Val) : State × Nat := ({ st with store := st.store.push v }, st.store.size)

/-- conversion applied when a value is stored into a holder of type `t`
(initialiser, assignment, `Variable` boxing) -/
def coerceTo (t : Ty) (v : Val) : R Val :=
  match t with
  | .variable => (match v with | .any c => .ok (.any c) | _ => .ok (.any (some (tyOfVal v, v))))
  | _ => if isNumTy t && isNumVal v then numCast t v else .ok v

def liftR {α} (r : R α) : Outcome := match r with | .ok _ => .normal | .fehler => .fehler | .stuck w => .stuck w | .undef w => .undef w

structure Ctx where
  structs : List StructDecl
  funcs : List Func

mutual

/-- evaluation of an expression: `(state, result)` -/
def evalExpr (ctx : Ctx) (fuel : Nat) (env : Env) (st : State) (e : Expr) : State × R Val :=
  match fuel with
  | 0 => (st, .stuck "out-of-fuel")
  | fuel + 1 =>
  match e with
  | .intLit v => (st, .ok (.int v))
  | .floatLit b => (st, .ok (.float (Float.ofBits (UInt64.ofNat b))))
  | .boolLit b => (st, .ok (.bool b))
  | .charLit c => (st, .ok (.char c))
  | .textLit cps => (st, .ok (.text cps))
  | .var n =>
    match env.lookup n with
    | some b => (match st.read b with | some v => (st, .ok v) | none => (st, .stuck ("dangling " ++ n)))
    | none => (st, .stuck ("unbound " ++ n))
  | .default t => (st, .ok (defaultVal ctx.structs (fun d => match (evalExpr ctx fuel env st d).2 with | .ok v => v | _ => .any none) t))
  | .un op a =>
    let (st, ra) := evalExpr ctx fuel env st a
    match ra with
    | .ok v =>
      (st, match op, v with
        | .abs, .int i => .ok (.int (wrap64 (if i < 0 then 0 - i else i)))
        | .abs, .float f => .ok (.float (if f < 0.0 then 0.0 - f else f))
        | .abs, .byte n => .ok (.int n)
        | .negate, .int i => .ok (.int (wrap64 (0 - i)))
        | .negate, .float f => .ok (.float (-f))
        | .negate, .byte n => .ok (.int (0 - (n : Int)))
        | .not, .bool b => .ok (.bool (!b))
        | .logicNot, .int i => .ok (.int (wrap64 (-i - 1)))
        | .logicNot, .byte n => .ok (.byte (255 - n))
        | .len, v => lenVal v
        | _, _ => .stuck "unary")
    | r => (st, r)
  | .bin .and a b =>
    let (st, ra) := evalExpr ctx fuel env st a
    (match ra with
     | .ok (.bool false) => (st, .ok (.bool false))
     | .ok (.bool true) => evalExpr ctx fuel env st b
     | .ok _ => (st, .stuck "und")
     | r => (st, r))
  | .bin .or a b =>
    let (st, ra) := evalExpr ctx fuel env st a
    (match ra with
     | .ok (.bool true) => (st, .ok (.bool true))
     | .ok (.bool false) => evalExpr ctx fuel env st b
     | .ok _ => (st, .stuck "oder")
     | r => (st, r))
  | .bin op a b =>
    let (st, ra) := evalExpr ctx fuel env st a
    match ra with
    | .ok va =>
      let (st, rb) := evalExpr ctx fuel env st b
      (match rb with
       | .ok vb =>
         (st, match op with
           | .xor => (match va, vb with | .bool x, .bool y => .ok (.bool (x != y)) | _, _ => .stuck "xor")
           | .concat => concatVals va vb
           | .plus | .minus | .mult => arith op va vb
           | .div => floatOp2 (· / ·) va vb
           | .pow => floatOp2 Float.pow va vb
           | .log => floatOp2 logOp va vb
           | .index => (match vb.toInt? with | some i => indexVal va i | none => .stuck "index")
           | .logicAnd | .logicOr | .logicXor => logic op va vb
           | .mod => modulo va vb
           | .shl => shift true va vb
           | .shr => shift false va vb
           | .eq => .ok (.bool (equalVals va vb))
           | .ne => .ok (.bool (!equalVals va vb))
           | .lt | .gt | .le | .ge => compareVals op va vb
           | .sliceTo => (match vb.toInt? with | some i => sliceVal va 1 i | none => .stuck "slice")
           | .sliceFrom =>
             (match vb.toInt?, lenVal va with
              | some i, .ok (.int n) => sliceVal va i n
              | _, _ => .stuck "slice")
           | _ => .stuck "binary")
       | r => (st, r))
    | r => (st, r)
  | .ter .falls a c b =>
    -- `a, falls c, ansonsten b`: only the chosen operand is evaluated
    let (st, rc) := evalExpr ctx fuel env st c
    (match rc with
     | .ok (.bool true) => evalExpr ctx fuel env st a
     | .ok (.bool false) => evalExpr ctx fuel env st b
     | .ok _ => (st, .stuck "falls")
     | r => (st, r))
  | .ter op a b c =>
    let (st, ra) := evalExpr ctx fuel env st a
    match ra with
    | .ok va =>
      let (st, rb) := evalExpr ctx fuel env st b
      (match rb with
       | .ok vb =>
         let (st, rc) := evalExpr ctx fuel env st c
         (match rc with
          | .ok vc =>
            (st, match op with
              | .slice => (match vb.toInt?, vc.toInt? with | some i, some j => sliceVal va i j | _, _ => .stuck "slice")
              | .between =>
                -- (a > c ∧ a < b) ∨ (a > b ∧ a < c)
                (match compareVals .gt va vc, compareVals .lt va vb, compareVals .gt va vb, compareVals .lt va vc with
                 | .ok (.bool p), .ok (.bool q), .ok (.bool r), .ok (.bool s) => .ok (.bool ((p && q) || (r && s)))
                 | _, _, _, _ => .stuck "between")
              | _ => .stuck "ternary")
          | r => (st, r))
       | r => (st, r))
    | r => (st, r)
  | .cast a t =>
    let (st, ra) := evalExpr ctx fuel env st a
    (match ra with | .ok v => (st, castVal v t) | r => (st, r))
  | .typeCheck a t =>
    let (st, ra) := evalExpr ctx fuel env st a
    (match ra with
     | .ok (.any (some (ty, _))) => (st, .ok (.bool (ty == t)))
     | .ok (.any none) => (st, .ok (.bool false))
     | .ok _ => (st, .stuck "typecheck")
     | r => (st, r))
  | .listLit t es => evalList ctx fuel env st t es []
  | .listRep t cnt v =>
    let (st, rc) := evalExpr ctx fuel env st cnt
    (match rc with
     | .ok c =>
       let (st, rv) := evalExpr ctx fuel env st v
       (match rv, c.toInt? with
        | .ok x, some n => if n < 0 then (st, .undef "negative list count") else (st, .ok (.list t (List.replicate n.toNat x)))
        | .ok _, none => (st, .stuck "Mal")
        | r, _ => (st, r))
     | r => (st, r))
  | .field n a =>
    let (st, ra) := evalExpr ctx fuel env st a
    (match ra with
     | .ok (.struct _ fs) => (match fs.find? (·.1 == n) with | some (_, v) => (st, .ok v) | none => (st, .stuck "field"))
     | .ok _ => (st, .stuck "field")
     | r => (st, r))
  | .structLit name args =>
    match ctx.structs.find? (·.name == name) with
    | none => (st, .stuck "struct")
    | some sd => evalFields ctx fuel env st name args sd.fields []
  | .call f args =>
    match ctx.funcs.find? (·.name == f) with
    | none => (st, .stuck ("unknown function " ++ f))
    | some fd =>
      -- arguments are evaluated in source order of the call; value parameters are copied
      let (st, rsc) := bindArgs ctx fuel env st fd args []
      match rsc with
      | .ok sc =>
        let fenv : Env := { scopes := [sc], globals := env.globals }
        let (st, o) := execBlock ctx fuel fenv st fd.body
        (match o with
         | .ret (some v) => (st, .ok v)
         | .ret none | .normal => (st, .ok (.any none))
         | .fehler => (st, .fehler)
         | .stuck w => (st, .stuck w)
         | .undef w => (st, .undef w)
         | .outOfFuel => (st, .stuck "out-of-fuel")
         | _ => (st, .stuck "break outside loop"))
      | .fehler => (st, .fehler) | .stuck w => (st, .stuck w) | .undef w => (st, .undef w)

/-- an assignable (variable, list element, field, Buchstabe of a Text) as a location + path -/
def evalLVal (ctx : Ctx) (fuel : Nat) (env : Env) (st : State) (e : Expr) : State × R Binding :=
  match fuel with
  | 0 => (st, .stuck "out-of-fuel")
  | fuel + 1 =>
  match e with
  | .var n => (match env.lookup n with | some b => (st, .ok b) | none => (st, .stuck ("unbound " ++ n)))
  | .bin .index a i =>
    let (st, rb) := evalLVal ctx fuel env st a
    (match rb with
     | .ok b =>
       let (st, ri) := evalExpr ctx fuel env st i
       (match ri with
        | .ok iv =>
          (match iv.toInt?, st.read b with
           | some k, some (.list te vs) =>
             if 1 ≤ k ∧ k ≤ vs.length then (st, .ok ⟨b.loc, b.path ++ [.idx (k - 1).toNat], te⟩) else (st, .fehler)
           | some k, some (.text cps) =>
             if 1 ≤ k ∧ k ≤ cps.length then (st, .ok ⟨b.loc, b.path ++ [.idx (k - 1).toNat], .buchstabe⟩) else (st, .fehler)
           | _, _ => (st, .stuck "lvalue index"))
        | .fehler => (st, .fehler) | .stuck w => (st, .stuck w) | .undef w => (st, .undef w))
     | r => (st, r))
  | .field n a =>
    let (st, rb) := evalLVal ctx fuel env st a
    (match rb with
     | .ok b =>
       (match st.read b with
        | some (.struct sn _) =>
          let fty := match ctx.structs.find? (·.name == sn) with
            | some sd => (match sd.fields.find? (·.1 == n) with | some (_, t, _) => t | none => .nichts)
            | none => .nichts
          (st, .ok ⟨b.loc, b.path ++ [.fld n], fty⟩)
        | _ => (st, .stuck "lvalue field"))
     | r => (st, r))
  | _ => (st, .stuck "not assignable")

def execBlock (ctx : Ctx) (fuel : Nat) (env : Env) (st : State) (ss : List Stmt) : State × Outcome :=
  match fuel with
  | 0 => (st, .outOfFuel)
  | fuel + 1 =>
  match ss with
  | [] => (st, .normal)
  | s :: rest =>
    let (env, st, o) := execStmt ctx fuel env st s
    match o with
    | .normal => execBlock ctx fuel env st rest
    | o => (st, o)

def execLoop (ctx : Ctx) (fuel : Nat) (env : Env) (st : State)
    (cond : Env → State → State × R Bool) (body : List Stmt) (after : Env → State → State) (first : Bool) : State × Outcome :=
  match fuel with
  | 0 => (st, .outOfFuel)
  | fuel + 1 =>
    let (st, rc) := if first then (st, R.ok true) else cond env st
    match rc with
    | .ok false => (st, .normal)
    | .ok true =>
      let (st, o) := execBlock ctx fuel env.push st body
      (match o with
       | .normal | .cont => execLoop ctx fuel env (after env st) cond body after false
       | .brk => (st, .normal)
       | o => (st, o))
    | .fehler => (st, .fehler)
    | .stuck w => (st, .stuck w)
    | .undef w => (st, .undef w)

def execStmt (ctx : Ctx) (fuel : Nat) (env : Env) (st : State) (s : Stmt) : Env × State × Outcome :=
  match fuel with
  | 0 => (env, st, .outOfFuel)
  | fuel + 1 =>
  match s with
  | .decl t n e =>
    let (st, r) := evalExpr ctx fuel env st e
    (match r with
     | .ok v =>
       (match coerceTo t v with
        | .ok v' => let (st, loc) := st.alloc v'; (env.bind n ⟨loc, [], t⟩, st, .normal)
        | r => (env, st, liftR r))
     | r => (env, st, liftR r))
  | .assign target e =>
    let (st, r) := evalExpr ctx fuel env st e
    (match r with
     | .ok v =>
       let (st, rb) := evalLVal ctx fuel env st target
       (match rb with
        | .ok b =>
          (match coerceTo b.ty v with
           | .ok v' => (match st.write b v' with | some st' => (env, st', .normal) | none => (env, st, .stuck "write"))
           | r => (env, st, liftR r))
        | r => (env, st, liftR r))
     | r => (env, st, liftR r))
  | .compound op target e =>
    -- `Erhöhe a um e` = `Speichere a op e in a` (the target is read, then written)
    let (st, rb) := evalLVal ctx fuel env st target
    (match rb with
     | .ok b =>
       (match st.read b with
        | some cur =>
          let (st, r) := evalExpr ctx fuel env st e
          (match r with
           | .ok v =>
             let res := match op with
               | .div => floatOp2 (· / ·) cur v
               | _ => arith op cur v
             (match res with
              | .ok nv =>
                (match coerceTo b.ty nv with
                 | .ok nv' => (match st.write b nv' with | some st' => (env, st', .normal) | none => (env, st, .stuck "write"))
                 | r => (env, st, liftR r))
              | r => (env, st, liftR r))
           | r => (env, st, liftR r))
        | none => (env, st, .stuck "read"))
     | r => (env, st, liftR r))
  | .ifElse c tb eb =>
    let (st, rc) := evalExpr ctx fuel env st c
    (match rc with
     | .ok (.bool true) => let (st, o) := execBlock ctx fuel env.push st tb; (env, st, o)
     | .ok (.bool false) => let (st, o) := execBlock ctx fuel env.push st eb; (env, st, o)
     | .ok _ => (env, st, .stuck "if")
     | r => (env, st, liftR r))
  | .while c body =>
    let cond := fun (env : Env) (st : State) =>
      let (st, r) := evalExpr ctx fuel env st c
      (st, match r with | .ok (.bool b) => R.ok b | .ok _ => .stuck "while" | .fehler => .fehler | .stuck w => .stuck w | .undef w => .undef w)
    let (st, o) := execLoop ctx fuel env st cond body (fun _ st => st) false
    (env, st, o)
  | .doWhile body c =>
    let cond := fun (env : Env) (st : State) =>
      let (st, r) := evalExpr ctx fuel env st c
      (st, match r with | .ok (.bool b) => R.ok b | .ok _ => .stuck "while" | .fehler => .fehler | .stuck w => .stuck w | .undef w => .undef w)
    let (st, o) := execLoop ctx fuel env st cond body (fun _ st => st) true
    (env, st, o)
  | .repeat cnt body =>
    let (st, rc) := evalExpr ctx fuel env st cnt
    (match rc with
     | .ok cv =>
       (match cv.toInt? with
        | some n =>
          -- a hidden counter that is decremented before every iteration; the body runs while it is positive, so a count of
          -- zero or below means no repetition at all
          let (st, loc) := st.alloc (.int n)
          let cond := fun (_ : Env) (st : State) =>
            match st.store[loc]? with
            | some (.int k) => ({ st with store := st.store.set! loc (.int (k - 1)) }, R.ok (k > 0))
            | _ => (st, .stuck "repeat")
          let (st, o) := execLoop ctx fuel env st cond body (fun _ st => st) false
          (env, st, o)
        | none => (env, st, .stuck "repeat"))
     | r => (env, st, liftR r))
  | .forRange n t frm to step body =>
    let (st, rf) := evalExpr ctx fuel env st frm
    (match rf with
     | .ok fv =>
       (match coerceTo t fv with
        | .ok fv' =>
          let (st, loc) := st.alloc fv'
          let env1 := env.push.bind n ⟨loc, [], t⟩
          let (st, rs) := match step with
            | some se => evalExpr ctx fuel env1 st se
            | none => (st, .ok (if t == Ty.komma then .float 1.0 else .int 1))
          (match rs with
           | .ok sv =>
             -- the loop runs on a hidden index; the visible counter is rewritten from it
             let isF := t == Ty.komma
             let idx0 : Val := if isF then (match fv'.toFloat? with | some f => .float f | none => .float 0.0) else (match fv'.toInt? with | some i => .int i | none => .int 0)
             let (st, iloc) := st.alloc idx0
             let down : Bool := if isF then (match sv.toFloat? with | some f => f < 0.0 | none => false) else (match sv.toInt? with | some i => i < 0 | none => false)
             let cond := fun (env : Env) (st : State) =>
               let (st, rt) := evalExpr ctx fuel env st to
               match rt, st.store[iloc]? with
               | .ok tv, some iv =>
                 -- the end value is compared in the type of the counter (`floatOrByteAsInt` / `intOrByteAsFloat`)
                 (match numCast (if isF then Ty.komma else Ty.zahl) tv with
                  | .ok tv' =>
                    (match compareVals (if down then .ge else .le) iv tv' with
                     | .ok (.bool b) => (st, R.ok b)
                     | _ => (st, .stuck "for"))
                  | .fehler => (st, .fehler)
                  | .stuck w => (st, .stuck w)
                  | .undef w => (st, .undef w))
               | .fehler, _ => (st, .fehler)
               | .stuck w, _ => (st, .stuck w)
               | .undef w, _ => (st, .undef w)
               | _, _ => (st, .stuck "for")
             let after := fun (_ : Env) (st : State) =>
               match st.store[iloc]? with
               | some iv =>
                 let nv : Val := if isF then
                     (match iv.toFloat?, sv.toFloat? with | some a, some b => .float (a + b) | _, _ => iv)
                   else (match iv.toInt?, sv.toInt? with | some a, some b => .int (wrap64 (a + b)) | _, _ => iv)
                 let vis : Val := match coerceTo t nv with | .ok x => x | _ => nv
                 { st with store := (st.store.set! iloc nv).set! loc vis }
               | none => st
             let (st, o) := execLoop ctx fuel env1 st cond body after false
             (env, st, o)
           | r => (env, st, liftR r))
        | r => (env, st, liftR r))
     | r => (env, st, liftR r))
  | .forEach t n idxName e body =>
    let (st, re) := evalExpr ctx fuel env st e
    (match re with
     | .ok iter =>
       let elems : Option (List Val) := match iter with
         | .list _ vs => some vs
         | .text cps => some (cps.map (fun (c : Nat) => Val.char (Int.ofNat c)))
         | _ => none
       (match elems with
        | none => (env, st, .stuck "foreach")
        | some vs =>
          let (st, o) := execForEach ctx fuel env st t n idxName body vs 1
          (env, st, o))
     | r => (env, st, liftR r))
  | .break => (env, st, .brk)
  | .continue => (env, st, .cont)
  | .ret none => (env, st, .ret none)
  | .ret (some e) =>
    let (st, r) := evalExpr ctx fuel env st e
    (match r with | .ok v => (env, st, .ret (some v)) | r => (env, st, liftR r))
  | .expr e =>
    let (st, r) := evalExpr ctx fuel env st e
    (env, st, liftR r)
  | .print e nl =>
    let (st, r) := evalExpr ctx fuel env st e
    (match r with
     | .ok (.char c) =>
       -- only Unicode scalar values have a defined UTF-8 form
       if c < 0 || c > 0x10FFFF || (0xD800 ≤ c && c ≤ 0xDFFF) then (env, st, .undef "Buchstabe outside Unicode")
       else (env, { st with out := st.out.push (if nl then utf8OfCp c ++ "\n" else utf8OfCp c) }, .normal)
     | .ok v =>
       (match showVal v with
        | some s => (env, { st with out := st.out.push (if nl then s ++ "\n" else s) }, .normal)
        | none => (env, st, .stuck "print"))
     | r => (env, st, liftR r))
  | .todo => (env, st, .fehler)


/-- the elements of a list literal, left to right -/
def evalList (ctx : Ctx) (fuel : Nat) (env : Env) (st : State) (t : Ty) (es : List Expr) (acc : List Val) : State × R Val :=
  match fuel with
  | 0 => (st, .stuck "out-of-fuel")
  | fuel + 1 =>
  match es with
  | [] => (st, .ok (.list t acc.reverse))
  | x :: xs =>
    let (st, r) := evalExpr ctx fuel env st x
    match r with
    | .ok v => evalList ctx fuel env st t xs (v :: acc)
    | r => (st, r)

/-- the fields of a Kombination in declaration order: the given argument or the default -/
def evalFields (ctx : Ctx) (fuel : Nat) (env : Env) (st : State) (name : String) (args : List (String × Expr))
    (fs : List (String × Ty × Expr)) (acc : List (String × Val)) : State × R Val :=
  match fuel with
  | 0 => (st, .stuck "out-of-fuel")
  | fuel + 1 =>
  match fs with
  | [] => (st, .ok (.struct name acc.reverse))
  | (fname, fty, dflt) :: rest =>
    let src := match args.find? (·.1 == fname) with | some (_, x) => x | none => dflt
    let (st, r) := evalExpr ctx fuel env st src
    match r with
    | .ok v =>
      (match coerceTo fty v with
       | .ok v' => evalFields ctx fuel env st name args rest ((fname, v') :: acc)
       | .fehler => (st, .fehler) | .stuck w => (st, .stuck w) | .undef w => (st, .undef w))
    | r => (st, r)

/-- arguments in the order of the call: a Referenz parameter is bound to the caller's location,
a value parameter to a fresh copy -/
def bindArgs (ctx : Ctx) (fuel : Nat) (env : Env) (st : State) (fd : Func) (as : List (String × Expr)) (sc : Scope) : State × R Scope :=
  match fuel with
  | 0 => (st, .stuck "out-of-fuel")
  | fuel + 1 =>
  match as with
  | [] => (st, .ok sc)
  | (pn, ae) :: rest =>
    match fd.params.find? (·.name == pn) with
    | none => (st, .stuck "param")
    | some p =>
      if p.isRef then
        let (st, rb) := evalLVal ctx fuel env st ae
        match rb with
        | .ok b => bindArgs ctx fuel env st fd rest ((pn, b) :: sc)
        | .fehler => (st, .fehler) | .stuck w => (st, .stuck w) | .undef w => (st, .undef w)
      else
        let (st, r) := evalExpr ctx fuel env st ae
        match r with
        | .ok v =>
          let (st, loc) := st.alloc v
          bindArgs ctx fuel env st fd rest ((pn, ⟨loc, [], p.ty⟩) :: sc)
        | .fehler => (st, .fehler) | .stuck w => (st, .stuck w) | .undef w => (st, .undef w)

/-- the body once per element of the (already copied) operand -/
def execForEach (ctx : Ctx) (fuel : Nat) (env : Env) (st : State) (t : Ty) (n : String) (idxName : Option String)
    (body : List Stmt) (vs : List Val) (k : Nat) : State × Outcome :=
  match fuel with
  | 0 => (st, .outOfFuel)
  | fuel + 1 =>
  match vs with
  | [] => (st, .normal)
  | v :: rest =>
    let (st, loc) := st.alloc v
    let env1 := env.push.bind n ⟨loc, [], t⟩
    let (st, env1) := match idxName with
      | some iname => let (st, il) := st.alloc (.int k); (st, env1.bind iname ⟨il, [], .zahl⟩)
      | none => (st, env1)
    let (st, o) := execBlock ctx fuel env1.push st body
    match o with
    | .normal | .cont => execForEach ctx fuel env st t n idxName body rest (k + 1)
    | .brk => (st, .normal)
    | o => (st, o)

end

structure RunResult where
  stdout : String
  outcome : String          -- ok | laufzeitfehler | stuck:<why> | undefined:<why> | out-of-fuel
  deriving Repr

/-- run a whole program: module-level declarations are globals (visible in functions) -/
def run (p : Program) (fuel : Nat) : RunResult :=
  let ctx : Ctx := { structs := p.structs, funcs := p.funcs }
  -- top level statements share one scope that doubles as the global scope for functions:
  -- execute statement by statement, re-exporting the scope as globals
  let rec go (fuel' : Nat) (env : Env) (st : State) (ss : List Stmt) : State × Outcome :=
    match fuel' with
    | 0 => (st, .outOfFuel)
    | fuel' + 1 =>
    match ss with
    | [] => (st, .normal)
    | s :: rest =>
      let (env, st, o) := execStmt ctx fuel env st s
      let env := { env with globals := match env.scopes.getLast? with | some sc => sc | none => [] }
      match o with
      | .normal => go fuel' env st rest
      | o => (st, o)
  let (st, o) := go (p.main.length + 1) { scopes := [[]], globals := [] } { store := #[], out := #[] } p.main
  let out := String.join st.out.toList
  match o with
  | .normal | .ret _ => ⟨out, "ok"⟩
  | .fehler => ⟨out, "laufzeitfehler"⟩
  | .stuck w => ⟨out, "stuck:" ++ w⟩
  | .undef w => ⟨out, "undefined:" ++ w⟩
  | .outOfFuel => ⟨out, "out-of-fuel"⟩
  | .brk | .cont => ⟨out, "stuck:break outside loop"⟩

end DDP.Spec

def hello := "world"

/-! helpers for the line-protocol drivers (core only) -/
namespace DDP.Drv

def hexDigit (n : Nat) : Char := if n < 10 then Char.ofNat (48 + n) else Char.ofNat (87 + n)

def hexOfBytes (b : ByteArray) : String := Id.run do
  let mut s := ""
  for x in b.toList do
    s := s.push (hexDigit (x.toNat / 16))
    s := s.push (hexDigit (x.toNat % 16))
  return s

def hexOfString (s : String) : String := hexOfBytes s.toUTF8

def hexVal (c : Char) : Option Nat :=
  if '0' ≤ c && c ≤ '9' then some (c.toNat - 48)
  else if 'a' ≤ c && c ≤ 'f' then some (c.toNat - 87)
  else if 'A' ≤ c && c ≤ 'F' then some (c.toNat - 55)
  else none

def bytesOfHex (s : String) : Option ByteArray :=
  let rec go : List Char → ByteArray → Option ByteArray
    | [], acc => some acc
    | [_], _ => none
    | a :: b :: r, acc => do
      let x ← hexVal a
      let y ← hexVal b
      go r (acc.push (UInt8.ofNat (x * 16 + y)))
  go s.toList ByteArray.empty

def stringOfHex (s : String) : Option String := do
  let b ← bytesOfHex s
  String.fromUTF8? b

end DDP.Drv

/-!
# L1: the constant-parameter annotator (`src/ast/annotators/const_func_param.go`)

At `-O 2` the code generator hands a caller's variable to a *value* parameter without a copy when the annotator has flagged
that parameter constant (and nothing else can reach the variable — that second condition, `isUnaliasedLocal` in
`compiler.go`, is not part of this model). The annotator is one pass over the module: every function's parameters start
"constant"; an assignment to (a part of) a parameter, and handing a parameter to a callee's parameter that is not known to be
constant, clear the flag; flags never come back. What is known about a callee is what the pass has *finished* before: a
function looked at later, and the function under analysis itself, are unknown.

The model keeps of a function exactly what the annotator looks at: per assignment and per call argument whether it is an
assignable expression rooted at a parameter (`doesReferenceVarMutable`). `DDP/Proofs/ConstParam.lean` proves the flags sound
against `Mut`, the relation "running `f` may change the storage of its parameter `q`" — for every module.
-/

namespace DDP.ConstParam

/-- what the annotator sees of an argument / an assignment target: not assignable at all, an assignable expression rooted at
parameter `i` of the function under analysis (the parameter itself, an element, a field, … of it), or an assignable expression
of a form it does not know (it then assumes every parameter) -/
inductive Arg
  | none
  | root (i : Nat)
  | unknown
  deriving DecidableEq, Repr

inductive Stmt
  | assign (target : Arg)
  | call (callee : Nat) (args : List Arg)      -- one argument per parameter of the callee, in order
  deriving DecidableEq, Repr

structure Fn where
  nparams : Nat
  isRef : List Bool          -- per parameter: a Referenz parameter
  extern : Bool              -- defined in C: nothing is known about it
  body : List Stmt           -- every assignment and call of the body, in source order (the analysis is flow-insensitive)
  deriving DecidableEq, Repr

/-- functions in the order the annotator looks at them (a forward declared function is looked at where it is declared) -/
abbrev Prog := List Fn

abbrev Flags := List Bool    -- per parameter: still considered constant

/-- `doesReferenceVarMutable`: the parameters an expression may change -/
def mark (fl : Flags) : Arg → Flags
  | .none => fl
  | .root i => fl.set i false
  | .unknown => fl.map (fun _ => false)

/-- is parameter `j` of the callee known to be constant? `info = none`: nothing is known (not looked at yet, or the function
under analysis itself) -/
def calleeConst (info : Option Flags) (j : Nat) : Bool :=
  match info with
  | some fl => fl[j]?.getD false
  | none => false

/-- the arguments of one call: every argument handed to a parameter that is not known to be constant is marked -/
def markArgs (info : Option Flags) : Nat → List Arg → Flags → Flags
  | _, [], fl => fl
  | j, a :: as, fl => markArgs info (j+1) as (if calleeConst info j then fl else mark fl a)

/-- one statement (`VisitAssignStmt`, `visitCall`); `known g` are the finished results; a call of the function under analysis
itself knows nothing (repair 570a0c8) -/
def step (known : Nat → Option Flags) (self : Nat) (fl : Flags) : Stmt → Flags
  | .assign t => mark fl t
  | .call g args => markArgs (if g = self then none else known g) 0 args fl

def analyseFn (known : Nat → Option Flags) (self : Nat) (fn : Fn) : Flags :=
  if fn.extern then List.replicate fn.nparams false
  else fn.body.foldl (step known self) (List.replicate fn.nparams true)

/-- the whole module: functions one after the other, each knowing the results of the ones before it -/
def analyseFrom : Nat → List Fn → List Flags → List Flags
  | _, [], done => done
  | i, fn :: rest, done => analyseFrom (i+1) rest (done ++ [analyseFn (fun g => done[g]?) i fn])

def analyse (p : Prog) : List Flags := analyseFrom 0 p []

/-- **What the flags are for.** At `-O 2` a caller hands its variable to a value parameter that is flagged constant *without a
copy*: the parameter then is the caller's storage. `Mut p A f q`: running `f` may change the storage of its parameter `q` —
by assigning to it (or to a part of it), by handing it to a Referenz parameter that is changed, or by handing it without a
copy (flag `A`) to a value parameter that is changed. -/
inductive Mut (p : Prog) (A : List Flags) : Nat → Nat → Prop
  | assign {f q fn} : p[f]? = some fn → fn.extern = false → .assign (.root q) ∈ fn.body → Mut p A f q
  | assignUnknown {f q fn} : p[f]? = some fn → fn.extern = false → .assign .unknown ∈ fn.body → Mut p A f q
  | extern {f q fn} : p[f]? = some fn → fn.extern = true → Mut p A f q
  | viaRef {f q fn g gn args j a} : p[f]? = some fn → fn.extern = false → .call g args ∈ fn.body → args[j]? = some a →
      (a = .root q ∨ a = .unknown) → p[g]? = some gn → gn.isRef[j]? = some true → Mut p A g j → Mut p A f q
  | viaBorrow {f q fn g args j a} : p[f]? = some fn → fn.extern = false → .call g args ∈ fn.body → args[j]? = some a →
      (a = .root q ∨ a = .unknown) → (A[g]?.bind (·[j]?)) = some true → Mut p A g j → Mut p A f q

/-! ### the rule before repair 570a0c8: a call of the function under analysis read that function's own flags as they stood -/

def stepOld (known : Nat → Option Flags) (self : Nat) (fl : Flags) : Stmt → Flags
  | .assign t => mark fl t
  | .call g args => markArgs (if g = self then some fl else known g) 0 args fl

def analyseFnOld (known : Nat → Option Flags) (self : Nat) (fn : Fn) : Flags :=
  if fn.extern then List.replicate fn.nparams false
  else fn.body.foldl (stepOld known self) (List.replicate fn.nparams true)

def analyseFromOld : Nat → List Fn → List Flags → List Flags
  | _, [], done => done
  | i, fn :: rest, done => analyseFromOld (i+1) rest (done ++ [analyseFnOld (fun g => done[g]?) i fn])

def analyseOld (p : Prog) : List Flags := analyseFromOld 0 p []

end DDP.ConstParam


import DDP.Spec.Value

/-!
# L1: how a foreign (C) function sees DDP values

The representation published in `lib/runtime/include/DDP/ddptypes.h` and the calling convention the
code generator uses for functions that are "in … definiert": primitives by value, everything else by
pointer, a non-primitive result through a leading out-pointer, Referenz parameters as pointers to the
caller's storage.
-/

namespace DDP.Abi
open DDP.Spec

/-- the C type a DDP type is published as -/
def ctype : Ty → String
  | .zahl => "ddpint" | .komma => "ddpfloat" | .byte => "ddpbyte" | .wahr => "ddpbool" | .buchstabe => "ddpchar"
  | .text => "ddpstring" | .variable => "ddpany" | .nichts => "void"
  | .liste .zahl => "ddpintlist" | .liste .komma => "ddpfloatlist" | .liste .byte => "ddpbytelist"
  | .liste .wahr => "ddpboollist" | .liste .buchstabe => "ddpcharlist" | .liste .text => "ddpstringlist"
  | .liste .variable => "ddpanylist"
  | .liste (.kombi n) => n ++ "list"
  | .liste _ => "ddpgenericlist"
  | .kombi n => n

def isPrimitive : Ty → Bool
  | .zahl | .komma | .byte | .wahr | .buchstabe => true
  | _ => false

inductive Pass
  | byValue (c : String)
  | byPointer (c : String)
  deriving Repr, DecidableEq

def Pass.toC : Pass → String
  | .byValue c => c
  | .byPointer c => c ++ " *"

/-- how one parameter is passed -/
def passParam (t : Ty) (isRef : Bool) : Pass :=
  if isPrimitive t && !isRef then .byValue (ctype t) else .byPointer (ctype t)

structure CSig where
  ret : String
  params : List Pass
  deriving Repr

/-- the C signature of a foreign function with the given DDP parameters and result -/
def signature (params : List (Ty × Bool)) (ret : Ty) : CSig :=
  let ps := params.map fun (t, r) => passParam t r
  if ret == .nichts then { ret := "void", params := ps }
  else if isPrimitive ret then { ret := ctype ret, params := ps }
  else { ret := "void", params := .byPointer (ctype ret) :: ps }

def CSig.toC (s : CSig) (name : String) : String :=
  s.ret ++ " " ++ name ++ "(" ++ (if s.params.isEmpty then "void" else ", ".intercalate (s.params.map Pass.toC)) ++ ")"

/-- who releases what around a call (the protocol the heap ledger of C05 observes) -/
inductive Owner | caller | callee
  deriving Repr, DecidableEq

/-- the value behind a non-Referenz argument stays the caller's: the caller releases it after the call -/
def argumentOwner (_t : Ty) (_isRef : Bool) : Owner := .caller
/-- the returned value becomes the caller's -/
def resultOwner (_t : Ty) : Owner := .caller

end DDP.Abi

import DDP.Generated.AbiFacts
import DDP.Impl.Abi

/-!
# L1: the layouts of the value representation, on both sides of the foreign-function boundary

`DDP.Generated.Abi` is re-extracted on every run from the code generator (`types.NewStruct` calls, field index
constants, primitive IR types, `toIrParamType`) and from the published header `ddptypes.h`. This file interprets
both in one vocabulary (field class: pointer / 64-bit integer / 16-byte buffer; width in bytes), so that
`Props/C18.lean` can state "the struct the generated code reads and writes is the struct the header publishes".
-/

namespace DDP.Abi
open DDP.Generated.Abi

/-- width in bytes of an llir primitive type -/
def irWidth : String → Option Nat
  | "I64" => some 8 | "Double" => some 8 | "I8" => some 1 | "I1" => some 1 | "I32" => some 4 | _ => none

/-- width in bytes of a C scalar type on the supported targets (LP64 / LLP64; `bool` is one byte) -/
def cWidth : String → Option Nat
  | "int64_t" => some 8 | "double" => some 8 | "uint8_t" => some 1 | "bool" => some 1 | "int32_t" => some 4 | _ => none

/-- integer / floating point, signedness as the header declares it -/
def cKind : String → String
  | "int64_t" => "sint" | "int32_t" => "sint" | "uint8_t" => "uint" | "bool" => "bool" | "double" => "float" | _ => "?"

def irKind : String → String
  | "I64" => "int" | "I32" => "int" | "I8" => "int" | "I1" => "bool" | "Double" => "float" | _ => "?"

/-- the function-pointer typedefs of the header -/
def cFuncPtrTypes : List String := ["free_func_ptr", "deep_copy_func_ptr", "equal_func_ptr"]

/-- field class of a C field: (base type, is pointer) -/
def cFieldClass (base : String) (isPtr : Bool) : String :=
  if isPtr then "ptr"
  else if cFuncPtrTypes.contains base then "ptr"
  else if base == "ddpint" then "i64"
  else if base == "union" then "bytes16"
  else "?" ++ base

def classWidth : String → Option Nat
  | "ptr" => some 8 | "i64" => some 8 | "bytes16" => some 16 | _ => none

/-- all fields are 8-aligned 8- or 16-byte objects, so the size is the sum -/
def structSize (classes : List String) : Option Nat :=
  classes.foldl (fun acc c => match acc, classWidth c with
    | some a, some w => some (a + w) | _, _ => none) (some 0)

def cClasses (name : String) : Option (List String) :=
  (cStructs.lookup name).map fun fs => fs.map fun (b, p, _) => cFieldClass b p

def cFieldNames (name : String) : Option (List String) :=
  (cStructs.lookup name).map fun fs => fs.map fun (_, _, n) => n

def cFieldNameAt (name : String) (i : Nat) : Option String :=
  (cFieldNames name).bind fun ns => ns[i]?

/-- the element type of a typed list struct of the header: the base type of its first (pointer) field -/
def cListElem (name : String) : Option String :=
  (cStructs.lookup name).bind fun fs => match fs with
    | (b, true, _) :: _ => some b
    | _ => none

/-- the list structs the header publishes, with the element type each must have -/
def publishedLists : List (String × String) :=
  [("ddpintlist", "ddpint"), ("ddpfloatlist", "ddpfloat"), ("ddpbytelist", "ddpbyte"), ("ddpboollist", "ddpbool"),
   ("ddpcharlist", "ddpchar"), ("ddpstringlist", "ddpstring"), ("ddpanylist", "ddpany"), ("ddpgenericlist", "void")]

/-- row of `toIrParamType`'s table for (isReference, isPrimitive) -/
def goPassing (isRef isPrim : Bool) : Option String :=
  goParamPassing[(if isRef then 2 else 0) + (if isPrim then 1 else 0)]?

def Pass.cls : Pass → String
  | .byValue _ => "value"
  | .byPointer _ => "pointer"

end DDP.Abi

/-!
# L1: the expression parser as a ladder of left-associative chains (`src/parser/expressions.go`)

The expression parser of DDP is a tower of functions ("rungs"), one per precedence level. Ten of them
(`boolOR` … `factor`) have one shape — `left := next(); for match(ops of this rung) { right := next(); left = Bin(op,
left, right) }; return left` —, `unary` handles prefix operators by calling itself, and `primary` reads a literal / name or
a parenthesised `expression`, which starts at the loosest rung again. `DDP.Generated.Ladder` re-extracts that shape from
the source on every run (`Props/C01.lean`: `left_chains`, `unary_shape`, …).

This file is the executable model of that shape, generic in the table of operators:

* `parse T fuel k ts` — rung `k` (0 = loosest chain, `T.n` = `unary`/`primary`) applied to the tokens `ts`;
* `loop T fuel k left ts` — the `for` loop of rung `k` with the running result `left`; an operator may have a closing word
  behind its right operand (`a größer als b ist`, `a um b Bit nach Links verschoben`), `T.cl o`;
* `parseIf T fuel ts`, `loopIf` — `ifExpression`, the rung above the chains: `a, falls c, ansonsten b`, where the condition and
  the alternative are whole `ifExpression`s again (the loop rebinds, but the alternative has taken every further `, falls`
  already: chains nest to the right); parentheses restart here;
* `parseX T fuel ts` — `boolXOR`, between the two: the prefix form `entweder a, oder b` (it returns after one application:
  there is no chain), or else the loosest chain rung;
* `pp T k e` / `ppX T e` / `ppI T e` — the printer with **minimal parentheses** (operand of chain rung `k` / value operand of a conditional expression / where a whole expression stands) the program generator uses (`vlib/gen.py: pp_expr(e, minimal,
  need)`): an operand is parenthesised exactly when its own rung is looser than the rung the position asks for; the left
  operand of a chain asks for the rung itself, the right operand for the next tighter one.

`DDP/Proofs/LadderParse.lean` proves `parse_pp`: parsing what the printer printed gives back the tree, for every tree,
every table and whatever follows — which is what entitles the correspondence checks to print programs with minimal
parentheses and still know which tree the compiler must have seen.

Recursion is structural on the fuel (as everywhere in the models); `parse_pp` produces the fuel that suffices.
-/

namespace DDP.LadderParse

/-- tokens of the fragment: operands, binary operator words, prefix operator words, parentheses, `, falls`, `, ansonsten` -/
inductive Tok
  | atom (a : Nat)
  | bop (o : Nat)
  | uop (u : Nat)
  | lp
  | rp
  | falls      -- `, falls`
  | sonst      -- `, ansonsten`
  | entw       -- `entweder`
  | oderk      -- `, oder`
  | cls (o : Nat)   -- what closes operator `o` behind its right operand (`ist`, `Bit nach Links verschoben`)
  deriving DecidableEq, Repr

/-- syntax trees (a `Grouping` node is not kept: parentheses only steer the parser) -/
inductive E
  | atom (a : Nat)
  | un (u : Nat) (e : E)
  | bin (o : Nat) (l r : E)
  | ite (a c b : E)          -- `a, falls c, ansonsten b`
  | xor (a b : E)            -- `entweder a, oder b`
  deriving DecidableEq, Repr

/-- the operator table: `n` chain rungs (0 loosest), `lv o` the rung whose loop tests for operator `o` -/
structure Tbl where
  n : Nat
  lv : Nat → Nat
  cl : Nat → Bool := fun _ => false      -- operators with a closing word behind the right operand

/-- after the expression inside parentheses: the closing parenthesis must follow -/
def closeParen (p : E × List Tok) : Option (E × List Tok) :=
  match p.2 with
  | .rp :: rest' => some (p.1, rest')
  | _ => none

/-- after the condition of a conditional expression: `, ansonsten` must follow -/
def expectSonst (p : E × List Tok) : Option (E × List Tok) :=
  match p.2 with
  | .sonst :: rest' => some (p.1, rest')
  | _ => none

/-- behind the right operand of operator `o`: its closing word, if it has one -/
def expectCl (T : Tbl) (o : Nat) (p : E × List Tok) : Option (E × List Tok) :=
  if T.cl o then
    match p.2 with
    | .cls o' :: rest' => if o' = o then some (p.1, rest') else none
    | _ => none
  else some p

/-- the closing word of operator `o` as the printer writes it -/
def clTok (T : Tbl) (o : Nat) : List Tok := if T.cl o then [.cls o] else []

/-- after the first operand of `entweder`: `, oder` must follow -/
def expectOderk (p : E × List Tok) : Option (E × List Tok) :=
  match p.2 with
  | .oderk :: rest' => some (p.1, rest')
  | _ => none

mutual
/-- rung `k` of the ladder: a chain rung (first operand from the next tighter rung, then the loop), or `unary` / `primary` -/
def parse (T : Tbl) : Nat → Nat → List Tok → Option (E × List Tok)
  | 0, _, _ => none
  | f+1, k, ts =>
    if k < T.n then
      (parse T f (k+1) ts).bind (fun p => loop T f k p.1 p.2)
    else
      match ts with
      | .atom a :: rest => some (.atom a, rest)
      | .uop u :: rest => (parse T f k rest).bind (fun p => some (.un u p.1, p.2))
      | .lp :: rest => (parseIf T f rest).bind closeParen
      | _ => none
/-- the loop of rung `k`: as long as one of the rung's operators follows, the right operand comes from the next tighter
rung and the running result is rebound (left associative) -/
def loop (T : Tbl) : Nat → Nat → E → List Tok → Option (E × List Tok)
  | 0, _, _, _ => none
  | f+1, k, left, ts =>
    match ts with
    | .bop o :: rest =>
      if T.lv o = k then
        ((parse T f (k+1) rest).bind (expectCl T o)).bind (fun p => loop T f k (.bin o left p.1) p.2)
      else some (left, ts)
    | _ => some (left, ts)
/-- `ifExpression`: the value from the loosest chain rung, then the loop over `, falls` -/
def parseIf (T : Tbl) : Nat → List Tok → Option (E × List Tok)
  | 0, _ => none
  | f+1, ts => (parseX T f ts).bind (fun p => loopIf T f p.1 p.2)
/-- `boolXOR`: the prefix form `entweder a, oder b` (both operands from the loosest chain rung; it returns, there is no chain),
or else the loosest chain rung itself -/
def parseX (T : Tbl) : Nat → List Tok → Option (E × List Tok)
  | 0, _ => none
  | f+1, ts =>
    match ts with
    | .entw :: rest =>
      ((parse T f 0 rest).bind expectOderk).bind (fun pa => (parse T f 0 pa.2).bind (fun pb => some (.xor pa.1 pb.1, pb.2)))
    | _ => parse T f 0 ts
/-- the loop of `ifExpression`: condition and alternative are whole `ifExpression`s again -/
def loopIf (T : Tbl) : Nat → E → List Tok → Option (E × List Tok)
  | 0, _, _ => none
  | f+1, left, ts =>
    match ts with
    | .falls :: rest =>
      ((parseIf T f rest).bind expectSonst).bind (fun pc =>
        (parseIf T f pc.2).bind (fun pb => loopIf T f (.ite left pc.1 pb.1) pb.2))
    | _ => some (left, ts)
end

/-- parenthesise -/
def wrap (b : Bool) (ts : List Tok) : List Tok := if b then .lp :: (ts ++ [.rp]) else ts

mutual
/-- print `e` as an operand of a position that asks for chain rung `k` — minimal parentheses; a conditional expression and
`entweder …, oder …` are looser than every chain rung -/
def pp (T : Tbl) (k : Nat) : E → List Tok
  | .atom a => [.atom a]
  | .un u e => .uop u :: pp T T.n e
  | .bin o l r => wrap (decide (T.lv o < k)) (pp T (T.lv o) l ++ .bop o :: (pp T (T.lv o + 1) r ++ clTok T o))
  | .ite a c b => .lp :: ((ppX T a ++ .falls :: (ppI T c ++ .sonst :: ppI T b)) ++ [.rp])
  | .xor a b => .lp :: ((.entw :: (pp T 0 a ++ .oderk :: pp T 0 b)) ++ [.rp])
/-- print `e` as the value operand of a conditional expression (`boolXOR`): `entweder` needs no parentheses there, a
conditional expression does -/
def ppX (T : Tbl) : E → List Tok
  | .atom a => [.atom a]
  | .un u e => .uop u :: pp T T.n e
  | .bin o l r => pp T (T.lv o) l ++ .bop o :: (pp T (T.lv o + 1) r ++ clTok T o)
  | .ite a c b => .lp :: ((ppX T a ++ .falls :: (ppI T c ++ .sonst :: ppI T b)) ++ [.rp])
  | .xor a b => .entw :: (pp T 0 a ++ .oderk :: pp T 0 b)
/-- print `e` where a whole `ifExpression` is expected (top level, inside parentheses, condition and alternative of a
conditional expression) -/
def ppI (T : Tbl) : E → List Tok
  | .atom a => [.atom a]
  | .un u e => .uop u :: pp T T.n e
  | .bin o l r => pp T (T.lv o) l ++ .bop o :: (pp T (T.lv o + 1) r ++ clTok T o)
  | .ite a c b => ppX T a ++ .falls :: (ppI T c ++ .sonst :: ppI T b)
  | .xor a b => .entw :: (pp T 0 a ++ .oderk :: pp T 0 b)
end

/-- every binary operator of the tree belongs to one of the chain rungs -/
def wf (T : Tbl) : E → Prop
  | .atom _ => True
  | .un _ e => wf T e
  | .bin o l r => T.lv o < T.n ∧ wf T l ∧ wf T r
  | .ite a c b => wf T a ∧ wf T c ∧ wf T b
  | .xor a b => wf T a ∧ wf T b

def wfDec (T : Tbl) : (e : E) → Decidable (wf T e)
  | .atom _ => isTrue trivial
  | .un _ e => wfDec T e
  | .bin _ l r => @instDecidableAnd _ _ (Nat.decLt _ _) (@instDecidableAnd _ _ (wfDec T l) (wfDec T r))
  | .ite a c b => @instDecidableAnd _ _ (wfDec T a) (@instDecidableAnd _ _ (wfDec T c) (wfDec T b))
  | .xor a b => @instDecidableAnd _ _ (wfDec T a) (wfDec T b)

instance (T : Tbl) (e : E) : Decidable (wf T e) := wfDec T e

/-- what follows an operand parsed at rung `k` must not be an operator that one of the rungs `k …` would still take -/
def okRest (T : Tbl) (k : Nat) (rest : List Tok) : Prop :=
  ∀ o r, rest = .bop o :: r → T.lv o < k

/-- what follows a whole `ifExpression`: no operator word and no `, falls` -/
def okRestI (rest : List Tok) : Prop :=
  (∀ o r, rest ≠ .bop o :: r) ∧ (∀ r, rest ≠ .falls :: r)

/-- the whole-input entry: `ifExpression`, nothing may be left over. The fuel is the bound of `fuel_suffices` (every call
either moves to a tighter rung or has consumed a token), so this function *is* the ladder, not an approximation of it. -/
def parseAll (T : Tbl) (ts : List Tok) : Option E :=
  match parseIf T (ts.length * (T.n + 5) + (T.n + 3)) ts with
  | some (e, []) => some e
  | _ => none

end DDP.LadderParse

import DDP.Generated.Keywords

/-!
# L1 model of `src/scanner/scanner.go`

Transcribed rune by rune: `advance` increments the column, `increaseLineBeforeAdvance`
bumps the line and resets column/indent, every sub-scanner is a structural recursion
over the remaining input that returns the state after it, the characters it consumed
and the remaining input.  The UTF-8 gate (`utf8.Valid`) is outside this file
(`DDP/Impl/Utf8.lean`); here the source is a `List Char`.

Token types and the keyword table come from `DDP.Generated.Keywords` (T-gen).
-/

namespace DDP.Scanner
open DDP.Generated

structure Pos where
  line : Nat
  col : Nat
  deriving DecidableEq, Repr, Inhabited

structure Mode where
  strict : Bool   -- ModeStrictCapitalization
  alias : Bool    -- ModeAlias
  deriving DecidableEq, Repr

/-- scanner fields that change while scanning (besides the read offset) -/
structure St where
  pos : Pos
  indent : Nat
  shouldIndent : Bool
  shouldCapitalize : Bool
  deriving DecidableEq, Repr

def isDigit (c : Char) : Bool := '0'.val ≤ c.val && c.val ≤ '9'.val

def isAlpha (c : Char) : Bool :=
  ('a'.val ≤ c.val && c.val ≤ 'z'.val) || ('A'.val ≤ c.val && c.val ≤ 'Z'.val) ||
  c == 'ß' || c == '_' || c == 'ä' || c == 'Ä' || c == 'ö' || c == 'Ö' || c == 'ü' || c == 'Ü'

def isAlphaNumeric (c : Char) : Bool := isAlpha c || isDigit c

def isSpace (c : Char) : Bool := c == ' ' || c == '\r' || c == '\n' || c == '\t'

def isUpper (c : Char) : Bool :=
  ('A'.val ≤ c.val && c.val ≤ 'Z'.val) || c == 'Ä' || c == 'Ü' || c == 'Ö'

/-- `strings.ToLower` restricted to what can occur in an identifier (exact there);
on other characters only the fact that it never produces a keyword matters. -/
def toLowerChar (c : Char) : Char :=
  if 'A'.val ≤ c.val && c.val ≤ 'Z'.val then Char.ofNat (c.toNat + 32)
  else if c == 'Ä' then 'ä' else if c == 'Ö' then 'ö' else if c == 'Ü' then 'ü' else c

def lookupKw (w : List Char) : Option TokenType :=
  (keywordMap.find? (fun e => e.1.toList == w)).map (·.2)

/-- `token.KeywordToTokenType` -/
def keywordToTokenType (w : List Char) : TokenType := (lookupKw w).getD .IDENTIFIER

/-- `Scanner.identifierType` -/
def identifierType (lit : List Char) : TokenType :=
  let t := keywordToTokenType lit
  if t = .IDENTIFIER then keywordToTokenType (lit.map toLowerChar) else t

/-- `advance`: column++ ; `shouldIndent` is cleared by the first non-space rune -/
def St.adv (s : St) (c : Char) : St :=
  { s with pos := ⟨s.pos.line, s.pos.col + 1⟩, shouldIndent := s.shouldIndent && isSpace c }

/-- `increaseLineBeforeAdvance` -/
def St.incLine (s : St) : St :=
  { s with pos := ⟨s.pos.line + 1, 0⟩, indent := 0, shouldIndent := true }

/-- consume one rune the way `skipWhitespace`, `string`, `char` and the comment loop do:
a line break goes through `increaseLineBeforeAdvance` first -/
def St.advNl (s : St) (c : Char) : St :=
  if c = '\n' then s.incLine.adv c else s.adv c

def St.advs (s : St) (cs : List Char) : St := cs.foldl St.adv s

inductive DCode | malformedLiteral | malformedAlias | expectedCapital
  deriving DecidableEq, Repr

structure Diag where
  code : DCode
  start : Pos
  stop : Pos
  deriving DecidableEq, Repr

structure Tok where
  type : TokenType
  literal : List Char
  indent : Nat
  start : Pos
  stop : Pos
  deriving DecidableEq, Repr

/-- result of a sub-scanner -/
structure Sub where
  st : St
  consumed : List Char
  rest : List Char
  diags : List Diag := []
  flag : Bool := false       -- terminated (string/char) resp. closed (placeholder)
  flag2 : Bool := false      -- gotBackslash
  deriving Repr

def Sub.cons (c : Char) (r : Sub) : Sub := { r with consumed := c :: r.consumed }
def Sub.cons2 (c d : Char) (r : Sub) : Sub := { r with consumed := c :: d :: r.consumed }
def Sub.addDiag (d : Diag) (r : Sub) : Sub := { r with diags := d :: r.diags }
def Sub.setBackslash (r : Sub) : Sub := { r with flag2 := true }

/-- `skipWhitespace`; `n` is `consecutiveSpaceCount` -/
def skipWs : St → Nat → List Char → Sub
  | s, _, [] => { st := s, consumed := [], rest := [] }
  | s, n, c :: cs =>
    if c = ' ' then
      if s.shouldIndent && n + 1 == 4 then
        (skipWs ({ s with indent := s.indent + 1 }.adv c) 0 cs).cons c
      else (skipWs (s.adv c) (n + 1) cs).cons c
    else if c = '\r' then (skipWs (s.adv c) 0 cs).cons c
    else if c = '\t' then
      (skipWs ((if s.shouldIndent then { s with indent := s.indent + 1 } else s).adv c) 0 cs).cons c
    else if c = '\n' then (skipWs (s.incLine.adv c) 0 cs).cons c
    else { st := s, consumed := [], rest := c :: cs }

def isEscape (q d : Char) : Bool :=
  d == 'a' || d == 'b' || d == 'n' || d == 'r' || d == 't' || d == '\\' || d == q

/-- body of `string()` / `char()` after the opening quote: scans up to and including
the closing quote (`flag = true`) or to the end of input (`flag = false`). -/
def scanQuoted (q : Char) : St → List Char → Sub
  | s, [] => { st := s, consumed := [], rest := [] }
  | s, c :: cs =>
    if c = q then { st := s.adv c, consumed := [c], rest := cs, flag := true }
    else if c = '\n' then (scanQuoted q (s.incLine.adv c) cs).cons c
    else if c = '\\' then
      match cs with
      | d :: ds =>
        if isEscape q d then
          -- scanEscape advances over the backslash, the loop's advance over `d`
          ((scanQuoted q ((s.adv c).adv d) ds).cons2 c d).setBackslash
        else
          -- a backslash that is the last character of its line: the range ends behind it, inside that line
          (((scanQuoted q (s.adv c) (d :: ds)).cons c).setBackslash).addDiag
            ⟨.malformedLiteral, s.pos, ⟨s.pos.line, s.pos.col + (if d = '\n' then 1 else 2)⟩⟩
      | [] =>
        -- the backslash is the last character of the source: the range ends behind it (inside the file)
        ((({ st := s.adv c, consumed := [], rest := [] } : Sub).cons c).setBackslash).addDiag
          ⟨.malformedLiteral, s.pos, ⟨s.pos.line, s.pos.col + 1⟩⟩
    else (scanQuoted q (s.adv c) cs).cons c
termination_by _ cs => cs.length

/-- the `[ ... ]` loop after the opening bracket; `depth` is `bracketCount` -/
def scanComment : St → Nat → List Char → Sub
  | s, _, [] => { st := s, consumed := [], rest := [] }
  | s, 0, cs => { st := s, consumed := [], rest := cs }
  | s, depth + 1, c :: cs =>
    let depth' := if c = '[' then depth + 2 else if c = ']' then depth else depth + 1
    (scanComment (s.advNl c) depth' cs).cons c

def takeWhileSt (p : Char → Bool) : St → List Char → Sub
  | s, [] => { st := s, consumed := [], rest := [] }
  | s, c :: cs => if p c then (takeWhileSt p (s.adv c) cs).cons c else { st := s, consumed := [], rest := c :: cs }

/-- `number()` after the first digit -/
def scanNumber (s : St) (cs : List Char) : Sub × Bool :=
  let r := takeWhileSt isDigit s cs
  match r.rest with
  | c :: d :: ds =>
    if c = ',' && isDigit d then
      let r2 := takeWhileSt isDigit (r.st.adv c) (d :: ds)
      ({ st := r2.st, consumed := r.consumed ++ c :: r2.consumed, rest := r2.rest }, true)
    else (r, false)
  | _ => (r, false)

/-- loop of `aliasParameter`: runes up to (not including) `>`; a diagnostic for each
rune that is not alphanumeric, with `currentRange()` after consuming it -/
def scanPlaceholderBody (start : Pos) : St → List Char → Sub
  | s, [] => { st := s, consumed := [], rest := [] }
  | s, c :: cs =>
    if c = '>' then { st := s, consumed := [], rest := c :: cs }
    else
      let s' := s.adv c
      let r := (scanPlaceholderBody start s' cs).cons c
      if isAlphaNumeric c then r else r.addDiag ⟨.malformedAlias, start, s'.pos⟩

def utf8Len (cs : List Char) : Nat := (cs.map (fun c => c.utf8Size)).sum

/-- `aliasParameter()`; `lt` is the already consumed `<`, `start` the token start -/
def scanPlaceholder (start : Pos) (lt : Char) (s : St) (cs : List Char) : Sub :=
  let d1 : List Diag := match cs with
    | c :: _ => if isAlpha c then [] else [⟨.malformedAlias, start, s.pos⟩]
    | [] => [⟨.malformedAlias, start, s.pos⟩]
  let r := scanPlaceholderBody start s cs
  -- closing `>`
  let (st2, cons2, rest2, d2, closed) : St × List Char × List Char × List Diag × Bool :=
    match r.rest with
    | c :: cs' => (r.st.adv c, r.consumed ++ [c], cs', [], true)
    | [] => (r.st, r.consumed, [], [⟨.malformedAlias, start, r.st.pos⟩], false)
  let d3 : List Diag :=
    if utf8Len (lt :: cons2) ≤ 2 && !rest2.isEmpty then [⟨.malformedAlias, start, st2.pos⟩] else []
  let d4 : List Diag :=
    if identifierType (lt :: cons2) ≠ .IDENTIFIER then [⟨.malformedAlias, start, st2.pos⟩] else []
  { st := st2, consumed := cons2, rest := rest2, diags := d1 ++ r.diags ++ d2 ++ d3 ++ d4, flag := closed }

/-- one scanned segment of the source: the blanks skipped before the token, the
characters the token covers, the token -/
structure Seg where
  gap : List Char
  body : List Char
  tok : Tok
  deriving Repr

structure Step where
  seg : Seg
  st : St
  rest : List Char
  diags : List Diag

def mkTok (ty : TokenType) (start : Pos) (s : St) (lit : List Char) : Tok × St :=
  (⟨ty, lit, s.indent, start, s.pos⟩,
   { s with shouldCapitalize := (ty = .DOT || ty = .COLON) })

def illegalMsgString : List Char := "ein Offenes Text Literal".toList
def illegalMsgChar : List Char := "ein Offenes Buchstaben Literal".toList

abbrev Out := Tok × St × List Char × List Char × List Diag

/-- `newToken(ty)` after a sub-scanner: token, state, covered text, remaining input, diagnostics -/
def emit (ty : TokenType) (s0 : St) (c : Char) (r : Sub) (d : List Diag) : Out :=
  ((mkTok ty s0.pos r.st (c :: r.consumed)).1, (mkTok ty s0.pos r.st (c :: r.consumed)).2,
    c :: r.consumed, r.rest, d)

/-- a token consisting of the single rune `c` -/
def emitSingle (ty : TokenType) (s0 : St) (c : Char) (cs : List Char) : Out :=
  emit ty s0 c { st := s0.adv c, consumed := [], rest := cs } []

/-- `errorToken(msg)` -/
def emitIllegal (msg : List Char) (s0 : St) (c : Char) (r : Sub) : Out :=
  (⟨.ILLEGAL, msg, r.st.indent, s0.pos, r.st.pos⟩, r.st, c :: r.consumed, r.rest, r.diags)

/-- `identifier(start)` -/
def scanIdent (m : Mode) (s0 : St) (c : Char) (cs : List Char) : Out :=
  let r := takeWhileSt isAlphaNumeric (s0.adv c) cs
  let ty := identifierType (c :: r.consumed)
  let report := m.strict && s0.shouldCapitalize && !isUpper c
  emit ty s0 c r (if report && ty ≠ .IDENTIFIER then [⟨.expectedCapital, s0.pos, (s0.adv c).pos⟩] else [])

def scanNum (s0 : St) (c : Char) (cs : List Char) : Out :=
  let rn := scanNumber (s0.adv c) cs
  emit (if rn.2 then .FLOAT else .INT) s0 c rn.1 []

def scanDot (s0 : St) (c : Char) (cs : List Char) : Out :=
  match cs with
  | '.' :: '.' :: ds => emit .ELIPSIS s0 c { st := ((s0.adv c).adv '.').adv '.', consumed := ['.', '.'], rest := ds } []
  | _ => emitSingle .DOT s0 c cs

def scanStringTok (s0 : St) (c : Char) (cs : List Char) : Out :=
  let r := scanQuoted '"' (s0.adv c) cs
  if r.flag then emit .STRING s0 c r r.diags else emitIllegal illegalMsgString s0 c r

def scanCharTok (s0 : St) (c : Char) (cs : List Char) : Out :=
  let r := scanQuoted '\'' (s0.adv c) cs
  if r.flag then
    let n := r.consumed.length + 1
    let tooLarge : Bool := !(n == 3 || (n == 4 && r.flag2))
    emit .CHAR s0 c r (r.diags ++ (if tooLarge then [⟨.malformedLiteral, s0.pos, r.st.pos⟩] else []))
  else emitIllegal illegalMsgChar s0 c r

def scanCommentTok (s0 : St) (c : Char) (cs : List Char) : Out :=
  emit .COMMENT s0 c (scanComment (s0.adv c) 1 cs) []

def scanPlaceholderTok (s0 : St) (c : Char) (cs : List Char) : Out :=
  let r := scanPlaceholder s0.pos c (s0.adv c) cs
  emit .ALIAS_PARAMETER s0 c r r.diags

/-- the part of `NextToken` after `skipWhitespace` when the input is not at its end:
`c` is the rune returned by the first `advance()`. -/
def scanBody (m : Mode) (s0 : St) (c : Char) (cs : List Char) : Out :=
  if isAlpha c then scanIdent m s0 c cs
  else if isDigit c then scanNum s0 c cs
  else if c = '-' then emitSingle .NEGATE s0 c cs
  else if c = '.' then scanDot s0 c cs
  else if c = ',' then emitSingle .COMMA s0 c cs
  else if c = ':' then emitSingle .COLON s0 c cs
  else if c = '(' then emitSingle .LPAREN s0 c cs
  else if c = ')' then emitSingle .RPAREN s0 c cs
  else if c = '"' then scanStringTok s0 c cs
  else if c = '\'' then scanCharTok s0 c cs
  else if c = '[' then scanCommentTok s0 c cs
  else if c = '<' && m.alias then scanPlaceholderTok s0 c cs
  else emitSingle .SYMBOL s0 c cs

structure Result where
  segs : List Seg
  trailing : List Char      -- blanks skipped before EOF
  eof : Tok
  diags : List Diag
  deriving Repr

/-- `ScanAll` with fuel; `none` = fuel exhausted (proved impossible for
`fuel > input length`, `Props/C13.lean`). -/
def scanAllFuel (m : Mode) : Nat → St → List Char → Option Result
  | 0, _, _ => none
  | fuel + 1, s, src =>
    let w := skipWs s 0 src
    match w.rest with
    | [] =>
      let (t, _) := mkTok .EOF w.st.pos w.st []
      some { segs := [], trailing := w.consumed, eof := t, diags := [] }
    | c :: cs =>
      let (t, st, body, rest, d) := scanBody m w.st c cs
      match scanAllFuel m fuel st rest with
      | none => none
      | some r => some { r with segs := ⟨w.consumed, body, t⟩ :: r.segs, diags := d ++ r.diags }

def initSt (origin : Pos) (indent : Nat) : St :=
  { pos := origin, indent := indent, shouldIndent := true, shouldCapitalize := true }

/-- `scanner.Scan` (mode none/strict, origin 1:1) and `scanner.ScanAlias`
(alias mode, origin = position and indent of the alias literal token) -/
def scan (m : Mode) (origin : Pos) (indent : Nat) (src : List Char) : Option Result :=
  scanAllFuel m (src.length + 1) (initSt origin indent) src

def Result.tokens (r : Result) : List Tok := r.segs.map (·.tok) ++ [r.eof]

end DDP.Scanner

import DDP.Generated.Ladder
import DDP.Impl.LadderParse

/-!
# L1: the precedence ladder of the expression parser

`DDP.Generated.Ladder.ladder` is re-extracted from `src/parser/expressions.go` on every run: for each rung the other
rungs it calls, the tokens its loop tests, whether the loop rebinds the running result (a left-associative chain) or
returns (a prefix form), and the operators it builds. This file holds the *expected* ladder — DDP's documented
operator precedence — in the vocabulary the generator's pretty printer (`vlib/gen.py`, `P_*`) uses, and the functions
that read precedence and associativity off the generated one.
-/

namespace DDP.Ladder
open DDP.Generated.Ladder

/-- the rungs from loosest to tightest binding -/
def expectedOrder : List String :=
  ["expression", "ifExpression", "boolXOR", "boolOR", "boolAND", "bitwiseOR", "bitwiseXOR", "bitwiseAND", "equality",
   "comparison", "bitShift", "term", "factor", "unary", "negate", "power", "slicing", "indexing", "field_access",
   "type_cast", "primary"]

/-- rungs that are plain left-associative chains `next (op next)*`, with the next tighter rung -/
def leftChains : List (String × String) :=
  [("boolOR", "boolAND"), ("boolAND", "bitwiseOR"), ("bitwiseOR", "bitwiseXOR"), ("bitwiseXOR", "bitwiseAND"),
   ("bitwiseAND", "equality"), ("equality", "comparison"), ("comparison", "bitShift"), ("bitShift", "term"),
   ("term", "factor"), ("factor", "unary")]

/-- binary / ternary operator ↦ the rung that builds it (its precedence) -/
def expectedOps : List (String × String) :=
  [("TER_FALLS", "ifExpression"), ("BIN_XOR", "boolXOR"), ("BIN_OR", "boolOR"), ("BIN_AND", "boolAND"),
   ("BIN_LOGIC_OR", "bitwiseOR"), ("BIN_LOGIC_XOR", "bitwiseXOR"), ("BIN_LOGIC_AND", "bitwiseAND"),
   ("BIN_EQUAL", "equality"), ("BIN_UNEQUAL", "equality"),
   ("TER_BETWEEN", "comparison"), ("BIN_GREATER", "comparison"), ("BIN_LESS", "comparison"),
   ("BIN_GREATER_EQ", "comparison"), ("BIN_LESS_EQ", "comparison"),
   ("BIN_LEFT_SHIFT", "bitShift"), ("BIN_RIGHT_SHIFT", "bitShift"),
   ("BIN_PLUS", "term"), ("BIN_MINUS", "term"), ("BIN_CONCAT", "term"),
   ("BIN_MULT", "factor"), ("BIN_DIV", "factor"), ("BIN_MOD", "factor"),
   ("UN_ABS", "unary"), ("UN_LOGIC_NOT", "unary"), ("UN_NOT", "unary"), ("UN_LEN", "unary"),
   ("TYPE_SIZE", "unary"), ("TYPE_DEFAULT", "unary"),
   ("UN_NEGATE", "negate"), ("BIN_POW", "power"), ("BIN_LOG", "power"),
   ("TER_SLICE", "slicing"), ("BIN_SLICE_TO", "slicing"), ("BIN_SLICE_FROM", "slicing"),
   ("BIN_INDEX", "indexing"), ("BIN_FIELD_ACCESS", "field_access")]

/-- the tokens that open the operator of each chain rung -/
def expectedLoopToks : List (String × List String) :=
  [("ifExpression", ["COMMA", "FALLS"]), ("boolXOR", ["ENTWEDER"]), ("boolOR", ["ODER"]), ("boolAND", ["UND"]),
   ("bitwiseOR", ["LOGISCH", "ODER"]), ("bitwiseXOR", ["LOGISCH", "KONTRA"]), ("bitwiseAND", ["LOGISCH", "UND"]),
   ("equality", ["GLEICH", "UNGLEICH", "EIN", "EINE", "KEIN", "KEINE"]), ("comparison", ["GRÖßER", "KLEINER", "ZWISCHEN"]),
   ("bitShift", ["UM"]), ("term", ["PLUS", "MINUS", "VERKETTET"]), ("factor", ["MAL", "DURCH", "MODULO"]),
   ("negate", ["NEGATE"]), ("power", ["HOCH"]), ("slicing", ["IM", "BIS", "AB"]), ("indexing", ["AN"]),
   ("field_access", ["VON"]), ("type_cast", ["ALS"])]

def rung? (name : String) : Option Rung := ladder.find? (·.name == name)

/-- position of a rung on the ladder: larger binds tighter (the `P_*` numbers of the program generator) -/
def level (name : String) : Option Nat := (ladder.map (·.name)).idxOf? name

/-- the rungs that build an operator, loosest first -/
def buildersOf (op : String) : List String := (ladder.filter (·.ops.contains op)).map (·.name)

/-- a rung is a left-associative chain over `next`: first operand and every right operand come from `next`, the loop
rebinds the result and never returns -/
def isLeftChain (r : Rung) (next : String) : Bool :=
  r.calls == [next] && (match r.loops with
    | [l] => l.calls == [next] && l.rebinds && !l.returns
    | _ => false)

/-- a rung is a prefix form: it tests for its opening token, parses, and returns — no chain -/
def isPrefixForm (r : Rung) : Bool :=
  match r.loops with
  | [l] => l.returns && !l.rebinds
  | _ => false

/-! ### the operator table of the chain rungs, read off the regenerated ladder

`DDP.LadderParse` is generic in its table; this is the table of the DDP that is in /repo now: the rungs from `boolOR` up
to (not including) `unary`, and for every plain infix operator the rung whose loop builds it. -/

/-- the plain infix operators (one keyword or keyword sequence between the operands, nothing after the right operand), in
the numbering of the tie (`vlib/laddercorr.py`) -/
def chainOps : List String :=
  ["BIN_OR", "BIN_AND", "BIN_LOGIC_OR", "BIN_LOGIC_XOR", "BIN_LOGIC_AND", "BIN_PLUS", "BIN_MINUS", "BIN_CONCAT",
   "BIN_MULT", "BIN_DIV", "BIN_MOD",
   -- operators with a closing word behind the right operand (`… ist`, `… Bit nach Links / Rechts verschoben`)
   "BIN_GREATER", "BIN_LESS", "BIN_GREATER_EQ", "BIN_LESS_EQ", "BIN_LEFT_SHIFT", "BIN_RIGHT_SHIFT"]

/-- the operators of `chainOps` that have a closing word -/
def chainClosed (o : Nat) : Bool := decide (11 ≤ o ∧ o < 17)

/-- prefix operators handled by `unary` calling itself -/
def prefixOps : List String := ["UN_NOT", "UN_LOGIC_NOT", "UN_ABS", "UN_LEN"]

def chainBase : Nat := (level "boolOR").getD 0

/-- number of chain rungs: `boolOR` … `factor` -/
def chainCount : Nat := (level "unary").getD 0 - chainBase

/-- rung of operator number `o` counted from `boolOR`: the loosest rung of the regenerated ladder that builds it; numbers
outside the table get `chainCount` (no loop tests for them) -/
def chainLevel (o : Nat) : Nat :=
  match chainOps[o]? with
  | some op =>
    match buildersOf op with
    | r :: _ => (match level r with | some l => l - chainBase | none => chainCount)
    | [] => chainCount
  | none => chainCount

/-- the table of the DDP in /repo -/
def ddpTbl : DDP.LadderParse.Tbl := ⟨chainCount, chainLevel, chainClosed⟩

end DDP.Ladder

/-!
# L1: diagnostics, the failure flag, and rendering a diagnostic's source excerpt

* `deliver`: the wrapper `parser.Parse` puts around the error handler (src/parser/interface.go): a
  delivered diagnostic of level error marks the module faulty; nothing else does.
* `render`: the indexing `ddperror.MakeAdvancedHandler` performs on the lines of the file, as a
  partial function (`none` = a slice out of range, i.e. a run-time panic of the renderer).
-/

namespace DDP.Diag

inductive Level | warn | error
  deriving DecidableEq, Repr

structure Pos where
  line : Nat
  col : Nat
  deriving DecidableEq, Repr

structure Range where
  start : Pos
  stop : Pos
  deriving DecidableEq, Repr

structure Diag where
  level : Level
  range : Range
  deriving Repr

def deliver (faulty : Bool) (d : Diag) : Bool := faulty || decide (d.level = .error)

/-- the flag after a compilation that delivered `ds` -/
def faultyAfter (ds : List Diag) : Bool := ds.foldl deliver false

/-- kddp: the exit status and whether an executable / object is left behind -/
def exitStatus (ds : List Diag) : Nat := if faultyAfter ds then 1 else 0
def artefact (ds : List Diag) : Bool := !faultyAfter ds

/-- a range lies inside a text (given as its lines, each a list of code points): both ends are
positions of the text (a column may be one past the end of its line) and the start is not after the end -/
def inText (lines : List (List Char)) (r : Range) : Prop :=
  1 ≤ r.start.line ∧ r.start.line ≤ r.stop.line ∧ r.stop.line ≤ lines.length ∧
  1 ≤ r.start.col ∧ r.start.col ≤ (lines.getD (r.start.line - 1) []).length + 1 ∧
  1 ≤ r.stop.col ∧ r.stop.col ≤ (lines.getD (r.stop.line - 1) []).length + 1 ∧
  (r.start.line = r.stop.line → r.start.col ≤ r.stop.col)

instance (lines : List (List Char)) (r : Range) : Decidable (inText lines r) := by
  unfold inText; infer_instance

/-- a Go slice expression `l[a:b]` -/
def slice? (l : List Char) (a b : Nat) : Option (List Char) := if a ≤ b ∧ b ≤ l.length then some ((l.drop a).take (b - a)) else none

/-- what the renderer marks on line `i` (0-based) of the excerpt: the number of marked code points -/
def renderLine (lines : List (List Char)) (r : Range) (i : Nat) : Option Nat :=
  match lines[i]? with
  | none => none                                   -- lines[lineIndex] out of range
  | some line =>
    if i = r.start.line - 1 then
      (slice? line 0 (r.start.col - 1)).bind fun _ =>
        if r.start.line = r.stop.line then (slice? line (r.start.col - 1) (r.stop.col - 1)).map (·.length)
        else (slice? line (r.start.col - 1) line.length).map (·.length)
    else if i < r.stop.line - 1 then some line.length
    else (slice? line 0 (r.stop.col - 1)).map (·.length)

/-- the loop `for lineIndex := Start.Line-1; lineIndex < End.Line; lineIndex++` -/
def renderFrom (lines : List (List Char)) (r : Range) : Nat → Nat → Option (List Nat)
  | _, 0 => some []
  | i, n + 1 => (renderLine lines r i).bind fun m => (renderFrom lines r (i + 1) n).map (m :: ·)

def render (lines : List (List Char)) (r : Range) : Option (List Nat) :=
  renderFrom lines r (r.start.line - 1) (r.stop.line - (r.start.line - 1))

end DDP.Diag

import DDP.Impl.Types

/-!
# L1 model of the operator rules of the type checker
(`src/parser/typechecker/typechecker.go`, `VisitUnaryExpr` / `VisitBinaryExpr` /
`VisitTernaryExpr`, without user overloads and generics) over the type terms of
`DDP.Types`.  `none` = an error diagnostic is reported (the program is rejected).
-/

namespace DDP.Checker
open DDP.Types

inductive Op
  | abs | negate | not | logicNot | len
  | and | or | xor | concat | plus | minus | mult | div | index | pow | log
  | logicAnd | logicOr | logicXor | mod | shl | shr | eq | ne | lt | gt | le | ge
  | sliceTo | sliceFrom
  | slice | between | falls
  deriving DecidableEq, Repr

def zahl : Ty := .prim .zahl
def komma : Ty := .prim .komma
def byte : Ty := .prim .byte
def wahr : Ty := .prim .wahr
def buchstabe : Ty := .prim .buchstabe
def text : Ty := .prim .text

/-- `GetListElementType`: element type of a list, the type itself otherwise -/
def listElem (t : Ty) : Ty := match getUnderlying t with | .list e => e | _ => t

/-- `validate(valid...)` of VisitBinaryExpr -/
def validate2 (l r : Ty) (valid : List Ty) : Bool := isOneOf l valid && isOneOf r valid

def admits : Op → List Ty → Option Ty
  -- unary (operand = rhs)
  | .abs, [r] | .negate, [r] => if isNumeric r then some (if equal r byte then zahl else r) else none
  | .not, [r] => if isOneOf r [wahr] then some wahr else none
  | .logicNot, [r] => if isOneOf r [zahl, byte] then some r else none
  | .len, [r] => if isList r || equal r text then some zahl else none
  -- binary
  | .concat, [l, r] =>
    if (!isList l && !isList r) && (equal l text || equal r text) then
      (if validate2 l r [text, buchstabe] then some text else none)
    else if equal (listElem l) (listElem r) then some (.list (listElem l)) else none
  | .plus, [l, r] | .minus, [l, r] | .mult, [l, r] =>
    if validate2 l r [zahl, komma, byte] then
      some (if equal l zahl && equal r zahl then zahl
        else if equal l byte && equal r byte then byte
        else if equal l komma || equal r komma then komma
        else zahl)
    else none
  | .index, [l, r] =>
    if (isList l || equal l text) && (equal r zahl || equal r byte) then
      (match getUnderlying l with | .list e => some e | _ => some buchstabe)
    else none
  | .sliceFrom, [l, r] | .sliceTo, [l, r] =>
    if (isList l || equal l text) && isOneOf r [zahl, byte] then some (if isList l then l else text) else none
  | .div, [l, r] | .pow, [l, r] | .log, [l, r] => if validate2 l r [zahl, komma, byte] then some komma else none
  | .mod, [l, r] | .logicAnd, [l, r] | .logicOr, [l, r] | .logicXor, [l, r] =>
    if validate2 l r [zahl, byte] then some (if isOneOf zahl [l, r] then zahl else byte) else none
  | .and, [l, r] | .or, [l, r] | .xor, [l, r] => if validate2 l r [wahr] then some wahr else none
  | .shl, [l, r] | .shr, [l, r] => if validate2 l r [zahl, byte] then some l else none
  | .eq, [l, r] | .ne, [l, r] => if equal l r then some wahr else none
  | .lt, [l, r] | .gt, [l, r] | .le, [l, r] | .ge, [l, r] => if validate2 l r [zahl, komma, byte] then some wahr else none
  -- ternary (lhs, mid, rhs)
  | .slice, [l, m, r] =>
    if (isList l || equal l text) && isOneOf m [zahl, byte] && isOneOf r [zahl, byte] then
      some (if isList l then l else text) else none
  | .between, [l, m, r] =>
    if isOneOf l [zahl, komma, byte] && isOneOf m [zahl, komma, byte] && isOneOf r [zahl, komma, byte] then some wahr else none
  | .falls, [l, m, r] => if equal l r && isOneOf m [wahr] then some l else none
  | _, _ => none

end DDP.Checker

/-!
# L1 model of the alias-store key predicates `tokenEqual` / `tokenLess` (`src/parser/util.go`)

A key is a token reduced to what the two predicates read: its type ordinal, its literal (for
the six token types compared by text) or, for alias placeholders, the Referenz flag and
the *identity* of the underlying parameter type.  The printed name and the list-ness of a
type are functions of that identity (`name`, `isList`); literals and names are abstracted
to `Nat` ranks (Go compares strings byte-wise, any total order serves).
Tied to the code by the correspondence `harness tokcmp` (all pairs over a vocabulary).
-/

namespace DDP.TokenKey

/-- token types whose literal takes part in the comparison -/
inductive LitClass | identifier | symbol | int | float | string | char
  deriving DecidableEq, Repr

/-- ordinals of `token.TokenType` (checked against the generated enumeration in Props/C20) -/
def LitClass.ord : LitClass → Nat
  | .identifier => 2 | .symbol => 5 | .int => 6 | .float => 7 | .string => 8 | .char => 9

def isOtherTy (t : Nat) : Bool := t != 2 && t != 3 && t != 5 && t != 6 && t != 7 && t != 8 && t != 9

inductive TokKey where
  | lit (c : LitClass) (text : Nat)
  | other (ty : Nat) (h : isOtherTy ty = true)     -- keywords, punctuation, …
  | param (isRef : Bool) (id : Nat)                 -- ALIAS_PARAMETER with its AliasInfo
  deriving DecidableEq, Repr

def TokKey.ty : TokKey → Nat
  | .lit c _ => c.ord
  | .other t _ => t
  | .param _ _ => 3

/-- `tokenEqual` -/
def tokEq (a b : TokKey) : Bool :=
  match a, b with
  | .lit c x, .lit d y => c == d && x == y
  | .other s _, .other t _ => s == t
  | .param r i, .param r' j => r == r' && i == j
  | _, _ => false

/-- `tokenLess` -/
def tokLess (name : Nat → Nat) (isList : Nat → Bool) (a b : TokKey) : Bool :=
  if a.ty ≠ b.ty then Nat.blt a.ty b.ty
  else match a, b with
    | .param r i, .param r' j =>
      if r ≠ r' then (!r && r')
      else if isList i ≠ isList j then (!isList i && isList j)
      else Nat.blt (name i) (name j)
    | .lit _ x, .lit _ y => Nat.blt x y
    | _, _ => false

/-- Type aliases: `ParamTypesEqual` (through `ddptypes.Equal`), `IsList` and the name compared by
`tokenLess` all look at a placeholder's type only through `ddptypes.GetUnderlying`; `under` is that
map on type identities (the identity on types that are not aliases). -/
def TokKey.resolve (under : Nat → Nat) : TokKey → TokKey
  | .param r i => .param r (under i)
  | k => k

/-- `tokenEqual` on tokens whose placeholder types may be aliases -/
def tokEqU (under : Nat → Nat) (a b : TokKey) : Bool := tokEq (a.resolve under) (b.resolve under)

/-- `tokenLess` on tokens whose placeholder types may be aliases -/
def tokLessU (under : Nat → Nat) (name : Nat → Nat) (isList : Nat → Bool) (a b : TokKey) : Bool :=
  tokLess name isList (a.resolve under) (b.resolve under)

end DDP.TokenKey

import DDP.Impl.Utf8

/-!
# L1 model of the text runtime (`lib/runtime/source/DDP/operators.c`, `ddptypes.c`)

A text is the pair the C struct holds: the allocated block `buf` (its length is the block
size; `[]` stands for `NULL`) and the recorded capacity `cap`.  Every C function is
transcribed with the same loops and the same use of `cap` versus the NUL terminator.
Reads are total on the block; a read *past* the block is an explicit `overread` outcome
where the C code's length comes from `cap` (`memcmp` in equality, the iteration bound).
-/

namespace DDP.TextRT
open DDP.Utf8

structure Text where
  buf : List Nat
  cap : Nat
  deriving DecidableEq, Repr

inductive Res (α : Type) where
  | ok (a : α)
  | err                -- ddp_runtime_error: Laufzeitfehler, exit 1
  | overread           -- read or write outside the allocated block
  | hang               -- a loop that makes no progress
  deriving DecidableEq, Repr

def emptyText : Text := ⟨[], 0⟩

/-- `ddp_string_empty` -/
def isEmpty (t : Text) : Bool := t.buf.isEmpty || t.cap == 0 || t.buf.headD 0 == 0

/-- `strlen(str->str)` -/
def strlen (t : Text) : Nat := (cstr t.buf).length

/-- `ddp_string_from_constant` on the bytes of a C string literal (without the NUL) -/
def fromConstant (bytes : List Nat) : Text :=
  let s := cstr bytes
  if s.isEmpty then emptyText else ⟨s ++ [0], s.length + 1⟩

/-- `ddp_deep_copy_string` -/
def deepCopy (t : Text) : Text := if t.buf.isEmpty then emptyText else ⟨t.buf.take t.cap, t.cap⟩

/-- `ddp_string_length` -/
def length (t : Text) : Nat := if isEmpty t then 0 else strlenCp t.buf

/-- the common walk of index/replace: `while (str[i] != 0 && len > 1) { i += utf8_num_bytes(str+i); len--; }` -/
def walk (buf : List Nat) : Nat → Nat → Nat
  | i, 0 => i
  | i, len + 1 =>
    if len = 0 then i
    else if buf.getD i 0 != 0 then walk buf (i + numBytes (buf.drop i)) len else i

/-- `ddp_string_index` -/
def index (t : Text) (idx : Int) : Res Nat :=
  if idx < 1 then .err
  else if idx > t.cap || t.cap ≤ 1 then .err
  else
    let i := walk t.buf 0 idx.toNat
    if t.buf.getD i 0 == 0 then .err else .ok (decode1 (t.buf.drop i))

/-- `utf8_char_to_string`: `none` = `(size_t)-1` -/
def charBytes (c : Int) : Option (List Nat) :=
  if c < 0 then none else if isScalar c.toNat then some (encode c.toNat) else none

/-- `ddp_replace_char_in_string` -/
def replaceChar (t : Text) (ch : Int) (idx : Int) : Res Text :=
  if idx < 1 then .err
  else if idx > t.cap || t.cap ≤ 1 then .err
  else
    let i := walk t.buf 0 idx.toNat
    if t.buf.getD i 0 == 0 then .err
    else
      let oldLen := numBytes (t.buf.drop i)
      match charBytes ch with
      | none => .overread      -- memcpy with length (size_t)-1
      | some nb =>
        let newLen := nb.length
        if oldLen == newLen then .ok ⟨t.buf.take i ++ nb ++ t.buf.drop (i + newLen), t.cap⟩
        else if oldLen > newLen then
          -- in place: new char, memmove of the tail (cap - i - oldLen bytes), then the block is
          -- reallocated to the new size (cap stays strlen + 1)
          let tail := (t.buf.drop (i + oldLen)).take (t.cap - i - oldLen)
          let newCap := t.cap - oldLen + newLen
          .ok ⟨(t.buf.take i ++ nb ++ tail).take newCap, newCap⟩
        else
          let newCap := t.cap - oldLen + newLen
          .ok ⟨t.buf.take i ++ nb ++ (t.buf.drop (i + oldLen)).take (t.cap - i - oldLen), newCap⟩

def clampI (i lo hi : Int) : Int := let t := if i < lo then lo else i; if t > hi then hi else t

/-- the two scanning loops of `ddp_string_slice` (by `utf8_indicated_num_bytes`) -/
def sliceWalk (buf : List Nat) : Nat → Nat → Nat → Nat → Nat × Nat   -- fuel i len target
  | 0, i, len, _ => (i, len)
  | fuel + 1, i, len, target =>
    if buf.getD i 0 != 0 && len != target then
      sliceWalk buf fuel (i + indicatedNumBytes (buf.getD i 0)) (len + 1) target
    else (i, len)

/-- `ddp_string_slice` -/
def slice (t : Text) (index1 index2 : Int) : Res Text :=
  if isEmpty t then .ok emptyText
  else
    let n : Int := strlenCp t.buf
    let a := clampI index1 1 n
    let b := clampI index2 1 n
    if b < a then .err
    else
      let (i1, len) := sliceWalk t.buf (t.buf.length + 1) 0 0 (a - 1).toNat
      let (i2, _) := sliceWalk t.buf (t.buf.length + 1) i1 len (b - 1).toNat
      let cap := (i2 - i1) + 1 + numBytes (t.buf.drop i2)
      .ok ⟨(t.buf.drop i1).take (cap - 1) ++ [0], cap⟩

/-- `ddp_string_string_verkettet` (str1 is consumed) -/
def concatSS (a b : Text) : Text :=
  if isEmpty a && isEmpty b then emptyText
  else if isEmpty a then deepCopy b
  else if isEmpty b then a
  else ⟨a.buf.take (a.cap - 1) ++ b.buf.take b.cap, a.cap - 1 + b.cap⟩

/-- `ddp_char_string_verkettet` -/
def concatCS (c : Int) (s : Text) : Text :=
  let nb := (charBytes c).getD []
  if isEmpty s then fromConstant nb
  else ⟨nb ++ s.buf.take s.cap, s.cap + nb.length⟩

/-- `ddp_string_char_verkettet` -/
def concatSC (s : Text) (c : Int) : Text :=
  let nb := (charBytes c).getD []
  if isEmpty s then fromConstant nb
  else ⟨s.buf.take (s.cap - 1) ++ nb ++ [0], s.cap + nb.length⟩

/-- `ddp_char_to_string` -/
def charToString (c : Int) : Text :=
  let nb := (charBytes c).getD []
  ⟨nb ++ [0], nb.length + 1⟩

/-- `ddp_string_equal`: strlen compared first, then `memcmp(str1, str2, str1->cap)` -/
def equal (a b : Text) : Res Bool :=
  if strlen a != strlen b then .ok false
  else if a.cap > a.buf.length || a.cap > b.buf.length then .overread
  else .ok (a.buf.take a.cap == b.buf.take a.cap)

/-- iteration over a text as generated by the compiler (`compiler.go`, for-each over Text):
from `str` to `str + cap - 1`, advancing by the decoded width -/
def iterate (t : Text) : Nat → Nat → Res (List Nat)      -- fuel, offset
  | 0, _ => .hang
  | fuel + 1, i =>
    if t.cap ≤ 1 || i ≥ t.cap - 1 then .ok []
    else if i ≥ t.buf.length then .overread
    else
      let n := numBytes (t.buf.drop i)
      if n == 0 then .hang
      else match iterate t fuel (i + n) with
        | .ok cs => .ok (decode1 (t.buf.drop i) :: cs)
        | r => r

def iterateAll (t : Text) : Res (List Nat) := iterate t (t.cap + 1) 0

/-- code points of a text: decode from the start up to the NUL -/
def decodeAll : Nat → List Nat → List Nat
  | 0, _ => []
  | fuel + 1, s =>
    match s with
    | [] => []
    | b :: _ => if b == 0 then [] else
      let n := numBytes s
      if n == 0 then [] else decode1 s :: decodeAll fuel (s.drop n)

def abs (t : Text) : List Nat := if isEmpty t then [] else decodeAll t.buf.length t.buf

end DDP.TextRT

/-!
# L1: which alias a call resolves to

Transcription of `parser.alias` / `sortAliases` (src/parser/alias.go): the aliases whose token
pattern matches at the call position are ordered by length (longer first), then by the number of
generic parameters (fewer first), then by the number of Referenz parameters (more first); the
first one whose parameter types fit the arguments is called.
-/

namespace DDP.Resolve

structure Cand where
  id : Nat
  len : Nat          -- number of tokens of the alias pattern
  gen : Nat          -- parameters of a generic type
  refs : Nat         -- Referenz parameters
  fits : Bool        -- the argument types equal the parameter types (checkAlias, type sensitive)
  deriving Repr, BEq, Inhabited

/-- `less` of sortAliases: a comes before b -/
def before (a b : Cand) : Bool :=
  if a.len != b.len then decide (b.len < a.len)
  else if a.gen != b.gen then decide (a.gen < b.gen)
  else decide (b.refs < a.refs)

def insertC (c : Cand) : List Cand → List Cand
  | [] => [c]
  | d :: r => if before d c then d :: insertC c r else c :: d :: r

/-- the order the candidates are tried in (a sort by `before`; the order among equal keys is unspecified) -/
def sortC : List Cand → List Cand
  | [] => []
  | c :: r => insertC c (sortC r)

/-- the alias the call resolves to -/
def select (cs : List Cand) : Option Cand := (sortC cs).find? (·.fits)

def key (c : Cand) : Nat × Nat × Nat := (c.len, c.gen, c.refs)

end DDP.Resolve

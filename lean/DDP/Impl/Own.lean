/-!
# L1: the ownership bookkeeping of the code generator

A model of what `src/compiler/compiler.go` decides *at compile time* about who releases which heap value:
`latestIsTemp`, `scope.temporaries` / `scope.variables`, `claimOrCopy`, `claimTemporary`, `exitScope`,
`exitNestedScopes` (leaving / continuing a loop), the frees in front of a `ret`, caller-copies / callee-frees, and
the sub-scopes of short-circuited operands — for the fragment of the language whose values are Texte:

* expressions: Text literal, variable, `a verkettet mit b`, call of a function with one Text parameter;
* conditions: opaque primitive condition, `a gleich b` on Texte, `c und d` / `c oder d` (right operand short-circuited);
* statements: declaration, assignment, expression statement, `Wenn`/`Sonst`, `Solange`, `Verlasse die Schleife`,
  `Fahre mit der Schleife fort`, `Gib … zurück`, nested blocks.

`compileFn` turns a function body into *abstract code*: the calls to the runtime that touch ownership
(`ddp_string_from_constant`, `ddp_deep_copy_string`, `ddp_free_string`, the load/store that moves a value, the
concatenation that consumes its left operand, calls), over *slots* (the `alloca`s), inside structured control flow.
`run` executes abstract code on an abstract heap: the list of slots that currently own a live block. Releasing or
reading a slot that owns nothing (double free, use after free, free of an uninitialised slot), or initialising a slot
that still owns a block (leak by overwrite), is an error. `Props/C05.lean` proves that code compiled from *any*
function body never errs and ends owning nothing, on every path.

The model is tied to the real code generator by comparing, for generated programs of this fragment, the multiset of
ownership-relevant calls per function in the LLVM IR that `kddp` emits at `-O 0` with `callCounts (compileFn body)`
(`vlib/props/C05.py`, stage `own-model`).
-/

namespace DDP.Own

abbrev Slot := Nat

/-! ## Source fragment -/

inductive Ex
  | lit                      -- a non-empty Text literal
  | var (k : Nat)            -- the k-th visible Text variable, innermost declaration first
  | concat (a b : Ex)        -- a verkettet mit b
  | call (f : Nat) (a : Ex)  -- f(a): one Text parameter by value, Text result
  deriving Repr, DecidableEq

inductive Cond
  | prim                     -- a condition that touches no heap value
  | eq (a b : Ex)            -- a gleich b
  | and (c d : Cond)         -- c und d / c oder d: d is evaluated in a scope of its own, on one branch only
  deriving Repr, DecidableEq

mutual
  inductive St
    | decl (e : Ex)
    | assign (k : Nat) (e : Ex)
    | expr (e : Ex)
    | ite (c : Cond) (t e : Blk)
    | while (c : Cond) (b : Blk)
    | brk
    | cont
    | ret (e : Ex)
    | block (b : Blk)
    deriving Repr
  inductive Blk
    | nil
    | cons (s : St) (rest : Blk)
    deriving Repr
end

/-! ## Abstract code -/

inductive Ins
  | fromConst (d : Slot)          -- ddp_string_from_constant(d, …): d now owns a fresh block
  | copy (d s : Slot)             -- ddp_deep_copy_string(d, s)
  | free (s : Slot)               -- ddp_free_string(s)
  | move (d s : Slot)             -- store (load s), d: the block of s now belongs to d; s keeps a stale pointer
  | concatT (d a b : Slot)        -- ddp_string_string_verkettet(d, a, b), a a registered temporary: a is left holding the empty Text and is still released by its scope
  | concatC (d a b : Slot)        -- the same, a an unregistered copy: its block is consumed, nobody releases a
  | equal (a b : Slot)            -- ddp_string_equal(a, b): reads both
  | call (f : Nat) (ret arg : Slot)  -- the callee releases arg, ret owns the result
  deriving Repr, DecidableEq

inductive Code
  | ins (i : Ins)
  | skip
  | seq (a b : Code)
  | choice (a b : Code)           -- a conditional branch on a primitive value
  | loop (cond body : Code)       -- repeat { cond; either leave or body }
  | brk
  | cont
  | ret
  deriving Repr

def Code.ofList : List Ins → Code
  | [] => .skip
  | i :: is => .seq (.ins i) (Code.ofList is)

/-! ## Abstract machine -/

inductive Out
  | err (why : String)
  | normal (own : List Slot) (path : List Bool)
  | brk (own : List Slot) (path : List Bool)
  | cont (own : List Slot) (path : List Bool)
  | ret (own : List Slot)
  | timeout
  deriving Repr, DecidableEq

def step (i : Ins) (own : List Slot) : Option (List Slot) :=
  match i with
  | .fromConst d => if own.contains d then none else some (d :: own)
  | .copy d s => if own.contains s && !own.contains d then some (d :: own) else none
  | .free s => if own.contains s then some (own.erase s) else none
  | .move d s => if own.contains s && !(own.erase s).contains d then some (d :: own.erase s) else none
  | .concatT d a b => if own.contains a && own.contains b && !own.contains d then some (d :: own) else none
  | .concatC d a b => if own.contains a && own.contains b && !(own.erase a).contains d then some (d :: own.erase a) else none
  | .equal a b => if own.contains a && own.contains b then some own else none
  | .call _ ret arg => if own.contains arg && !(own.erase arg).contains ret then some (ret :: own.erase arg) else none

/-- `path` decides every conditional branch (true = first alternative / stay in the loop); `fuel` bounds the number of
loop iterations looked at. -/
def run : Nat → Code → List Bool → List Slot → Out
  | _, .ins i, path, own => match step i own with
    | some own' => .normal own' path
    | none => .err (reprStr i)
  | _, .skip, path, own => .normal own path
  | fuel, .seq a b, path, own => match run fuel a path own with
    | .normal own' path' => run fuel b path' own'
    | o => o
  | fuel, .choice a b, path, own => match path with
    | [] => .timeout
    | true :: path' => run fuel a path' own
    | false :: path' => run fuel b path' own
  | 0, .loop _ _, _, _ => .timeout
  | fuel + 1, .loop c b, path, own => match run fuel c path own with
    | .normal own' path' => match path' with
      | [] => .timeout
      | false :: path'' => .normal own' path''
      | true :: path'' => match run fuel b path'' own' with
        | .normal own'' p | .cont own'' p => run fuel (.loop c b) p own''
        | .brk own'' p => .normal own'' p
        | o => o
    | o => o
  | _, .brk, path, own => .brk own path
  | _, .cont, path, own => .cont own path
  | _, .ret, _, own => .ret own

/-! ## The compile-time state -/

structure Scope where
  vars : List Slot := []
  temps : List Slot := []
  deriving Repr, DecidableEq

structure CS where
  next : Nat                 -- the next unused slot (`alloca`)
  cur : Scope                -- `c.scp`
  outer : List Scope         -- its enclosing scopes, innermost first; the last one is the function scope (parameters)
  loops : List Nat := []     -- for every enclosing loop, innermost first: how many scopes are open from its body scope inwards
  deriving Repr

/-- slot of the returned value (the out-pointer parameter) and of the parameter -/
def retSlot : Slot := 0
def paramSlot : Slot := 1

def CS.all (cs : CS) : List Scope := cs.cur :: cs.outer

def CS.fresh (cs : CS) : Slot × CS := (cs.next, { cs with next := cs.next + 1 })

def CS.addTemp (cs : CS) (s : Slot) : CS := { cs with cur := { cs.cur with temps := cs.cur.temps ++ [s] } }
def CS.addVar (cs : CS) (s : Slot) : CS := { cs with cur := { cs.cur with vars := s :: cs.cur.vars } }
/-- `scope.claimTemporary`: looks in the current scope only -/
def CS.claimTemp (cs : CS) (s : Slot) : CS := { cs with cur := { cs.cur with temps := cs.cur.temps.erase s } }

def bump : List Nat → List Nat
  | [] => []
  | d :: r => (d + 1) :: r
def unbump : List Nat → List Nat
  | [] => []
  | d :: r => (d - 1) :: r

/-- `newScope(c.scp)` -/
def CS.push (cs : CS) : CS := { cs with cur := {}, outer := cs.cur :: cs.outer, loops := bump cs.loops }
/-- back to the enclosing scope -/
def CS.pop (cs : CS) : CS := { cs with cur := cs.outer.headD {}, outer := cs.outer.tail, loops := unbump cs.loops }

/-- all variables in scope, innermost declaration first -/
def CS.visible (cs : CS) : List Slot := cs.all.flatMap (·.vars)
def CS.lookup (cs : CS) (k : Nat) : Slot := cs.visible.getD k paramSlot

/-- `exitScope` / `freeTemporaries`: the releases emitted for one scope -/
def Scope.frees (sc : Scope) : List Ins := sc.vars.map .free ++ sc.temps.map .free

/-- `claimOrCopy(dest, val, isTemp)` -/
def claimOrCopy (cs : CS) (dest val : Slot) (isTemp : Bool) : List Ins × CS :=
  if isTemp then ([.move dest val], cs.claimTemp val) else ([.copy dest val], cs)

structure ERes where
  code : List Ins
  slot : Slot
  isTemp : Bool
  cs : CS

/-- `evaluate(expr)`: code, where the value is, `latestIsTemp`, new state -/
def compileE : Ex → CS → ERes
  | .lit, cs =>
    let (d, cs) := cs.fresh
    ⟨[.fromConst d], d, true, cs.addTemp d⟩
  | .var k, cs => ⟨[], cs.lookup k, false, cs⟩
  | .concat a b, cs =>
    let ra := compileE a cs
    let rb := compileE b ra.cs
    let (r, cs) := rb.cs.fresh
    if ra.isTemp then
      ⟨ra.code ++ rb.code ++ [.concatT r ra.slot rb.slot], r, true, cs.addTemp r⟩
    else
      let (d, cs) := cs.fresh
      ⟨ra.code ++ rb.code ++ [.copy d ra.slot, .concatC r d rb.slot], r, true, cs.addTemp r⟩
  | .call f a, cs =>
    let (ret, cs) := cs.fresh
    let ra := compileE a cs
    let (dest, cs) := ra.cs.fresh
    let (cc, cs) := claimOrCopy cs dest ra.slot ra.isTemp
    ⟨ra.code ++ cc ++ [.call f ret dest], ret, true, cs.addTemp ret⟩

/-- the code of a condition; Text operands of `gleich` stay temporaries of the current scope, the right operand of
`und` / `oder` gets a scope of its own that is left before the branches join -/
def compileC : Cond → CS → Code × CS
  | .prim, cs => (.skip, cs)
  | .eq a b, cs =>
    let ra := compileE a cs
    let rb := compileE b ra.cs
    (Code.ofList (ra.code ++ rb.code ++ [.equal ra.slot rb.slot]), rb.cs)
  | .and c d, cs =>
    let (cc, cs) := compileC c cs
    let (cd, cs') := compileC d cs.push
    (.seq cc (.choice (.seq cd (Code.ofList cs'.cur.frees)) .skip), cs'.pop)

/-- `exitNestedScopes(curLoopScope)`: the releases for every scope from the current one out to the body scope of the
innermost loop -/
def CS.loopFrees (cs : CS) : List Ins :=
  match cs.loops with
  | [] => []
  | depth :: _ => (cs.all.take depth).flatMap Scope.frees

/-- `exitScopeReturn`: every scope of the function, parameters last -/
def CS.returnFrees (cs : CS) : List Ins := cs.all.flatMap Scope.frees

def isRet : St → Bool
  | .ret _ => true
  | _ => false

mutual
  def compileS : St → CS → Code × CS
    | .decl e, cs =>
      let (v, cs) := cs.fresh
      let r := compileE e cs
      let (cc, cs) := claimOrCopy r.cs v r.slot r.isTemp
      (Code.ofList (r.code ++ cc), cs.addVar v)
    | .assign k e, cs =>
      let r := compileE e cs
      let lhs := r.cs.lookup k
      if r.isTemp then
        (Code.ofList (r.code ++ [.free lhs, .move lhs r.slot]), r.cs.claimTemp r.slot)
      else
        let (c, cs) := r.cs.fresh
        (Code.ofList (r.code ++ [.copy c r.slot, .free lhs, .move lhs c]), cs)
    | .expr e, cs =>
      let r := compileE e cs
      (Code.ofList r.code, r.cs)
    | .ite c t e, cs =>
      let (cc, cs) := compileC c cs
      let (ct, cs) := compileBlock t cs.push
      let cs := cs.pop
      let (ce, cs) := compileBlock e cs.push
      (.seq cc (.choice ct ce), cs.pop)
    | .while c b, cs =>
      let (cc, cs1) := compileC c cs.push
      let condCode := Code.seq cc (Code.ofList cs1.cur.frees)
      let cs2 := cs1.pop
      let csBody := { cs2.push with loops := 1 :: cs2.push.loops }
      let (cb, cs3) := compileBlock b csBody
      (.loop condCode cb, { cs3.pop with loops := cs2.loops })
    | .brk, cs => (.seq (Code.ofList cs.loopFrees) .brk, cs)
    | .cont, cs => (.seq (Code.ofList cs.loopFrees) .cont, cs)
    | .ret e, cs =>
      let r := compileE e cs
      let (cc, cs) := claimOrCopy r.cs retSlot r.slot r.isTemp
      (.seq (Code.ofList (r.code ++ cc ++ cs.returnFrees)) .ret, cs)
    | .block b, cs => compileBlock b cs
  /-- `VisitBlockStmt`: a scope of its own; statements up to the first `Gib … zurück`; released at the end unless the
  block ended in that return -/
  def compileBlock (b : Blk) (cs : CS) : Code × CS :=
    let (c, cs', returned) := compileStmts b cs.push
    if returned then (c, cs'.pop) else (.seq c (Code.ofList cs'.cur.frees), cs'.pop)
  def compileStmts : Blk → CS → Code × CS × Bool
    | .nil, cs => (.skip, cs, false)
    | .cons s rest, cs =>
      let (c, cs) := compileS s cs
      if isRet s then (c, cs, true)
      else
        let (c', cs, r) := compileStmts rest cs
        (.seq c c', cs, r)
end

/-- `defineFuncBody`: the parameter is a variable of the function scope; the body is a block; the parameter is released
at the end unless the body ended in a return -/
def compileFn (body : Blk) : Code :=
  let cs : CS := { next := 2, cur := { vars := [paramSlot] }, outer := [] }
  let (c, cs', returned) := compileStmts body cs.push
  if returned then c
  else .seq c (.seq (Code.ofList (cs'.cur.frees ++ cs'.pop.cur.frees)) .ret)

/-! ## Well-scoped bodies (what the front end guarantees: C04) -/

def wfE : Ex → Nat → Bool
  | .lit, _ => true
  | .var k, n => k < n
  | .concat a b, n => wfE a n && wfE b n
  | .call _ a, n => wfE a n

def wfC : Cond → Nat → Bool
  | .prim, _ => true
  | .eq a b, n => wfE a n && wfE b n
  | .and c d, n => wfC c n && wfC d n

mutual
  /-- `n` variables visible, `inLoop`: a loop encloses the statement; returns the number of visible variables afterwards -/
  def wfS : St → Nat → Bool → Bool
    | .decl e, n, _ => wfE e n
    | .assign k e, n, _ => k < n && wfE e n
    | .expr e, n, _ => wfE e n
    | .ite c t e, n, l => wfC c n && wfB t n l && wfB e n l
    | .while c b, n, _ => wfC c n && wfB b n true
    | .brk, _, l => l
    | .cont, _, l => l
    | .ret e, n, _ => wfE e n
    | .block b, n, l => wfB b n l
  def wfB : Blk → Nat → Bool → Bool
    | .nil, _, _ => true
    | .cons s rest, n, l => wfS s n l && wfB rest (match s with | .decl _ => n + 1 | _ => n) l
end

/-! ## What the model predicts about the emitted IR: ownership-relevant calls per function -/

structure Counts where
  fromConst : Nat := 0
  copy : Nat := 0
  free : Nat := 0
  concat : Nat := 0
  equal : Nat := 0
  call : Nat := 0
  deriving Repr, DecidableEq

def Counts.add (a b : Counts) : Counts :=
  ⟨a.fromConst + b.fromConst, a.copy + b.copy, a.free + b.free, a.concat + b.concat, a.equal + b.equal, a.call + b.call⟩

def insCounts : Ins → Counts
  | .fromConst _ => { fromConst := 1 }
  | .copy _ _ => { copy := 1 }
  | .free _ => { free := 1 }
  | .move _ _ => {}
  | .concatT _ _ _ => { concat := 1 }
  | .concatC _ _ _ => { concat := 1 }
  | .equal _ _ => { equal := 1 }
  | .call _ _ _ => { call := 1 }

def callCounts : Code → Counts
  | .ins i => insCounts i
  | .seq a b => (callCounts a).add (callCounts b)
  | .choice a b => (callCounts a).add (callCounts b)
  | .loop c b => (callCounts c).add (callCounts b)
  | _ => {}

end DDP.Own

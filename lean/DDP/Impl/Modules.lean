/-!
# L1: which modules are initialised, and in which order

Transcription of `compiler.VisitImportStmt` + `ast.IterateModuleImports`: only the main module calls
module initialisers; at every import statement of the main module, in source order, the imported
module and everything it imports are visited depth first, imports before the importer, and every
module not yet initialised is initialised there.  Import cycles are rejected by the front end, so the
graph is a DAG; the model uses "already initialised" as its only mark (on a DAG this is the same
walk as the implementation's walk with a visited set).
-/

namespace DDP.Modules

/-- `g m` = the modules imported by module `m`, in source order -/
abbrev Graph := Nat → List Nat

mutual
/-- visit module `m`: its imports first (left to right), then `m` itself, skipping what is done -/
def visit (g : Graph) : Nat → Nat → List Nat → List Nat
  | 0, _, done => done
  | fuel + 1, m, done => if m ∈ done then done else visitAll g fuel (g m) done ++ [m]
def visitAll (g : Graph) : Nat → List Nat → List Nat → List Nat
  | _, [], done => done
  | fuel, i :: r, done => visitAll g fuel r (visit g fuel i done)
end

/-- the initialisation sequence of a program whose main module imports `imports` (in source order) -/
def initSeq (g : Graph) (fuel : Nat) (imports : List Nat) : List Nat := visitAll g fuel imports []

/-- the graph is ranked: every module imports only modules with a smaller number (a DAG) -/
def Ranked (g : Graph) : Prop := ∀ m i, i ∈ g m → i < m

/-! ### visibility of declarations -/

structure Decl where
  name : String
  isPublic : Bool
  deriving Repr, BEq

/-- `Binde "m" ein` makes all public declarations visible; `Binde a und b aus "m" ein` exactly the
listed ones (a listed name that is not a public declaration of the module is an error) -/
def visible (decls : List Decl) (listed : Option (List String)) : Option (List String) :=
  let pub := (decls.filter (·.isPublic)).map (·.name)
  match listed with
  | none => some pub
  | some names => if names.all (pub.contains ·) then some names else none

/-! ### directory imports

`Binde alle Module aus "d" ein` brings in every module file directly in `d`, `Binde rekursiv alle
Module aus "d" ein` also those of its sub-directories, in the order `filepath.WalkDir` meets them:
the entries of a directory in lexical order of their names, a sub-directory walked where it stands. -/

inductive DirEntry where
  | file (name : String) (module : Nat)
  | dir (name : String) (entries : List DirEntry)

def DirEntry.name : DirEntry → String
  | .file n _ => n
  | .dir n _ => n

/-- insertion sort by name (the directory listing `os.ReadDir` returns is sorted by file name) -/
def insertEntry (e : DirEntry) : List DirEntry → List DirEntry
  | [] => [e]
  | f :: r => if e.name < f.name then e :: f :: r else f :: insertEntry e r
def sortEntries : List DirEntry → List DirEntry
  | [] => []
  | e :: r => insertEntry e (sortEntries r)

mutual
/-- every listing sorted, also those of the sub-directories -/
def sortDeep : List DirEntry → List DirEntry
  | [] => []
  | e :: r => insertEntry (sortEntryDeep e) (sortDeep r)
def sortEntryDeep : DirEntry → DirEntry
  | .file n m => .file n m
  | .dir n es => .dir n (sortDeep es)
end

mutual
/-- the modules a directory import of these (already sorted) entries brings in, in order -/
def walkSorted (recursive : Bool) : List DirEntry → List Nat
  | [] => []
  | e :: r => walkEntry recursive e ++ walkSorted recursive r
def walkEntry (recursive : Bool) : DirEntry → List Nat
  | .file _ m => [m]
  | .dir _ es => if recursive then walkSorted recursive es else []
end

mutual
/-- all module files below the entries (for the statement of completeness) -/
def allModules : List DirEntry → List Nat
  | [] => []
  | e :: r => modulesOf e ++ allModules r
def modulesOf : DirEntry → List Nat
  | .file _ m => [m]
  | .dir _ es => allModules es
end

/-- what a directory import brings in: the listings are sorted, then walked -/
def dirImport (recursive : Bool) (entries : List DirEntry) : List Nat := walkSorted recursive (sortDeep entries)

/-- the module files directly in the directory -/
def topModules : List DirEntry → List Nat
  | [] => []
  | .file _ m :: r => m :: topModules r
  | .dir _ _ :: r => topModules r

end DDP.Modules

import DDP.Impl.Checker

/-!
# L1 model of the code generator's lowering table, at the level of IR types
(`src/compiler/compiler.go`: `VisitUnaryExpr`, `VisitBinaryExpr`, `VisitTernaryExpr`;
`helper.go`: `toIrType`, `compare_values`).  For every operator and tuple of operand IR
types: the IR type of the result, or `none` when the lowering reports an internal error
(`c.err`, a Go panic) or emits an instruction whose operand types LLVM rejects.
-/

namespace DDP.Lowering
open DDP.Types DDP.Checker

inductive IrTy
  | int | float | byte | bool | char | string | any | void
  | struct (id : Nat)
  | list (e : IrTy)
  deriving DecidableEq, Repr

/-- IR type of a list element, `none` = the type assertion in `toIrType` panics
(a list whose element is itself a list, or `nichts`) -/
def elemIr : Ty → Option IrTy
  | .prim .zahl => some .int | .prim .komma => some .float | .prim .byte => some .byte
  | .prim .wahr => some .bool | .prim .buchstabe => some .char | .prim .text => some .string
  | .variable => some .any
  | .struct i => some (.struct i)
  | _ => none

/-- `toIrType` -/
def toIr (t : Ty) : Option IrTy :=
  match trueUnderlying t with
  | .list e => (elemIr (trueUnderlying e)).map .list
  | .void => some .void
  | u => elemIr u

def isListIr : IrTy → Bool | .list _ => true | _ => false
def numericIr : IrTy → Bool | .int | .float | .byte => true | _ => false
def intOrByte : IrTy → Bool | .int | .byte => true | _ => false

/-- result IR type of plus/minus/mal -/
def arithIr (l r : IrTy) : Option IrTy :=
  match l, r with
  | .int, .int => some .int | .int, .float => some .float | .int, .byte => some .int
  | .float, .int | .float, .float | .float, .byte => some .float
  | .byte, .int => some .int | .byte, .float => some .float | .byte, .byte => some .byte
  | _, _ => none

def lowerTy : Op → List IrTy → Option IrTy
  | .abs, [t] | .negate, [t] => (match t with | .float => some .float | .int => some .int | .byte => some .int | _ => none)
  | .not, [t] => if t = .bool then some .bool else none             -- `xor i1 %x, 1`
  | .logicNot, [t] => (match t with | .int => some .int | .byte => some .byte | _ => none)
  | .len, [t] => if t = .string || isListIr t then some .int else none
  | .and, [l, r] | .or, [l, r] | .xor, [l, r] => if l = .bool && r = .bool then some .bool else none
  | .concat, [l, r] =>
    if isListIr l then
      (if isListIr r then (if l = r then some l else none) else (if l = .list r then some l else none))
    else if isListIr r then (if r = .list l then some r else none)
    else if l = .string && r = .string || l = .string && r = .char || l = .char && r = .string then some .string
    else if l = .string || r = .string then none          -- no string concat function for this pair, list function ill-typed
    else if l = r then some (.list l) else none           -- scalar_scalar_concat of getListType(lhsTyp)
  | .plus, [l, r] | .minus, [l, r] | .mult, [l, r] => arithIr l r
  | .div, [l, r] | .pow, [l, r] | .log, [l, r] => if numericIr l && numericIr r then some .float else none
  | .index, [l, r] =>
    if numericIr r then
      (match l with | .string => some .char | .list e => some e | _ => none)
    else none
  | .sliceFrom, [l, r] | .sliceTo, [l, r] => if numericIr r && (l = .string || isListIr l) then some l else none
  | .logicAnd, [l, r] | .logicOr, [l, r] | .logicXor, [l, r] =>
    if l = .byte && r = .byte then some .byte else if numericIr l && numericIr r then some .int else none
  | .mod, [l, r] =>
    if l = .byte && r = .byte then some .byte else if numericIr l && numericIr r then some .int else none
  | .shl, [l, r] | .shr, [l, r] => if intOrByte l && numericIr r then some l else none
  | .eq, [l, r] | .ne, [l, r] => if l = r then some .bool else none   -- compare_values on lhsTyp: both operands must have it
  | .lt, [l, r] | .gt, [l, r] | .le, [l, r] | .ge, [l, r] => if numericIr l && numericIr r then some .bool else none
  | .slice, [l, m, r] => if numericIr m && numericIr r && (l = .string || isListIr l) then some l else none
  | .between, [l, m, r] => if numericIr l && numericIr m && numericIr r then some .bool else none
  | .falls, [l, m, r] => if m = .bool && l = r then some l else none
  | _, _ => none

end DDP.Lowering

/-!
# L1: the heap contract of `ddp_reallocate(pointer, oldSize, newSize)`

A trace is the sequence of calls a program made, each with the allocator's answer.  The ledger keeps
the live blocks with their sizes and accepts a call only if it respects the contract: a block is
resized or released only while it is live and with its true size, `NULL` carries size 0, and the
allocator answers with a block that is not live.  (`rtharness/ledger.c` is the same machine in C,
linked into compiled programs; both are run on the same traces.)
-/

namespace DDP.Ledger

structure Call where
  ptr : Nat
  old : Nat
  new : Nat
  result : Nat
  deriving Repr, BEq, Inhabited

abbrev Live := List (Nat × Nat)     -- address, size

def sizeOf? (l : Live) (p : Nat) : Option Nat := (l.find? (·.1 == p)).map (·.2)

def remove (l : Live) (p : Nat) : Live := l.filter (·.1 != p)

inductive Verdict
  | ok (l : Live)
  | error (kind : String)
  deriving Repr

/-- one call -/
def step (l : Live) (c : Call) : Verdict :=
  if c.ptr = 0 then
    if c.old ≠ 0 then .error "size-for-null"
    else if c.new = 0 then .ok l
    else if (sizeOf? l c.result).isSome then .error "not-fresh"
    else .ok ((c.result, c.new) :: l)
  else
    match sizeOf? l c.ptr with
    | none => .error "not-live"
    | some s =>
      if s ≠ c.old then .error "wrong-size"
      else if c.new = 0 then .ok (remove l c.ptr)
      else if c.old = c.new then (if c.result = c.ptr then .ok l else .error "moved-without-resize")
      else if (sizeOf? (remove l c.ptr) c.result).isSome then .error "not-fresh"
      else .ok ((c.result, c.new) :: remove l c.ptr)

/-- a whole trace: the live blocks at the end, or the first violation with its position -/
def run : Live → List Call → Nat → (Nat × Verdict)
  | l, [], i => (i, .ok l)
  | l, c :: r, i =>
    match step l c with
    | .ok l' => run l' r (i + 1)
    | .error k => (i, .error k)

/-- a call obtains a block / gives one up -/
def Call.acquires (c : Call) : Bool := c.new != 0 && !(c.ptr != 0 && c.old == c.new)
def Call.releases (c : Call) : Bool := c.ptr != 0 && !(c.new != 0 && c.old == c.new)

end DDP.Ledger

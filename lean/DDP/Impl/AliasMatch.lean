/-!
# L1: how an alias pattern is matched against the tokens of a call site

Transcription of the two places in `src/parser/alias.go` that decide which tokens form the
argument for a placeholder `<name>` of an alias pattern:

* the callback given to `p.aliases.Search` in `parser.alias` (decides whether a pattern matches
  at all and how far it reaches), and
* the loop of `parser.checkAlias` (cuts the tokens of each argument out again and hands them to a
  sub-parser, binding the resulting expression to the placeholder's *name*).

An argument is a single literal-like token, a `-` followed by a number-like token, or everything
from a `(` to its matching `)`.  Everything else in the pattern is a word that has to be equal to
the token at that position (`tokenEqual`).
-/

namespace DDP.AliasMatch

/-- the token classes the two loops distinguish -/
inductive Kind where
  | num      -- INT, FLOAT, IDENTIFIER, SYMBOL: may stand alone and may follow a `-`
  | lit      -- TRUE, FALSE, CHAR, STRING: may stand alone
  | negate   -- `-`
  | lparen
  | rparen
  | other    -- keywords, punctuation
  deriving DecidableEq, Repr

/-- a token of the call site: its class and the identity of its text (for `tokenEqual`) -/
structure Tok where
  kind : Kind
  id : Nat
  deriving DecidableEq, Repr

/-- an element of an alias pattern -/
inductive Pat where
  | word (t : Tok)
  | param (name : Nat)
  deriving DecidableEq, Repr

def Pat.isWord : Pat → Bool
  | .word _ => true
  | .param _ => false

/-- the loop `for numLparens > 0 && !p.atEnd()`: the number of tokens consumed after the opening
parenthesis until the depth is back at 0, or `none` when the tokens run out first -/
def closeParen : Nat → List Tok → Option Nat
  | 0, _ => some 0
  | _ + 1, [] => none
  | d + 1, t :: r =>
    match t.kind with
    | .lparen => (closeParen (d + 2) r).map (· + 1)
    | .rparen => (closeParen d r).map (· + 1)
    | _ => (closeParen (d + 1) r).map (· + 1)

/-- the same loop as `checkAlias` runs it: it does not care whether the tokens run out -/
def closeParenLax : Nat → List Tok → Nat
  | 0, _ => 0
  | _ + 1, [] => 0
  | d + 1, t :: r =>
    match t.kind with
    | .lparen => closeParenLax (d + 2) r + 1
    | .rparen => closeParenLax d r + 1
    | _ => closeParenLax (d + 1) r + 1

/-- `Search` callback at a placeholder: how many tokens the argument takes, `none` = no match.
(For a token of any other class the callback falls out of its `switch` and returns the call-site
token itself, which `tokenEqual` then compares with the placeholder token: never equal.) -/
def argSearch : List Tok → Option Nat
  | [] => none
  | t :: r =>
    match t.kind with
    | .num | .lit => some 1
    | .negate =>
      (match r with
       | n :: _ => if n.kind = .num then some 2 else none
       | [] => none)
    | .lparen =>
      (match closeParen 1 r with
       | some n => if r.drop n = [] then none else some (n + 1)   -- `if p.atEnd() { return nil, false }`
       | none => none)
    | _ => none

/-- `checkAlias` at a placeholder: how many tokens are cut out for the argument's sub-parser -/
def spanCheck : List Tok → Nat
  | [] => 0
  | t :: r =>
    match t.kind with
    | .num | .lit => 1
    | .negate =>
      (match r with
       | n :: _ => if n.kind = .num then 2 else 1
       | [] => 1)
    | .lparen => closeParenLax 1 r + 1
    | _ => 0

/-- a placeholder's binding: its name and the tokens of its argument -/
abbrev Binding := Nat × List Tok

/-- does the pattern match at the beginning of `ts`?  Result: the bindings in pattern order and
the tokens that follow the call. -/
def matchPat : List Pat → List Tok → Option (List Binding × List Tok)
  | [], ts => some ([], ts)
  | .word w :: ps, ts =>
    (match ts with
     | t :: r => if t = w then matchPat ps r else none
     | [] => none)
  | .param n :: ps, ts =>
    (match argSearch ts with
     | some k =>
       (match matchPat ps (ts.drop k) with
        | some (bs, rest) => some ((n, ts.take k) :: bs, rest)
        | none => none)
     | none => none)

/-- what `checkAlias` binds for a pattern it is asked to check (it does not test the words) -/
def cutArgs : List Pat → List Tok → List Binding
  | [], _ => []
  | .word _ :: ps, ts => cutArgs ps (ts.drop 1)
  | .param n :: ps, ts => (n, ts.take (spanCheck ts)) :: cutArgs ps (ts.drop (spanCheck ts))

/-- renaming of placeholders -/
def Pat.rename (f : Nat → Nat) : Pat → Pat
  | .word w => .word w
  | .param n => .param (f n)

/-- paren depth after a list of tokens, `none` if it ever closes more than it opened -/
def depthAfter : Nat → List Tok → Option Nat
  | d, [] => some d
  | d, t :: r =>
    match t.kind with
    | .lparen => depthAfter (d + 1) r
    | .rparen => (match d with | 0 => none | d' + 1 => depthAfter d' r)
    | _ => depthAfter d r

/-! ### the recursion through argument sub-parsers

`checkAlias` starts a parser of its own for the tokens of every argument (`argParser`), which
again looks for alias calls in them.  The skeleton of that recursion, as far as termination is
concerned: at the current token the declared patterns are tried; if one matches, each argument is
parsed by a sub-parser and parsing continues behind the call, otherwise one token is consumed.
The result counts the sub-parsers started; `none` means the fuel (the Go stack) ran out. -/

def firstMatch (pats : List (List Pat)) (ts : List Tok) : Option (List Binding × List Tok) :=
  pats.findSome? (fun p => matchPat p ts)

/-- all sub-parsers returned: their total (each counted itself, too) -/
def sumSome : List (Option Nat) → Option Nat
  | [] => some 0
  | none :: _ => none
  | some n :: r => (sumSome r).map (· + n + 1)

def parseToks (pats : List (List Pat)) : Nat → List Tok → Option Nat
  | 0, _ => none
  | _ + 1, [] => some 0
  | f + 1, t :: r =>
    match firstMatch pats (t :: r) with
    | some (bs, rest) =>
      (match sumSome (bs.map (fun b => parseToks pats f b.2)), parseToks pats f rest with
       | some a, some n => some (a + n)
       | _, _ => none)
    | none => parseToks pats f r

end DDP.AliasMatch

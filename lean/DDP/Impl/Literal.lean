import DDP.Generated.Escapes
import DDP.Impl.Scanner

/-!
# L1 model of the parser's literal helpers (`src/parser/expressions.go`)

`parseString` walks the content of a text literal byte index by byte index and splices
the image of an escape sequence in place; every image and the backslash are single bytes,
so after a splice `i += w` lands behind the image.  On code points this is the recursion
below (the byte-level coincidence is the theorem `escape_images_ascii` in Props/C19).
The tables come from `DDP.Generated.Escapes` (T-gen).
-/

namespace DDP.Literal
open DDP.Generated

def lookup (tbl : List (Char × Char)) (c : Char) : Option Char :=
  (tbl.find? (fun e => e.1 == c)).map (·.2)

/-- `parser.parseString` on the text between the quotes: value and number of
"Ungültige Escape Sequenz" diagnostics -/
def parseStringImpl (tbl : List (Char × Char)) : List Char → List Char × Nat
  | [] => ([], 0)
  | c :: rest =>
    if c = '\\' then
      match rest with
      | [] => (['\\'], 1)                      -- DecodeRune of "" is RuneError: default branch
      | d :: rest' =>
        match lookup tbl d with
        | some img => let r := parseStringImpl tbl rest'; (img :: r.1, r.2)
        | none => let r := parseStringImpl tbl (d :: rest'); ('\\' :: r.1, r.2 + 1)
    else let r := parseStringImpl tbl rest; (c :: r.1, r.2)
termination_by cs => cs.length

inductive CharVal
  | ok (c : Char)
  | badEscape (c : Char)     -- diagnostic delivered, the letter itself is returned
  | invalid                  -- `return -1`
  deriving DecidableEq, Repr

/-- `parser.parseChar` on the text between the quotes -/
def parseCharImpl (tbl : List (Char × Char)) (content : List Char) : CharVal :=
  match content with
  | [c] => .ok c
  | [_, l] => match lookup tbl l with | some img => .ok img | none => .badEscape l
  | _ => .invalid

/-- digits of an INT token to its value (`strconv.ParseInt(lit, 10, 64)` on `[0-9]+`) -/
def natOfDigits (ds : List Char) : Nat := ds.foldl (fun n d => 10 * n + (d.toNat - 48)) 0

def parseIntImpl (ds : List Char) : Option Nat :=
  let n := natOfDigits ds
  if n < 2 ^ 63 then some n else none

end DDP.Literal

/-!
# L1 model of `lib/runtime/source/DDP/utf8/utf8.c`

Bytes are `Nat`s below 256, code points `Nat`s.  `encode`/`decode1` stand for glibc's
`c32rtomb`/`mbrtoc32` under a UTF-8 locale (trusted, see DESIGN §4); the classification
functions are transcribed from the C source.
-/

namespace DDP.Utf8

/-- Unicode scalar values: what a Buchstabe may hold -/
def isScalar (c : Nat) : Bool := c < 0xD800 || (0xE000 ≤ c && c < 0x110000)

/-- `c32rtomb`: UTF-8 encoding of a scalar value -/
def encode (c : Nat) : List Nat :=
  if c < 0x80 then [c]
  else if c < 0x800 then [0xC0 + c / 64, 0x80 + c % 64]
  else if c < 0x10000 then [0xE0 + c / 4096, 0x80 + c / 64 % 64, 0x80 + c % 64]
  else [0xF0 + c / 262144, 0x80 + c / 4096 % 64, 0x80 + c / 64 % 64, 0x80 + c % 64]

/-- `utf8_num_bytes_char`: none = `-1` -/
def numBytesChar (c : Nat) : Option Nat :=
  if c ≤ 0x7F then some 1
  else if c ≤ 0x7FF then some 2
  else if 0xD800 ≤ c && c ≤ 0xDFFF then none
  else if c ≤ 0xFFFF then some 3
  else if c ≤ 0x10FFFF then some 4
  else none

def isContinuation (b : Nat) : Bool := b / 64 == 2          -- (c & 0xc0) == 0x80

/-- `utf8_indicated_num_bytes` -/
def indicatedNumBytes (b : Nat) : Nat :=
  if b / 128 == 0 then 1            -- (c & 0x80) == 0
  else if b / 16 == 15 then 4       -- (c & 0xf0) == 0xf0
  else if b / 32 == 7 then 3        -- (c & 0xe0) == 0xe0
  else if b / 64 == 3 then 2        -- (c & 0xc0) == 0xc0
  else 0

/-- the bytes of a C string up to (not including) the terminating NUL -/
def cstr (s : List Nat) : List Nat := s.takeWhile (· != 0)

/-- `utf8_num_bytes` on the bytes starting at a position (the C code first measures up to four
bytes before the NUL, then tests the lead byte and its continuation bytes) -/
def numBytes (s : List Nat) : Nat :=
  let len := (cstr (s.take 4)).length
  match s with
  | [] => 0
  | b0 :: rest =>
    if len ≥ 1 && b0 / 128 == 0 then 1
    else if len ≥ 2 && b0 / 32 == 6 && isContinuation (rest.getD 0 0) then 2
    else if len ≥ 3 && b0 / 16 == 14 && isContinuation (rest.getD 0 0) && isContinuation (rest.getD 1 0) then 3
    else if len ≥ 4 && b0 / 8 == 30 && isContinuation (rest.getD 0 0) && isContinuation (rest.getD 1 0) &&
        isContinuation (rest.getD 2 0) then 4
    else 0

/-- `utf8_strlen`: number of non-continuation bytes before the NUL -/
def strlenCp (s : List Nat) : Nat := ((cstr s).filter (fun b => !isContinuation b)).length

/-- `mbrtoc32` on `n = numBytes s` bytes: the code point the first `n` bytes denote -/
def decode1 (s : List Nat) : Nat :=
  match numBytes s, s with
  | 1, b0 :: _ => b0
  | 2, b0 :: b1 :: _ => (b0 % 32) * 64 + b1 % 64
  | 3, b0 :: b1 :: b2 :: _ => (b0 % 16) * 4096 + (b1 % 64) * 64 + b2 % 64
  | 4, b0 :: b1 :: b2 :: b3 :: _ => (b0 % 8) * 262144 + (b1 % 64) * 4096 + (b2 % 64) * 64 + b3 % 64
  | _, _ => 0

def encodeAll (cs : List Nat) : List Nat := (cs.map encode).flatten

end DDP.Utf8

/-!
# L1: unification of generic parameter types and instantiation of generic Kombinationen

Transcription of `src/ddptypes/generic_types.go`: `UnifyGenericType` (called once per argument of
a call, left to right, on one shared binding map), `GetInstantiatedType` and the identity of
`GetInstantiatedStructType` results.  Types here: primitives and plain Kombinationen by number,
type parameters, lists, instantiations of a generic Kombination.
-/

namespace DDP.Generics

inductive Ty
  | prim (n : Nat)
  | var (n : Nat)                       -- a type parameter
  | list (e : Ty)
  | inst (s : Nat) (args : List Ty)     -- generic Kombination `s` instantiated with `args`
  deriving Inhabited, Repr

mutual
/-- `ddptypes.Equal` on these terms (instantiations are cached per argument list, so their pointer
identity is equality of the arguments) -/
def Ty.beq : Ty → Ty → Bool
  | .prim a, .prim b => a == b
  | .var a, .var b => a == b
  | .list a, .list b => Ty.beq a b
  | .inst s as, .inst t bs => s == t && Ty.beqList as bs
  | _, _ => false
def Ty.beqList : List Ty → List Ty → Bool
  | [], [] => true
  | a :: as, b :: bs => Ty.beq a b && Ty.beqList as bs
  | _, _ => false
end

abbrev Bindings := List (Nat × Ty)

def lookup (σ : Bindings) (n : Nat) : Option Ty := (σ.find? (·.1 == n)).map (·.2)

/-- `unifyType`: the bound type if the parameter is bound already, else bind it to the argument -/
def bindOrLookup (σ : Bindings) (n : Nat) (arg : Ty) : Ty × Bindings :=
  match lookup σ n with
  | some t => (t, σ)
  | none => (arg, σ ++ [(n, arg)])

/-- the loop over `instantiatedWith` of a generic Kombination: only type parameters directly in
argument position are unified, every pair must then be `Equal` -/
def unifyArgs (s : Nat) : List Ty → List Ty → Bindings → List Ty → Option Ty × Bindings
  | [], _, σ, acc => (some (.inst s acc.reverse), σ)
  | _ :: _, [], σ, _ => (none, σ)
  | p :: ps, a :: as, σ, acc =>
    let (p', σ') := match p with
      | .var n => bindOrLookup σ n a
      | p => (p, σ)
    if Ty.beq p' a then unifyArgs s ps as σ' (a :: acc) else (none, σ')

/-- what happens after the list layers are peeled -/
def unifyCore (arg gen : Ty) (σ : Bindings) : Option Ty × Bindings :=
  let (gen, σ) := match gen with
    | .var n => bindOrLookup σ n arg
    | g => (g, σ)
  match gen with
  | .inst s ps =>
    (match arg with
     | .inst s' as => if s != s' || as.length != ps.length then (none, σ) else unifyArgs s ps as σ []
     | _ => (none, σ))
  | g => (some g, σ)

/-- `UnifyGenericType argType paramType genericTypes` -/
def unify : Ty → Ty → Bindings → Option Ty × Bindings
  | .list a, .list p, σ =>
    match p with
    | .var _ => let (r, σ') := unifyCore a p σ; (r.map .list, σ')      -- `break`: the parameter's element is generic
    | _ => let (r, σ') := unify a p σ; (r.map .list, σ')
  | .prim _, .list _, σ => (none, σ)
  | .var _, .list _, σ => (none, σ)
  | .inst _ _, .list _, σ => (none, σ)
  | arg, gen, σ => unifyCore arg gen σ

/-- the test of the call site (`alias.go`): the argument fits iff unification gives back its type -/
def fits (arg param : Ty) (σ : Bindings) : Bool × Bindings :=
  match unify arg param σ with
  | (some t, σ') => (Ty.beq arg t, σ')
  | (none, σ') => (false, σ')

/-- a whole call: the arguments against the parameters, left to right, one binding map -/
def fitsAll : List (Ty × Ty) → Bindings → Bool × Bindings
  | [], σ => (true, σ)
  | (a, p) :: r, σ =>
    match fits a p σ with
    | (true, σ') => fitsAll r σ'
    | (false, σ') => (false, σ')

/-- `GetInstantiatedType`: list layers are kept, a type parameter is replaced by its binding,
type parameters directly in argument position of a generic Kombination likewise -/
def substArgs (σ : Bindings) : List Ty → Option (List Ty)
  | [] => some []
  | .var n :: r => (lookup σ n).bind fun t => (substArgs σ r).map (t :: ·)
  | t :: r => (substArgs σ r).map (t :: ·)

def subst (σ : Bindings) : Ty → Option Ty
  | .list e => (subst σ e).map .list
  | .var n =>
    (match lookup σ n with
     | some (.inst s as) => (substArgs σ as).map (.inst s)
     | r => r)
  | .inst s as => (substArgs σ as).map (.inst s)
  | t => some t

/-! ### text form for the driver: `Z K B W C T V` primitives, `P<n>`, `G<n>`, `L(<t>)`, `I<s>(<t>,…)` -/

partial def Ty.toStr : Ty → String
  | .prim n => if n < 7 then (["Z", "K", "B", "W", "C", "T", "V"][n]!) else "P" ++ toString (n - 7)
  | .var n => "G" ++ toString n
  | .list e => "L(" ++ e.toStr ++ ")"
  | .inst s as => "I" ++ toString s ++ "(" ++ ",".intercalate (as.map Ty.toStr) ++ ")"

partial def parseTy (cs : List Char) : Ty × List Char :=
  let num (cs : List Char) : Nat × List Char :=
    let ds := cs.takeWhile Char.isDigit
    ((String.ofList ds).toNat!, cs.drop ds.length)
  match cs with
  | 'Z' :: r => (.prim 0, r) | 'K' :: r => (.prim 1, r) | 'B' :: r => (.prim 2, r) | 'W' :: r => (.prim 3, r)
  | 'C' :: r => (.prim 4, r) | 'T' :: r => (.prim 5, r) | 'V' :: r => (.prim 6, r)
  | 'P' :: r => let (n, r) := num r; (.prim (n + 7), r)
  | 'G' :: r => let (n, r) := num r; (.var n, r)
  | 'L' :: '(' :: r => let (e, r) := parseTy r; (.list e, r.drop 1)
  | 'I' :: r =>
    let (s, r) := num r
    let rec args (r : List Char) (acc : List Ty) : List Ty × List Char :=
      match r with
      | ')' :: r => (acc.reverse, r)
      | ',' :: r => let (t, r) := parseTy r; args r (t :: acc)
      | r => let (t, r) := parseTy r; args r (t :: acc)
    let (as, r) := args (r.drop 1) []
    (.inst s as, r)
  | _ => (.prim 0, [])

def showBindings (σ : Bindings) : String :=
  ";".intercalate (σ.map fun (n, t) => "G" ++ toString n ++ "=" ++ t.toStr)

end DDP.Generics

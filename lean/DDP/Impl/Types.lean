/-!
# L1 model of `src/ddptypes` (type identity, aliases, definitions) and of the three
positions of the type checker in which a value of one type is supplied where another is
required (`VisitVarDecl`, `VisitAssignStmt`, `VisitCastExpr`).

Go represents types as interface values: `PrimitiveType`, `VoidType{}`, `Variable{}` and
`ListType{ElementType}` compare structurally, `*StructType`, `*TypeDef`, `*TypeAlias` by pointer.
The model gives pointer-compared types an identity number; an alias needs none (it is
always stripped before comparison).  Generic types are outside this file (C15).
-/

namespace DDP.Types

inductive Prim | zahl | komma | byte | wahr | buchstabe | text
  deriving DecidableEq, Repr

inductive Ty
  | prim (p : Prim)
  | void
  | variable
  | list (e : Ty)
  | struct (id : Nat)
  | alias (u : Ty)
  | typedef (id : Nat) (u : Ty)
  deriving DecidableEq, Repr

/-- `GetUnderlying`: strips aliases, also inside list types; stops at definitions -/
def getUnderlying : Ty → Ty
  | .alias u => getUnderlying u
  | .list e => .list (getUnderlying e)
  | t => t

/-- `Equal` -/
def equal (a b : Ty) : Bool := getUnderlying a == getUnderlying b

/-- `TrueUnderlying`: strips aliases and definitions, not below a list -/
def trueUnderlying : Ty → Ty
  | .typedef _ u => trueUnderlying u
  | .alias u => trueUnderlying u
  | .list e => .list (getUnderlying e)
  | t => t

/-- `getTrueListUnderlying` -/
def trueListUnderlying : Ty → Ty
  | .typedef _ u => trueListUnderlying u
  | .alias u => trueListUnderlying u
  | .list e => .list (trueListUnderlying e)
  | t => t

/-- `DeepEqual` -/
def deepEqual (a b : Ty) : Bool := trueListUnderlying a == trueListUnderlying b

def isNumeric (t : Ty) : Bool :=
  match getUnderlying t with
  | .prim .zahl | .prim .komma | .prim .byte => true
  | _ => false

def isPrimitive (t : Ty) : Bool := match getUnderlying t with | .prim _ => true | _ => false
def isList (t : Ty) : Bool := match getUnderlying t with | .list _ => true | _ => false
def isAny (t : Ty) : Bool := match getUnderlying t with | .variable => true | _ => false
def isVoid (t : Ty) : Bool := match getUnderlying t with | .void => true | _ => false

/-- `CastTypeDef`: the definition a type *is* (through aliases) -/
def castTypeDef (t : Ty) : Option (Nat × Ty) :=
  match getUnderlying t with | .typedef i u => some (i, u) | _ => none

/-- `VisitVarDecl` accepts the initialiser (non-generic declared type) -/
def initOk (target init : Ty) : Bool :=
  let typesDontMatch := !equal init target && (!equal target .variable || equal init .void)
  let numericCastPossible := isNumeric target && isNumeric init
  !(typesDontMatch && !numericCastPossible)

/-- `VisitAssignStmt` accepts the assigned value -/
def assignOk (target rhs : Ty) : Bool :=
  let typesDontMatch := !equal target rhs && (!equal target .variable || equal rhs .void)
  let numericCastPossible := isNumeric target && isNumeric rhs
  !(typesDontMatch && !numericCastPossible)

/-- `VisitReturnStmt` accepts the returned value: the declared type itself, or anything but
'nichts' for a Variable result (no numeric conversion in this position) -/
def returnOk (ret value : Ty) : Bool :=
  !(!equal ret value && (!equal ret .variable || equal value .void))

def isOneOf (t : Ty) (ts : List Ty) : Bool := ts.any (equal t)

/-- `VisitCastExpr` accepts `lhs als target` (no operator overload in scope) -/
def castOk (lhs target : Ty) : Bool :=
  if isAny lhs || (isAny target && !isVoid lhs) then true
  else match castTypeDef target, castTypeDef lhs with
    | some (_, ut), some (_, ul) => equal ul target || equal ut lhs
    | some (_, ut), none => equal lhs ut
    | none, some (_, ul) => equal target ul
    | none, none =>
      match getUnderlying target with
      | .list e => equal lhs e
      | .prim .zahl => isPrimitive lhs
      | .prim .komma => isPrimitive lhs && isOneOf lhs [.prim .text, .prim .zahl, .prim .komma, .prim .byte]
      | .prim .byte => isPrimitive lhs && isOneOf lhs [.prim .zahl, .prim .komma, .prim .byte]
      | .prim .wahr => isPrimitive lhs && isOneOf lhs [.prim .zahl, .prim .wahr, .prim .byte]
      | .prim .buchstabe => isPrimitive lhs && isOneOf lhs [.prim .zahl, .prim .buchstabe, .prim .byte]
      | .prim .text => isPrimitive lhs
      | _ => false

end DDP.Types

/-!
# L1 model of `src/parser/ordered_map/ordered_map.go` and `src/parser/alias_trie/trie.go`

Generic in the key type and in the two predicates `eq`/`less` that the caller supplies
independently (the parser passes `tokenEqual`/`tokenLess`).  Transcribed: binary search
with `mid = (low+high)/2` that tests `eq` for the hit and `less` for the direction, `Set`
that overwrites on a hit and otherwise inserts before the first key that `key` is less
than (linear scan), `Get`.  The Go slice of alternating keys and values is a list of pairs.
-/

namespace DDP.OMap

variable {K V : Type}

/-- `binarySearch`: returns the index and whether the key was found -/
def bsearch (eq less : K → K → Bool) (m : List (K × V)) (key : K) : Nat → Nat → Nat → Nat × Bool
  | 0, lo, _ => (lo, false)
  | fuel + 1, lo, hi =>
    if lo < hi then
      let mid := (lo + hi) / 2
      match m[mid]? with
      | none => (lo, false)
      | some (k, _) =>
        if eq k key then (mid, true)
        else if less k key then bsearch eq less m key fuel (mid + 1) hi
        else bsearch eq less m key fuel lo mid
    else (lo, false)

def find (eq less : K → K → Bool) (m : List (K × V)) (key : K) : Nat × Bool :=
  bsearch eq less m key (m.length + 1) 0 m.length

/-- the linear insertion scan of `Set` -/
def insertSorted (less : K → K → Bool) (key : K) (v : V) : List (K × V) → List (K × V)
  | [] => [(key, v)]
  | (k, w) :: rest => if less key k then (key, v) :: (k, w) :: rest else (k, w) :: insertSorted less key v rest

def set (eq less : K → K → Bool) (m : List (K × V)) (key : K) (v : V) : List (K × V) :=
  match find eq less m key with
  | (i, true) => m.modify i (fun e => (e.1, v))
  | (_, false) => insertSorted less key v m

def get (eq less : K → K → Bool) (m : List (K × V)) (key : K) : Option V :=
  match find eq less m key with
  | (i, true) => (m[i]?).map (·.2)
  | (_, false) => none

end DDP.OMap

namespace DDP.Trie
open DDP.OMap

/-- a trie node: children map, optional value (`hasValue`/`value`) -/
inductive Node (K V : Type) where
  | mk (children : List (K × Node K V)) (value : Option V)

variable {K V : Type}

def Node.children : Node K V → List (K × Node K V)
  | .mk c _ => c
def Node.value : Node K V → Option V
  | .mk _ v => v

def Node.empty : Node K V := .mk [] none

/-- `Trie.Insert`: walk/extend the path, set the value at its end.  In Go the found child is
mutated through its pointer; here the updated child is written back at the index where
`Get` found it. -/
def insert (eq less : K → K → Bool) : List K → V → Node K V → Node K V
  | [], v, .mk ch _ => .mk ch (some v)
  | k :: ks, v, .mk ch val =>
    match find eq less ch k with
    | (i, true) =>
      match ch[i]? with
      | some (k', child) => .mk (ch.set i (k', insert eq less ks v child)) val
      | none => .mk ch val
    | (_, false) => .mk (insertSorted less k (insert eq less ks v Node.empty) ch) val

/-- `Trie.Contains`: `(found, value)`; `found` says the *path* exists, the value may be absent
(the caller `aliasExists` additionally tests the value for nil) -/
def contains (eq less : K → K → Bool) : List K → Node K V → Bool × Option V
  | [], .mk _ val => (true, val)
  | k :: ks, .mk ch _ =>
    match get eq less ch k with
    | some child => contains eq less ks child
    | none => (false, none)

/-- what `aliasExists` computes: the alias exists iff the path exists and holds a value -/
def aliasExists (eq less : K → K → Bool) (ks : List K) (n : Node K V) : Option V :=
  match contains eq less ks n with
  | (true, some v) => some v
  | _ => none

inductive SearchResult (V : Type) where
  | values (vs : List V)
  | nilDeref            -- `child_node.hasValue` on the nil result of a failed `Get`
  deriving Repr, DecidableEq

/-- `Trie.Search` for the exact-pattern key generator (a call site that spells the alias
token by token): at depth `d` the generator proposes `pat[d]` for every child key; the
children are iterated in slice order and looked up again with `Get(child_key)`, whose `ok`
the Go code ignores. -/
def searchExact (eq less : K → K → Bool) : List K → Node K V → List V → SearchResult V
  | [], _, acc => .values acc
  | p :: ps, .mk ch _, acc =>
    ch.foldl (fun res e =>
      match res with
      | .nilDeref => .nilDeref
      | .values acc =>
        if eq p e.1 then
          match get eq less ch e.1 with
          | none => .nilDeref
          | some child =>
            searchExact eq less ps child (match child.value with | some v => acc ++ [v] | none => acc)
        else .values acc) (.values acc)

end DDP.Trie

import DDP.Generated.BoundsFacts

/-!
# Interpretation of the regenerated bounds facts over 64-bit machine integers

`DDP.Generated.BoundsFacts` records which `icmp`s the code generator emits for list
indexing and slicing (predicate + operands as named in the Go source).  Here they are given
LLVM's meaning over `BitVec 64`.
-/

namespace DDP.Generated

def IPred.eval : IPred → BitVec 64 → BitVec 64 → Bool
  | .eq, a, b => a == b
  | .ne, a, b => a != b
  | .ugt, a, b => b.ult a
  | .uge, a, b => b.ule a
  | .ult, a, b => a.ult b
  | .ule, a, b => a.ule b
  | .sgt, a, b => b.slt a
  | .sge, a, b => b.sle a
  | .slt, a, b => a.slt b
  | .sle, a, b => a.sle b

abbrev Env := String → BitVec 64

def Opnd.eval (env : Env) : Opnd → BitVec 64
  | .var n => env n
  | .const k => BitVec.ofNat 64 k

def ICmpFact.eval (f : ICmpFact) (env : Env) : Bool :=
  IPred.eval f.pred (f.lhs.eval env) (f.rhs.eval env)

def TernaryFact.eval (f : TernaryFact) (env : Env) : BitVec 64 :=
  if f.cond.eval env then f.thenV.eval env else f.elseV.eval env

def envSet (env : Env) (n : String) (v : BitVec 64) : Env := fun s => if s = n then v else env s

/-- the emitted index check on a DDP index `idx` and a list length `len`:
`(in range?, element index)` -/
def IdxCheckFact.eval (f : IdxCheckFact) (idx len : BitVec 64) : Bool × BitVec 64 :=
  let index := idx - f.sub.eval (fun _ => 0)
  let env := envSet (envSet (fun _ => 0) "listLen" len) "index" index
  (f.c1.eval env && f.c2.eval env, index)

inductive SliceOutcome
  | empty                            -- early return: empty result
  | error                            -- Laufzeitfehler
  | copy (first count : BitVec 64)   -- `count` elements starting at 0-based `first`
  deriving DecidableEq, Repr

/-- the `clamp(val, min, max)` closure -/
def SliceFacts.clamp (f : SliceFacts) (val mn mx : BitVec 64) : BitVec 64 :=
  let env1 := envSet (envSet (envSet (fun _ => 0) "max" mx) "min" mn) "val" val
  let temp := f.clampLow.eval env1
  f.clampHigh.eval (envSet env1 "temp" temp)

def SliceFacts.applyClamp (f : SliceFacts) (env : Env) (k : Nat) : Env :=
  match f.clampCalls[k]? with
  | some (target, v, mn, mx) => envSet env target (f.clamp (v.eval env) (mn.eval env) (mx.eval env))
  | none => env

def SliceFacts.applySub (f : SliceFacts) (env : Env) (k : Nat) : Env :=
  match f.subs[k]? with
  | some (target, v, c) => envSet env target (v.eval env - c.eval env)
  | none => env

/-- the control skeleton of the generated `ddp_x_slice(ret, list, index1, index2)` -/
def SliceFacts.eval (f : SliceFacts) (i1 i2 len : BitVec 64) : SliceOutcome :=
  let env0 := envSet (envSet (envSet (fun _ => 0) "listLen" len) "index1" i1) "index2" i2
  if f.emptyTest.eval env0 then .empty
  else
    let env1 := f.applyClamp (f.applyClamp env0 0) 1
    if f.crossed.eval env1 then .error
    else
      let env2 := f.applySub (f.applySub env1 0) 1
      .copy (env2 "index1") (env2 "index2" - env2 "index1" + 1)

end DDP.Generated

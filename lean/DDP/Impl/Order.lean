import DDP.Generated.OrderSites
import DDP.Impl.Scanner

/-!
# L1 models for repeatability (C16)

Go randomises the iteration order of a map on every `range`.  An order-sensitive site is
modelled as a function of the *permutation* in which the runtime hands out the entries.
-/

namespace DDP.Order
open DDP.Generated DDP.Scanner

/-- `token.Position.IsBefore` -/
def posBefore (p q : Pos) : Bool := p.line < q.line || (p.line == q.line && p.col < q.col)

/-- the comparator `IterateImportedDecls` used before the repair 340540c -/
def posBeforeOld (p q : Pos) : Bool := p.line < q.line || p.col < q.col

/-- what an (unstable) sort guarantees about its result for comparator `less` -/
def SortedBy {α} (less : α → α → Bool) (l : List α) : Prop := l.Pairwise (fun a b => less b a = false)

/-- "deliver the first error": entries are visited in the given order, the first one that
fails produces the statement's diagnostic, the rest is suppressed by panic mode -/
def firstError {α ε} (check : α → Option ε) (entries : List α) : Option ε := entries.findSome? check

/-- how the sites are discharged -/
inductive SiteClass
  | sortedTotal          -- map entries are collected and sorted by a total order on distinct keys
  | commutes             -- per-entry effects commute / only a set or a count is built
  | debugOnly            -- AST printer, not on the compilation path
  | deterministicInput   -- sort / search over a slice whose order is already deterministic
  | linkArgs             -- order of arguments handed to the system linker / LLVM linker
  deriving DecidableEq, Repr

/-- classification of every order-sensitive site of the current source (hand-written; the
inventory itself is regenerated, `site_inventory_covered` forces them to match) -/
def classify (s : OrderSite) : Option SiteClass :=
  match s.file, s.func, s.expr with
  | "cmd/internal/linker/link.go", "LinkDDPFiles", "link_objects" => some .linkArgs
  | "cmd/internal/linker/link.go", "LinkDDPFiles", "options.Dependencies.Dependencies" => some .linkArgs
  | "src/ast/annotators/const_func_param.go", "*ConstFuncParamAnnotator.VisitAssignStmt", "a.currentParams" => some .commutes
  | "src/ast/annotators/const_func_param.go", "*ConstFuncParamAnnotator.visitCall", "a.currentParams" => some .commutes
  | "src/ast/annotators/const_func_param.go", "*ConstFuncParamAnnotator.VisitFuncDecl", "decl.Generic.Instantiations" => some .commutes
  | "src/ast/annotators/const_func_param.go", "*ConstFuncParamAnnotator.overwriteAttachement", "a.currentParams" => some .commutes
  | "src/ast/ast.go", "*StructAlias.GetArgs", "alias.Args" => some .commutes
  | "src/ast/helper.go", "IterateImportedDecls", "module.PublicDecls" => some .sortedTotal
  | "src/ast/helper.go", "IterateImportedDecls", "decls" => some .sortedTotal
  | "src/ast/helper_visitor.go", "SortedArgNames", "Args" => some .sortedTotal
  | "src/ast/helper_visitor.go", "SortedArgNames", "names" => some .sortedTotal
  | "src/ast/helper_visitor.go", "sortedByRange", "nodesCopy" => some .deterministicInput
  | "src/ast/helper_visitor.go", "visitModuleRec", "imports" => some .deterministicInput
  | "src/ast/printer.go", _, _ => some .debugOnly
  | "src/compiler/compiler.go", "*compiler.VisitReturnStmt", "scp.variables" => some .commutes
  | "src/compiler/compiler.go", "*compiler.exitScope", "scp.variables" => some .commutes
  | "src/compiler/compiler.go", "*compiler.exitFuncScope", "c.cfscp.variables" => some .commutes
  | "src/compiler/compiler.go", "*compiler.addExternalDependencies", "c.ddpModule.ExternalDependencies" => some .commutes
  | "src/compiler/compiler.go", "compileWithImportsRec", "mod.ExternalDependencies" => some .commutes
  | "src/compiler/compiler.go", "*compiler.compile", "c.importedModules" => some .commutes
  | "src/compiler/interface.go", "Compile", "ll_modules_ir" => some .linkArgs
  | "src/compiler/interface.go", "mapToSlice", "m" => some .linkArgs
  | "src/parser/alias.go", "sortAliases", "params" => some .commutes
  | "src/parser/alias.go", "sortAliases", "matchedAliases" => some .deterministicInput
  | "src/parser/generic_symbol_table.go", "newGenericSymbolTable", "genericTypes" => some .commutes
  | "src/parser/parser.go", "*parser.insertOperatorOverloadAt", "overloads" => some .deterministicInput
  | _, _, _ => none

end DDP.Order

"""Correspondence between the L2 reference evaluator (lean/DDP/Spec/Eval.lean, run through
`ddpmodel eval`) and programs compiled by the working tree's kddp."""
from . import gen, pipeline
from .corr import run_lines, build_model

FUEL = 4000


def model_eval(model, programs, fuel=FUEL):
    """programs: list of program dicts -> list of (outcome, stdout)"""
    lines = ["eval %d %s" % (fuel, gen.sx_program(p).encode().hex()) for p in programs]
    out = []
    for a in run_lines(model, lines, chunks=8 if len(lines) > 64 else 1):
        parts = a.split(" ")
        if len(parts) >= 1 and parts[0] in ("ok", "laufzeitfehler") or parts[0].startswith(("stuck", "undefined", "out-of-fuel")):
            hx = parts[-1] if len(parts) > 1 else ""
            try:
                so = bytes.fromhex(hx).decode("utf-8", "replace") if hx and all(c in "0123456789abcdef" for c in hx) else ""
            except ValueError:
                so = ""
            out.append((" ".join(parts[:-1]) if len(parts) > 1 else parts[0], so))
        else:
            out.append(("model-error:" + a[:200], ""))
    return out


def expected_class(outcome):
    if outcome == "ok":
        return "ok"
    if outcome == "laufzeitfehler":
        return "laufzeitfehler"
    return None     # undefined / out of fuel / stuck: no expectation


def compare(outcome, stdout, rr):
    """None if the run agrees with the model's verdict, else a description"""
    exp = expected_class(outcome)
    if exp is None:
        return None
    if rr.cls != exp:
        return "model says %s, the program ended as %s (exit %s)" % (exp, rr.cls, rr.exit)
    if rr.stdout != stdout:
        return "standard output differs"
    want_exit = 0 if exp == "ok" else 1
    if rr.exit != want_exit:
        return "exit status %s, expected %d" % (rr.exit, want_exit)
    return None


def files_of(p, minimal=False):
    """source files of a program: two modules when the generator split it"""
    if p.get("as_modules"):
        return gen.pp_modules(p, minimal=minimal)
    return {"main.ddp": gen.pp_program(p, minimal=minimal)}


def run_programs(ddp, programs, cfgs, minimal=False, timeout=10):
    """compile+run every program under every config; returns list (per program) of lists of RunResult"""
    jobs = []
    for p in programs:
        files = files_of(p, minimal=minimal)
        for cfg in cfgs:
            jobs.append((files, cfg, {"timeout": timeout}))
    res = pipeline.farm(ddp, jobs)
    k = len(cfgs)
    return [res[i * k:(i + 1) * k] for i in range(len(programs))]


# ---------------------------------------------------------------- minimisation
def _blocks_of(s):
    """indices of the statement-list children of a statement"""
    k = s[0]
    return {"if": [2, 3], "while": [2], "dowhile": [1], "repeat": [2], "for": [6], "foreach": [5]}.get(k, [])


def _variants_block(ss):
    """yields smaller versions of a statement list"""
    for i in range(len(ss)):
        yield ss[:i] + ss[i + 1:]
    for i, s in enumerate(ss):
        for bi in _blocks_of(s):
            # replace the statement by its block (hoisting), and shrink inside
            yield ss[:i] + list(s[bi]) + ss[i + 1:]
            for v in _variants_block(list(s[bi])):
                yield ss[:i] + [s[:bi] + (v,) + s[bi + 1:]] + ss[i + 1:]


def variants(p):
    for key in ("main", "globals"):
        for v in _variants_block(p[key]):
            q = dict(p)
            q[key] = v
            yield q
    for i, f in enumerate(p["funcs"]):
        q = dict(p)
        q["funcs"] = p["funcs"][:i] + p["funcs"][i + 1:]
        yield q
        for v in _variants_block(f["body"]):
            g = dict(f)
            g["body"] = v
            q = dict(p)
            q["funcs"] = p["funcs"][:i] + [g] + p["funcs"][i + 1:]
            yield q
    for i in range(len(p["structs"])):
        q = dict(p)
        q["structs"] = p["structs"][:i] + p["structs"][i + 1:]
        yield q


def minimise(p, still_fails, budget=400):
    """greedy statement-level delta debugging; `still_fails(q)` must be true for p"""
    changed = True
    while changed and budget > 0:
        changed = False
        for q in variants(p):
            budget -= 1
            if budget <= 0:
                break
            if still_fails(q):
                p = q
                changed = True
                break
    return p


def disagreement(ddp, model, p, cfg, minimal=False):
    """None, or a description of how program p behaves differently from the model under cfg.
    Programs the front end rejects (after shrinking) do not count."""
    (o, so), = model_eval(model, [p])
    if expected_class(o) is None:
        return None
    rr = run_programs(ddp, [p], [cfg], minimal=minimal)[0][0]
    if rr.cls == "compile-rejected":
        return None
    return compare(o, so, rr)


# ---------------------------------------------------------------- shared judging
EXPR_KINDS = ("int", "float", "bool", "char", "text", "var", "un", "bin", "ter", "cast", "typecheck", "default",
              "list", "listrep", "call", "field", "struct")


def node_stats(p, acc=None):
    """histogram of statement / expression kinds of a program (input distribution for the evidence)"""
    from collections import Counter
    acc = acc if acc is not None else Counter()

    def ex(e):
        if not isinstance(e, tuple) or not e:
            return
        k = e[0]
        if k in ("un", "bin", "ter"):
            acc["expr:" + k + ":" + e[1]] += 1
        else:
            acc["expr:" + k] += 1
        for x in e[1:]:
            if isinstance(x, tuple) and x and isinstance(x[0], str) and x[0] in EXPR_KINDS:
                ex(x)
            elif isinstance(x, list):
                for y in x:
                    if isinstance(y, tuple) and len(y) == 2 and isinstance(y[0], str) and isinstance(y[1], tuple):
                        ex(y[1])
                    elif isinstance(y, tuple):
                        ex(y)

    def st(s):
        acc["stmt:" + s[0]] += 1
        for x in s[1:]:
            if isinstance(x, list):
                for y in x:
                    st(y)
            elif isinstance(x, tuple):
                ex(x)

    for s in p["globals"] + p["main"]:
        st(s)
    for f in p["funcs"]:
        acc["func"] += 1
        for _, _, r in f["params"]:
            acc["param:ref" if r else "param:value"] += 1
        for s in f["body"]:
            st(s)
    acc["struct"] += len(p["structs"])
    return acc


def _fingerprint(p):
    import hashlib
    return hashlib.sha256(gen.sx_program(p).encode()).hexdigest()[:10]


def judge_programs(res, ddp, model, programs, cfgs, label, minimal=False, minimise_budget=250, max_report=3):
    """runs every program under every config, compares with the evaluator, reports disagreements
    (minimised, with the program as replay).  Returns counters."""
    from collections import Counter
    stats = Counter()
    if not programs:
        return stats
    mo = model_eval(model, programs)
    rs = run_programs(ddp, programs, cfgs, minimal=minimal)
    reported = 0
    for p, (o, so), rrs in zip(programs, mo, rs):
        stats["model:" + o.split(":")[0]] += 1
        if o.startswith("stuck") or o.startswith("model-error"):
            # the evaluator has no rule for a program the generator believes well-typed: the oracle
            # is incomplete there, not the compiler wrong; counted, never reported as a violation
            stats["oracle-incomplete"] += 1
        for cfg, rr in zip(cfgs, rrs):
            res.evaluations += 1
            stats["impl:" + rr.cls] += 1
            if rr.cls == "compile-rejected":
                stats["generator-ill-typed"] += 1
                continue
            d = compare(o, so, rr)
            if d is None and expected_class(o) is not None and rr.cls in ("compile-internal-error", "link-error", "sanitizer", "signal", "timeout"):
                d = "the program ended as " + rr.cls
            if d is None:
                res.nontrivial("%s:%s:%d" % (label, o.split(":")[0], len(so)))
                continue
            if reported >= max_report:
                stats["further-disagreements"] += 1
                continue
            reported += 1
            key = d[:25]
            small = minimise(p, lambda q: (disagreement(ddp, model, q, cfg, minimal=minimal) or "")[:25] == key, budget=minimise_budget)
            (o2, so2), = model_eval(model, [small])
            rr2 = run_programs(ddp, [small], [cfg], minimal=minimal)[0][0]
            res.violation("%s:%s:%s" % (label, cfg.name(), _fingerprint(small)),
                          "compiled program and evaluation rules disagree (%s): %s" % (cfg.name(), d),
                          {"program": gen.pp_program(small, minimal=minimal), "sexpr": gen.sx_program(small), "config": cfg.name(),
                           "minimal_parentheses": minimal, "model": {"outcome": o2, "stdout": so2},
                           "implementation": rr2.as_dict(), "original_program": gen.pp_program(p, minimal=minimal)})
    return stats


def report_broken(res, broken, hint=""):
    for bk in broken:
        res.violation("obligation:" + bk["name"], "proof obligation no longer checks: %s%s" % (bk["name"], hint),
                      {"theorem": bk["name"], "detail": bk["detail"], "kind": "broken-obligation"}, has_input=False)


def replay(rp):
    """re-run one recorded program (source text + s-expression) against the current tree"""
    from .corr import build_model
    model = build_model()
    ddp = pipeline.build()
    line = "eval %d %s" % (FUEL, rp["sexpr"].encode().hex())
    a = run_lines(model, [line])[0].split(" ")
    o = " ".join(a[:-1]) if len(a) > 1 else a[0]
    so = bytes.fromhex(a[-1]).decode("utf-8", "replace") if len(a) > 1 else ""
    name = rp.get("config", "O1")
    cfg = pipeline.Config(opt=int(name[1]), listdefs_link="-nolist" not in name, asan="-asan" in name)
    rr = pipeline.compile_run(ddp, {"main.ddp": rp["program"]}, cfg)
    d = compare(o, so, rr)
    print("evaluation rules: %s %r" % (o, so[-300:]))
    print("compiled program (%s): %s exit=%s %r %s" % (cfg.name(), rr.cls, rr.exit, rr.stdout[-300:], rr.stderr[-200:]))
    if d:
        print("VIOLATION property=%s replay=%s" % (rp.get("property", "?"), rp.get("_path", "")))
        print("still disagrees: " + d)
        return 1
    print("OK the recorded program now behaves as the evaluation rules prescribe")
    return 0

"""Correspondence between the L2 reference evaluator (lean/DDP/Spec/Eval.lean, run through
`ddpmodel eval`) and programs compiled by the working tree's kddp."""
from . import gen, pipeline
from .corr import run_lines, build_model

FUEL = 4000


def model_eval(model, programs, fuel=FUEL):
    """programs: list of program dicts -> list of (outcome, stdout)"""
    lines = ["eval %d %s" % (fuel, gen.sx_program(p).encode().hex()) for p in programs]
    out = []
    for a in run_lines(model, lines, chunks=8 if len(lines) > 64 else 1):
        parts = a.split(" ")
        if len(parts) >= 1 and parts[0] in ("ok", "laufzeitfehler") or parts[0].startswith(("stuck", "undefined", "out-of-fuel")):
            hx = parts[-1] if len(parts) > 1 else ""
            try:
                so = bytes.fromhex(hx).decode("utf-8", "replace") if hx and all(c in "0123456789abcdef" for c in hx) else ""
            except ValueError:
                so = ""
            out.append((" ".join(parts[:-1]) if len(parts) > 1 else parts[0], so))
        else:
            out.append(("model-error:" + a[:200], ""))
    return out


def expected_class(outcome):
    if outcome == "ok":
        return "ok"
    if outcome == "laufzeitfehler":
        return "laufzeitfehler"
    return None     # undefined / out of fuel / stuck: no expectation


def compare(outcome, stdout, rr):
    """None if the run agrees with the model's verdict, else a description"""
    exp = expected_class(outcome)
    if exp is None:
        return None
    if rr.cls != exp:
        return "model says %s, the program ended as %s (exit %s)" % (exp, rr.cls, rr.exit)
    if rr.stdout != stdout:
        return "standard output differs"
    want_exit = 0 if exp == "ok" else 1
    if rr.exit != want_exit:
        return "exit status %s, expected %d" % (rr.exit, want_exit)
    return None


def run_programs(ddp, programs, cfgs, minimal=False, timeout=10):
    """compile+run every program under every config; returns list (per program) of lists of RunResult"""
    jobs = []
    for p in programs:
        src = gen.pp_program(p, minimal=minimal)
        for cfg in cfgs:
            jobs.append(({"main.ddp": src}, cfg, {"timeout": timeout}))
    res = pipeline.farm(ddp, jobs)
    k = len(cfgs)
    return [res[i * k:(i + 1) * k] for i in range(len(programs))]


# ---------------------------------------------------------------- minimisation
def _blocks_of(s):
    """indices of the statement-list children of a statement"""
    k = s[0]
    return {"if": [2, 3], "while": [2], "dowhile": [1], "repeat": [2], "for": [6], "foreach": [5]}.get(k, [])


def _variants_block(ss):
    """yields smaller versions of a statement list"""
    for i in range(len(ss)):
        yield ss[:i] + ss[i + 1:]
    for i, s in enumerate(ss):
        for bi in _blocks_of(s):
            # replace the statement by its block (hoisting), and shrink inside
            yield ss[:i] + list(s[bi]) + ss[i + 1:]
            for v in _variants_block(list(s[bi])):
                yield ss[:i] + [s[:bi] + (v,) + s[bi + 1:]] + ss[i + 1:]


def variants(p):
    for key in ("main", "globals"):
        for v in _variants_block(p[key]):
            q = dict(p)
            q[key] = v
            yield q
    for i, f in enumerate(p["funcs"]):
        q = dict(p)
        q["funcs"] = p["funcs"][:i] + p["funcs"][i + 1:]
        yield q
        for v in _variants_block(f["body"]):
            g = dict(f)
            g["body"] = v
            q = dict(p)
            q["funcs"] = p["funcs"][:i] + [g] + p["funcs"][i + 1:]
            yield q
    for i in range(len(p["structs"])):
        q = dict(p)
        q["structs"] = p["structs"][:i] + p["structs"][i + 1:]
        yield q


def minimise(p, still_fails, budget=400):
    """greedy statement-level delta debugging; `still_fails(q)` must be true for p"""
    changed = True
    while changed and budget > 0:
        changed = False
        for q in variants(p):
            budget -= 1
            if budget <= 0:
                break
            if still_fails(q):
                p = q
                changed = True
                break
    return p


def disagreement(ddp, model, p, cfg, minimal=False):
    """None, or a description of how program p behaves differently from the model under cfg.
    Programs the front end rejects (after shrinking) do not count."""
    (o, so), = model_eval(model, [p])
    if expected_class(o) is None:
        return None
    rr = run_programs(ddp, [p], [cfg], minimal=minimal)[0][0]
    if rr.cls == "compile-rejected":
        return None
    return compare(o, so, rr)

"""Lean side: regenerate L0 (translator), build targets, audit axioms, hygiene grep."""
import os
import re
import shutil
import time

from .common import LEAN, VERIF, CACHE, REPO, run, lock, log, goenv

ALLOWED_AXIOMS = {"propext", "Classical.choice", "Quot.sound"}
FORBIDDEN = re.compile(r"\b(sorry|admit|native_decide|bv_decide|implemented_by|unsafe)\b|^\s*axiom\s|maxHeartbeats\s+0\b", re.M)


def strip_comments(src):
    # remove nested /- -/ comments and -- line comments (string literals are rare in proofs)
    out = []
    i = 0
    depth = 0
    n = len(src)
    while i < n:
        if src.startswith("/-", i):
            depth += 1
            i += 2
            continue
        if depth > 0 and src.startswith("-/", i):
            depth -= 1
            i += 2
            continue
        if depth > 0:
            if src[i] == "\n":
                out.append("\n")
            i += 1
            continue
        if src.startswith("--", i):
            while i < n and src[i] != "\n":
                i += 1
            continue
        out.append(src[i])
        i += 1
    return "".join(out)


def hygiene():
    """grep for forbidden constructs in all Lean sources (comments stripped)."""
    bad = []
    for d, dirs, files in os.walk(LEAN):
        dirs[:] = [x for x in dirs if x != ".lake"]
        for f in files:
            if f.endswith(".lean"):
                p = os.path.join(d, f)
                s = strip_comments(open(p).read())
                for m in FORBIDDEN.finditer(s):
                    line = s.count("\n", 0, m.start()) + 1
                    bad.append("%s:%d: %s" % (os.path.relpath(p, VERIF), line, m.group(0).strip()))
    return bad


def build_translator():
    out = os.path.join(CACHE, "bin", "translator")
    os.makedirs(os.path.dirname(out), exist_ok=True)
    src = os.path.join(VERIF, "translator")
    srcs = [os.path.join(src, f) for f in os.listdir(src) if f.endswith(".go")]
    if os.path.exists(out) and all(os.path.getmtime(s) < os.path.getmtime(out) for s in srcs):
        return out
    e = goenv()
    e["GOFLAGS"] = "-mod=mod"
    p = run(["go", "build", "-o", out, "."], cwd=src, env=e)
    if p.returncode != 0:
        raise RuntimeError("translator build failed:\n" + p.stderr)
    return out


def build_sitescan():
    out = os.path.join(CACHE, "bin", "sitescan")
    src = os.path.join(VERIF, "sitescan")
    srcs = [os.path.join(src, f) for f in os.listdir(src) if f.endswith(".go")]
    if os.path.exists(out) and all(os.path.getmtime(s) < os.path.getmtime(out) for s in srcs):
        return out
    p = run(["go", "build", "-o", out, "."], cwd=src, env=goenv())
    if p.returncode != 0:
        raise RuntimeError("sitescan build failed:\n" + p.stderr)
    return out


def regenerate():
    """Re-extract DDP/Generated/*.lean from /repo's working tree. Returns
    (ok, message). Deletes stale generated files first."""
    gen = os.path.join(LEAN, "DDP", "Generated")
    tr = build_translator()
    tmp = gen + ".new"
    shutil.rmtree(tmp, ignore_errors=True)
    os.makedirs(tmp)
    p = run([tr, "-repo", REPO, "-out", tmp])
    if p.returncode != 0:
        shutil.rmtree(tmp, ignore_errors=True)
        return False, (p.stdout + p.stderr)
    # typed inventory of order-sensitive sites (go/packages over the working tree)
    from .pipeline import llvm_env
    e = llvm_env()
    e["GOFLAGS"] = "-mod=mod -tags=byollvm"
    p2 = run([build_sitescan(), "-repo", REPO, "-out", tmp], cwd=REPO, env=e, timeout=1200)
    if p2.returncode != 0:
        shutil.rmtree(tmp, ignore_errors=True)
        return False, "sitescan: " + (p2.stdout + p2.stderr)[-3000:]
    # only replace files whose content changed (keeps lake's incremental build)
    os.makedirs(gen, exist_ok=True)
    new = set(os.listdir(tmp))
    for f in os.listdir(gen):
        if f not in new:
            os.remove(os.path.join(gen, f))
    for f in new:
        a = os.path.join(tmp, f)
        b = os.path.join(gen, f)
        if not os.path.exists(b) or open(a).read() != open(b).read():
            shutil.copyfile(a, b)
    shutil.rmtree(tmp, ignore_errors=True)
    return True, p.stdout


def lake_build(targets, timeout=3000):
    cmd = ["lake", "build"] + list(targets)
    t = time.time()
    p = run(cmd, cwd=LEAN, timeout=timeout)
    return p.returncode == 0, (p.stdout + "\n" + p.stderr), time.time() - t


THEOREM_RE = re.compile(r"^(?:@\[[^\]]*\]\s*)?(?:protected\s+|private\s+)?theorem\s+([^\s:({\[]+)", re.M)
NAMESPACE_RE = re.compile(r"^(namespace|end)\s+(\S+)", re.M)


def theorems_in(relpath):
    """Names of theorems declared in a Lean file, namespace-qualified."""
    src = strip_comments(open(os.path.join(LEAN, relpath)).read())
    names = []
    ns = []
    for line in src.split("\n"):
        m = re.match(r"^namespace\s+(\S+)", line)
        if m:
            ns.append(m.group(1))
            continue
        m = re.match(r"^end\s+(\S+)", line)
        if m and ns and ns[-1] == m.group(1):
            ns.pop()
            continue
        m = THEOREM_RE.match(line)
        if m:
            names.append(".".join(ns + [m.group(1)]))
    return names


def enclosing_decl(relpath, lineno):
    """Name of the theorem/def that encloses a line (for broken-obligation reports)."""
    try:
        lines = open(os.path.join(LEAN, relpath)).read().split("\n")
    except OSError:
        return None
    for i in range(min(lineno, len(lines)) - 1, -1, -1):
        m = re.match(r"^(?:@\[[^\]]*\]\s*)?(?:protected\s+|private\s+)?(theorem|def|example|lemma|instance|abbrev)\s*([^\s:({\[]*)", lines[i])
        if m:
            return "%s %s" % (m.group(1), m.group(2))
    return None


ERR_RE = re.compile(r"^error: (\S+\.lean):(\d+):(\d+): (.*)$", re.M)


def parse_errors(output):
    errs = []
    for m in ERR_RE.finditer(output):
        f, l, c, msg = m.group(1), int(m.group(2)), int(m.group(3)), m.group(4)
        rel = f
        if os.path.isabs(f):
            rel = os.path.relpath(f, LEAN)
        errs.append({"file": rel, "line": l, "msg": msg, "decl": enclosing_decl(rel, l)})
    return errs


def audit(module, names):
    """#print axioms for each theorem; returns (dict name->axioms list, errors)."""
    if not names:
        return {}, []
    d = os.path.join(CACHE, "audit")
    os.makedirs(d, exist_ok=True)
    path = os.path.join(d, "Audit_%s.lean" % module.replace(".", "_"))
    with open(path, "w") as f:
        f.write("import %s\n" % module)
        for n in names:
            f.write("#print axioms %s\n" % n)
    p = run(["lake", "env", "lean", path], cwd=LEAN, timeout=1200)
    out = p.stdout + "\n" + p.stderr
    res = {}
    errs = []
    # messages: "'name' depends on axioms: [a, b]" or "'name' does not depend on any axioms"
    for m in re.finditer(r"'([^']+)' depends on axioms: \[([^\]]*)\]", out, re.S):
        res[m.group(1)] = [x.strip() for x in m.group(2).replace("\n", " ").split(",") if x.strip()]
    for m in re.finditer(r"'([^']+)' does not depend on any axioms", out):
        res[m.group(1)] = []
    for n in names:
        if n not in res:
            errs.append("no axiom report for %s" % n)
    if p.returncode != 0:
        errs.append("audit run failed: " + out[-2000:])
    return res, errs


def prove(res, module, relpath, extra_modules=(), regen=True):
    """Full proof step for a property: regenerate, build module, audit, hygiene.
    Fills res.obligations/discharged and records broken obligations as violations
    without input (callers may afterwards search for a failing input and
    upgrade them). Returns list of broken-obligation dicts."""
    broken = []
    with lock("lean"):
        if regen:
            ok, msg = regenerate()
            if not ok:
                broken.append({"kind": "translator", "name": "T-gen extraction", "detail": msg[-3000:]})
        names = theorems_in(relpath)
        res.theorems = names
        res.obligations = len(names)
        res.checker_cmd = "cd lean && lake build %s && lake env lean <#print axioms for each theorem of %s>" % (
            " ".join([module] + list(extra_modules)), relpath)
        ok, out, dt = lake_build([module] + list(extra_modules))
        res.extra["lean_build_s"] = round(dt, 1)
        if not ok:
            errs = parse_errors(out)
            if not errs:
                broken.append({"kind": "build", "name": module, "detail": out[-3000:]})
            for e in errs:
                broken.append({"kind": "obligation", "name": "%s (%s:%d)" % (e["decl"], e["file"], e["line"]), "detail": e["msg"]})
            res.discharged = 0
        else:
            ax, aerrs = audit(module, names)
            res.axioms = {k: v for k, v in ax.items() if v}
            good = 0
            for n in names:
                a = ax.get(n)
                if a is None:
                    broken.append({"kind": "audit", "name": n, "detail": "no axiom report"})
                elif set(a) - ALLOWED_AXIOMS:
                    broken.append({"kind": "audit", "name": n, "detail": "forbidden axioms: %s" % sorted(set(a) - ALLOWED_AXIOMS)})
                else:
                    good += 1
            res.discharged = good
        bad = hygiene()
        for b in bad:
            broken.append({"kind": "hygiene", "name": b, "detail": "forbidden construct in Lean sources"})
    return broken

"""Correspondence plumbing: build the Go harness and the Lean model driver, feed
both the same request lines, return the answer lines."""
import os
import subprocess
import tempfile

from .common import VERIF, CACHE, LEAN, REPO, NPROC, run, lock, goenv, hash_files, walk_files, log


def build_harness(tags="verif"):
    """Go harness built against /repo's working tree (hooks enabled with tag verif)."""
    src = os.path.join(VERIF, "harness")
    out = os.path.join(CACHE, "bin", "harness")
    os.makedirs(os.path.dirname(out), exist_ok=True)
    with lock("harness"):
        # go's own build cache makes this incremental; always rebuild so that the
        # binary reflects the current working tree
        gosum = os.path.join(src, "go.sum")
        repo_sum = open(os.path.join(REPO, "go.sum")).read()
        if not os.path.exists(gosum) or open(gosum).read() != repo_sum:
            open(gosum, "w").write(repo_sum)
        p = run(["go", "build", "-tags", tags, "-o", out, "."], cwd=src, env=goenv(), timeout=1200)
        if p.returncode != 0:
            raise RuntimeError("harness build failed (does /repo still compile?):\n" + p.stderr[-4000:])
    return out


def build_model():
    out = os.path.join(LEAN, ".lake", "build", "bin", "ddpmodel")
    with lock("lean"):
        p = run(["lake", "build", "ddpmodel"], cwd=LEAN, timeout=3000)
        if p.returncode != 0:
            raise RuntimeError("model driver build failed:\n" + (p.stdout + p.stderr)[-4000:])
    return out


def run_lines(exe, lines, timeout=3600, chunks=None, env=None, mem_gb=None):
    """Feed request lines to a line-protocol executable; returns answer lines.
    Splits into parallel chunks. mem_gb: address-space limit per process (a request that makes the
    implementation allocate without bound then kills its process quickly instead of the machine)."""
    import resource

    def limits():
        if mem_gb:
            resource.setrlimit(resource.RLIMIT_AS, (mem_gb << 30, mem_gb << 30))
    if not lines:
        return []
    chunks = chunks or (NPROC if len(lines) > 2000 else 1)
    n = len(lines)
    size = (n + chunks - 1) // chunks
    parts = [lines[i:i + size] for i in range(0, n, size)]
    procs = []
    for part in parts:
        data = ("\n".join(part) + "\n").encode()
        fin = tempfile.TemporaryFile()
        fin.write(data)
        fin.seek(0)
        fout = tempfile.TemporaryFile()
        p = subprocess.Popen([exe], stdin=fin, stdout=fout, stderr=subprocess.PIPE, env=env, preexec_fn=limits if mem_gb else None)
        procs.append((p, fin, fout, part))
    out = []
    for p, fin, fout, part in procs:
        try:
            _, err = p.communicate(timeout=timeout)
        except subprocess.TimeoutExpired:
            p.kill()
            err = b"timeout"
        fout.seek(0)
        res = fout.read().decode("utf-8", "replace").split("\n")
        if res and res[-1] == "":
            res.pop()
        if len(res) != len(part):
            # the process died on some line: mark the line after the last answer
            res = res + ["<crash: %s>" % err.decode("utf-8", "replace")[-300:].replace("\n", " | ")] + ["<no-answer>"] * (len(part) - len(res) - 1)
        out.extend(r.rstrip() for r in res[:len(part)])
        fin.close()
        fout.close()
    return out


def hexs(s):
    return s.encode("utf-8").hex()


def parse_many(harness, reqs, ddp=None, timeout=3600):
    """reqs: list of dicts {files, main, dump?}. Runs `harness parse` in-process
    (parallel chunks); returns list of response dicts. A crashed harness chunk yields
    {'result': 'crash', ...} for the offending request."""
    import json
    from . import pipeline
    ddp = ddp or pipeline.build()
    env = dict(os.environ)
    env["DDPPATH"] = ddp
    work = os.path.join(CACHE, "work")
    os.makedirs(work, exist_ok=True)
    env["VERIF_WORK"] = work
    lines = ["parse " + json.dumps(r, ensure_ascii=False).encode("utf-8").hex() for r in reqs]
    outs = run_lines(harness, lines, timeout=timeout, env=env, chunks=(NPROC if len(lines) >= 32 else 1))
    res = []
    for o in outs:
        try:
            res.append(json.loads(o))
        except Exception:
            res.append({"result": "crash", "raw": o[:500], "diags": [], "faulty": None})
    return res


def build_rtharness():
    """C driver over the ASan/UBSan build of lib/runtime of the working tree"""
    from . import pipeline
    from .common import LOCALE
    ddp = pipeline.build()
    out = os.path.join(CACHE, "bin", "rtharness-" + os.path.basename(os.path.dirname(ddp)))
    src = os.path.join(VERIF, "rtharness", "rt.c")
    with lock("rtharness"):
        if not os.path.exists(out) or os.path.getmtime(out) < os.path.getmtime(src):
            cmd = ["gcc", "-O1", "-g", "-fsanitize=address,undefined", "-fsanitize-recover=address", "-fno-omit-frame-pointer",
                   "-I" + os.path.join(ddp, "include"), "-o", out, src, "-Wl,--wrap=ddp_runtime_error",
                   "-L" + os.path.join(ddp, "lib_asan"), "-lddpruntime", "-lm"]
            p = run(cmd, timeout=600)
            if p.returncode != 0:
                raise RuntimeError("rtharness build failed:\n" + p.stderr[-3000:])
            for f in os.listdir(os.path.dirname(out)):
                if f.startswith("rtharness-") and os.path.join(os.path.dirname(out), f) != out:
                    try:
                        os.remove(os.path.join(os.path.dirname(out), f))
                    except OSError:
                        pass
    env = dict(os.environ)
    env["ASAN_OPTIONS"] = "halt_on_error=0:detect_leaks=0:handle_segv=0:handle_sigbus=0"
    env["UBSAN_OPTIONS"] = "print_stacktrace=0"
    env["LOCPATH"] = LOCALE
    return out, env

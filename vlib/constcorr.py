"""C08 / C11 — tie of the annotator model (lean/DDP/Impl/ConstParam.lean) to src/ast/annotators/const_func_param.go.

A generated module — functions over `Zahlen Liste` value parameters and `Zahlen Listen Referenz` parameters whose bodies
assign to (parts of) parameters and call each other (earlier functions, later ones, themselves), all declared forward in
index order so that the annotator looks at them in that order — is given
  * as an abstract module to `ddpmodel constparam`  -> the flags `DDP.ConstParam.analyse` computes,
  * as DDP source to the real parser with the real annotator (harness `parse`, `annotate`, dump `constflags`).
The flags must agree function by function. `sound` (Proofs/ConstParam.lean) is a theorem about the former; the `-O 2` rows of
the aliasing matrix observe the consequences of the latter."""
from collections import Counter

from . import corr
from .common import Rng

HEAD = 'Binde "Duden/Ausgabe" ein.\n\n'


def gen_module(rng):
    n = 2 + rng.below(4)
    fns = []
    for i in range(n):
        k = 1 + rng.below(3)
        fns.append({"refs": [rng.chance(2, 5) for _ in range(k)], "body": []})
    for i, f in enumerate(fns):
        k = len(f["refs"])
        for _ in range(rng.below(5)):
            if rng.chance(1, 3):
                f["body"].append(("a", rng.below(k), rng.below(3)))       # assign to parameter j: whole / element / element twice
            else:
                g = rng.below(n)
                args = []
                for isref in fns[g]["refs"]:
                    c = rng.below(4)
                    if c <= 1:
                        args.append(("r", rng.below(k)))
                    elif c == 2 or isref:
                        args.append(("l",))         # a local variable of the caller: assignable, but no parameter
                    else:
                        args.append(("t",))         # a temporary
                f["body"].append(("c", g, args))
    return fns


def abstract(fns):
    out = []
    for f in fns:
        stmts = []
        for s in f["body"]:
            if s[0] == "a":
                stmts.append("a/r%d" % s[1])
            else:
                stmts.append("/".join(["c", str(s[1])] + [("r%d" % a[1]) if a[0] == "r" else "n" for a in s[2]]))
        out.append("%d:%s:0:%s" % (len(f["refs"]), "".join("1" if r else "0" for r in f["refs"]), ",".join(stmts)))
    return ";".join(out)


def source(fns):
    def sig(i, f):
        names = ["p%d_%d" % (i, j) for j in range(len(f["refs"]))]
        tys = ["Zahlen Listen Referenz" if r else "Zahlen Liste" for r in f["refs"]]
        if len(names) == 1:
            head = "Die Funktion f%d mit dem Parameter %s vom Typ %s," % (i, names[0], tys[0])
        else:
            head = "Die Funktion f%d mit den Parametern %s und %s vom Typ %s und %s," % (i, ", ".join(names[:-1]), names[-1], ", ".join(tys[:-1]), tys[-1])
        return head, names
    s = HEAD
    for i, f in enumerate(fns):
        head, names = sig(i, f)
        s += head + " gibt nichts zurück,\nwird später definiert\nund kann so benutzt werden:\n\t\"f%d %s\"\n\n" % (i, " ".join("<%s>" % x for x in names))
    for i, f in enumerate(fns):
        _, names = sig(i, f)
        s += "Die Funktion f%d macht:\n\tDie Zahlen Liste lok ist eine Liste, die aus 7, 8 besteht.\n" % i
        for st in f["body"]:
            if st[0] == "a":
                p = names[st[1]]
                s += ["\tSpeichere eine Liste, die aus 1, 2 besteht in %s.\n", "\tSpeichere 5 in %s an der Stelle 1.\n",
                      "\tSpeichere (%s an der Stelle 1) plus 1 in %s an der Stelle 1.\n"][st[2]].replace("%s", p)
            else:
                args = [names[a[1]] if a[0] == "r" else ("lok" if a[0] == "l" else "(eine Liste, die aus 3, 4 besteht)") for a in st[2]]
                s += "\tf%d %s.\n" % (st[1], " ".join(args))
        s += "\tSchreibe (die Länge von lok).\n\n"
    return s


def run(res, harness, model, ddp, seed, n):
    rng = Rng(seed + 9091)
    mods = [gen_module(rng) for _ in range(n)]
    # the function of the repaired defect first (a value parameter handed to the function's own Referenz parameter, changed later)
    mods.insert(0, [{"refs": [True, False, False], "body": [("c", 0, [("r", 1), ("r", 1), ("t",)]), ("a", 0, 1)]}])
    want = corr.run_lines(model, ["constparam " + abstract(m) for m in mods])
    resps = corr.parse_many(harness, [{"files": {"main.ddp": source(m)}, "main": "main.ddp", "annotate": True, "dump": ["constflags"]} for m in mods], ddp)
    st = Counter()
    for m, w, rp in zip(mods, want, resps):
        res.evaluations += 1
        src = source(m)
        errs = [d for d in rp.get("diags", []) if d.get("level") == 2]
        if rp.get("result") != "ok" or errs or w == "bad-request":
            st["not-judged:" + ("model" if w == "bad-request" else "front-end")] += 1
            if st["not-judged:front-end"] + st["not-judged:model"] > max(3, len(mods) // 10):
                res.violation("constparam-machinery", "annotator tie: generated modules are not accepted (%s)" % (errs[:1] or rp.get("result")),
                              {"program": src, "response": rp, "model": w}, has_input=False)
            continue
        got = {}
        for ln in (rp.get("extra") or {}).get("constflags") or []:
            name, _, flags = ln.partition(" ")
            got.setdefault(name, flags)         # the forward declaration comes first
        real = ";".join(got.get("f%d" % i, "?") for i in range(len(m)))
        st["flags:" + ("all-constant" if "0" not in w else "mixed" if "1" in w else "none-constant")] += 1
        if real != w:
            res.violation("constparam:" + abstract(m)[:60],
                          "the constant-parameter annotator flags %s, the model (DDP.ConstParam.analyse, proved sound) %s — a parameter flagged constant "
                          "although the function changes it is handed over without a copy at -O 2" % (real, w),
                          {"program": src, "abstract_module": abstract(m), "implementation": real, "model": w})
        else:
            res.nontrivial("constparam:" + w)
    return dict(st)

"""C12 — a Text is a sequence of Unicode code points."""
import itertools

from .. import corr, leanproj, pipeline
from ..common import Rng, seed

CORE = [0x61, 0xE4, 0x20AC, 0x1F600]
BOUND = [0x01, 0x7F, 0x80, 0x7FF, 0x800, 0xFFFF, 0x10000, 0x10FFFF, 0xD7FF, 0xE000]


def lit(cps):
    return "L" + "".join(chr(c) for c in cps).encode("utf-8").hex()


def clamp(i, lo, hi):
    t = lo if i < lo else i
    return hi if t > hi else t


class Expr:
    """text expression with its specification value (code-point list) or 'err'"""

    def __init__(self, src, val, ops):
        self.src, self.val, self.ops = src, val, ops


def apply_ops(e, rng, full):
    out = []
    v = e.val
    if v == "err":
        return out
    n = len(v)
    cps = CORE + (BOUND[:4] if not full else BOUND)
    for idx in range(-1, n + 3):
        for cp in (cps if full else [rng.choice(CORE), rng.choice(BOUND)]):
            if 1 <= idx <= n:
                nv = v[:idx - 1] + [cp] + v[idx:]
            else:
                nv = "err"
            out.append(Expr("R%d,%d(%s)" % (idx, cp, e.src), nv, e.ops + ["R"]))
    for i1 in range(-1, n + 3):
        for i2 in range(-1, n + 3):
            if n == 0:
                nv = []
            else:
                a, b = clamp(i1, 1, n), clamp(i2, 1, n)
                nv = "err" if b < a else v[a - 1:b]
            out.append(Expr("S%d,%d(%s)" % (i1, i2, e.src), nv, e.ops + ["S"]))
    for cp in (cps if full else [rng.choice(CORE)]):
        out.append(Expr("P%d(%s)" % (cp, e.src), [cp] + v, e.ops + ["P"]))
        out.append(Expr("A%d(%s)" % (cp, e.src), v + [cp], e.ops + ["A"]))
    out.append(Expr("D(%s)" % e.src, list(v), e.ops + ["D"]))
    return out


def queries(e):
    qs = [("show", "show " + e.src), ("len", "len " + e.src)]
    if e.val != "err":
        n = len(e.val)
        for i in range(0, n + 2):
            qs.append(("idx%d" % i, "idx %d %s" % (i, e.src)))
        qs.append(("eqsame", "eq %s %s" % (e.src, lit(e.val))))
        qs.append(("eqsame2", "eq %s %s" % (lit(e.val), e.src)))
        other = e.val[:-1] + [0x62] if e.val else [0x62]
        qs.append(("eqdiff", "eq %s %s" % (e.src, lit(other))))
        if n:
            qs.append(("eqpre", "eq %s %s" % (e.src, lit(e.val[:-1]))))
    return qs


def monitor(e, kind, ans):
    """the property on the implementation's answers, from the code-point view alone"""
    if ans in ("overread", "hang") or ans.startswith("<"):
        return "runtime/library code reads outside a live block or does not return (%s)" % ans
    if e.val == "err":
        return None if ans == "err" else "an out-of-domain operation did not stop with a Laufzeitfehler: %s" % ans
    if kind == "len":
        return None if ans == "ok %d" % len(e.val) else "length is %s, code points: %d" % (ans, len(e.val))
    if kind.startswith("idx"):
        i = int(kind[3:])
        want = "ok %d" % e.val[i - 1] if 1 <= i <= len(e.val) else "err"
        return None if ans == want else "index %d gives %s, expected %s" % (i, ans, want)
    if kind in ("eqsame", "eqsame2"):
        return None if ans == "ok 1" else "text differs from the literal with the same code points (%s)" % ans
    if kind in ("eqdiff", "eqpre"):
        return None if ans == "ok 0" else "text equals a literal with different code points (%s)" % ans
    if kind == "show":
        want = "".join(chr(c) for c in e.val).encode("utf-8").hex()
        if not e.val:
            return None
        return None if ans.startswith("ok " + want + "00") else "bytes differ from the UTF-8 of the code points: %s" % ans
    return None


def check(res, tier):
    rng = Rng(seed())
    broken = leanproj.prove(res, "Props.C12", "Props/C12.lean")
    rt, env = corr.build_rtharness()
    model = corr.build_model()
    full = tier == "thorough"
    lits = []
    for k in range(0, 4):
        for combo in itertools.product(CORE, repeat=k):
            lits.append(Expr(lit(combo), list(combo), []))
    for k in range(1, 3):
        for combo in itertools.product(BOUND, repeat=k):
            lits.append(Expr(lit(combo), list(combo), []))
    exprs = list(lits)
    lvl1 = []
    for e in lits:
        if len(e.val) <= 3:
            lvl1 += apply_ops(e, rng, full)
    # concatenations of literal pairs
    small = [e for e in lits if len(e.val) <= 2]
    for a in small:
        for b in (small if full else [rng.choice(small) for _ in range(3)]):
            lvl1.append(Expr("C(%s,%s)" % (a.src, b.src), a.val + b.val, ["C"]))
    exprs += lvl1
    # histories of two (thorough: three) operations
    ok1 = [e for e in lvl1 if e.val != "err"]
    pick = ok1 if full else [rng.choice(ok1) for _ in range(400)]
    lvl2 = []
    for e in pick:
        lvl2 += apply_ops(e, rng, False)
    exprs += lvl2
    if full:
        ok2 = [e for e in lvl2 if e.val != "err"]
        for e in [rng.choice(ok2) for _ in range(3000)]:
            exprs += apply_ops(e, rng, False)
    lines, meta = [], []
    for e in exprs:
        for kind, q in queries(e):
            lines.append(q)
            meta.append((e, kind))
    nhist = len(lines)
    # per scalar value
    step = 1 if full else 61
    scal = [c for c in range(1, 0x110000, step) if not (0xD800 <= c < 0xE000)]
    scal += [c for c in (0x7F, 0x80, 0x7FF, 0x800, 0xFFFF, 0x10000, 0x10FFFF, 0xD7FF, 0xE000) if c not in scal]
    for c in scal:
        lines.append("idx 1 X%d" % c)
        meta.append((Expr("X%d" % c, [c], ["X"]), "idx1"))
        lines.append("idx 2 A%d(L61)" % c)
        meta.append((Expr("A%d(L61)" % c, [0x61, c], ["A"]), "idx2"))
    a = corr.run_lines(rt, lines, env=env)
    b = corr.run_lines(model, lines)
    res.evaluations = len(lines)
    mism = 0
    opsseen = set()
    for i, (x, y) in enumerate(zip(a, b)):
        e, kind = meta[i]
        opsseen.add("".join(e.ops))
        res.nontrivial(lines[i])
        why = monitor(e, kind, x)
        if why:
            res.violation("monitor:" + lines[i][:200], why, {"request": lines[i], "implementation": x, "model": y,
                          "expected_code_points": e.val, "replay": "echo '<request>' | .cache/bin/rtharness-* (LOCPATH=locale)"})
        if x != y:
            mism += 1
            if mism <= 5:
                res.violation("corr:" + lines[i][:200], "model and runtime disagree", {"request": lines[i], "implementation": x, "model": y,
                              "correspondence": "rtharness (real C functions, ASan) vs DDP.TextRT"}, has_input=False)
    # ---- compiled code: iteration, literals, printing, conversions
    ddp = pipeline.build()
    prog = ('Binde "Duden/Ausgabe" ein.\n'
            'Der Text t ist "aä€😀b".\n'
            'Speichere \'x\' in t an der Stelle 2.\n'      # shorter
            'Speichere \'😀\' in t an der Stelle 1.\n'     # longer
            'Für jeden Buchstaben c in t, mache:\n\tSchreibe c.\n\tSchreibe "|".\n'
            'Schreibe "" auf eine Zeile.\n'
            'Schreibe (die Länge von t) auf eine Zeile.\n'
            'Schreibe (t gleich "😀x€😀b" ist) auf eine Zeile.\n'
            'Schreibe ("😀x€😀b" gleich t ist) auf eine Zeile.\n'
            'Schreibe (t im Bereich von 2 bis 3) auf eine Zeile.\n'
            'Schreibe ((t an der Stelle 3) als Zahl) auf eine Zeile.\n'
            'Schreibe (8364 als Buchstabe) auf eine Zeile.\n'
            'Schreibe (t verkettet mit \'ß\' verkettet mit "ö") auf eine Zeile.\n')
    exp = "😀|x|€|😀|b|\n5\nwahr\nwahr\nx€\n8364\n€\n😀x€😀bßö\n"
    for cfg in ([pipeline.Config(opt=1)] if not full else [pipeline.Config(opt=o) for o in (0, 1, 2)] + [pipeline.Config(opt=0, asan=True)]):
        rr = pipeline.compile_run(ddp, {"main.ddp": prog}, cfg)
        res.evaluations += 1
        if rr.cls != "ok" or rr.stdout != exp:
            res.violation("program:" + cfg.name(), "compiled text operations disagree with the code-point view",
                          {"program": prog, "expected_stdout": exp, "implementation": rr.as_dict(), "config": cfg.name()})
    # ---- the loop over a Text hands out code points whatever the body does with the loop variable (a copy): letters of
    #      every encoded width replaced in the body by letters of every other width — judged by the L2 evaluator
    from . import C01 as _c01
    from .. import evalcorr
    fa = [(lab, p) for lab, p in _c01.loop_programs() if lab.startswith("foreach-assign-text")]
    stfa = evalcorr.judge_programs(res, ddp, model, [p for _, p in fa], [pipeline.Config(opt=1)] if not full else [pipeline.Config(opt=0), pipeline.Config(opt=2)],
                                   "foreach-assign", max_report=3)
    for lab, _ in fa:
        res.nontrivial(lab)
    res.extra["foreach_assign_programs"] = dict(stfa)
    # ---- library iteration: Duden/TextIterator keeps byte pointers into the text and answers in code points
    #      (index, current letter, letters left / done, rest, text so far) at every position of a walk; DDP.Duden.iterWalk is the code-point view
    from . import C17 as _c17
    itcases = []
    for _ in range(6 if not full else 60):
        _c17.iter_cases(rng, lambda op, req, src, show, unchanged=None, head="C": itcases.append((req, src, show)))
    for combo in itertools.product(CORE, repeat=2):
        t = list(combo) + [0x61]
        itcases.append(("duden textiter %s" % _c17.enc_ints(t), None, _c17.show_iter))
    itans = corr.run_lines(model, [c[0] for c in itcases])
    itprog, itexp = _c17.HEAD_C, ""
    for (req, src, show), ans in zip(itcases, itans):
        if src is None:
            holder = []
            cps = [int(x) for x in req.split()[-1].split(",")]

            class _R:
                def __init__(self, seq):
                    self.seq = list(seq)

                def below(self, n):
                    return self.seq.pop(0)
            _c17.iter_cases(_R([len(cps) - 1] + [_c17.ITER_CHARS.index(c) if c in _c17.ITER_CHARS else 0 for c in cps]),
                            lambda op, rq, sr, sh, unchanged=None, head="C": holder.append((rq, sr)))
            if holder[0][0] != req:
                continue
            src = holder[0][1]
        itprog += "Wenn wahr, dann:\n" + "".join("\t" + ln + "\n" for ln in src.rstrip("\n").split("\n"))
        itexp += show(ans)
    for cfg in ([pipeline.Config(opt=1)] if not full else [pipeline.Config(opt=0), pipeline.Config(opt=2), pipeline.Config(opt=1, asan=True)]):
        rr = pipeline.compile_run(ddp, {"main.ddp": itprog}, cfg)
        res.evaluations += len(itcases)
        if rr.cls != "ok" or rr.stdout != itexp:
            got, want = rr.stdout.split("\n"), itexp.split("\n")
            first = next((i for i, (x, y) in enumerate(zip(got + [""], want + [""])) if x != y), 0)
            res.violation("textiterator:" + cfg.name(), "a walk with Duden/TextIterator disagrees with the code-point view (%s): line %d is %r, the code-point view gives %r" % (
                rr.cls, first, got[first] if first < len(got) else None, want[first] if first < len(want) else None),
                {"program": itprog, "expected_stdout": itexp, "implementation": rr.as_dict(), "config": cfg.name()})
    res.extra["textiterator_walks"] = len(itcases)
    res.extra.update({"history_queries": nhist, "expressions": len(exprs), "scalar_values": len(scal), "scalar_step": step,
                      "operation_histories_seen": len(opsseen), "disagreements": mism})
    res.exhaustive = True
    res.rule = ("all literals of <=3 code points over one representative per UTF-8 length (+<=2 over boundary code points); every "
                "operation with every index in -1..len+2 on each; histories of 2 (thorough: 3) operations; each result queried for "
                "bytes, length, every index, equality with equal/different literals, both argument orders; every %s scalar value "
                "for the per-character functions. distinct by request line") % ("" if step == 1 else "%d-th" % step)
    for i in (3, nhist // 2, nhist - 1, len(lines) - 1):
        res.sample({"request": lines[i], "implementation": a[i], "model": b[i], "code_points": meta[i][0].val})
    res.assumptions += ["glibc c32rtomb/mbrtoc32 under the aliased UTF-8 locale are modelled as encode/decode (trusted)",
                        "U+0000 excluded: a NUL-terminated text cannot hold it (Props/C12.nul_char_edge)"]
    for bk in broken:
        res.violation("obligation:" + bk["name"], "proof obligation no longer checks: %s" % bk["name"],
                      {"theorem": bk["name"], "detail": bk["detail"], "kind": "broken-obligation"}, has_input=False)

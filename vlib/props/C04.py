"""C04 — statically ill-formed programs are never accepted.

Theorems: lean/Props/C04.lean about DDP.Spec.checkProgram (the static rules of the core language).
Tie: generated well-formed programs and their ill-formed variants (a wrong-typed expression at a
random position, undeclared / out-of-scope names, redeclaration, Verlasse outside a loop, missing
final return — decided by the Lean checker; wrong article, Konstante assigned / passed as Referenz,
return outside a function — ill-formed by construction) are given to the front end: what the rules
reject must be rejected with at least one error diagnostic and no object file; what they accept
must be accepted (that direction validates the statement of the rules)."""
from collections import Counter

from .. import leanproj, pipeline, corr, gen, mutate, evalcorr
from ..common import Rng, seed
from ..corr import build_model
from .C01 import random_programs


def check(res, tier):
    sd = seed()
    rng = Rng(sd)
    broken = leanproj.prove(res, "Props.C04", "Props/C04.lean")
    model = build_model()
    ddp = pipeline.build()
    quick = tier == "quick"
    cfg = pipeline.Config(opt=1)
    base = random_programs(sd + 4001, 60 if quick else 800)
    cases = []      # (kind, program or None, source, model verdict or "reject-by-construction")
    for p in base:
        cases.append(("original", p, gen.pp_program(p), None))
        for kind, m in mutate.ast_mutants(p, rng, 6 if quick else 10):
            try:
                src = gen.pp_program(m)
            except (ValueError, KeyError, TypeError):
                continue
            cases.append((kind, m, src, None))
    # verdicts of the rules
    reqs = ["static %d %s" % (len(p["globals"]), gen.sx_program(p).encode().hex()) for _, p, _, _ in cases]
    verdicts = corr.run_lines(model, reqs)
    cases = [(k, p, s, v) for (k, p, s, _), v in zip(cases, verdicts)]
    for p in base[:(20 if quick else 200)]:
        src = gen.pp_program(p)
        for kind, msrc in mutate.text_mutants(src, rng):
            cases.append((kind, None, msrc, "reject"))
        for kind, msrc in mutate.text_wellformed(src):
            cases.append((kind, None, msrc, "accept"))
    outs = pipeline.farm(ddp, [({"main.ddp": s}, cfg, {"compile_only": True}) for _, _, s, _ in cases])
    st = Counter()
    for (kind, p, src, v), r in zip(cases, outs):
        res.evaluations += 1
        accepted = r.cls == "ok"
        st["%s:model-%s:kddp-%s" % (kind.split(":")[0], v, "accept" if accepted else r.cls)] += 1
        res.nontrivial(kind + ":" + v)
        if r.cls == "compile-internal-error":
            if len(res.violations) < 6:
                res.violation("crash:%s:%s" % (kind, hash(src) % 10 ** 8), "the compiler crashed on a %s variant instead of answering with diagnostics" % kind,
                              {"program": src, "implementation": r.as_dict(), "rules": v})
            continue
        if v == "reject" and accepted:
            if len(res.violations) < 6:
                rp = {"program": src, "expected": "rejected with an error diagnostic", "mutation": kind, "implementation": r.as_dict()}
                if p is not None:
                    rp["sexpr"] = gen.sx_program(p)
                    rp["static_request"] = "static %d <hex of sexpr>" % len(p["globals"])
                res.violation("accepted-illformed:%s:%s" % (kind.split(":")[0], hash(src) % 10 ** 8),
                              "an ill-formed program (%s) was accepted and compiled" % kind, rp)
        elif v == "accept" and not accepted:
            # the statement of the rules is more permissive than the front end: the model is wrong (or
            # the front end rejects a well-formed program); reported as a broken correspondence
            if len(res.violations) < 6:
                res.violation("rules-too-permissive:%s:%s" % (kind.split(":")[0], hash(src) % 10 ** 8),
                              "the front end rejects a program the stated rules accept (%s): the correspondence of DDP.Spec.checkProgram is broken" % kind,
                              {"program": src, "mutation": kind, "implementation": r.as_dict(), "kind": "correspondence",
                               "theorem": "Props/C04.lean (all theorems are about DDP.Spec.checkProgram)"}, has_input=False)
    # the same ill-formed programs through the command line with modules kept apart (--module-linken=false):
    # another path through compiler.Compile, which has to refuse a faulty module just the same
    nolink = pipeline.Config(opt=1, module_link=False)
    rejected = [(k, s) for k, _, s, v in cases if v == "reject"]
    if quick:
        rejected = rejected[sd % 3::3]
    outs2 = pipeline.farm_cli(ddp, [({"main.ddp": s}, nolink, {"compile_only": True}) for _, s in rejected])
    for (kind, src), r in zip(rejected, outs2):
        res.evaluations += 1
        st["nolink:%s:kddp-%s" % (kind.split(":")[0], "accept" if r.cls == "ok" else r.cls)] += 1
        if r.cls == "ok":
            res.violation("accepted-illformed-nolink:%s:%s" % (kind.split(":")[0], hash(src) % 10 ** 8),
                          "an ill-formed program (%s) compiles to an object file with exit status 0 under --module-linken=false" % kind,
                          {"program": src, "expected": "rejected with an error diagnostic, no object file", "mutation": kind,
                           "command": "kddp kompiliere main.ddp -o out.o -O 1 --module-linken=false", "implementation": r.as_dict()})
        elif r.cls == "compile-internal-error":
            res.violation("crash-nolink:%s:%s" % (kind.split(":")[0], hash(src) % 10 ** 8),
                          "the compiler hands an ill-formed program (%s) to the code generator under --module-linken=false, which crashes" % kind,
                          {"program": src, "expected": "rejected with an error diagnostic", "mutation": kind,
                           "command": "kddp kompiliere main.ddp -o out.o -O 1 --module-linken=false", "implementation": r.as_dict()})
    evalcorr.report_broken(res, broken)
    res.extra.update({"base_programs": len(base), "cases": len(cases), "cases_also_without_module_linking": len(rejected), "verdict_matrix": dict(sorted(st.items()))})
    res.rule = ("random well-formed programs and, per program, mutants: a literal of another type at a random expression position "
                "(operand, argument, initialiser, assigned value, condition, loop bound, repeat count, iterated value, returned value, "
                "index, field value), an undeclared name, a name used after its block, a redeclaration in one scope, Verlasse/Fahre fort "
                "outside loops, a missing final return; text-level: wrong article, Konstante assigned / compound-assigned / passed as "
                "Referenz (also its elements and characters), return outside a function, non-Wahrheitswert condition: verdict of the "
                "front end against the Lean statement of the rules, in both directions; the rejected ones again through "
                "`kddp kompiliere --module-linken=false` (no object file, no crash)")
    res.assumptions += ["use of non-public declarations of another module is covered by C10's negative programs"]

"""C13 — the token stream is a faithful, positioned partition of the source."""
import itertools
import os

from .. import corr, leanproj
from ..common import REPO, Rng, seed, log

# pieces: one representative per lexical class (+ a few words so that keyword
# lookup, ASCII spellings and capitalised forms are inside the exhaustive part)
PIECES = ["a", "Z", "ä", "7", ",", ".", "\"", "'", "\\", "[", "]", "<", ">", " ", "\t", "\n", "\r",
          "€", "😀", "-", "n", ":", "ist", "Groesser", "(", "_"]
WORDS = ["ist", "Ist", "IST", "größer", "groesser", "Groesser", "GRÖßER", "Die", "die", "Zahl", "wahr", "Wahr",
         "x", "foo", "Ä1", "ß", "1", "12", "1,5", "1,", ",5", "12,34,5", "...", "..", ".", ":", "-", "(", ")",
         "\"a\"", "\"\\n\"", "\"\\q\"", "\"a\nb\"", "\"", "'a'", "'\\n'", "'ab'", "''", "'\\q'", "'", "[", "]", "[a[b]c]", "[\n]",
         "<x>", "<", ">", "<>", "<1>", "<ist>", "<a b>", "?", "!", "€", "😀", "\t", "    ", "  ", "\n", "\r\n", " ", "ueberlaedt", "Und", "und"]


def req(strict, alias, line, col, indent, s):
    return "scan %d %d %d %d %d %s" % (strict, alias, line, col, indent, s.encode("utf-8").hex())


def pos_after(origin, text):
    l, c = origin
    for ch in text:
        if ch == "\n":
            l, c = l + 1, 1
        else:
            c += 1
    return (l, c)


BLANK = set(" \t\r\n")


def monitor(src, origin, answer, alias):
    """The property itself evaluated on the implementation's token list,
    independent of the model. Returns None or a description."""
    if not answer.startswith("tokens"):
        return "no token list: " + answer[:80]
    body = answer[len("tokens"):].split(" diags")[0].split()
    toks = []
    for t in body:
        ty, lit, ind, rng = t.split("|")
        a, b = rng.split("-")
        toks.append((int(ty[1:]), bytes.fromhex(lit).decode("utf-8"), int(ind),
                     tuple(map(int, a.split(":"))), tuple(map(int, b.split(":")))))
    if not toks or toks[-1][0] != 1:
        return "stream does not end with EOF"
    if any(t[0] == 1 for t in toks[:-1]):
        return "more than one EOF"
    off = 0
    for (ty, lit, ind, st, en) in toks[:-1]:
        # skip blanks
        while off < len(src) and src[off] in BLANK:
            off += 1
        if ty == 0:   # ILLEGAL: unterminated literal covering the rest
            if src[off:off + 1] not in ("\"", "'"):
                return "ILLEGAL token not at an opening quote"
            if pos_after(origin, src[:off]) != st:
                return "ILLEGAL start position"
            off = len(src)
            continue
        if src[off:off + len(lit)] != lit:
            return "literal %r is not the source text at offset %d" % (lit, off)
        placeholder_nl = alias and ty == 3 and "\n" in lit
        if pos_after(origin, src[:off]) != st:
            return "start position of %r: %s, expected %s" % (lit, st, pos_after(origin, src[:off]))
        if not placeholder_nl and pos_after(origin, src[:off + len(lit)]) != en:
            return "end position of %r: %s, expected %s" % (lit, en, pos_after(origin, src[:off + len(lit)]))
        off += len(lit)
        if placeholder_nl:
            return None   # recorded deviation: line breaks inside <...> are not counted (see Props/C13)
    while off < len(src) and src[off] in BLANK:
        off += 1
    if off != len(src):
        return "source not covered: %d of %d" % (off, len(src))
    return None


def gen_inputs(tier, rng):
    reqs = []   # (request, src, origin, alias)
    n = 3 if tier == "quick" else 4
    for k in range(0, n + 1):
        for combo in itertools.product(PIECES, repeat=k):
            s = "".join(combo)
            reqs.append((req(1, 0, 1, 1, 0, s), s, (1, 1), False))
            reqs.append((req(0, 1, 3, 7, 2, s), s, (3, 7), True))
    exhaustive = len(reqs)
    m = 4000 if tier == "quick" else 200000
    for i in range(m):
        k = 1 + rng.below(9)
        parts = []
        for _ in range(k):
            parts.append(rng.choice(WORDS))
            if rng.chance(1, 2):
                parts.append(rng.choice([" ", " ", "\n", "\t", "  ", "    ", "\r\n", ""]))
        s = "".join(parts)
        al = rng.chance(1, 3)
        if al:
            o = (1 + rng.below(5), 1 + rng.below(30))
            reqs.append((req(0, 1, o[0], o[1], rng.below(3), s), s, o, True))
        else:
            reqs.append((req(rng.below(2), 0, 1, 1, 0, s), s, (1, 1), False))
    # all Duden files and test programs of the repository
    files = []
    for root in ("lib/stdlib/Duden", "examples", "tests/testdata"):
        for d, _, fs in os.walk(os.path.join(REPO, root)):
            for f in sorted(fs):
                if f.endswith(".ddp"):
                    files.append(os.path.join(d, f))
    files.sort()
    if tier == "quick":
        files = files[:60]
    nfiles = 0
    for f in files:
        try:
            s = open(f, encoding="utf-8").read()
        except (UnicodeDecodeError, OSError):
            continue
        reqs.append((req(1, 0, 1, 1, 0, s), s, (1, 1), False))
        nfiles += 1
        # a truncation in the middle (unterminated constructs)
        cut = rng.below(len(s) + 1)
        reqs.append((req(1, 0, 1, 1, 0, s[:cut]), s[:cut], (1, 1), False))
    return reqs, exhaustive, nfiles


INVALID = [b"\xff", b"a\x80", b"\xc3", b"\xc3(", b"\xe2\x82", b"\xed\xa0\x80", b"\xf4\x90\x80\x80", b"\xc0\xaf", b"ab\xfe", b"\xf8\x88\x80\x80\x80"]


def correspondence(res, tier):
    rng = Rng(seed())
    harness = corr.build_harness()
    model = corr.build_model()
    reqs, exhaustive, nfiles = gen_inputs(tier, rng)
    lines = [r[0] for r in reqs]
    # the UTF-8 gate: invalid byte strings
    gate = []
    for b in INVALID:
        for pre in (b"", b"Die Zahl x ist 1.\n"):
            gate.append("scan 1 0 1 1 0 " + (pre + b).hex())
    for i in range(200 if tier == "quick" else 5000):
        n = 1 + rng.below(6)
        gate.append("scan 1 0 1 1 0 " + bytes(rng.below(256) for _ in range(n)).hex())
    # the same inputs read by the scanner itself from a file (the path every imported module takes)
    gate += ["scanfile" + g[4:] for g in gate]
    lines += gate
    byfile = [(i, "scanfile" + lines[i][4:]) for i in range(len(reqs)) if not reqs[i][3] and i % (11 if tier == "quick" else 3) == 0]
    lines += [l for _, l in byfile]
    a = corr.run_lines(harness, lines)
    b = corr.run_lines(model, lines)
    res.evaluations += len(lines)
    mism = 0
    kinds = set()
    for i, (x, y) in enumerate(zip(a, b)):
        if i < len(reqs):
            r, src, origin, alias = reqs[i]
            why = monitor(src, origin, x, alias)
            if why:
                res.violation("monitor:" + why.split(":")[0][:40] + ":" + src[:20].encode().hex(),
                              "implementation's token stream violates the partition/position property: " + why,
                              {"input_utf8_hex": src.encode().hex(), "request": r, "implementation": x, "model": y})
            for t in x.split(" diags")[0].split()[1:]:
                kinds.add(t.split("|")[0])
            if len(src) > 1:
                res.nontrivial(src)
        elif i >= len(reqs) + len(gate):
            j = byfile[i - len(reqs) - len(gate)][0]
            if x != a[j]:
                res.violation("byfile:" + lines[j][:200], "the scanner tokenises a source differently when it reads it from a file itself",
                              {"request": lines[j], "from_bytes": a[j], "from_file": x, "model": y})
        else:
            # monitor for the gate: invalid UTF-8 must be refused
            raw = bytes.fromhex(lines[i].split()[-1])
            try:
                raw.decode("utf-8")
                valid = True
            except UnicodeDecodeError:
                valid = False
            if not valid and x != "invalid-utf8":
                res.violation("gate:" + raw.hex(), "invalid UTF-8 accepted by the scanner",
                              {"input_hex": raw.hex(), "implementation": x})
            res.nontrivial("gate:" + raw.hex())
        if x != y:
            mism += 1
            if mism <= 5:
                r = lines[i]
                res.violation("corr:" + r[:200], "model and implementation disagree on a scan request",
                              {"request": r, "implementation": x, "model": y,
                               "correspondence": "harness scan vs ddpmodel scan (DDP.Scanner.scan)"}, has_input=False)
    res.extra["exhaustive_requests"] = exhaustive
    res.extra["token_kinds_seen"] = len(kinds)
    res.extra["repo_files_scanned"] = nfiles
    res.extra["gate_inputs"] = len(gate)
    res.extra["disagreements"] = mism
    res.exhaustive = True
    res.rule = ("exhaustive: all concatenations of <=%d pieces from a %d-piece alphabet (one representative per lexical class), "
                "in normal(strict) and alias mode; plus random keyword-bearing lines, repository .ddp files and their truncations, "
                "and invalid UTF-8 for the gate; gate inputs and a sample of the others also through the scanner's own file reading (Source == nil). non-trivial = source longer than one character; distinct by source text") % (
                    3 if tier == "quick" else 4, len(PIECES))
    for i in (5, len(reqs) // 2, len(reqs) - 1):
        res.sample({"request": lines[i][:300], "implementation": a[i][:300], "model": b[i][:300]})


def check(res, tier):
    res.assumptions += ["Go's utf8.Valid / utf8.DecodeRune are trusted (the model starts from decoded code points)",
                        "strings.ToLower is modelled on identifier characters only"]
    broken = leanproj.prove(res, "Props.C13", "Props/C13.lean")
    correspondence(res, tier)
    for b in broken:
        res.violation("obligation:" + b["name"], "proof obligation no longer checks: %s" % b["name"],
                      {"theorem": b["name"], "detail": b["detail"], "kind": "broken-obligation"}, has_input=False)

"""C18 — foreign C functions see the published value representation.

Theorems: lean/Props/C18.lean (the calling convention as a function from DDP signatures to C
prototypes).  Tie: random signatures over {Zahl, Kommazahl, Byte, Wahrheitswert, Buchstabe, Text,
Zahlen Liste, Text Liste, Kombination, Variable} with value and Referenz parameters and every
result kind; the C prototype is taken from the Lean model (`ddpmodel abi`), the C body is written
against the published headers only (prints what it receives, changes what it is given by
Referenz, builds the result); the DDP program declares the function as defined in the C file,
calls it and prints result and arguments afterwards.  Everything runs linked with the heap ledger
(the caller releases each non-Referenz argument exactly once and owns the result) and under
AddressSanitizer."""
from collections import Counter

from .. import leanproj, pipeline, corr, evalcorr
from ..common import Rng, seed
from ..corr import build_model

HEAD = ('Binde "Duden/Ausgabe" ein.\n\nWir nennen die Kombination aus\n\tder Zahl fx mit Standardwert 0,\n\tdem Text ft mit Standardwert "",\n'
        'einen Punkt, und erstellen sie so:\n\t"mach_Punkt <fx> <ft>"\n\n')
CHEAD = ('#include "DDP/ddptypes.h"\n#include "DDP/ddpmemory.h"\n#include <stdio.h>\n#include <string.h>\n\n'
         "typedef struct { ddpint fx; ddpstring ft; } Punkt;\n\n"
         "static void set_text(ddpstring *s, const char *v) {\n\ts->cap = (ddpint)strlen(v) + 1;\n\ts->str = ddp_reallocate(NULL, 0, s->cap);\n\tmemcpy(s->str, v, s->cap);\n}\n\n")

# type code -> (DDP type name, Referenz type name, article for the result, DDP literal, printed form of the literal)
TYPES = {
    "Z": ("Zahl", "Zahlen Referenz", "eine Zahl", "41", "41"),
    "K": ("Kommazahl", "Kommazahlen Referenz", "eine Kommazahl", "2,5", "2.500"),
    "B": ("Byte", "Byte Referenz", "einen Byte", "(200 als Byte)", "200"),
    "W": ("Wahrheitswert", "Wahrheitswert Referenz", "einen Wahrheitswert", "wahr", "1"),
    "C": ("Buchstabe", "Buchstaben Referenz", "einen Buchstaben", "'ä'", "228"),
    "T": ("Text", "Text Referenz", "einen Text", '"ab€"', "ab€"),
    # the standard list values come out of a concatenation: their capacity is larger than their length, so a callee (or caller)
    # that confuses the two members of the published struct is seen; the plain literals (len == cap) are among VALUES
    "LZ": ("Zahlen Liste", "Zahlen Listen Referenz", "eine Zahlen Liste", "(eine Liste, die aus 4, 5 besteht) verkettet mit 6", "3<4,5,6,"),
    "LT": ("Text Liste", "Text Listen Referenz", "eine Text Liste", '(eine Liste, die aus "x" besteht) verkettet mit "yz"', "2<x,yz,"),
    "LK": ("Kommazahlen Liste", "Kommazahlen Listen Referenz", "eine Kommazahlen Liste", "(eine Liste, die aus 1,5 besteht) verkettet mit 2,5", "2<1.500,2.500,"),
    "LB": ("Byte Liste", "Byte Listen Referenz", "eine Byte Liste", "(eine Liste, die aus (1 als Byte) besteht) verkettet mit (255 als Byte)", "2<1,255,"),
    "LW": ("Wahrheitswert Liste", "Wahrheitswert Listen Referenz", "eine Wahrheitswert Liste", "(eine Liste, die aus wahr besteht) verkettet mit falsch", "2<1,0,"),
    "LC": ("Buchstaben Liste", "Buchstaben Listen Referenz", "eine Buchstaben Liste", "(eine Liste, die aus 'a' besteht) verkettet mit 'ä'", "2<97,228,"),
    "LV": ("Variablen Liste", "Variablen Listen Referenz", "eine Variablen Liste", "(eine Liste, die aus (4 als Variable) besteht) verkettet mit (5 als Variable)", "2<8:4,8:5,"),
    "S:Punkt": ("Punkt", "Punkt Referenz", "einen Punkt", '(mach_Punkt 3 "p")', "3/p"),
    "V": ("Variable", "Variablen Referenz", "eine Variable", "(77 als Variable)", "8:77"),
}
PRIM = ["Z", "K", "B", "W", "C"]
# further argument values per kind: (DDP expression, what the C side prints, what DDP prints); value parameters get them as
# expressions (computed Wahrheitswerte, boundary numbers, empty texts and lists), Referenz parameters through a variable
VALUES = {
    "Z": [("9223372036854775807", "9223372036854775807", "9223372036854775807"), ("(0 minus 9223372036854775807)", "-9223372036854775807", "-9223372036854775807"), ("0", "0", "0")],
    "K": [("(0 minus 0,25)", "-0.250", "-0.25"), ("1000000,5", "1000000.500", "1000000.5")],
    "B": [("(0 als Byte)", "0", "0"), ("(255 als Byte)", "255", "255")],
    "W": [("falsch", "0", "falsch"), ("(nicht w_wahr)", "0", "falsch"), ("(nicht w_falsch)", "1", "wahr"), ("(z_eins gleich 2 ist)", "0", "falsch"),
          ("(nicht (z_eins gleich 1 ist))", "0", "falsch"), ("(nicht (z_eins gleich 2 ist))", "1", "wahr"),
          # results of DDP functions whose i1 result the optimiser computes arithmetically (only the lowest bit is defined)
          ("(knifflig z_zwei z_53)", "1", "wahr"), ("(nicht (knifflig z_zwei z_53))", "0", "falsch"), ("(nicht (knifflig z_zwei 5))", "1", "wahr")],
    "C": [("'a'", "97", "a"), ("'😀'", "128512", "😀")],
    "T": [('""', "", ""), ('("a" verkettet mit "😀")', "a😀", "a😀")],
    "LZ": [("eine leere Zahlen Liste", "0=", "[]"), ("eine Liste, die aus 4, 5, 6 besteht", "3=4,5,6,", "")],
    "LT": [("eine leere Text Liste", "0=", "[]"), ('eine Liste, die aus "x", "yz" besteht', "2=x,yz,", "")],
    "LK": [("eine leere Kommazahlen Liste", "0=", "[]"), ("eine Liste, die aus 1,5, 2,5 besteht", "2=1.500,2.500,", "")],
    "LB": [("eine Liste, die aus (1 als Byte), (255 als Byte) besteht", "2=1,255,", "")],
    "LC": [("eine Liste, die aus 'a', 'ä' besteht", "2=97,228,", "")],
    "LW": [("eine Liste, die aus (nicht w_wahr), (nicht w_falsch) besteht", "2=0,1,", "[falsch,wahr,]"),
           ("eine Liste, die aus (nicht (knifflig z_zwei z_53)), (knifflig z_zwei z_53) besteht", "2=0,1,", "[falsch,wahr,]")],
    "LV": [("eine leere Variablen Liste", "0=", "[]"), ("eine Liste, die aus (4 als Variable), (5 als Variable), (6 als Variable) besteht", "3=8:4,8:5,8:6,", "")],
}
GLOBALS = ("Der Wahrheitswert w_wahr ist wahr.\nDer Wahrheitswert w_falsch ist falsch.\nDie Zahl z_eins ist 1.\nDie Zahl z_zwei ist 2.\nDie Zahl z_53 ist 53.\n"
           "Die Funktion ziffer mit dem Parameter z vom Typ Zahl, gibt einen Wahrheitswert zurück, macht:\n"
           "\tGib wahr, wenn z größer als, oder 48 ist und z kleiner als, oder 57 ist, zurück.\nUnd kann so benutzt werden:\n\t\"ziffer <z>\"\n\n"
           "Die Funktion knifflig mit den Parametern n und z vom Typ Zahl und Zahl, gibt einen Wahrheitswert zurück, macht:\n"
           "\tWenn n kleiner als 1 ist, gib falsch zurück.\n\tWenn n kleiner als 2 ist oder nicht (ziffer z), gib falsch zurück.\n\tGib wahr zurück.\n"
           "Und kann so benutzt werden:\n\t\"knifflig <n> <z>\"\n\n")
ELEM = {"LZ": ("Z", "jede Zahl", '"%lld,", (long long)'), "LK": ("K", "jede Kommazahl", '"%.3f,", '), "LB": ("B", "jeden Byte", '"%u,", (unsigned)'),
        "LW": ("W", "jeden Wahrheitswert", '"%d,", (int)'), "LC": ("C", "jeden Buchstaben", '"%d,", (int)')}


def c_print(code, expr, deref):
    """C statement printing the value received (expr is the parameter; deref: it is a pointer)"""
    v = ("(*%s)" % expr) if deref and code in PRIM else expr
    if code == "Z":
        return 'printf("%%lld;", (long long)%s);' % v
    if code == "K":
        return 'printf("%%.3f;", %s);' % v
    if code == "B":
        return 'printf("%%u;", (unsigned)%s);' % v
    if code == "W":
        return 'printf("%%d;", (int)%s);' % v
    if code == "C":
        return 'printf("%%d;", (int)%s);' % v
    if code == "T":
        return 'printf("%%s;", %s->str ? %s->str : "");' % (expr, expr)
    lenhead = 'printf("%%lld%%s", (long long)%s->len, %s->len < %s->cap ? "<" : %s->len == %s->cap ? "=" : ">"); ' % (expr, expr, expr, expr, expr)
    if code in ELEM:
        return lenhead + 'for (ddpint i = 0; i < %s->len; i++) printf(%s%s->arr[i]); printf(";");' % (expr, ELEM[code][2], expr)
    if code == "LT":
        return lenhead + 'for (ddpint i = 0; i < %s->len; i++) printf("%%s,", %s->arr[i].str ? %s->arr[i].str : ""); printf(";");' % (expr, expr, expr)
    if code == "LV":
        return lenhead + ('for (ddpint i = 0; i < %s->len; i++) printf("%%lld:%%lld,", (long long)%s->arr[i].vtable_ptr->type_size, '
                          '(long long)*(ddpint *)(DDP_ANY_VALUE_PTR(&%s->arr[i]))); printf(";");' % (expr, expr, expr))
    if code == "S:Punkt":
        return 'printf("%%lld/%%s;", (long long)%s->fx, %s->ft.str ? %s->ft.str : "");' % (expr, expr, expr)
    if code == "V":
        return 'printf("%%lld:%%lld;", (long long)%s->vtable_ptr->type_size, (long long)*(ddpint *)(DDP_ANY_VALUE_PTR(%s)));' % (expr, expr)
    raise ValueError(code)


def c_mutate(code, expr):
    """C statements changing the caller's storage behind a Referenz parameter; returns (C, printed form afterwards in DDP)"""
    if code == "Z":
        return "*%s += 1;" % expr, "42"
    if code == "K":
        return "*%s = *%s * 2;" % (expr, expr), "5"
    if code == "B":
        return "*%s = 7;" % expr, "7"
    if code == "W":
        return "*%s = !*%s;" % (expr, expr), "falsch"
    if code == "C":
        return "*%s = 'q';" % expr, "q"
    if code == "T":
        return "ddp_free_string(%s); set_text(%s, \"neu\");" % (expr, expr), "neu"
    if code == "LZ":
        return "if (%s->len > 0) %s->arr[0] = 99;" % (expr, expr), "[99,5,6,]"
    if code == "LK":
        return "if (%s->len > 0) %s->arr[0] = 0.5;" % (expr, expr), "[0.5,2.5,]"
    if code == "LB":
        return "if (%s->len > 0) %s->arr[0] = 9;" % (expr, expr), "[9,255,]"
    if code == "LW":
        return "if (%s->len > 1) %s->arr[1] = true;" % (expr, expr), "[wahr,wahr,]"
    if code == "LC":
        return "if (%s->len > 0) %s->arr[0] = 0x20AC;" % (expr, expr), "[€,ä,]"
    if code == "LT":
        return "if (%s->len > 1) { ddp_free_string(&%s->arr[1]); set_text(&%s->arr[1], \"c\"); }" % (expr, expr, expr), "[x,c,]"
    if code == "LV":
        return "if (%s->len > 0) *(ddpint *)(DDP_ANY_VALUE_PTR(&%s->arr[0])) = 99;" % (expr, expr), "[99,5,]"
    if code == "S:Punkt":
        return "%s->fx = -1; ddp_free_string(&%s->ft); set_text(&%s->ft, \"geändert\");" % (expr, expr, expr), "-1/geändert"
    return None, None


def c_return(code):
    """(C statements producing the result, DDP-printed form)"""
    if code == "Z":
        return "return 1234567890123LL;", "1234567890123"
    if code == "K":
        return "return 0.5;", "0.5"
    if code == "B":
        return "return 250;", "250"
    if code == "W":
        return "return true;", "wahr"
    if code == "C":
        return "return 0x20AC;", "€"
    if code == "T":
        return 'set_text(ret, "zurück");', "zurück"
    if code == "LZ":
        return "ret->len = 2; ret->cap = 5; ret->arr = ddp_reallocate(NULL, 0, 5 * sizeof(ddpint)); ret->arr[0] = 10; ret->arr[1] = -20;", "[10,-20,]"
    if code in ("LK", "LB", "LW", "LC"):
        ct, v0, v1, shown = {"LK": ("ddpfloat", "0.25", "-1.5", "[0.25,-1.5,]"), "LB": ("ddpbyte", "3", "254", "[3,254,]"),
                             "LW": ("ddpbool", "false", "true", "[falsch,wahr,]"), "LC": ("ddpchar", "'z'", "0x1F600", "[z,😀,]")}[code]
        return ("ret->len = 2; ret->cap = 5; ret->arr = ddp_reallocate(NULL, 0, 5 * sizeof(%s)); ret->arr[0] = %s; ret->arr[1] = %s;" % (ct, v0, v1), shown)
    if code == "LT":
        return ("ret->len = 2; ret->cap = 5; ret->arr = ddp_reallocate(NULL, 0, 5 * sizeof(ddpstring)); set_text(&ret->arr[0], \"r1\"); set_text(&ret->arr[1], \"\");", "[r1,,]")
    if code == "LV":
        return ("ret->len = 2; ret->cap = 5; ret->arr = ddp_reallocate(NULL, 0, 5 * sizeof(ddpany)); for (int i = 0; i < 5; i++) ret->arr[i] = DDP_EMPTY_ANY;", "[_,_,]")
    if code == "S:Punkt":
        return 'ret->fx = 8; set_text(&ret->ft, "aus C");', "8/aus C"
    if code == "N":
        return "", None
    raise ValueError(code)


def ddp_print(code, expr):
    """DDP statements printing a value of the type on one line, in the format of the expectations"""
    if code in ("Z", "K", "B", "W", "C", "T"):
        return "Schreibe %s auf eine Zeile.\n" % expr
    if code in ELEM:
        return 'Schreibe "[".\nFür %s el in %s, mache:\n\tSchreibe el.\n\tSchreibe ",".\nSchreibe "]" auf eine Zeile.\n' % (ELEM[code][1], expr)
    if code == "LT":
        return 'Schreibe "[".\nFür jeden Text el in %s, mache:\n\tSchreibe el.\n\tSchreibe ",".\nSchreibe "]" auf eine Zeile.\n' % expr
    if code == "LV":
        return ('Schreibe "[".\nFür jede Variable el in %s, mache:\n\tWenn el eine Zahl ist, Schreibe (el als Zahl).\n\tSonst Schreibe "_".\n\tSchreibe ",".\n'
                'Schreibe "]" auf eine Zeile.\n' % expr)
    if code == "S:Punkt":
        return 'Schreibe (fx von %s).\nSchreibe "/".\nSchreibe (ft von %s) auf eine Zeile.\n' % (expr, expr)
    if code == "V":
        return "Schreibe (%s als Zahl) auf eine Zeile.\n" % expr
    raise ValueError(code)


DDP_UNCHANGED = {"Z": "41", "K": "2.5", "B": "200", "W": "wahr", "C": "ä", "T": "ab€", "LZ": "[4,5,6,]", "LT": "[x,yz,]", "S:Punkt": "3/p", "V": "77",
                 "LK": "[1.5,2.5,]", "LB": "[1,255,]", "LW": "[wahr,falsch,]", "LC": "[a,ä,]", "LV": "[4,5,]"}


def gen_function(rng, idx):
    codes = list(TYPES)
    n = 1 + rng.below(3)
    params = []
    for k in range(n):
        code = codes[rng.below(len(codes))]
        ref = rng.below(100) < 35 and code != "V"
        params.append(("p%d" % k, code, ref))
    rets = [c for c in codes if c != "V"] + ["N"]
    ret = rets[rng.below(len(rets))]
    # value parameters: which of the further argument values (0 = the standard one through a variable)
    vals = [0 if r or c not in VALUES or rng.below(2) == 0 else 1 + rng.below(len(VALUES[c])) for _, c, r in params]
    return ("ext_fn%d" % idx, params, ret, vals)


def build_case(model, fns):
    """DDP source, C source, expected stdout for a list of function signatures"""
    reqs = []
    fns = [(f[0], f[1], f[2], f[3], f[4] if len(f) > 4 else None) for f in fns]
    for name, params, ret, _vals, _mode in fns:
        reqs.append("abi %s %s %s" % (name, ret, " ".join("%s:%d" % (c, 1 if r else 0) for _, c, r in params)))
    protos = corr.run_lines(model, reqs)
    c_src, ddp_decl, ddp_main, exp = CHEAD, "", "", ""
    for (name, params, ret, vals, mode), proto in zip(fns, protos):
        # the prototype of the model has no parameter names: add them in order
        head, args = proto[:proto.index("(")], proto[proto.index("(") + 1:-1]
        arg_types = [a.strip() for a in args.split(",")] if args != "void" else []
        names = (["ret"] if len(arg_types) == len(params) + 1 else []) + [p[0] for p in params]
        c_src += head + "(" + (", ".join("%s %s" % (t, n) if not t.endswith("*") else "%s%s" % (t, n) for t, n in zip(arg_types, names)) or "void") + ") {\n"
        c_src += '\tprintf("%s:");\n' % name
        line = name + ":"
        after = []
        for (pn, code, ref), vi in zip(params, vals):
            is_ptr = ref or code not in PRIM
            c_src += "\t" + c_print(code, pn, ref) + "\n"
            line += (TYPES[code][4] if vi == 0 else VALUES[code][vi - 1][1]) + ";"
        if mode == "same-variable":
            c_src += '\tprintf("same:%d;", (void *)p0 == (void *)p1);\n'
            line += "same:1;"
        for pn, code, ref in params:
            if ref and not (mode == "same-variable" and pn != "p0"):
                mut, shown = c_mutate(code, pn)
                c_src += "\t" + mut + "\n"
        c_src += '\tprintf("\\n");\n\tfflush(stdout);\n'
        rc, rshown = c_return(ret)
        c_src += ("\t" + rc + "\n" if rc else "") + "}\n\n"
        # DDP declaration
        tys = [TYPES[c][1 if r else 0] for _, c, r in params]
        pnames = [p[0] for p in params]
        decl = "Die Funktion %s" % name
        if len(params) == 1:
            decl += " mit dem Parameter %s vom Typ %s," % (pnames[0], tys[0])
        else:
            decl += " mit den Parametern %s und %s vom Typ %s und %s," % (", ".join(pnames[:-1]), pnames[-1], ", ".join(tys[:-1]), tys[-1])
        decl += " gibt %s zurück,\n" % ("nichts" if ret == "N" else TYPES[ret][2])
        decl += 'ist in "ext.c" definiert\nUnd kann so benutzt werden:\n\t"%s %s"\n\n' % (name, " ".join("<%s>" % n for n in pnames))
        ddp_decl += decl
        if mode == "wrapper":
            # a DDP function takes the value (its own copy) and hands it to the C function as Referenz; its caller passes a
            # local variable and a copy of it: whatever the C function does stays inside the wrapper's copy
            (pn, code, ref), = params
            art = {"Z": "Die", "K": "Die", "B": "Der", "W": "Der", "C": "Der", "T": "Der", "S:Punkt": "Der", "V": "Die"}.get(code, "Die")
            ind = lambda t: "".join("\t" + l + "\n" for l in t.rstrip("\n").split("\n"))
            ddp_decl += ('Die Funktion huelle_%s mit dem Parameter w vom Typ %s, gibt nichts zurück, macht:\n\t%s w.\nUnd kann so benutzt werden:\n\t"huelle_%s <w>"\n\n'
                         % (name, TYPES[code][0], name, name))
            ddp_decl += ('Die Funktion pruefe_%s gibt nichts zurück, macht:\n\t%s %s lokal ist %s.\n\thuelle_%s lokal.\n%s\t%s %s zweite ist lokal.\n\thuelle_%s zweite.\n%s%sUnd kann so benutzt werden:\n\t"pruefe_%s"\n\n'
                         % (name, art, TYPES[code][0], TYPES[code][3], name, ind(ddp_print(code, "lokal")), art, TYPES[code][0], name,
                            ind(ddp_print(code, "zweite")), ind(ddp_print(code, "lokal")), name))
            ddp_main += "pruefe_%s.\n" % name
            exp += line + "\n" + DDP_UNCHANGED[code] + "\n" + line + "\n" + DDP_UNCHANGED[code] + "\n" + DDP_UNCHANGED[code] + "\n"
            continue
        # the call: every argument is a variable, printed afterwards
        body = ""
        args_src = []
        for (pn, code, ref), vi in zip(params, vals):
            var = "%s_%s" % (name, pn)
            if mode == "same-variable" and pn != "p0":
                args_src.append("%s_p0" % name)
                continue
            if vi:
                e = VALUES[code][vi - 1][0]
                args_src.append("(%s)" % e if " " in e and not e.startswith("(") else e)       # an expression (a temporary), not a variable
                continue
            art = {"Z": "Die", "K": "Die", "B": "Der", "W": "Der", "C": "Der", "T": "Der", "S:Punkt": "Der", "V": "Die"}.get(code, "Die")
            lit = TYPES[code][3]
            if code == "W":
                body += "Der Wahrheitswert %s ist wahr.\n" % var
            else:
                body += "%s %s %s ist %s.\n" % (art, TYPES[code][0], var, lit)
            args_src.append(var)
        call = "%s %s" % (name, " ".join(args_src))
        exp += line + "\n"
        if ret == "N":
            body += call + ".\n"
        else:
            art = {"Z": "Die", "K": "Die", "B": "Der", "W": "Der", "C": "Der", "T": "Der", "S:Punkt": "Der"}.get(ret, "Die")
            if ret == "W":
                body += "Der Wahrheitswert %s_r ist wahr, wenn %s.\n" % (name, call)
            else:
                body += "%s %s %s_r ist %s.\n" % (art, TYPES[ret][0], name, call)
            body += ddp_print(ret, "%s_r" % name)
            exp += rshown + "\n"
        for (pn, code, ref), vi in zip(params, vals):
            if vi or (mode == "same-variable" and pn != "p0"):
                continue
            var = "%s_%s" % (name, pn)
            body += ddp_print(code, var)
            exp += (c_mutate(code, pn)[1] if ref else DDP_UNCHANGED[code]) + "\n"
        ddp_main += body
    return HEAD + ddp_decl + GLOBALS + ddp_main, c_src, exp


def check(res, tier):
    sd = seed()
    rng = Rng(sd)
    broken = leanproj.prove(res, "Props.C18", "Props/C18.lean")
    model = build_model()
    pipeline.build_ledger()
    ddp = pipeline.build()
    quick = tier == "quick"
    st = Counter()
    cases = []
    idx = 0
    for _ in range(12 if quick else 150):
        fns = []
        for _ in range(4):
            idx += 1
            fns.append(gen_function(rng, idx))
        src, csrc, exp = build_case(model, fns)
        cases.append((fns, src, csrc, exp, False))
        for name, params, ret, vals in fns:
            st["ret:" + ret] += 1
            st["computed-arguments"] += sum(1 for v in vals if v)
            for _, c, r in params:
                st["param:%s:%s" % (c, "ref" if r else "value")] += 1
    # systematic part: every kind as value parameter with every argument form, as Referenz parameter and as result
    sysfns = []
    for code in TYPES:
        for vi in range(0, 1 + len(VALUES.get(code, []))):
            idx += 1
            sysfns.append(("ext_fn%d" % idx, [("p0", code, False)], "N", [vi]))
        if code != "V":
            idx += 1
            sysfns.append(("ext_fn%d" % idx, [("p0", code, True)], "N", [0]))
            idx += 1
            sysfns.append(("ext_fn%d" % idx, [("p0", "Z", False)], code, [0]))
            if code not in PRIM:
                idx += 1
                sysfns.append(("ext_fn%d" % idx, [("p0", code, True)], "N", [0], "wrapper"))
            # the same variable behind two Referenz parameters: both pointers are the caller's storage
            idx += 1
            sysfns.append(("ext_fn%d" % idx, [("p0", code, True), ("p1", code, True)], "N", [0, 0], "same-variable"))
    for i in range(0, len(sysfns), 12):
        fns = sysfns[i:i + 12]
        src, csrc, exp = build_case(model, fns)
        cases.append((fns, src, csrc, exp, True))
    # results in every legal representation of the same value: an empty Text / empty list that owns a block (capacity 1 / a
    # capacity without elements), used where the runtime may take the operand's buffer over (concatenation)
    EMPTY_C = (CHEAD + 'void leer_text(ddpstring *ret) { ret->str = DDP_ALLOCATE(char, 1); ret->str[0] = 0; ret->cap = 1; }\n'
               'void leere_liste(ddpintlist *ret) { ret->arr = DDP_ALLOCATE(ddpint, 4); ret->len = 0; ret->cap = 4; }\n')
    EMPTY_DDP = (HEAD + 'Die Funktion leer_text gibt einen Text zurück,\nist in "ext.c" definiert\nUnd kann so benutzt werden:\n\t"der leere Text"\n\n'
                 'Die Funktion leere_liste gibt eine Zahlen Liste zurück,\nist in "ext.c" definiert\nUnd kann so benutzt werden:\n\t"die leere Liste"\n\n'
                 'Der Text s1 ist (der leere Text) verkettet mit "x".\nSchreibe s1 auf eine Zeile.\n'
                 "Der Text s2 ist (der leere Text) verkettet mit 'y'.\nSchreibe s2 auf eine Zeile.\n"
                 "Der Text s3 ist 'z' verkettet mit (der leere Text).\nSchreibe s3 auf eine Zeile.\n"
                 'Der Text s4 ist "w" verkettet mit (der leere Text).\nSchreibe s4 auf eine Zeile.\n'
                 'Der Text s5 ist (der leere Text) verkettet mit (der leere Text).\nSchreibe (die Länge von s5) auf eine Zeile.\n'
                 'Der Text s6 ist der leere Text.\nSpeichere s6 verkettet mit "v" in s6.\nSchreibe s6 auf eine Zeile.\n'
                 'Die Zahlen Liste l1 ist (die leere Liste) verkettet mit 7.\nSchreibe (die Länge von l1) auf eine Zeile.\n'
                 'Die Zahlen Liste l2 ist 7 verkettet mit (die leere Liste).\nSchreibe (die Länge von l2) auf eine Zeile.\n'
                 'Die Zahlen Liste l3 ist (die leere Liste) verkettet mit (die leere Liste).\nSchreibe (die Länge von l3) auf eine Zeile.\n'
                 'Die Zahlen Liste l4 ist (eine Liste, die aus 1, 2 besteht) verkettet mit (die leere Liste).\nSchreibe (die Länge von l4) auf eine Zeile.\n')
    cases.append(([("leer_text", [], "T", []), ("leere_liste", [], "LZ", [])], EMPTY_DDP, EMPTY_C, "x\ny\nz\nw\n0\nv\n1\n1\n0\n2\n", True))
    cfgs = [pipeline.Config(opt=1, ledger=True), pipeline.Config(opt=1, asan=True)] if quick else \
        [pipeline.Config(opt=0, ledger=True), pipeline.Config(opt=2, ledger=True), pipeline.Config(opt=1, asan=True)]
    sys_cfgs = [pipeline.Config(opt=0, ledger=True), pipeline.Config(opt=2, ledger=True), pipeline.Config(opt=1, asan=True)]
    for fns, src, csrc, exp, systematic in cases:
        for cfg in (sys_cfgs if systematic else cfgs):
            r = pipeline.compile_run(ddp, {"main.ddp": src, "ext.c": csrc}, cfg, extra_c=["ext.c"], timeout=20)
            res.evaluations += 1
            st["%s:%s" % (cfg.name(), r.cls)] += 1
            res.nontrivial(str([(f[0], tuple(f[1]), f[2]) for f in fns])[:200])
            why = None
            if r.cls != "ok":
                why = "the program with foreign functions ended as %s: %s" % (r.cls, (r.stderr or r.compile_out)[-300:])
            elif r.stdout != exp:
                got, want = r.stdout.split("\n"), exp.split("\n")
                first = next((i for i, (a, b) in enumerate(zip(got + [""], want + [""])) if a != b), -1)
                why = "what the C function received / returned differs from the published representation: line %d is %r, expected %r" % (
                    first, got[first] if first < len(got) else None, want[first] if first < len(want) else None)
            elif cfg.ledger:
                vs = [l for l in (r.ledger or "").split("\n") if l.startswith("V ")]
                if not vs or vs[-1] != "V ok 0":
                    why = "ownership across the call: heap ledger verdict %r (each non-Referenz argument released exactly once by the caller, the result owned by the caller)" % (vs[-1] if vs else "missing")
            if why and len(res.violations) < 5:
                res.violation("ffi:%s:%s" % (cfg.name(), hash(src) % 10 ** 8), why,
                              {"files": {"main.ddp": src, "ext.c": csrc}, "program": src, "expected_stdout": exp, "config": cfg.name(), "implementation": r.as_dict(),
                               "signatures": [[f[0], [list(p) for p in f[1]], f[2]] for f in fns]})
    # calls of foreign functions inside the arguments of a call of a foreign function: the caller's copies of the outer call's
    # earlier value arguments stay alive (and their own) while the inner call makes and releases its copies — the nested form
    # against the same calls made one after the other through variables
    for code in [c for c in TYPES if c not in PRIM and c != "V"]:
        idx += 2
        inner, outer = "ext_fn%d" % (idx - 1), "ext_fn%d" % idx
        nsrc, ncsrc, _ = build_case(model, [(inner, [("p0", code, False)], code, [0]), (outer, [("p0", code, False), ("p1", code, False)], "N", [0, 0])])
        prefix = nsrc[:nsrc.index(GLOBALS) + len(GLOBALS)]
        art = {"T": "Der", "S:Punkt": "Der"}.get(code, "Die")
        tn, lit = TYPES[code][0], TYPES[code][3]
        decls = "%s %s na ist %s.\n%s %s nb ist %s.\n" % (art, tn, lit, art, tn, lit)
        nested = decls + "%s na (%s nb).\n%s (%s na) (%s nb).\n%s (%s na) nb.\n" % (outer, inner, outer, inner, inner, outer, inner)
        seq = decls + ("%s %s z1 ist %s nb.\n%s na z1.\n%s %s z2 ist %s na.\n%s %s z3 ist %s nb.\n%s z2 z3.\n%s %s z4 ist %s na.\n%s z4 nb.\n"
                       % (art, tn, inner, outer, art, tn, inner, art, tn, inner, outer, art, tn, inner, outer))
        for cfg in sys_cfgs:
            rn = pipeline.compile_run(ddp, {"main.ddp": prefix + nested, "ext.c": ncsrc}, cfg, extra_c=["ext.c"], timeout=20)
            rs = pipeline.compile_run(ddp, {"main.ddp": prefix + seq, "ext.c": ncsrc}, cfg, extra_c=["ext.c"], timeout=20)
            res.evaluations += 2
            st["nested:%s:%s" % (cfg.name(), rn.cls)] += 1
            if rs.cls != "ok":
                continue        # the sequential form is what the other cases are about
            res.nontrivial("nested-foreign-calls:%s:%s" % (code, cfg.name()))
            why = None
            if rn.cls != "ok":
                why = "ended as %s: %s" % (rn.cls, (rn.stderr or rn.compile_out)[-300:])
            elif rn.stdout != rs.stdout:
                why = "the C functions see other values than with the same calls made one after the other: %r against %r" % (rn.stdout[-200:], rs.stdout[-200:])
            elif cfg.ledger:
                vs = [l for l in (rn.ledger or "").split("\n") if l.startswith("V ")]
                if not vs or vs[-1] != "V ok 0":
                    why = "heap ledger verdict %r" % (vs[-1] if vs else "missing")
            if why and len(res.violations) < 6:
                res.violation("ffi-nested:%s:%s" % (code, cfg.name()), "a foreign call inside the arguments of a foreign call (%s, %s): %s" % (TYPES[code][0], cfg.name(), why),
                              {"files": {"main.ddp": prefix + nested, "ext.c": ncsrc}, "program": prefix + nested, "sequential_program": prefix + seq,
                               "config": cfg.name(), "implementation": rn.as_dict(), "sequential": rs.as_dict()})
    evalcorr.report_broken(res, broken)
    res.extra.update({"programs": len(cases), "functions": idx, "configs": [c.name() for c in cfgs], "statistics": dict(sorted(st.items()))})
    res.rule = ("random foreign signatures (1-3 parameters of 14 kinds incl. lists of every primitive element type, value or Referenz, 14 result kinds "
                "incl. none; value arguments also as computed expressions: negated and compared Wahrheitswerte, boundary numbers, empty texts and lists): the C prototype comes "
                "from the Lean model, the C body uses the published headers only; what the callee prints (received representation), the "
                "result and every argument variable after the call (unchanged for value parameters, changed for Referenz) are compared; "
                "the heap ledger must close with nothing live and no contract violation; AddressSanitizer run")
    res.assumptions += ["lists of Kombinationen / nested Kombinationen and Variable results are not generated; the C compiler's struct layout is the platform ABI"]

"""C02 — every program the front end accepts is compiled completely."""
from .. import corr, leanproj, pipeline, optable
from ..common import Rng, seed


def classify_known(op, classes, tname):
    """fingerprints of the recorded findings (known_findings.json)"""
    if "Reihe" in classes or tname.startswith("Reihe"):
        return "definition-of-list-type"
    if op == "BIN_CONCAT" and "Name" in classes:
        return "concat-on-definition-of-text"
    if "Liste Liste" in tname or (tname.endswith("Liste") and tname.startswith("Reihe")):
        return "list-of-lists"
    return None


def check(res, tier):
    rng = Rng(seed())
    broken = leanproj.prove(res, "Props.C02", "Props/C02.lean")
    harness = corr.build_harness()
    model = corr.build_model()
    ddp = pipeline.build()
    cells = list(optable.cells())
    # ---- phase 1: the checker's verdict and result type for every cell, against the model
    reqs = [{"files": {"main.ddp": optable.probe_program(c[1] if c[0] != "CAST" else (c[1][0],), c[2])}, "main": "main.ddp",
             "dump": ["vartypes"]} for c in cells]
    outs = corr.parse_many(harness, reqs)
    mlines, midx = [], []
    for k, c in enumerate(cells):
        if c[0] != "CAST":
            mlines.append("optab %s %s" % (c[0], " ".join(optable.TERM[x] for x in c[1])))
            midx.append(k)
    mans = dict(zip(midx, corr.run_lines(model, mlines)))
    res.evaluations = len(cells)
    accepted = []
    mism = 0
    for k, (c, o) in enumerate(zip(cells, outs)):
        res.nontrivial("%s%s" % (c[0], c[1]))
        if o["result"] != "ok":
            res.violation("crash:%s:%s" % (c[0], c[1]), "front end does not return on an operator cell",
                          {"cell": [c[0], list(c[1])], "program": reqs[k]["files"]["main.ddp"], "implementation": o})
            continue
        ok = not o["faulty"]
        tname = None
        if ok:
            tname = [x for x in o["extra"]["vartypes"] if x.startswith("r|")][0].split("|")[2]
            accepted.append((c, tname))
        if k in mans:
            f = dict(x.split("=", 1) for x in mans[k].split())
            madm = f["admits"]
            want_name = None if madm == "none" else optable.term_to_name(madm)
            if (madm != "none") != ok or (ok and want_name != tname):
                mism += 1
                if mism <= 6:
                    res.violation("corr:admits:%s:%s" % (c[0], c[1]),
                                  "model of the type checker and implementation disagree on an operator cell (implementation: %s, model: %s)" % (
                                      tname if ok else "rejected", want_name or "rejected"),
                                  {"cell": [c[0], list(c[1])], "program": reqs[k]["files"]["main.ddp"], "implementation": o, "model": mans[k],
                                   "correspondence": "parser.Parse verdict/result type vs DDP.Checker.admits"}, has_input=False)
    # ---- phase 2: every accepted cell in every value context through the real code generator
    ctx_quick = ("init", "variable", "argument")
    jobs, meta = [], []
    for c, tname in accepted:
        cls = c[1] if c[0] != "CAST" else (c[1][0],)
        for ctx, src in optable.context_programs(cls, c[2], tname).items():
            if tier == "quick" and ctx not in ctx_quick and not rng.chance(1, 6):
                continue
            jobs.append(({"main.ddp": src}, pipeline.Config(opt=0), {"compile_only": True}))
            meta.append((c, tname, ctx, src))
    outs2 = pipeline.farm(ddp, jobs)
    res.evaluations += len(jobs)
    failed_cells = {}
    for m, r in zip(meta, outs2):
        c, tname, ctx, src = m
        if r.cls != "ok":
            failed_cells.setdefault((c[0], c[1], tname), []).append((ctx, r.cls, src, r))
    lowmis = 0
    for (op, classes, tname), lst in sorted(failed_cells.items(), key=str):
        ctx, cls, src, r = lst[0]
        fp = classify_known(op, classes, tname) or "cell:%s:%s" % (op, classes)
        res.violation(fp, "accepted by the front end but not compiled (%s in context %s): %s %s, checker type %s" % (
            cls, "/".join(x[0] for x in lst), op, list(classes), tname),
            {"cell": [op, list(classes)], "checker_type": tname, "contexts": [x[0] for x in lst], "program": src,
             "implementation": r.as_dict(), "note": "replay: kddp kompiliere main.ddp"})
    # model of the lowering table against the implementation on the accepted cells
    for k, (c, o) in enumerate(zip(cells, outs)):
        if k in mans and o["result"] == "ok" and not o["faulty"]:
            f = dict(x.split("=", 1) for x in mans[k].split())
            tname = [x for x in o["extra"]["vartypes"] if x.startswith("r|")][0].split("|")[2]
            impl_ok = (c[0], c[1], tname) not in failed_cells
            model_ok = f["lower"] != "none" and f["lower"] == f["tauir"]
            if impl_ok != model_ok and not classify_known(c[0], c[1], tname):
                lowmis += 1
                if lowmis <= 6:
                    res.violation("corr:lower:%s:%s" % (c[0], c[1]),
                                  "model of the lowering table and code generator disagree (implementation compiles: %s, model: %s)" % (impl_ok, mans[k]),
                                  {"cell": [c[0], list(c[1])], "model": mans[k], "correspondence": "kddp compile outcome vs DDP.Lowering.lowerTy/toIr"},
                                  has_input=False)
    # ---- programs combining features (routed here from the other generators): a small fixed set
    combos = {
        "nested-list": 'Wir nennen eine Zahlen Liste auch eine Reihung.\nDie Reihung a ist eine Liste, die aus 1, 2 besteht.\n'
                       'Die Reihung Liste m ist eine Liste, die aus a, a besteht.\n',
    }
    for name, src in combos.items():
        r = pipeline.compile_run(ddp, {"main.ddp": src}, pipeline.Config(opt=0), compile_only=True)
        res.evaluations += 1
        if r.cls != "ok":
            res.violation("list-of-lists" if name == "nested-list" else "combo:" + name,
                          "accepted by the front end but not compiled (%s): %s" % (r.cls, name),
                          {"program": src, "implementation": r.as_dict()})
    res.extra.update({"cells": len(cells), "accepted_cells": len(accepted), "context_programs": len(jobs),
                      "failed_cells": len(failed_cells), "disagreements": mism + lowmis})
    res.exhaustive = True
    res.rule = ("every unary, binary, ternary operator and every cast applied to every tuple of %d operand classes (primitives, lists of "
                "each, Kombination and its list, Variable, type alias, three type definitions): parsed in-process (verdict + result type); "
                "every accepted cell compiled by the real code generator + LLVM in the value contexts initialiser / Variable / assignment / "
                "argument / return / list element / condition (quick: three contexts + sampled rest). distinct by cell") % len(optable.ORDER)
    for k in (3, len(cells) // 3, len(cells) - 5):
        res.sample({"cell": [cells[k][0], list(cells[k][1])], "expression": cells[k][2], "accepted": not outs[k]["faulty"], "model": mans.get(k)})
    res.assumptions += ["casts and the value contexts are decided by the exhaustive cell enumeration only (not modelled in Lean)",
                        "multi-feature programs (generics + overloads + imports) are sampled by the other properties' generators"]
    for bk in broken:
        res.violation("obligation:" + bk["name"], "proof obligation no longer checks: %s" % bk["name"],
                      {"theorem": bk["name"], "detail": bk["detail"], "kind": "broken-obligation"}, has_input=False)

"""C02 — every program the front end accepts is compiled completely."""
from ..evalcorr import files_of as evalcorr_files
from .. import corr, leanproj, pipeline, optable
from ..common import Rng, seed


def classify_known(op, classes, tname):
    """fingerprints of the recorded findings (known_findings.json)"""
    if "Reihe" in classes or tname.startswith("Reihe"):
        return "definition-of-list-type"
    if op == "BIN_CONCAT" and "Name" in classes:
        return "concat-on-definition-of-text"
    if "Liste Liste" in tname or (tname.endswith("Liste") and tname.startswith("Reihe")):
        return "list-of-lists"
    return None


def check(res, tier):
    rng = Rng(seed())
    broken = leanproj.prove(res, "Props.C02", "Props/C02.lean")
    harness = corr.build_harness()
    model = corr.build_model()
    ddp = pipeline.build()
    cells = list(optable.cells())
    # ---- phase 1: the checker's verdict and result type for every cell, against the model
    reqs = [{"files": {"main.ddp": optable.probe_program(c[1] if c[0] != "CAST" else (c[1][0],), c[2])}, "main": "main.ddp",
             "dump": ["vartypes"]} for c in cells]
    outs = corr.parse_many(harness, reqs)
    mlines, midx = [], []
    for k, c in enumerate(cells):
        if c[0] != "CAST":
            mlines.append("optab %s %s" % (c[0], " ".join(optable.TERM[x] for x in c[1])))
            midx.append(k)
    mans = dict(zip(midx, corr.run_lines(model, mlines)))
    res.evaluations = len(cells)
    accepted = []
    mism = 0
    for k, (c, o) in enumerate(zip(cells, outs)):
        res.nontrivial("%s%s" % (c[0], c[1]))
        if o["result"] != "ok":
            res.violation("crash:%s:%s" % (c[0], c[1]), "front end does not return on an operator cell",
                          {"cell": [c[0], list(c[1])], "program": reqs[k]["files"]["main.ddp"], "implementation": o})
            continue
        ok = not o["faulty"]
        tname = None
        if ok:
            tname = [x for x in o["extra"]["vartypes"] if x.startswith("r|")][0].split("|")[2]
            accepted.append((c, tname))
        if k in mans:
            f = dict(x.split("=", 1) for x in mans[k].split())
            madm = f["admits"]
            want_name = None if madm == "none" else optable.term_to_name(madm)
            if (madm != "none") != ok or (ok and want_name != tname):
                mism += 1
                if mism <= 6:
                    res.violation("corr:admits:%s:%s" % (c[0], c[1]),
                                  "model of the type checker and implementation disagree on an operator cell (implementation: %s, model: %s)" % (
                                      tname if ok else "rejected", want_name or "rejected"),
                                  {"cell": [c[0], list(c[1])], "program": reqs[k]["files"]["main.ddp"], "implementation": o, "model": mans[k],
                                   "correspondence": "parser.Parse verdict/result type vs DDP.Checker.admits"}, has_input=False)
    # ---- phase 2: every accepted cell in every value context through the real code generator
    ctx_quick = ("init", "variable", "argument")
    jobs, meta = [], []
    for c, tname in accepted:
        cls = c[1] if c[0] != "CAST" else (c[1][0],)
        for ctx, src in optable.context_programs(cls, c[2], tname).items():
            if tier == "quick" and ctx not in ctx_quick and not rng.chance(1, 6):
                continue
            jobs.append(({"main.ddp": src}, pipeline.Config(opt=0), {"compile_only": True}))
            meta.append((c, tname, ctx, src))
    outs2 = pipeline.farm(ddp, jobs)
    res.evaluations += len(jobs)
    failed_cells = {}
    for m, r in zip(meta, outs2):
        c, tname, ctx, src = m
        if r.cls != "ok":
            failed_cells.setdefault((c[0], c[1], tname), []).append((ctx, r.cls, src, r))
    lowmis = 0
    for (op, classes, tname), lst in sorted(failed_cells.items(), key=str):
        ctx, cls, src, r = lst[0]
        fp = classify_known(op, classes, tname) or "cell:%s:%s" % (op, classes)
        res.violation(fp, "accepted by the front end but not compiled (%s in context %s): %s %s, checker type %s" % (
            cls, "/".join(x[0] for x in lst), op, list(classes), tname),
            {"cell": [op, list(classes)], "checker_type": tname, "contexts": [x[0] for x in lst], "program": src,
             "implementation": r.as_dict(), "note": "replay: kddp kompiliere main.ddp"})
    # model of the lowering table against the implementation on the accepted cells
    for k, (c, o) in enumerate(zip(cells, outs)):
        if k in mans and o["result"] == "ok" and not o["faulty"]:
            f = dict(x.split("=", 1) for x in mans[k].split())
            tname = [x for x in o["extra"]["vartypes"] if x.startswith("r|")][0].split("|")[2]
            impl_ok = (c[0], c[1], tname) not in failed_cells
            model_ok = f["lower"] != "none" and f["lower"] == f["tauir"]
            if impl_ok != model_ok and not classify_known(c[0], c[1], tname):
                lowmis += 1
                if lowmis <= 6:
                    res.violation("corr:lower:%s:%s" % (c[0], c[1]),
                                  "model of the lowering table and code generator disagree (implementation compiles: %s, model: %s)" % (impl_ok, mans[k]),
                                  {"cell": [c[0], list(c[1])], "model": mans[k], "correspondence": "kddp compile outcome vs DDP.Lowering.lowerTy/toIr"},
                                  has_input=False)
    # ---- phase 3: operands that are not simple values. Every operator cell of the core language again, each operand in turn
    # replaced by an expression of the same type that compiles to several basic blocks (list indexing with its bounds check,
    # a conditional expression, a short-circuit connective, a cast out of a Variable), and random programs of the evaluator
    # correspondence: whatever the front end accepts, the code generator has to compile
    from .. import opmatrix, gen
    from .C01 import random_programs
    composite = {
        "Z": ["((eine Liste, die aus %s, 6 besteht) an der Stelle 1)", "(%s, falls w_wahr, ansonsten 6)", "((%s als Variable) als Zahl)"],
        "K": ["((eine Liste, die aus %s, 0,5 besteht) an der Stelle 1)", "(%s, falls w_falsch, ansonsten 0,5)"],
        "B": ["((eine Liste, die aus %s besteht) an der Stelle 1)", "(%s, falls w_wahr, ansonsten (1 als Byte))"],
        "W": ["(%s und w_wahr)", "(%s oder w_falsch)", "((eine Liste, die aus %s besteht) an der Stelle 1)", "(%s, falls w_wahr, ansonsten falsch)"],
        "T": ["(%s, falls w_wahr, ansonsten \"b\")", "((eine Liste, die aus %s, \"z\" besteht) an der Stelle 1)", "((%s als Variable) als Text)"],
        "C": ["(%s, falls w_wahr, ansonsten 'b')", "((eine Liste, die aus %s besteht) an der Stelle 1)"],
    }
    decl_of = {"Z": "Die Zahl", "K": "Die Kommazahl", "B": "Der Byte", "W": "Der Wahrheitswert", "T": "Der Text", "C": "Der Buchstabe"}
    stmts = []
    for label, ts, build, rt in opmatrix.cells():
        if label.startswith("init:") or not all(isinstance(t, str) and t in composite for t in ts):
            continue
        ops = [opmatrix.lit(t, opmatrix.pool(t)[1 % len(opmatrix.pool(t))]) for t in ts]
        plain = [gen.pp_expr(o, False, gen.P_PRIMARY) for o in ops]
        for pos, t in enumerate(ts):
            forms = composite[t]
            for fi, form in enumerate(forms):
                if tier == "quick" and (len(stmts) + fi) % 3:
                    continue
                marks = ["@@%d@@" % i for i in range(len(ts))]
                try:
                    shape = gen.pp_expr(build([("var", m) for m in marks]), False)
                except (ValueError, KeyError, TypeError):
                    continue
                e = shape
                for i, m in enumerate(marks):
                    e = e.replace(m, (form % plain[i]) if i == pos else plain[i])
                if isinstance(rt, str) and rt in decl_of:
                    stmts.append((label, ts, pos, "%s r_%d ist %s.\n" % (decl_of[rt], len(stmts), ("wahr, wenn " + e) if rt == "W" and False else e)))
    HEADV = 'Binde "Duden/Ausgabe" ein.\nDer Wahrheitswert w_wahr ist wahr.\nDer Wahrheitswert w_falsch ist falsch.\n'
    per = 12
    cjobs, cmeta = [], []
    for i in range(0, len(stmts), per):
        grp = stmts[i:i + per]
        cjobs.append(({"main.ddp": HEADV + "".join(x[3] for x in grp)}, pipeline.Config(opt=0), {"compile_only": True}))
        cmeta.append(grp)
    rprogs = random_programs(seed() + 2002, 60 if tier == "quick" else 600)
    for pgm in rprogs:
        cjobs.append((evalcorr_files(pgm), pipeline.Config(opt=0), {"compile_only": True}))
        cmeta.append(None)
    # ill-formed variants too: the front end should refuse them, but whatever it lets through has to be compiled, not crash the back end
    from .. import mutate
    nmut = 0
    for pgm in rprogs[:12 if tier == "quick" else 120]:
        src0 = gen.pp_program(pgm)
        for kind, msrc in mutate.text_mutants(src0, rng) + mutate.text_wellformed(src0):
            cjobs.append(({"main.ddp": msrc}, pipeline.Config(opt=0), {"compile_only": True}))
            cmeta.append(None)
            nmut += 1
        for kind, mp in mutate.ast_mutants(pgm, rng, 4):
            try:
                cjobs.append(({"main.ddp": gen.pp_program(mp)}, pipeline.Config(opt=0), {"compile_only": True}))
                cmeta.append(None)
                nmut += 1
            except (ValueError, KeyError, TypeError):
                pass
    # positions where the type checker admits more than one numeric type: the code generator has to convert
    NUM = {"Z": ("Die Zahl", "Zahl", "5"), "K": ("Die Kommazahl", "Kommazahl", "2,5"), "B": ("Der Byte", "Byte", "(3 als Byte)")}
    pos_progs = []
    for a in NUM:
        for b in NUM:
            A, B = NUM[a], NUM[b]
            vb = "%s quelle ist %s.\n" % (B[0], B[2])
            pos_progs += [
                ("initialiser %s<-%s" % (a, b), vb + "%s ziel ist quelle.\n" % A[0]),
                ("assignment %s<-%s" % (a, b), vb + "%s ziel ist %s.\nSpeichere quelle in ziel.\n" % (A[0], A[2])),
                ("list element assignment %s<-%s" % (a, b), vb + "Die %s Liste zl ist eine Liste, die aus %s besteht.\nSpeichere quelle in zl an der Stelle 1.\n" % (
                    {"Z": "Zahlen", "K": "Kommazahlen", "B": "Byte"}[a], A[2])),
                ("field default %s<-%s" % (a, b), 'Wir nennen die Kombination aus\n\t%s %s feld mit Standardwert %s,\neinen Halter, und erstellen sie so:\n\t"ein Halter"\nDer Halter h ist ein Halter.\n' % (
                    {"Die": "der", "Der": "dem"}[A[0].split()[0]], A[1], B[2])),
                ("compound plus %s,%s" % (a, b), vb + "%s ziel ist %s.\nErhöhe ziel um quelle.\nVerringere ziel um quelle.\nVervielfache ziel um quelle.\nTeile ziel durch quelle.\n" % (A[0], A[2])),
                ("for bound %s,%s" % (a, b), vb + "Für %s %s i von 1 bis quelle, mache:\n\tSchreibe i.\n" % ({"Die": "jede", "Der": "jeden"}[A[0].split()[0]], A[1])),
                ("for step %s,%s" % (a, b), vb + "Für %s %s i von 1 bis 9 mit Schrittgröße quelle, mache:\n\tSchreibe i.\n" % ({"Die": "jede", "Der": "jeden"}[A[0].split()[0]], A[1])),
                ("for start %s,%s" % (a, b), vb + "Für %s %s i von quelle bis 9, mache:\n\tSchreibe i.\n" % ({"Die": "jede", "Der": "jeden"}[A[0].split()[0]], A[1])),
            ]
            # a field whose default has one numeric type, given explicitly with a value of another one (and left at its default)
            for c in NUM:
                pos_progs.append(("field given %s<-%s, default written as %s" % (a, b, c), vb +
                                  'Wir nennen die Kombination aus\n\t%s %s feld mit Standardwert %s,\n\tder Zahl rest mit Standardwert 0,\neinen Halter, und erstellen sie so:\n'
                                  '\t"ein Halter mit <feld>" oder\n\t"ein Halter mit <feld> und <rest>" oder\n\t"ein leerer Halter"\n'
                                  'Der Halter h ist ein Halter mit quelle.\nDer Halter g ist ein leerer Halter.\nDer Halter f ist ein Halter mit %s und 2.\nSchreibe (feld von h).\n' % (
                                      {"Die": "der", "Der": "dem"}[A[0].split()[0]], A[1], NUM[c][2], B[2])))
    for b in NUM:
        B = NUM[b]
        vb = "%s quelle ist %s.\nDie Zahlen Liste zl ist eine Liste, die aus 1, 2, 3, 4, 5, 6 besteht.\nDer Text tx ist \"abcdef\".\n" % (B[0], B[2])
        pos_progs += [
            ("repeat count " + b, vb + "Wiederhole:\n\tSchreibe 1.\nquelle Mal.\n"),
            ("list repetition count " + b, vb + "Die Zahlen Liste rl ist quelle Mal 7.\n"),
            ("list index " + b, vb + "Schreibe (zl an der Stelle quelle).\nSpeichere 9 in zl an der Stelle quelle.\n"),
            ("text index " + b, vb + "Schreibe (tx an der Stelle quelle).\nSpeichere 'z' in tx an der Stelle quelle.\n"),
            ("slice bounds " + b, vb + "Schreibe (die Länge von (zl im Bereich von quelle bis 6)).\nSchreibe (tx im Bereich von 1 bis quelle).\nSchreibe (tx bis zum quelle. Element).\nSchreibe (tx ab dem quelle. Element).\n"),
            ("shift amount " + b, vb + "Schreibe (8 um quelle Bit nach Links verschoben).\nSchreibe (8 um quelle Bit nach Rechts verschoben).\n"),
            ("power and root " + b, vb + "Schreibe (2 hoch quelle).\nSchreibe (die quelle. Wurzel von 64).\nSchreibe (der Logarithmus von 8 zur Basis quelle).\n"),
        ]
    npos = len(pos_progs)
    for label, body in pos_progs:
        cjobs.append(({"main.ddp": 'Binde "Duden/Ausgabe" ein.\n' + body}, pipeline.Config(opt=0), {"compile_only": True}))
        cmeta.append([(label, (), 0, body)])
    couts = pipeline.farm(ddp, cjobs)
    res.evaluations += len(cjobs)
    ncomp = 0
    st_front = 0
    for (files, _, _), grp, r in zip(cjobs, cmeta, couts):
        if r.cls == "compile-rejected" and "Fehlerhafter Quellcode" in r.compile_out:
            st_front += 1       # the front end refused (an ill-typed composite form or a generated program it does not accept)
            continue
        if r.cls in ("compile-internal-error", "compile-rejected"):
            ncomp += 1
            if ncomp <= 4:
                res.violation("composite:%s" % (hash(files["main.ddp"]) % 10 ** 9),
                              "accepted by the front end but not compiled (%s)%s" % (r.cls, "" if grp is None else ": operator cells " + ", ".join(sorted({g[0] for g in grp}))),
                              {"program": files["main.ddp"], "files": files, "implementation": r.as_dict(), "note": "replay: kddp kompiliere main.ddp -O 0"})
    res.extra.update({"composite_operand_statements": len(stmts), "random_programs_compiled": len(rprogs), "ill_formed_variants_compiled": nmut, "numeric_position_programs": npos, "refused_by_the_front_end": st_front})
    # ---- programs combining features (routed here from the other generators): a small fixed set
    combos = {
        "nested-list": 'Wir nennen eine Zahlen Liste auch eine Reihung.\nDie Reihung a ist eine Liste, die aus 1, 2 besteht.\n'
                       'Die Reihung Liste m ist eine Liste, die aus a, a besteht.\n',
    }
    for name, src in combos.items():
        r = pipeline.compile_run(ddp, {"main.ddp": src}, pipeline.Config(opt=0), compile_only=True)
        res.evaluations += 1
        if r.cls != "ok":
            res.violation("list-of-lists" if name == "nested-list" else "combo:" + name,
                          "accepted by the front end but not compiled (%s): %s" % (r.cls, name),
                          {"program": src, "implementation": r.as_dict()})
    # generic declarations of one module instantiated with types their module cannot see (declared by the importer, or by a
    # sibling module imported before / after): accepted by the front end implies compiled, with modules linked and kept apart
    xjobs, xmeta = [], []
    PAAR = ('Wir nennen die generische öffentliche Kombination aus\n\tdem öffentlichen T erstes,\n\tdem öffentlichen T zweites,\nein Paar, und erstellen sie so:\n'
            '\t"Paar(<erstes>, <zweites>)"\n\nDie öffentliche generische Funktion Dasselbe mit dem Parameter w vom Typ T, gibt ein T zurück, macht:\n\tGib w zurück.\n'
            'Und kann so benutzt werden:\n\t"dasselbe <w>"\n')
    ORTE = ('Wir nennen die öffentliche Kombination aus\n\tder öffentlichen Zahl x mit Standardwert 0,\n\tder öffentlichen Zahl y mit Standardwert 0,\neinen Ort, und erstellen sie so:\n'
            '\t"Ort(<x>, <y>)"\n')
    PUNKT = 'Wir nennen die Kombination aus\n\tder Zahl x mit Standardwert 0,\n\tder Zahl y mit Standardwert 0,\neinen Punkt, und erstellen sie so:\n\t"Punkt(<x>, <y>)"\n'
    XT = {"local-struct": ("Punkt", "Der", "(Punkt(1, 2))", PUNKT, ['Binde "paar" ein.']),
          "sibling-after": ("Ort", "Der", "(Ort(1, 2))", "", ['Binde "paar" ein.', 'Binde "orte" ein.']),
          "sibling-before": ("Ort", "Der", "(Ort(1, 2))", "", ['Binde "orte" ein.', 'Binde "paar" ein.']),
          "local-definition": ("Hausnummer", "Die", "(1 als Hausnummer)", "Wir definieren eine Hausnummer als eine Zahl.\n", ['Binde "paar" ein.']),
          "primitive": ("Zahl", "Die", "1", "", ['Binde "paar" ein.']), "text": ("Text", "Der", '"a"', "", ['Binde "paar" ein.'])}
    for xl, (tn, art, val, decl, imports) in XT.items():
        uses = {"declare": "Das %s-Paar p ist Paar(%s, %s).\n" % (tn, val, val),
                "field": "Das %s-Paar p ist Paar(%s, %s).\n%s %s e ist erstes von p.\n" % (tn, val, val, art, tn),
                "generic-function": "%s %s d ist dasselbe %s.\n" % (art, tn, val),
                "generic-function-of-instance": "Das %s-Paar p ist Paar(%s, %s).\nDas %s-Paar q ist dasselbe p.\n" % (tn, val, val, tn),
                "list-of-instances": "Das %s-Paar p ist Paar(%s, %s).\nDie %s-Paar Liste l ist eine Liste, die aus p, p besteht.\n" % (tn, val, val, tn),
                "boxed": "Das %s-Paar p ist Paar(%s, %s).\nDie Variable v ist p als Variable.\n" % (tn, val, val)}
        for ul, body in uses.items():
            for sep in (False, True):
                files = {"paar.ddp": PAAR, "orte.ddp": ORTE, "main.ddp": 'Binde "Duden/Ausgabe" ein.\n' + "\n".join(imports) + "\n" + decl + body}
                xjobs.append((files, pipeline.Config(opt=0, module_link=not sep), {"compile_only": True}))
                xmeta.append("%s:%s:%s" % (xl, ul, "separate" if sep else "linked"))
    xouts = pipeline.farm(ddp, xjobs)
    res.evaluations += len(xjobs)
    xrefused = 0
    for (files, _, _), lab, r in zip(xjobs, xmeta, xouts):
        if r.cls == "compile-rejected" and "Fehlerhafter Quellcode" in r.compile_out:
            xrefused += 1
            continue
        res.nontrivial("cross-module-generic:" + lab)
        if r.cls != "ok":
            res.violation("cross-module-generic:" + lab, "accepted by the front end but not compiled (%s): a generic declaration of an imported module instantiated with %s" % (r.cls, lab),
                          {"files": files, "implementation": r.as_dict(), "note": "replay: write the files, kddp kompiliere main.ddp -O 0"})
    res.extra.update({"cross_module_generic_programs": len(xjobs), "cross_module_generic_refused_by_front_end": xrefused})
    res.extra.update({"cells": len(cells), "accepted_cells": len(accepted), "context_programs": len(jobs),
                      "failed_cells": len(failed_cells), "disagreements": mism + lowmis})
    res.exhaustive = True
    res.rule = ("every unary, binary, ternary operator and every cast applied to every tuple of %d operand classes (primitives, lists of "
                "each, Kombination and its list, Variable, type alias, three type definitions): parsed in-process (verdict + result type); "
                "every accepted cell compiled by the real code generator + LLVM in the value contexts initialiser / Variable / assignment / "
                "argument / return / list element / condition (quick: three contexts + sampled rest); every core operator cell again with each "
                "operand in turn as a multi-block expression (list indexing, conditional expression, short-circuit connective, cast out of a "
                "Variable) and random programs: accepted by the front end implies compiled. distinct by cell") % len(optable.ORDER)
    for k in (3, len(cells) // 3, len(cells) - 5):
        res.sample({"cell": [cells[k][0], list(cells[k][1])], "expression": cells[k][2], "accepted": not outs[k]["faulty"], "model": mans.get(k)})
    res.assumptions += ["casts and the value contexts are decided by the exhaustive cell enumeration only (not modelled in Lean)",
                        "multi-feature programs (generics + overloads + imports) are sampled by the other properties' generators"]
    for bk in broken:
        res.violation("obligation:" + bk["name"], "proof obligation no longer checks: %s" % bk["name"],
                      {"theorem": bk["name"], "detail": bk["detail"], "kind": "broken-obligation"}, has_input=False)
